// Command check is the driver of every registered check (DESIGN.md §2.4):
//
//	check <ID> <quick|thorough> [--replay <file>] [--keep] [--only <substr>]
//
// It rebuilds the property's check binary from /repo's current working tree (instrumented through the
// rewriter + overlay for Engine S), runs it sharded over worker processes, merges the results, confirms
// every violation by replaying it, applies /verif/known_findings.json, writes /verif/evidence/<ID>.json
// and prints `VIOLATION property=<ID> replay=<path>` lines. Exit 0 = held on everything explored,
// 1 = violation, 2 = infrastructure failure.
package main

import (
	"bytes"
	"crypto/sha256"
	"encoding/hex"
	"encoding/json"
	"fmt"
	"io"
	"io/fs"
	"os"
	"os/exec"
	"path/filepath"
	"runtime"
	"sort"
	"strconv"
	"strings"
	"sync"
	"time"
)

const (
	verifDir = "/verif"
	repoDir  = "/repo"
)

// partDef is one check binary of a property. Most properties have one part; a property whose behaviours are
// partly sequential (Engine R) and partly schedule dependent (Engine S) has one part per engine: the parts run
// one after the other, each with the tier's budget, and are merged into one verdict and one evidence file.
type partDef struct {
	Engine   string // "S" (controlled scheduler, rewritten sources) or "R" (reference-model enumeration, native)
	Pkg      string
	MaxProcs int
}

type propDef struct {
	Parts       []partDef
	QuickBudget time.Duration
	ThorBudget  time.Duration
}

func (d propDef) engines() string {
	var e []string
	for _, p := range d.Parts {
		e = append(e, p.Engine)
	}
	return strings.Join(e, "+")
}

var props = map[string]propDef{}

func reg(id, engine string, quick, thor time.Duration) {
	mp := 1
	if engine == "R" {
		mp = 2
	}
	props[id] = propDef{Parts: []partDef{{Engine: engine, Pkg: "./checks/" + strings.ToLower(id), MaxProcs: mp}}, QuickBudget: quick, ThorBudget: thor}
}

// addPart registers a further check binary for a property.
func addPart(id, engine, pkg string) {
	mp := 1
	if engine == "R" {
		mp = 2
	}
	d := props[id]
	d.Parts = append(d.Parts, partDef{Engine: engine, Pkg: pkg, MaxProcs: mp})
	props[id] = d
}

func init() {
	reg("C01", "R", 60*time.Second, 15*time.Minute)
	reg("C02", "R", 60*time.Second, 15*time.Minute)
	reg("C03", "S", 60*time.Second, 15*time.Minute)
	reg("C04", "R", 60*time.Second, 15*time.Minute)
	reg("C05", "R", 120*time.Second, 15*time.Minute)
	reg("C06", "R", 120*time.Second, 15*time.Minute)
	reg("C07", "R", 60*time.Second, 15*time.Minute)
	reg("C08", "S", 60*time.Second, 15*time.Minute)
	reg("C09", "S", 60*time.Second, 15*time.Minute)
	reg("C10", "S", 60*time.Second, 15*time.Minute)
	reg("C11", "S", 90*time.Second, 15*time.Minute)
	reg("C12", "R", 60*time.Second, 15*time.Minute)
	reg("C13", "R", 60*time.Second, 15*time.Minute)
	reg("C14", "R", 60*time.Second, 15*time.Minute)
	reg("C15", "R", 90*time.Second, 15*time.Minute)
	reg("C16", "R", 60*time.Second, 15*time.Minute)
	reg("C17", "S", 90*time.Second, 15*time.Minute)
	reg("C18", "R", 60*time.Second, 15*time.Minute)
	reg("C19", "S", 60*time.Second, 15*time.Minute)
	reg("C20", "R", 60*time.Second, 15*time.Minute)
	// interrupt/resume histories of eager Workflows depend on the completion order of concurrently running
	// nodes: those histories are explored under the controlled scheduler
	addPart("C05", "S", "./checks/c05s")
	addPart("C06", "S", "./checks/c06s")
}

type violation struct {
	Property  string          `json:"property"`
	Part      int             `json:"part,omitempty"` // index of the check binary (propDef.Parts) that found it
	Scenario  string          `json:"scenario"`
	Signature string          `json:"signature"`
	MapDesc   bool            `json:"map_desc,omitempty"`
	Prefix    []int           `json:"prefix,omitempty"`
	Case      json.RawMessage `json:"case,omitempty"`
	Msg       string          `json:"msg"`
	Trace     []string        `json:"trace,omitempty"`
}

type result struct {
	Property    string           `json:"property"`
	Scenarios   int              `json:"scenarios"`
	Evaluations int64            `json:"evaluations"`
	Transitions int64            `json:"transitions"`
	Nontrivial  int64            `json:"nontrivial"`
	Validated   int64            `json:"validated"`
	StateCount  int64            `json:"state_count"`
	StateFile   string           `json:"state_file"`
	Outcomes    map[string]int64 `json:"outcomes"`
	Counters    map[string]int64 `json:"counters"`
	Capped      bool             `json:"capped"`
	CapReason   string           `json:"cap_reason"`
	BoundDone   int              `json:"bound_done"`
	Violations  []violation      `json:"violations"`
	Samples     []any            `json:"samples"`
	Infra       []string         `json:"infra_errors"`
	WallS       float64          `json:"wall_s"`
	Notes       []string         `json:"notes"`
	Rule        string           `json:"rule"`
	Assumptions []string         `json:"assumptions"`
	Explanation string           `json:"explanation"`
}

type finding struct {
	Property  string `json:"property"`
	Signature string `json:"signature"`
	Status    string `json:"status"` // known | fixed
	Commit    string `json:"commit,omitempty"`
	What      string `json:"what"`
}

func die(code int, f string, a ...any) {
	fmt.Fprintf(os.Stderr, "check: "+f+"\n", a...)
	os.Exit(code)
}

func goEnv(extra ...string) []string {
	env := os.Environ()
	env = append(env, "GOFLAGS=-mod=mod", "GOPROXY=off", "GOSUMDB=off", "GOTOOLCHAIN=local", "CGO_ENABLED=0")
	return append(env, extra...)
}

func run(dir string, env []string, name string, args ...string) ([]byte, error) {
	cmd := exec.Command(name, args...)
	cmd.Dir = dir
	cmd.Env = env
	var buf bytes.Buffer
	cmd.Stdout = &buf
	cmd.Stderr = &buf
	err := cmd.Run()
	return buf.Bytes(), err
}

// sourceHash hashes every non-test .go file of /repo (plus go.mod) and the rewriter binary.
func sourceHash() string {
	h := sha256.New()
	var files []string
	filepath.WalkDir(repoDir, func(p string, d fs.DirEntry, err error) error {
		if err != nil {
			return nil
		}
		if d.IsDir() {
			if d.Name() == ".git" {
				return filepath.SkipDir
			}
			return nil
		}
		if (strings.HasSuffix(p, ".go") && !strings.HasSuffix(p, "_test.go")) || d.Name() == "go.mod" {
			files = append(files, p)
		}
		return nil
	})
	sort.Strings(files)
	for _, f := range files {
		b, err := os.ReadFile(f)
		if err != nil {
			continue
		}
		fmt.Fprintf(h, "%s\x00%d\x00", f, len(b))
		h.Write(b)
	}
	if b, err := os.ReadFile(filepath.Join(verifDir, "bin", "rewrite")); err == nil {
		h.Write(b)
	}
	for _, rel := range patchFiles() {
		b, _ := os.ReadFile(filepath.Join(patchDir(), rel))
		fmt.Fprintf(h, "PATCH %s\x00%d\x00", rel, len(b))
		h.Write(b)
	}
	return hex.EncodeToString(h.Sum(nil))[:24]
}

// VERIF_PATCH_DIR (development aid, never used by registered commands): a directory of replacement files,
// laid out like /repo, that is overlaid on top of /repo for this run. Lets several mutation experiments
// run in parallel without touching /repo.
func patchDir() string { return os.Getenv("VERIF_PATCH_DIR") }

func patchFiles() []string {
	d := patchDir()
	if d == "" {
		return nil
	}
	var out []string
	filepath.WalkDir(d, func(p string, e fs.DirEntry, err error) error {
		if err == nil && !e.IsDir() && strings.HasSuffix(p, ".go") {
			rel, _ := filepath.Rel(d, p)
			out = append(out, rel)
		}
		return nil
	})
	sort.Strings(out)
	return out
}

func ensureTools() {
	bin := filepath.Join(verifDir, "bin", "rewrite")
	src := filepath.Join(verifDir, "engine", "rewrite", "main.go")
	bi, errB := os.Stat(bin)
	si, _ := os.Stat(src)
	if errB != nil || (si != nil && si.ModTime().After(bi.ModTime())) {
		out, err := run(filepath.Join(verifDir, "engine", "rewrite"), goEnv(), "go", "build", "-o", bin, ".")
		if err != nil {
			die(2, "building rewriter failed: %v\n%s", err, out)
		}
	}
}

// rewriteSources returns the directory holding the instrumented files and the list of relative paths.
func rewriteSources() (string, []string) {
	ensureTools()
	key := sourceHash()
	cacheRoot := filepath.Join(verifDir, ".cache", "rewrite")
	dir := filepath.Join(cacheRoot, key)
	repFile := filepath.Join(dir, "report.json")
	if b, err := os.ReadFile(repFile); err == nil {
		var rep struct {
			Files []string `json:"files"`
		}
		if json.Unmarshal(b, &rep) == nil && len(rep.Files) > 0 {
			os.Chtimes(dir, time.Now(), time.Now())
			return dir, rep.Files
		}
	}
	os.MkdirAll(cacheRoot, 0o755)
	tmp, err := os.MkdirTemp(cacheRoot, "tmp-")
	if err != nil {
		die(2, "cache dir: %v", err)
	}
	cmd := exec.Command(filepath.Join(verifDir, "bin", "rewrite"), "-repo", repoDir, "-out", tmp, "-patchdir", patchDir())
	cmd.Env = goEnv()
	var stdout, stderr bytes.Buffer
	cmd.Stdout, cmd.Stderr = &stdout, &stderr
	if err := cmd.Run(); err != nil {
		os.RemoveAll(tmp)
		die(2, "source rewriter failed (the tree cannot be instrumented faithfully): %v\n%s\n%s", err, stderr.String(), stdout.String())
	}
	os.WriteFile(filepath.Join(tmp, "report.json"), stdout.Bytes(), 0o644)
	var rep struct {
		Files    []string `json:"files"`
		Warnings []string `json:"warnings"`
	}
	json.Unmarshal(stdout.Bytes(), &rep)
	for _, w := range rep.Warnings {
		fmt.Fprintln(os.Stderr, "check: rewriter warning:", w)
	}
	if err := os.Rename(tmp, dir); err != nil {
		// another process won the race
		os.RemoveAll(tmp)
	}
	pruneCache(cacheRoot, 4)
	return dir, rep.Files
}

func pruneCache(root string, keep int) {
	ents, _ := os.ReadDir(root)
	type e struct {
		name string
		t    time.Time
	}
	var list []e
	for _, d := range ents {
		if !d.IsDir() {
			continue
		}
		if strings.HasPrefix(d.Name(), "tmp-") {
			if fi, err := d.Info(); err == nil && time.Since(fi.ModTime()) > time.Hour {
				os.RemoveAll(filepath.Join(root, d.Name()))
			}
			continue
		}
		fi, err := d.Info()
		if err != nil {
			continue
		}
		list = append(list, e{d.Name(), fi.ModTime()})
	}
	sort.Slice(list, func(i, j int) bool { return list[i].t.After(list[j].t) })
	for i := keep; i < len(list); i++ {
		os.RemoveAll(filepath.Join(root, list[i].name))
	}
}

func writeOverlay(work string, engine string) string {
	ov := map[string]string{}
	// scheduler shim packages (always: harness code imports vsched even when it is inactive)
	for _, sub := range []string{"", "vsync", "vatomic"} {
		d := filepath.Join(verifDir, "engine", "vsched", sub)
		ents, _ := os.ReadDir(d)
		for _, f := range ents {
			if strings.HasSuffix(f.Name(), ".go") && !strings.HasSuffix(f.Name(), "_test.go") {
				ov[filepath.Join(repoDir, "vsched", sub, f.Name())] = filepath.Join(d, f.Name())
			}
		}
	}
	// export stubs: overlay/<relative path inside the eino module>
	ovRoot := filepath.Join(verifDir, "overlay")
	filepath.WalkDir(ovRoot, func(p string, d fs.DirEntry, err error) error {
		if err != nil || d.IsDir() || !strings.HasSuffix(p, ".go") {
			return nil
		}
		rel, _ := filepath.Rel(ovRoot, p)
		ov[filepath.Join(repoDir, rel)] = p
		return nil
	})
	for _, rel := range patchFiles() {
		ov[filepath.Join(repoDir, rel)] = filepath.Join(patchDir(), rel)
	}
	if engine == "S" {
		dir, files := rewriteSources()
		for _, f := range files {
			ov[filepath.Join(repoDir, f)] = filepath.Join(dir, f)
		}
	}
	b, _ := json.MarshalIndent(map[string]any{"Replace": ov}, "", " ")
	p := filepath.Join(work, "overlay-"+engine+".json")
	os.WriteFile(p, b, 0o644)
	return p
}

func loadFindings() []finding {
	b, err := os.ReadFile(filepath.Join(verifDir, "known_findings.json"))
	if err != nil {
		return nil
	}
	var f struct {
		Findings []finding `json:"findings"`
	}
	if err := json.Unmarshal(b, &f); err != nil {
		die(2, "known_findings.json: %v", err)
	}
	return f.Findings
}

func main() {
	args := os.Args[1:]
	if len(args) < 1 {
		die(2, "usage: check <ID> <quick|thorough> [--replay file] [--keep] [--only substr] [--workers n]")
	}
	if args[0] == "--warm" {
		warm(args[1])
		return
	}
	id := strings.ToUpper(args[0])
	def, ok := props[id]
	if !ok {
		die(2, "unknown property %s", id)
	}
	tier := os.Getenv("VERIF_TIER")
	replay, only := "", ""
	keep := false
	workers := runtime.NumCPU()
	if workers > 16 {
		workers = 16
	}
	budgetOverride := time.Duration(0)
	for i := 1; i < len(args); i++ {
		switch args[i] {
		case "quick", "thorough":
			tier = args[i]
		case "--replay":
			i++
			if i >= len(args) {
				die(2, "--replay needs a file")
			}
			replay = args[i]
		case "--only":
			i++
			if i >= len(args) {
				die(2, "--only needs a value")
			}
			only = args[i]
		case "--keep":
			keep = true
		case "--workers":
			i++
			workers, _ = strconv.Atoi(args[i])
		case "--budget":
			i++
			budgetOverride, _ = time.ParseDuration(args[i])
		default:
			die(2, "bad argument %q", args[i])
		}
	}
	if tier == "" {
		tier = "quick"
	}
	seed, _ := strconv.ParseInt(os.Getenv("VERIF_SEED"), 10, 64)
	start := time.Now()

	work, err := os.MkdirTemp("", "verif-"+id+"-")
	if err != nil {
		die(2, "workdir: %v", err)
	}
	if !keep {
		defer os.RemoveAll(work)
	}
	cleanupAndExit := func(code int) {
		if !keep {
			os.RemoveAll(work)
		}
		os.Exit(code)
	}

	// build from the current working tree of /repo: one binary per part
	// go.sum must cover eino's dependencies
	if _, err := os.Stat(filepath.Join(verifDir, "go.sum")); err != nil {
		if b, err := os.ReadFile(filepath.Join(repoDir, "go.sum")); err == nil {
			os.WriteFile(filepath.Join(verifDir, "go.sum"), b, 0o644)
		}
	}
	replayPart := 0
	if replay != "" {
		if b, err := os.ReadFile(replay); err == nil {
			var rv violation
			if json.Unmarshal(b, &rv) == nil && rv.Part >= 0 && rv.Part < len(def.Parts) {
				replayPart = rv.Part
			}
		}
	}
	bins := make([]string, len(def.Parts))
	overlays := map[string]string{}
	if os.Getenv("VERIF_COVER") != "" {
		// coverage mode (development aid): Engine-R parts only
		var keep []partDef
		for _, part := range def.Parts {
			if part.Engine == "R" {
				keep = append(keep, part)
			}
		}
		def.Parts = keep
		bins = make([]string, len(def.Parts))
	}
	for pi, part := range def.Parts {
		if replay != "" && pi != replayPart {
			continue
		}
		if _, err := os.Stat(filepath.Join(verifDir, part.Pkg)); err != nil {
			die(2, "no check implemented for %s (%s)", id, part.Pkg)
		}
		ov, ok := overlays[part.Engine]
		if !ok {
			ov = writeOverlay(work, part.Engine)
			overlays[part.Engine] = ov
		}
		bins[pi] = filepath.Join(work, fmt.Sprintf("checkbin%d", pi))
		buildArgs := []string{"build", "-tags", "verif", "-overlay", ov}
		if os.Getenv("VERIF_COVER") != "" {
			// development aid: statement coverage of eino by the check (GOCOVERDIR = $VERIF_COVER/<id>-<part>)
			// (real packages only: the cover tool does not read overlay-only packages; meaningful for Engine R, whose
			// eino sources are not replaced)
			e := "github.com/cloudwego/eino/"
			buildArgs = append(buildArgs, "-cover", "-covermode=atomic", "-coverpkg="+e+"compose,"+e+"schema,"+e+"callbacks,"+e+"internal/...,"+e+"flow/...,"+e+"utils/...,"+e+"components/...,verif/"+strings.TrimPrefix(part.Pkg, "./"))
		}
		buildArgs = append(buildArgs, "-o", bins[pi], part.Pkg)
		out, err := run(verifDir, goEnv(), "go", buildArgs...)
		if err != nil {
			fmt.Fprintf(os.Stderr, "%s\n", out)
			fmt.Fprintf(os.Stderr, "check: build of %s (%s) against the current /repo tree failed (infrastructure error)\n", id, part.Pkg)
			cleanupAndExit(2)
		}
	}
	buildS := time.Since(start).Seconds()

	if replay != "" {
		cmd := exec.Command(bins[replayPart], "-tier", tier, "-replay", replay)
		cmd.Env = append(os.Environ(), fmt.Sprintf("GOMAXPROCS=%d", def.Parts[replayPart].MaxProcs))
		cmd.Stdout, cmd.Stderr = os.Stdout, os.Stderr
		err := cmd.Run()
		if ee, ok := err.(*exec.ExitError); ok {
			if ee.ExitCode() == 1 {
				fmt.Printf("VIOLATION property=%s replay=%s\n", id, replay)
			}
			cleanupAndExit(ee.ExitCode())
		}
		cleanupAndExit(0)
	}

	budget := def.QuickBudget
	if tier == "thorough" {
		budget = def.ThorBudget
	}
	if budgetOverride > 0 {
		budget = budgetOverride
	}
	infra := []string{}
	var crashed []violation
	var partResults [][]*result
	for pi, part := range def.Parts {
		pi, part := pi, part
		bin := bins[pi]
		results := make([]*result, workers)
		var mu sync.Mutex
		var wg sync.WaitGroup
		for w := 0; w < workers; w++ {
			wg.Add(1)
			go func(w int) {
				defer wg.Done()
				outFile := filepath.Join(work, fmt.Sprintf("res%d-%d.json", pi, w))
				a := []string{"-tier", tier, "-worker", strconv.Itoa(w), "-workers", strconv.Itoa(workers), "-out", outFile, "-budget", budget.String(), "-seed", strconv.FormatInt(seed, 10)}
				if only != "" {
					a = append(a, "-only", only)
				}
				cmd := exec.Command(bin, a...)
				cmd.Env = append(os.Environ(), fmt.Sprintf("GOMAXPROCS=%d", part.MaxProcs), "GOMEMLIMIT=3GiB", "GOGC=400")
				if cd := os.Getenv("VERIF_COVER"); cd != "" {
					d := filepath.Join(cd, fmt.Sprintf("%s-%d", id, pi))
					os.MkdirAll(d, 0o755)
					cmd.Env = append(cmd.Env, "GOCOVERDIR="+d)
				}
				var buf bytes.Buffer
				cmd.Stdout, cmd.Stderr = &buf, &buf
				done := make(chan error, 1)
				cmd.Start()
				go func() { done <- cmd.Wait() }()
				var werr error
				select {
				case werr = <-done:
				case <-time.After(budget*2 + 5*time.Minute):
					cmd.Process.Kill()
					werr = fmt.Errorf("worker %d exceeded twice its budget and was killed", w)
				}
				b, rerr := os.ReadFile(outFile)
				mu.Lock()
				defer mu.Unlock()
				if rerr != nil {
					tail := buf.String()
					if len(tail) > 3000 {
						tail = tail[len(tail)-3000:]
					}
					if jb, jerr := os.ReadFile(outFile + ".journal"); jerr == nil {
						var v violation
						if json.Unmarshal(jb, &v) == nil {
							v.Msg += "\n" + tail
							v.Part = pi
							crashed = append(crashed, v)
							return
						}
					}
					infra = append(infra, fmt.Sprintf("worker %d produced no result (%v): %s", w, werr, tail))
					return
				}
				r := &result{}
				if err := json.Unmarshal(b, r); err != nil {
					infra = append(infra, fmt.Sprintf("worker %d: bad result: %v", w, err))
					return
				}
				for i := range r.Violations {
					r.Violations[i].Part = pi
				}
				results[w] = r
			}(w)
		}
		wg.Wait()
		partResults = append(partResults, results)
	}

	// merge
	m := &result{Outcomes: map[string]int64{}, Counters: map[string]int64{}, BoundDone: 1 << 30}
	states := map[uint64]struct{}{}
	var stateSum int64
	var allResults []*result
	for pi, rs := range partResults {
		for _, r := range rs {
			if r != nil && len(def.Parts) > 1 {
				tag := fmt.Sprintf("part %d (engine %s, %s): ", pi+1, def.Parts[pi].Engine, def.Parts[pi].Pkg)
				r.Rule, r.Explanation = tag+r.Rule, tag+r.Explanation
			}
			allResults = append(allResults, r)
		}
	}
	for _, r := range allResults {
		if r == nil {
			continue
		}
		m.Scenarios += r.Scenarios
		m.Evaluations += r.Evaluations
		m.Transitions += r.Transitions
		m.Nontrivial += r.Nontrivial
		m.Validated += r.Validated
		stateSum += r.StateCount
		if r.StateFile != "" {
			if b, err := os.ReadFile(r.StateFile); err == nil {
				for i := 0; i+8 <= len(b); i += 8 {
					var h uint64
					for k := 0; k < 8; k++ {
						h |= uint64(b[i+k]) << (8 * k)
					}
					states[h] = struct{}{}
				}
			}
		}
		for k, v := range r.Outcomes {
			m.Outcomes[k] += v
		}
		for k, v := range r.Counters {
			if strings.HasPrefix(k, "max_") {
				if v > m.Counters[k] {
					m.Counters[k] = v
				}
			} else {
				m.Counters[k] += v
			}
		}
		if r.Capped {
			m.Capped = true
			m.CapReason = r.CapReason
		}
		if r.Scenarios > 0 && r.BoundDone < m.BoundDone {
			m.BoundDone = r.BoundDone
		}
		m.Violations = append(m.Violations, r.Violations...)
		if len(m.Samples) < 8 {
			for _, s := range r.Samples {
				if len(m.Samples) < 8 {
					m.Samples = append(m.Samples, s)
				}
			}
		}
		infra = append(infra, r.Infra...)
		for _, n := range r.Notes {
			dup := false
			for _, o := range m.Notes {
				if o == n {
					dup = true
				}
			}
			if !dup {
				m.Notes = append(m.Notes, n)
			}
		}
		if !strings.Contains(m.Rule, r.Rule) {
			if m.Rule != "" {
				m.Rule += " || "
				m.Explanation += " || "
			}
			m.Rule += r.Rule
			m.Explanation += r.Explanation
		}
		for _, a := range r.Assumptions {
			dup := false
			for _, o := range m.Assumptions {
				if o == a {
					dup = true
				}
			}
			if !dup {
				m.Assumptions = append(m.Assumptions, a)
			}
		}
	}
	if len(crashed) > 0 {
		m.Violations = append(m.Violations, crashed...)
		m.Capped, m.CapReason = true, "a worker process died; its remaining cases were not run"
	}
	nStates := int64(len(states))
	if nStates == 0 {
		nStates = stateSum
	}

	// violations: dedupe by signature+scenario, confirm by replay, apply known findings
	findings := loadFindings()
	replDir := filepath.Join(verifDir, "replays", id)
	var unlisted []string
	knownPrinted := map[string]bool{}
	seenSig := map[string]int{}
	confirmed := 0
	sort.Slice(m.Violations, func(i, j int) bool {
		a, b := m.Violations[i], m.Violations[j]
		if len(a.Prefix) != len(b.Prefix) {
			return len(a.Prefix) < len(b.Prefix)
		}
		return a.Scenario < b.Scenario
	})
	tried := map[string]int{}
	// development aid (selftest.sh): stop confirming further violations once this many unlisted ones are confirmed;
	// unset in every registered command
	confirmLimit, _ := strconv.Atoi(os.Getenv("VERIF_CONFIRM_LIMIT"))
	for _, v := range m.Violations {
		if confirmLimit > 0 && len(unlisted) >= confirmLimit {
			break
		}
		isKnown := false
		for _, f := range findings {
			if f.Property == id && f.Status == "known" && f.Signature == v.Signature {
				isKnown = true
			}
		}
		if seenSig[v.Signature] >= 3 || (isKnown && seenSig[v.Signature] >= 1) || tried[v.Signature] >= 8 {
			continue // keep at most 3 confirmed replay files per class (1 for a listed known finding); give up after 8 attempts
		}
		tried[v.Signature]++
		vb, _ := json.MarshalIndent(v, "", " ")
		sum := sha256.Sum256(vb)
		os.MkdirAll(replDir, 0o755)
		rp := filepath.Join(replDir, hex.EncodeToString(sum[:6])+".json")
		os.WriteFile(rp, vb, 0o644)
		// the same case must fail every time
		fails := 0
		const reps = 5
		for i := 0; i < reps; i++ {
			cmd := exec.Command(bins[v.Part], "-tier", tier, "-replay", rp)
			cmd.Env = append(os.Environ(), fmt.Sprintf("GOMAXPROCS=%d", def.Parts[v.Part].MaxProcs))
			cmd.Stdout, cmd.Stderr = io.Discard, io.Discard
			cmd.Start()
			done := make(chan error, 1)
			go func() { done <- cmd.Wait() }()
			var err error
			timedOut := false
			select {
			case err = <-done:
			case <-time.After(150 * time.Second):
				cmd.Process.Kill()
				<-done
				timedOut = true
			}
			if timedOut {
				if v.Signature == "no-progress" || v.Signature == "hang" {
					fails++ // the replay hangs again
				} else {
					break // a replay that hangs although the violation is not a hang: not reproducible, do not spend 5 x 150 s on it
				}
			} else if err != nil {
				if ee, ok := err.(*exec.ExitError); ok && (ee.ExitCode() == 1 || (v.Signature == "process-crash" && ee.ExitCode() != 0)) {
					fails++
				}
			}
			if (v.Signature == "no-progress" || v.Signature == "hang") && i == 1 && fails == 2 {
				fails = reps // two hanging replays are enough (each costs minutes)
				break
			}
		}
		if fails != reps {
			infra = append(infra, fmt.Sprintf("violation %s (%s) failed only %d/%d replays: not believed", rp, v.Scenario, fails, reps))
			continue
		}
		confirmed++
		seenSig[v.Signature]++
		known := false
		for _, f := range findings {
			if f.Property == id && f.Status == "known" && f.Signature == v.Signature {
				known = true
				if !knownPrinted[f.Signature] {
					knownPrinted[f.Signature] = true
					fmt.Printf("KNOWN-FINDING: property=%s %s [signature %s; e.g. %s]\n", id, f.What, f.Signature, rp)
				}
			}
		}
		if !known {
			unlisted = append(unlisted, rp)
			fmt.Printf("VIOLATION property=%s replay=%s\n", id, rp)
			fmt.Printf("  scenario: %s\n  %s\n", v.Scenario, v.Msg)
		}
	}

	exhaustive := !m.Capped && len(infra) == 0 && len(unlisted) == 0
	cov := map[string]any{
		"states":                        max64(nStates, 1),
		"transitions":                   max64(m.Transitions, 1),
		"traces_validated_against_impl": m.Validated,
		"samples":                       m.Samples,
		"evaluations":                   m.Evaluations,
		"distinct_nontrivial":           m.Nontrivial,
		"rule":                          m.Rule,
		"exhaustive":                    exhaustive,
		"scenarios":                     m.Scenarios,
		"distinct_outcomes":             len(m.Outcomes),
		"counters":                      m.Counters,
		"capped":                        m.Capped,
		"cap_reason":                    m.CapReason,
		"workers":                       workers,
		"engine":                        def.engines(),
		"build_s":                       buildS,
		"explanation":                   m.Explanation,
		"notes":                         m.Notes,
		"known_findings_reported":       len(knownPrinted),
		"violations_confirmed":          confirmed,
	}
	if strings.Contains(def.engines(), "S") {
		if m.BoundDone == 1<<30 {
			m.BoundDone = -1
		}
		cov["preemption_bound_completed"] = m.BoundDone
	}
	if len(m.Samples) == 0 {
		cov["samples"] = []any{"(no case was explored)"}
	}
	ev := map[string]any{
		"property_id": id,
		"tier":        tier,
		"seed":        seed,
		"level":       "model_checking",
		"coverage":    cov,
		"assumptions": m.Assumptions,
		"wall_s":      time.Since(start).Seconds(),
		"violations":  len(unlisted),
	}
	if m.Assumptions == nil {
		ev["assumptions"] = []string{}
	}
	eb, _ := json.MarshalIndent(ev, "", " ")
	os.MkdirAll(filepath.Join(verifDir, "evidence"), 0o755)
	if err := os.WriteFile(filepath.Join(verifDir, "evidence", id+".json"), eb, 0o644); err != nil {
		die(2, "evidence: %v", err)
	}
	fmt.Printf("check %s %s: engine=%s scenarios=%d evaluations=%d transitions=%d states=%d nontrivial=%d outcomes=%d exhaustive=%v capped=%v(%s) violations=%d known=%d wall=%.1fs\n",
		id, tier, def.engines(), m.Scenarios, m.Evaluations, m.Transitions, nStates, m.Nontrivial, len(m.Outcomes), exhaustive, m.Capped, m.CapReason, len(unlisted), len(knownPrinted), time.Since(start).Seconds())
	if len(unlisted) > 0 {
		cleanupAndExit(1)
	}
	if len(infra) > 0 {
		for _, e := range infra {
			fmt.Fprintln(os.Stderr, "check: infrastructure:", e)
		}
		cleanupAndExit(2)
	}
	cleanupAndExit(0)
}

// warm builds every implemented check binary once (per engine) so that later check runs hit the build cache.
func warm(work string) {
	for _, eng := range []string{"S", "R"} {
		var pkgs []string
		for _, d := range props {
			for _, part := range d.Parts {
				if part.Engine == eng {
					if _, err := os.Stat(filepath.Join(verifDir, part.Pkg)); err == nil {
						pkgs = append(pkgs, part.Pkg)
					}
				}
			}
		}
		if len(pkgs) == 0 {
			continue
		}
		sort.Strings(pkgs)
		w := filepath.Join(work, eng)
		os.MkdirAll(w, 0o755)
		ov := writeOverlay(w, eng)
		a := append([]string{"build", "-tags", "verif", "-overlay", ov, "-o", w + "/"}, pkgs...)
		out, err := run(verifDir, goEnv(), "go", a...)
		if err != nil {
			fmt.Fprintf(os.Stderr, "warm %s: %v\n%s\n", eng, err, out)
			os.Exit(2)
		}
		fmt.Printf("warmed %d %s-engine check binaries\n", len(pkgs), eng)
	}
}

func max64(a, b int64) int64 {
	if a > b {
		return a
	}
	return b
}
