#!/usr/bin/env python3
"""Fourth batch of own mutants: candidates that the seeding sub-agents of round 7 wrote down but did not implement
(files untouched so far). Same procedure as the other tools_mkmut*.py."""
import subprocess,sys,os
WT='/tmp/mkmut-wt'
env=dict(os.environ,GOFLAGS='-mod=mod',GOPROXY='off',GOSUMDB='off',GOTOOLCHAIN='local')
def sh(c,**k): return subprocess.run(c,shell=True,capture_output=True,text=True,env=env,**k)
if not os.path.isdir(WT): sh(f'git -C /repo worktree add --detach {WT}')
muts=[
 ("C07-branch-runtime-checker-accepts-everything","compose/branch.go",[("""		genericHelper: newGenericHelper[T, T](),""","""		genericHelper: newGenericHelper[any, T](),""")]),
 ("C10-built-handler-shares-its-builder","callbacks/handler_builder.go",[("""type handlerImpl struct {
	HandlerBuilder
}""","""type handlerImpl struct {
	*HandlerBuilder
}"""),("""	return &handlerImpl{*hb}""","""	return &handlerImpl{hb}""")]),
 ("C19-stream-handlers-one-copy-short","internal/callbacks/inject.go",[("""	inOuts := cpy(len(handlers) + 1)
""","""	inOuts := cpy(len(handlers))
""")]),
 ("C20-parallel-duplicate-output-key-accepted","compose/chain_parallel.go",[("""	if _, ok := p.outputKeys[outputKey]; ok {
		p.err = fmt.Errorf("parallel add node err, duplicate output key= %s", outputKey)
		return p
	}

""","")]),
 ("C20-nonpositive-max-steps-ignored","compose/graph_compile_options.go",[("""		o.maxRunSteps = maxSteps
	}
}

// WithGraphName""","""		if maxSteps > 0 {
			o.maxRunSteps = maxSteps
		}
	}
}

// WithGraphName""")]),
]
only=sys.argv[1] if len(sys.argv)>1 else ''
for name,f,edits in muts:
    if only and only not in name: continue
    sh(f'git -C {WT} checkout -q -- .')
    p=f'{WT}/{f}'; s=open(p).read(); ok=True
    for a,b in edits:
        if s.count(a)!=1: print(name,'EDIT-NOT-UNIQUE',s.count(a)); ok=False; break
        s=s.replace(a,b)
    if not ok: continue
    open(p,'w').write(s)
    r=sh('go build ./...',cwd=WT)
    if r.returncode!=0: print(name,'BUILD-FAIL',r.stderr[:300]); continue
    r=sh('go test -vet=off -count=1 ./... 2>&1 | grep -E "^(FAIL|--- FAIL|panic:)"',cwd=WT)
    if r.stdout.strip(): print(name,'TESTS-FAIL',r.stdout[:200].replace(chr(10),' | ')); continue
    d=sh('git diff',cwd=WT).stdout
    open(f'/verif/mutants/{name}.patch','w').write(d)
    print(name,'kept')
sh(f'git -C /repo worktree remove --force {WT}')
