package harness

// Generic race pass of the Engine-S checks.
//
// The cooperative scheduler has scheduling points at synchronisation operations only: code between two of
// them is atomic, so an unsynchronised access (a data race) is invisible to the exploration, and the hand-offs
// of the scheduler are happens-before edges that blind the race detector inside an instrumented build.
// Therefore the SAME check binary is also built natively with -race (racepass.sh: no source rewriting, vsched
// inactive) and run in `-racepass <reps>` mode: ExploreAll does not explore, it runs every added scenario body
// as free goroutines, a few times, and the Go race detector is the only judge (the scenario's own oracle needs
// a scheduler execution and is not called). Worker 0 of a check run starts that pass in the background
// (StartRacePass), collects it before Finish (Collect) and turns reports into violations
// `data-race:<eino function>`; such a violation replays by re-running the pass on the scenarios it was seen in.
//
// This is scenario-enumerating and happens-before based, NOT an interleaving search: a race is found when some
// run executes both accesses without a happens-before path between them, whatever their timing.

import (
	"bytes"
	"context"
	"encoding/json"
	"flag"
	"fmt"
	"os"
	"os/exec"
	"regexp"
	"runtime"
	"sort"
	"strings"
	"syscall"
	"time"

	"github.com/cloudwego/eino/vsched"
)

const raceScript = "/verif/racepass.sh"

// Sentences for Result.Assumptions / Result.Explanation of a check that runs the pass.
const (
	RacePassAssumption = "data races (unsynchronised accesses, which the cooperative scheduler cannot see because code between two synchronisation operations is atomic there) are decided separately by the Go race detector on free runs of the same scenario bodies in a native -race build of this check: happens-before based and scenario-enumerating, NOT an interleaving search; a report counts when at least one of the two conflicting accesses is owned by eino code (races between two harness frames are ignored); repetitions and scenario counts are in the racepass_* evidence counters; such a violation replays by re-running the pass on the scenarios it was seen in (up to 5 attempts)"
	RacePassExplanation = "Data races are checked separately: worker 0 builds this check natively with -race (no source rewriting) and runs the scenario bodies freely (racepass_* counters); the race detector's reports with an eino owner frame become violations data-race:<function>."
)

// ---------------------------------------------------------------------------------------------------
// child side: the check binary in -racepass mode

type raceFlags struct {
	reps    int           // -racepass: repetitions per scenario (0: not in race-pass mode)
	runs    int           // -raceruns: raise the repetitions of small scenario sets until about this many runs
	maxReps int           // -racemaxreps
	maxScen int           // -racemax: at most this many scenarios (evenly spread subset)
	budget  time.Duration // -racetime: no new run starts after this
	perRun  time.Duration // -racerun: a run that takes longer is abandoned
	list    string        // -racelist: JSON file with the scenario names to run (replay)
	done    bool
}

func (c *Ctx) raceFlagSetup() {
	flag.IntVar(&c.race.reps, "racepass", 0, "race-pass mode: run every added scenario body freely this many times (native -race build)")
	flag.IntVar(&c.race.runs, "raceruns", 0, "race pass: raise the repetitions of a small scenario set up to about this many runs")
	flag.IntVar(&c.race.maxReps, "racemaxreps", 40, "race pass: upper limit of the repetitions per scenario")
	flag.IntVar(&c.race.maxScen, "racemax", 0, "race pass: run at most this many scenarios (evenly spread subset; 0 = all)")
	flag.DurationVar(&c.race.budget, "racetime", 25*time.Second, "race pass: wall budget")
	flag.DurationVar(&c.race.perRun, "racerun", 5*time.Second, "race pass: a run that takes longer is abandoned")
	flag.StringVar(&c.race.list, "racelist", "", "race pass: JSON file with scenario names to run")
}

// RacePassMode reports that this process is the native -race build running scenario bodies freely.
func (c *Ctx) RacePassMode() bool { return c.race.reps > 0 }

// raceRun is ExploreAll in race-pass mode.
func (c *Ctx) raceRun() {
	if c.race.done {
		return
	}
	c.race.done = true
	vsched.NativeRecover = true
	start := time.Now()
	total := len(c.scens)
	var sel []int
	switch {
	case c.race.list != "":
		want := map[string]bool{}
		if b, err := os.ReadFile(c.race.list); err == nil {
			var names []string
			json.Unmarshal(b, &names)
			for _, n := range names {
				want[n] = true
			}
		}
		for i, sc := range c.scens {
			if want[sc.Name] {
				sel = append(sel, i)
			}
		}
	case c.race.maxScen > 0 && total > c.race.maxScen:
		for k := 0; k < c.race.maxScen; k++ {
			sel = append(sel, k*total/c.race.maxScen) // strictly increasing because total > maxScen
		}
	default:
		for i := range c.scens {
			sel = append(sel, i)
		}
	}
	reps := c.race.reps
	if c.race.runs > 0 && len(sel) > 0 && c.race.runs/len(sel) > reps {
		reps = c.race.runs / len(sel)
	}
	if c.race.maxReps > 0 && reps > c.race.maxReps && c.race.maxReps >= c.race.reps {
		reps = c.race.maxReps
	}
	fmt.Fprintf(os.Stderr, "RACEPASS-PLAN scenarios=%d/%d reps=%d budget=%v\n", len(sel), total, reps, c.race.budget)
	runs, abandoned, lingering, rounds := 0, 0, 0, 0
	ranOnce := 0
	truncated := false
	deadline := start.Add(c.race.budget)
rounds:
	for rep := 0; rep < reps; rep++ {
		for _, i := range sel {
			if time.Now().After(deadline) {
				truncated = true
				break rounds
			}
			sc := c.scens[i]
			// one short write per run: the detector's reports go to the same stream, the last marker before a
			// report names the scenario it belongs to
			fmt.Fprintf(os.Stderr, "RACEPASS-RUN %s\n", sc.Name)
			ok, quiet := raceOne(sc, c.race.perRun)
			runs++
			if rep == 0 {
				ranOnce++
			}
			if !ok {
				abandoned++
				fmt.Fprintf(os.Stderr, "RACEPASS-ABANDONED %s\n", sc.Name)
			} else if !quiet {
				lingering++
			}
		}
		rounds++
	}
	np, first := vsched.NativePanics()
	if np > 0 {
		fmt.Fprintf(os.Stderr, "RACEPASS-PANIC first of %d: %s\n", np, firstLineOf(first))
	}
	t := 0
	if truncated {
		t = 1
	}
	fmt.Fprintf(os.Stderr, "RACEPASS scenarios=%d/%d runs=%d abandoned=%d selected=%d reps=%d rounds_completed=%d lingering=%d panics=%d truncated=%d wall_ms=%d\n",
		ranOnce, total, runs, abandoned, len(sel), reps, rounds, lingering, np, t, time.Since(start).Milliseconds())
	os.Exit(0) // the race runtime turns this into 66 when it reported something
}

func firstLineOf(s string) string {
	if i := strings.Index(s, "\n"); i >= 0 {
		s = s[:i]
	}
	if len(s) > 300 {
		s = s[:300]
	}
	return s
}

// raceOne runs one scenario body freely: main as a plain goroutine, then waits until main and every goroutine
// started through vsched.Go/GoNamed have finished (ok=false: not within the limit; the run is abandoned, its
// goroutines are forgotten), then gives the goroutines eino started itself (forwarders, tool calls) a moment
// to end, so that consecutive runs do not overlap (quiet=false: some were still alive).
func raceOne(sc Scenario, limit time.Duration) (ok bool, quiet bool) {
	base := runtime.NumGoroutine()
	main, _ := sc.New()
	vsched.NativeGo("main", main)
	ok = vsched.NativeWait(limit)
	if !ok {
		return false, false
	}
	for i := 0; i < 2000; i++ {
		if runtime.NumGoroutine() <= base {
			return true, true
		}
		if i < 50 {
			runtime.Gosched()
		} else {
			time.Sleep(50 * time.Microsecond)
		}
	}
	return true, false
}

// ---------------------------------------------------------------------------------------------------
// report parsing

type raceCase struct {
	RacePass  bool     `json:"racepass"`
	Function  string   `json:"function"`
	Pkg       string   `json:"pkg"`
	Scenarios []string `json:"scenarios,omitempty"` // (some of) the scenarios in whose runs the report appeared
}

// RaceReport is one report of the detector that passed the owner filter.
type RaceReport struct {
	Function string   // canonical (smallest) eino owner function of the two conflicting accesses
	Sites    []string // "function (file:line)" of the owner frame of each access, sorted
	Scenario string   // scenario that was running (last RACEPASS-RUN marker before the report)
}

var (
	reAddr  = regexp.MustCompile(`0x[0-9a-f]+`)
	reFrame = regexp.MustCompile(`^  (\S.*)$`)
	reLoc   = regexp.MustCompile(`^\s{6}(\S+):(\d+)`)
)

func isEinoFn(fn string) bool {
	return strings.HasPrefix(fn, "github.com/cloudwego/eino/") && !strings.HasPrefix(fn, "github.com/cloudwego/eino/vsched")
}

func isHarnessFn(fn string) bool {
	return strings.HasPrefix(fn, "verif/") || strings.HasPrefix(fn, "main.")
}

// guardedMarker: a harness function with this word in its name accesses data that eino's contract says eino
// serialises (e.g. the graph state handed to state handlers / ProcessState). Such an access is attributed to
// the eino function that called into the harness code.
const guardedMarker = "einoguarded"

type frame struct{ fn, loc string }

func parseStack(st string) []frame {
	lines := strings.Split(st, "\n")
	var out []frame
	for li := 0; li < len(lines); li++ {
		if strings.HasPrefix(lines[li], "      ") {
			continue
		}
		m := reFrame.FindStringSubmatch(lines[li])
		if m == nil {
			continue
		}
		fn := strings.TrimSuffix(strings.TrimSpace(m[1]), "()")
		loc := ""
		if li+1 < len(lines) {
			if lm := reLoc.FindStringSubmatch(lines[li+1]); lm != nil {
				loc = lm[1] + ":" + lm[2]
			}
		}
		out = append(out, frame{fn, loc})
	}
	return out
}

// ownerOf returns the OWNER frame of an access stack: the first frame from the top that is an eino function
// (vsched excluded) or a harness function (verif/..., main). A node body of the harness that eino calls has a
// harness owner although eino frames are below it. Exception: a harness owner carrying the guarded marker
// hands the ownership to the nearest eino frame below it.
func ownerOf(fs []frame) (owner frame, eino bool, found bool) {
	for i, f := range fs {
		switch {
		case isEinoFn(f.fn):
			return f, true, true
		case isHarnessFn(f.fn):
			if strings.Contains(strings.ToLower(f.fn), guardedMarker) {
				for _, g := range fs[i+1:] {
					if isEinoFn(g.fn) {
						return frame{fn: g.fn, loc: g.loc + " calling " + f.fn}, true, true
					}
				}
			}
			return f, false, true
		}
	}
	return frame{}, false, false
}

// ParseRaceReports splits the merged output of a race pass into the detector's reports and keeps those in
// which at least one of the two conflicting accesses is OWNED by eino code (see ownerOf). Harness bodies keep
// plain bookkeeping that only the cooperative scheduler protects; natively a race between two harness frames
// is a property of the harness, not of eino, and is only counted.
func ParseRaceReports(out string) (kept []RaceReport, total, harnessOnly, unattributed int) {
	blocks := strings.Split(out, "WARNING: DATA RACE")
	scenario := lastMarker(blocks[0], "")
	for _, blk := range blocks[1:] {
		total++
		body := blk
		if i := strings.Index(body, "=================="); i >= 0 {
			body = body[:i]
		}
		stacks := strings.Split(strings.TrimSpace(body), "\n\n")
		var funcs, sites []string
		owners, harness := 0, 0
		for si, st := range stacks {
			if si >= 2 {
				break // the rest are goroutine creation stacks
			}
			o, eino, found := ownerOf(parseStack(st))
			if !found {
				continue
			}
			owners++
			if eino {
				funcs = append(funcs, o.fn)
				sites = append(sites, fmt.Sprintf("%s (%s)", o.fn, o.loc))
			} else {
				harness++
				sites = append(sites, fmt.Sprintf("harness %s (%s)", o.fn, o.loc))
			}
		}
		switch {
		case len(funcs) > 0:
			sort.Strings(funcs)
			sort.Strings(sites)
			kept = append(kept, RaceReport{Function: funcs[0], Sites: sites, Scenario: scenario})
		case owners == 0:
			unattributed++
		default:
			harnessOnly++
		}
		scenario = lastMarker(blk, scenario)
	}
	return
}

func lastMarker(text, prev string) string {
	const m = "RACEPASS-RUN "
	i := strings.LastIndex(text, m)
	if i < 0 {
		return prev
	}
	rest := text[i+len(m):]
	if j := strings.Index(rest, "\n"); j >= 0 {
		rest = rest[:j]
	}
	return strings.TrimSpace(rest)
}

func raceSummary(out string) (line string, fields map[string]string) {
	fields = map[string]string{}
	for _, l := range strings.Split(out, "\n") {
		if strings.HasPrefix(l, "RACEPASS ") {
			line = l
		}
	}
	for _, f := range strings.Fields(line) {
		if i := strings.Index(f, "="); i > 0 {
			fields[f[:i]] = f[i+1:]
		}
	}
	return
}

// ---------------------------------------------------------------------------------------------------
// parent side: worker 0 of a check run

type raceOutcome struct {
	out      string
	err      error
	timedOut bool
	wall     time.Duration
}

func runRaceScript(limit time.Duration, binLimit time.Duration, pkg string, args ...string) raceOutcome {
	start := time.Now()
	ctx, cancel := context.WithTimeout(context.Background(), limit)
	defer cancel()
	cmd := exec.CommandContext(ctx, "/bin/bash", append([]string{raceScript, pkg}, args...)...)
	cmd.Env = append(os.Environ(), fmt.Sprintf("RACEPASS_TIMEOUT=%d", int(binLimit.Seconds())))
	cmd.SysProcAttr = &syscall.SysProcAttr{Setpgid: true}
	// TERM first (the script removes its scratch directory on the way out); Go kills the shell after WaitDelay
	cmd.Cancel = func() error { return syscall.Kill(-cmd.Process.Pid, syscall.SIGTERM) }
	cmd.WaitDelay = 5 * time.Second
	var buf bytes.Buffer
	cmd.Stdout, cmd.Stderr = &buf, &buf
	err := cmd.Run()
	return raceOutcome{out: buf.String(), err: err, timedOut: ctx.Err() != nil, wall: time.Since(start)}
}

// RacePassConfig is the size of a pass; the zero value of a field means the tier default.
type RacePassConfig struct {
	Reps         int           // repetitions per scenario (at least)
	TargetRuns   int           // small scenario sets are repeated more often, up to about this many runs
	MaxReps      int           // ... but never more than this per scenario
	MaxScenarios int           // larger scenario sets are cut down to an evenly spread subset of this size
	Budget       time.Duration // wall budget of the runs (the build comes on top)
}

func (cfg RacePassConfig) withDefaults(quick bool) RacePassConfig {
	d := RacePassConfig{Reps: 2, TargetRuns: 15000, MaxReps: 60, MaxScenarios: 10000, Budget: 25 * time.Second}
	if !quick {
		d = RacePassConfig{Reps: 6, TargetRuns: 150000, MaxReps: 200, MaxScenarios: 25000, Budget: 140 * time.Second}
	}
	if cfg.Reps > 0 {
		d.Reps = cfg.Reps
	}
	if cfg.TargetRuns > 0 {
		d.TargetRuns = cfg.TargetRuns
	}
	if cfg.MaxReps > 0 {
		d.MaxReps = cfg.MaxReps
	}
	if cfg.MaxScenarios > 0 {
		d.MaxScenarios = cfg.MaxScenarios
	}
	if cfg.Budget > 0 {
		d.Budget = cfg.Budget
	}
	return d
}

func (cfg RacePassConfig) args(tier string) []string {
	return []string{"-tier", tier, "-racepass", fmt.Sprint(cfg.Reps), "-raceruns", fmt.Sprint(cfg.TargetRuns), "-racemaxreps", fmt.Sprint(cfg.MaxReps),
		"-racemax", fmt.Sprint(cfg.MaxScenarios), "-racetime", cfg.Budget.String()}
}

// RacePass is a pass running in the background of worker 0 (nil-safe: every other process gets nil).
type RacePass struct {
	c    *Ctx
	pkg  string
	cfg  RacePassConfig
	done chan raceOutcome
}

// StartRacePass starts the race pass of the check whose main package is pkg (e.g. "./checks/c17"). Call it
// before the scenarios are added and Collect before Finish:
//
//	rp := c.StartRacePass("./checks/c17")
//	... c.Add(...) ... c.ExploreAll()
//	rp.Collect()
//	c.Finish()
//
// In -replay mode it first looks whether the recorded violation is a data race and, if so, replays it (re-runs
// the pass on the recorded scenarios up to 5 times; exit 1 when the same function races again) and exits.
// It does nothing in the race-pass binary itself and in workers other than 0.
func (c *Ctx) StartRacePass(pkg string, cfgs ...RacePassConfig) *RacePass {
	var cfg RacePassConfig
	if len(cfgs) > 0 {
		cfg = cfgs[0]
	}
	cfg = cfg.withDefaults(c.Quick())
	if c.RacePassMode() {
		return nil
	}
	if c.Replay != "" {
		if v := c.LoadReplay(); v != nil && isRaceCase(v.Case) {
			c.replayRace(v, pkg, cfg)
		}
		return nil
	}
	if c.Worker != 0 {
		return nil
	}
	args := cfg.args(c.Tier)
	if c.Only != "" && !strings.Contains("racepass", c.Only) {
		args = append(args, "-only", c.Only)
	}
	r := &RacePass{c: c, pkg: pkg, cfg: cfg, done: make(chan raceOutcome, 1)}
	// build (cold: a minute, warm: seconds) + runs + slack; hitting the limit only means "undecided"
	binLimit := cfg.Budget + 20*time.Second
	limit := binLimit + 120*time.Second
	go func() { r.done <- runRaceScript(limit, binLimit, pkg, args...) }()
	return r
}

func isRaceCase(cs any) bool {
	m, ok := cs.(map[string]any)
	if !ok {
		return false
	}
	b, _ := m["racepass"].(bool)
	return b
}

// Collect waits for the pass and records its evidence counters and violations.
func (r *RacePass) Collect() {
	if r == nil {
		return
	}
	c := r.c
	o := <-r.done
	c.Count("racepass_wall_ms", o.wall.Milliseconds())
	sum, f := raceSummary(o.out)
	reports, total, harnessOnly, unattr := ParseRaceReports(o.out)
	c.Count("racepass_reports_total", int64(total))
	c.Count("racepass_reports_owned_by_eino", int64(len(reports)))
	c.Count("racepass_reports_between_harness_frames_ignored", int64(harnessOnly))
	c.Count("racepass_reports_without_owner_ignored", int64(unattr))
	num := func(k string) int64 {
		var n int64
		fmt.Sscan(f[k], &n)
		return n
	}
	complete := !o.timedOut && sum != ""
	if complete {
		var ran, tot int64
		fmt.Sscanf(f["scenarios"], "%d/%d", &ran, &tot)
		c.Count("racepass_scenarios_run", ran)
		c.Count("racepass_scenarios_total", tot)
		c.Count("racepass_runs", num("runs"))
		c.Count("racepass_runs_abandoned", num("abandoned"))
		c.Count("racepass_reps_per_scenario", num("reps"))
		c.Count("racepass_rounds_completed", num("rounds_completed"))
		c.Count("racepass_runs_with_lingering_goroutines", num("lingering"))
		c.Count("racepass_harness_thread_panics", num("panics"))
		if ran < num("selected") || num("rounds_completed") < 1 {
			complete = false // the wall budget ended before every selected scenario had run once
		}
	}
	if !complete {
		// not a verdict about the code: the data-race question was not (fully) decided in this run; whatever
		// the detector reported before the pass stopped still counts
		tail := reAddr.ReplaceAllString(o.out, "0x?")
		if len(tail) > 600 {
			tail = tail[len(tail)-600:]
		}
		if !c.Res.Capped {
			c.Res.Capped, c.Res.CapReason = true, "race pass did not complete (data races undecided in this run)"
		}
		c.Res.Notes = append(c.Res.Notes, fmt.Sprintf("race pass did not complete (timeout=%v, err=%v): %s", o.timedOut, o.err, tail))
	} else {
		c.Count("racepass_completed", 1)
		c.Res.Notes = append(c.Res.Notes, "race pass (native -race build of this check, free runs of the scenario bodies): "+stripWall(sum))
	}
	type agg struct {
		rep   RaceReport
		scens []string
		seen  map[string]bool
	}
	byFn := map[string]*agg{}
	var order []string
	for _, rp := range reports {
		a := byFn[rp.Function]
		if a == nil {
			a = &agg{rep: rp, seen: map[string]bool{}}
			byFn[rp.Function] = a
			order = append(order, rp.Function)
		}
		if rp.Scenario != "" && !a.seen[rp.Scenario] && len(a.scens) < 6 {
			a.seen[rp.Scenario] = true
			a.scens = append(a.scens, rp.Scenario)
		}
	}
	sort.Strings(order)
	for _, fn := range order {
		a := byFn[fn]
		c.Violate(Violation{
			Scenario:  "racepass/" + fn,
			Signature: "data-race:" + fn,
			Case:      raceCase{RacePass: true, Function: fn, Pkg: r.pkg, Scenarios: a.scens},
			Msg: fmt.Sprintf("the Go race detector reports a data race in framework code during a free run of the scenario body (first seen in scenario %q); conflicting accesses: %s",
				first(a.scens), strings.Join(a.rep.Sites, " and ")),
		})
	}
}

func first(s []string) string {
	if len(s) == 0 {
		return ""
	}
	return s[0]
}

// stripWall keeps the note stable between runs (the driver de-duplicates notes textually).
func stripWall(sum string) string {
	if i := strings.Index(sum, " wall_ms="); i >= 0 {
		return sum[:i]
	}
	return sum
}

// replayRace re-runs the pass on the recorded scenarios (many repetitions) up to 5 times; the violation stands
// iff the same function is reported again.
func (c *Ctx) replayRace(v *Violation, pkg string, cfg RacePassConfig) {
	b, _ := json.Marshal(v.Case)
	var rc raceCase
	json.Unmarshal(b, &rc)
	args := []string{"-tier", c.Tier, "-racepass", "25", "-racetime", "20s"}
	cleanup := func() {}
	if len(rc.Scenarios) > 0 {
		f, err := os.CreateTemp("", "verif-racelist-*.json")
		if err != nil {
			fmt.Fprintln(os.Stderr, err)
			os.Exit(2)
		}
		name := f.Name()
		cleanup = func() { os.Remove(name) }
		nb, _ := json.Marshal(rc.Scenarios)
		f.Write(nb)
		f.Close()
		args = append(args, "-racelist", name)
	} else {
		args = cfg.args(c.Tier)
	}
	for attempt := 1; attempt <= 5; attempt++ {
		o := runRaceScript(110*time.Second, 40*time.Second, pkg, args...)
		reports, _, _, _ := ParseRaceReports(o.out)
		for _, rp := range reports {
			if rp.Function == rc.Function {
				fmt.Printf("REPLAY-FAIL %s: data race reported again (attempt %d, scenario %q): %s\n", v.Scenario, attempt, rp.Scenario, strings.Join(rp.Sites, " and "))
				cleanup()
				os.Exit(1)
			}
		}
		if sum, _ := raceSummary(o.out); sum == "" {
			fmt.Printf("race pass did not complete on attempt %d: %v\n", attempt, o.err)
		}
	}
	cleanup()
	fmt.Printf("REPLAY-PASS %s: no data race in %s reported in 5 race passes\n", v.Scenario, rc.Function)
	os.Exit(0)
}
