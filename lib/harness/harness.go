// Package harness is the common runtime of the per-property check binaries: flag parsing, scenario
// sharding over worker processes, bounded exhaustive exploration of a scenario under the controlled
// scheduler (both map orders), result/violation records consumed by the driver (cmd/check).
package harness

import (
	"encoding/json"
	"flag"
	"fmt"
	"hash/fnv"
	"os"
	"runtime/pprof"
	"sort"
	"strings"
	"sync/atomic"
	"time"

	"github.com/cloudwego/eino/vsched"
)

// Violation is one failing case, replayable through `-replay`.
type Violation struct {
	Property  string   `json:"property"`
	Scenario  string   `json:"scenario"`
	Signature string   `json:"signature"` // coarse class used to match known findings
	MapDesc   bool     `json:"map_desc,omitempty"`
	Prefix    []int    `json:"prefix,omitempty"`
	Case      any      `json:"case,omitempty"` // engine R: the program / input / history
	Msg       string   `json:"msg"`
	Trace     []string `json:"trace,omitempty"`
}

// Result is what one worker process reports.
type Result struct {
	Property    string         `json:"property"`
	Tier        string         `json:"tier"`
	Worker      int            `json:"worker"`
	Scenarios   int            `json:"scenarios"`    // scenarios / programs this worker owned
	Evaluations int64          `json:"evaluations"`  // executions (S) or traces replayed on the implementation (R)
	Transitions int64          `json:"transitions"`  // scheduling decisions (S) or model steps (R)
	Nontrivial  int64          `json:"nontrivial"`   // by the check's stated rule
	Validated   int64          `json:"validated"`    // traces that agreed with the oracle
	StateCount  int64          `json:"state_count"`  // distinct states seen by this worker (see StateFile)
	StateFile   string         `json:"state_file"`   // binary dump of state hashes for the driver to union
	Outcomes    map[string]int64 `json:"outcomes"`   // distinct observed outcomes -> count (vacuity guard)
	Counters    map[string]int64 `json:"counters"`
	Capped      bool           `json:"capped"`
	CapReason   string         `json:"cap_reason,omitempty"`
	BoundDone   int            `json:"bound_done"` // highest preemption bound fully completed (S)
	Violations  []Violation    `json:"violations"`
	Samples     []any          `json:"samples"`
	Infra       []string       `json:"infra_errors"`
	WallS       float64        `json:"wall_s"`
	Notes       []string       `json:"notes,omitempty"`
	Rule        string         `json:"rule"`
	Assumptions []string       `json:"assumptions"`
	Explanation string         `json:"explanation"`
}

type Ctx struct {
	Property string
	Tier     string
	Worker   int
	Workers  int
	Out      string
	Replay   string
	Seed     int64
	Deadline time.Time
	Res      *Result
	states   map[uint64]struct{}
	start    time.Time
	scen     int
	maxViol  int
	Only     string
	scens    []Scenario
	sigCount map[string]int
	progress int64
	current  string
	watching bool
	race     raceFlags // race-pass mode of the native -race build (race.go)
}

// Init parses the common flags.
func Init(property string) *Ctx {
	c := &Ctx{Property: property}
	flag.StringVar(&c.Tier, "tier", "quick", "quick|thorough")
	flag.IntVar(&c.Worker, "worker", 0, "worker index")
	flag.IntVar(&c.Workers, "workers", 1, "number of workers")
	flag.StringVar(&c.Out, "out", "", "result file")
	flag.StringVar(&c.Replay, "replay", "", "violation file to replay")
	flag.StringVar(&c.Only, "only", "", "only scenarios whose name contains this substring")
	budget := flag.Duration("budget", 0, "wall budget for this worker (0: tier default)")
	flag.Int64Var(&c.Seed, "seed", 0, "seed (unused by exhaustive checks; recorded)")
	c.raceFlagSetup()
	flag.Parse()
	if *budget == 0 {
		if c.Tier == "quick" {
			*budget = 60 * time.Second
		} else {
			*budget = 15 * time.Minute
		}
	}
	if pf := os.Getenv("VERIF_CPUPROFILE"); pf != "" {
		if f, err := os.Create(pf); err == nil {
			pprof.StartCPUProfile(f)
			stopProfile = pprof.StopCPUProfile
		}
	}
	c.start = time.Now()
	c.Deadline = c.start.Add(*budget)
	c.Res = &Result{Property: property, Tier: c.Tier, Worker: c.Worker, Outcomes: map[string]int64{}, Counters: map[string]int64{}, BoundDone: -1}
	c.states = map[uint64]struct{}{}
	c.maxViol = 20
	return c
}

func (c *Ctx) Quick() bool { return c.Tier == "quick" }

// Mine shards scenarios round-robin over workers. Call it exactly once per scenario, in a deterministic
// enumeration order.
func (c *Ctx) Mine(name string) bool {
	i := c.scen
	c.scen++
	if c.Only != "" && !strings.Contains(name, c.Only) {
		return false
	}
	if c.Replay != "" {
		return true
	}
	if i%c.Workers != c.Worker {
		return false
	}
	c.Res.Scenarios++
	return true
}

func (c *Ctx) TimeUp() bool {
	if time.Now().After(c.Deadline) {
		if !c.Res.Capped {
			c.Res.Capped, c.Res.CapReason = true, "wall budget"
		}
		return true
	}
	return false
}

func (c *Ctx) Outcome(o string) { c.Res.Outcomes[o]++ }
func (c *Ctx) Count(k string, n int64) { c.Res.Counters[k] += n }

func (c *Ctx) Sample(v any) {
	if len(c.Res.Samples) < 6 {
		c.Res.Samples = append(c.Res.Samples, v)
	}
}

func (c *Ctx) State(h uint64) { c.states[h] = struct{}{} }

// StateStr records a canonical model state (engine R).
func (c *Ctx) StateStr(s string) {
	h := fnv.New64a()
	h.Write([]byte(s))
	c.states[h.Sum64()] = struct{}{}
}

// Violate records a violation. At most 3 are kept per signature, and violations of an already recorded
// signature do not count towards the stop limit, so a known finding cannot starve the rest of the search.
func (c *Ctx) Violate(v Violation) {
	v.Property = c.Property
	if c.sigCount == nil {
		c.sigCount = map[string]int{}
	}
	c.sigCount[v.Signature]++
	c.Count("violating_cases_total", 1)
	if c.sigCount[v.Signature] <= 3 {
		c.Res.Violations = append(c.Res.Violations, v)
	}
}

func (c *Ctx) TooManyViolations() bool { return len(c.sigCount) >= c.maxViol }

func (c *Ctx) Infra(msg string) { c.Res.Infra = append(c.Res.Infra, msg) }

var stopProfile = func() {}

// Finish writes the result and exits.
func (c *Ctx) Finish() {
	if c.RacePassMode() {
		c.raceRun() // does not return
	}
	stopProfile()
	c.Res.WallS = time.Since(c.start).Seconds()
	c.Res.StateCount = int64(len(c.states))
	if c.Out != "" {
		if len(c.states) > 0 && len(c.states) <= 8_000_000 {
			sf := c.Out + ".states"
			buf := make([]byte, 0, len(c.states)*8)
			for h := range c.states {
				for i := 0; i < 8; i++ {
					buf = append(buf, byte(h>>(8*i)))
				}
			}
			if os.WriteFile(sf, buf, 0o644) == nil {
				c.Res.StateFile = sf
			}
		}
		b, _ := json.Marshal(c.Res)
		if err := os.WriteFile(c.Out, b, 0o644); err != nil {
			fmt.Fprintln(os.Stderr, "write result:", err)
			os.Exit(2)
		}
	} else {
		b, _ := json.MarshalIndent(c.Res, "", " ")
		fmt.Println(string(b))
	}
	if len(c.Res.Infra) > 0 {
		os.Exit(2)
	}
	if len(c.Res.Violations) > 0 {
		os.Exit(1)
	}
	os.Exit(0)
}

// ---------------------------------------------------------------------------------------------------
// Engine R helpers

// LoadReplay returns the recorded violation when the binary runs in -replay mode, else nil.
func (c *Ctx) LoadReplay() *Violation {
	if c.Replay == "" {
		return nil
	}
	b, err := os.ReadFile(c.Replay)
	if err != nil {
		fmt.Fprintln(os.Stderr, err)
		os.Exit(2)
	}
	var v Violation
	if err := json.Unmarshal(b, &v); err != nil {
		fmt.Fprintln(os.Stderr, err)
		os.Exit(2)
	}
	return &v
}

// ReplayExit ends a -replay run: exit 1 if the case still fails, 0 if it passes.
func (c *Ctx) ReplayExit(name string, err error) {
	if err != nil {
		fmt.Printf("REPLAY-FAIL %s: %v\n", name, err)
		os.Exit(1)
	}
	fmt.Printf("REPLAY-PASS %s\n", name)
	os.Exit(0)
}

// Journal records the case about to run, so that the driver can attribute a process crash (a panic that
// escapes into a framework goroutine) to it. Cheap: one small file write per case.
func (c *Ctx) Journal(name string, cs any) {
	if c.Out == "" || c.Replay != "" {
		return
	}
	b, _ := json.Marshal(Violation{Property: c.Property, Scenario: name, Signature: "process-crash", Case: cs, Msg: "the process died while running this case (a panic escaped into a goroutine)"})
	os.WriteFile(c.Out+".journal", b, 0o644)
}

// Guard runs f and turns a panic that unwinds to the caller into an error (panics in other goroutines
// still kill the process; see Journal). A case that does not return within timeout is reported as a hang
// violation and ends this worker at once (the stuck goroutines cannot be recovered).
func (c *Ctx) Guard(name string, cs any, timeout time.Duration, f func() error) (err error) {
	if os.Getenv("VERIF_NOGUARD") != "" {
		return f() // debugging aid: let a panic crash the process with its stack trace
	}
	done := make(chan error, 1)
	go func() {
		defer func() {
			if r := recover(); r != nil {
				done <- &PanicError{Val: fmt.Sprint(r)}
			}
		}()
		done <- f()
	}()
	select {
	case err = <-done:
		return err
	case <-time.After(timeout):
		if c.Replay != "" {
			fmt.Printf("REPLAY-FAIL %s: hang (no return within %v)\n", name, timeout)
			os.Exit(1)
		}
		c.Violate(Violation{Scenario: name, Signature: "hang", Case: cs, Msg: fmt.Sprintf("the case did not return within %v (hang)", timeout)})
		c.Res.Capped, c.Res.CapReason = true, "worker stopped after a hang"
		c.Finish()
		return nil
	}
}

// PanicError marks a panic that escaped to the caller of the public API.
type PanicError struct{ Val string }

func (p *PanicError) Error() string { return "panic: " + p.Val }

// ---------------------------------------------------------------------------------------------------
// Engine S

// Scenario is one closed driver for the controlled scheduler.
type Scenario struct {
	Name string
	// New builds a fresh instance. main runs as thread 0; check judges the finished execution (it may
	// inspect x.Deadlock, x.Blocked, x.ThreadPanic, x.MainPanic) and returns the observed outcome string
	// (for the distinct-outcome statistic) and an error for a violation.
	New func() (main func(), check func(x *vsched.Exec) (outcome string, err error))
	// Signature maps a failure to its known-findings class (default: scenario name up to the first '/').
	Signature func(err error) string
	Bounds    []int // preemption bounds to complete in order (iterative bounding); -1 = unbounded
	MaxExecs  int64 // cap per (bound, map order)
	OneOrder  bool  // scenario has no map-order dependence: explore ascending order only
	HBCache   bool  // happens-before state caching (only for code whose shared accesses are all synchronised)
}

// Add registers a scenario owned by this worker for ExploreAll.
func (c *Ctx) Add(sc Scenario) {
	// replays find their scenario by name: names must be unique (worker-local check; VERIF_LISTNAMES=<prefix> dumps
	// the names of every worker for an audit across workers)
	for _, o := range c.scens {
		if o.Name == sc.Name {
			c.Infra("two scenarios share the name " + sc.Name)
		}
	}
	if p := os.Getenv("VERIF_LISTNAMES"); p != "" {
		if f, err := os.OpenFile(fmt.Sprintf("%s.%d", p, c.Worker), os.O_APPEND|os.O_CREATE|os.O_WRONLY, 0o644); err == nil {
			fmt.Fprintln(f, sc.Name)
			f.Close()
		}
	}
	c.scens = append(c.scens, sc)
}

// ExploreAll runs iterative preemption bounding across all registered scenarios: every scenario at
// bound 0, then every scenario at bound 1, ... so that a wall-clock cap only ever cuts the highest bound.
// BoundDone is the highest bound completed for *all* scenarios of this worker.
func (c *Ctx) ExploreAll() {
	if c.RacePassMode() {
		c.raceRun() // native -race build: free runs of the scenario bodies instead of the exploration; does not return
	}
	if c.Replay != "" {
		return
	}
	c.startWatchdog()
	maxLevels := 0
	for _, sc := range c.scens {
		if len(sc.Bounds) > maxLevels {
			maxLevels = len(sc.Bounds)
		}
	}
	failed := map[string]bool{}
	for lvl := 0; lvl < maxLevels; lvl++ {
		complete := true
		for _, sc := range c.scens {
			if lvl >= len(sc.Bounds) || failed[sc.Name] {
				continue
			}
			if c.TimeUp() || c.TooManyViolations() {
				complete = false
				break
			}
			ok, done := c.exploreBound(sc, sc.Bounds[lvl])
			if !ok {
				failed[sc.Name] = true
			}
			if !done {
				complete = false
			}
		}
		if !complete {
			return
		}
		c.Res.BoundDone = lvl
		c.Count("bound_level_completed", 1)
	}
}

// startWatchdog reports an execution that never finishes: under the cooperative scheduler that can only be a
// thread spinning without ever reaching a scheduling point (an infinite loop in the code under test or in the
// harness). The worker cannot recover from it; it records the scenario as a violation and exits.
func (c *Ctx) startWatchdog() {
	if c.watching {
		return
	}
	c.watching = true
	go func() {
		last, stalled := int64(-1), 0
		for {
			time.Sleep(5 * time.Second)
			cur := atomic.LoadInt64(&c.progress)
			if cur != last || c.current == "" {
				last, stalled = cur, 0
				continue
			}
			stalled++
			if stalled >= 6 {
				c.Violate(Violation{Scenario: c.current, Signature: "no-progress", MapDesc: vsched.MapOrderDesc,
					Msg: "an execution did not finish within 30 s: a thread spins without reaching a scheduling point (infinite loop)"})
				c.Res.Capped, c.Res.CapReason = true, "worker stopped: an execution never finished"
				c.Finish()
			}
		}
	}()
}

// Explore runs one scenario under all of its bounds immediately.
func (c *Ctx) Explore(sc Scenario) {
	if c.RacePassMode() {
		c.Add(sc) // run by Finish
		return
	}
	if c.Replay != "" {
		return
	}
	c.startWatchdog()
	for _, b := range sc.Bounds {
		if c.TimeUp() || c.TooManyViolations() {
			return
		}
		if ok, done := c.exploreBound(sc, b); !ok || !done {
			return
		}
	}
}

// exploreBound explores sc exhaustively under preemption bound b (both map orders). ok=false: a violation
// or infrastructure error was recorded; done=false: a cap cut the search.
func (c *Ctx) exploreBound(sc Scenario, b int) (ok bool, done bool) {
	orders := []bool{false, true}
	if sc.OneOrder {
		orders = orders[:1]
	}
	for _, desc := range orders {
		if c.TimeUp() {
			return true, false
		}
		vsched.MapOrderDesc = desc
		outcomes := map[string]struct{}{}
		ex := &vsched.Explorer{Bound: b, MaxExecs: sc.MaxExecs, Deadline: c.Deadline, States: c.states, HBCache: sc.HBCache}
		c.current = sc.Name
		ex.New = func() (func(), func(x *vsched.Exec) error) {
			atomic.AddInt64(&c.progress, 1)
			m, chk := sc.New()
			return m, func(x *vsched.Exec) error {
				o, err := chk(x)
				if err == nil {
					outcomes[o] = struct{}{}
				}
				return err
			}
		}
		err := ex.Run()
		c.current = ""
		c.Res.Evaluations += ex.Execs
		c.Res.Validated += ex.Execs
		c.Res.Transitions += ex.Transitions
		c.Count(fmt.Sprintf("execs_bound_%d", b), ex.Execs)
		c.Count("executions_pruned_by_hb_cache", ex.Pruned)
		if len(ex.Sigs) >= 2 {
			c.Res.Nontrivial += int64(len(ex.Sigs))
		}
		for o := range outcomes {
			c.Outcome(o)
		}
		if int64(ex.MaxPoints) > c.Res.Counters["max_choice_points"] {
			c.Res.Counters["max_choice_points"] = int64(ex.MaxPoints)
		}
		if int64(ex.MaxThreads) > c.Res.Counters["max_threads"] {
			c.Res.Counters["max_threads"] = int64(ex.MaxThreads)
		}
		if err != nil {
			if ie, ok := err.(*vsched.InfraError); ok {
				c.Infra(fmt.Sprintf("%s [bound %d desc %v]: %v", sc.Name, b, desc, ie))
				return false, true
			}
			c.Res.Validated--
			sig := sc.Name
			if i := strings.Index(sig, "/"); i >= 0 {
				sig = sig[:i]
			}
			if sc.Signature != nil {
				sig = sc.Signature(err)
			}
			v := Violation{Scenario: sc.Name, Signature: sig, MapDesc: desc, Prefix: ex.FailPrefix, Msg: err.Error()}
			// confirm: the same schedule must fail every time
			same := true
			for i := 0; i < 3; i++ {
				_, e2 := ex.Rerun(ex.FailPrefix)
				if e2 == nil || e2.Error() != err.Error() {
					same = false
					c.Infra(fmt.Sprintf("%s: violation not reproducible on replay (%v vs %v)", sc.Name, err, e2))
					break
				}
			}
			if x, _ := ex.Replay(ex.FailPrefix); x != nil {
				v.Trace = x.Trace
			}
			if same {
				c.Violate(v)
			}
			return false, true // first counterexample has the fewest preemptions
		}
		if ex.Capped {
			c.Res.Capped, c.Res.CapReason = true, ex.CapReason
			return true, false
		}
	}
	return true, true
}

// ReplayScenario re-runs a recorded violation of sc with tracing; returns true if handled.
func (c *Ctx) ReplayScenario(sc Scenario) bool {
	if c.Replay == "" {
		return false
	}
	b, err := os.ReadFile(c.Replay)
	if err != nil {
		fmt.Fprintln(os.Stderr, err)
		os.Exit(2)
	}
	var v Violation
	if err := json.Unmarshal(b, &v); err != nil {
		fmt.Fprintln(os.Stderr, err)
		os.Exit(2)
	}
	if v.Scenario != sc.Name {
		return false
	}
	vsched.MapOrderDesc = v.MapDesc
	ex := &vsched.Explorer{}
	ex.New = func() (func(), func(x *vsched.Exec) error) {
		m, chk := sc.New()
		return m, func(x *vsched.Exec) error { _, e := chk(x); return e }
	}
	x, e := ex.Replay(v.Prefix)
	for _, l := range x.Trace {
		fmt.Println("  ", l)
	}
	if e != nil {
		fmt.Printf("REPLAY-FAIL %s: %v\n", sc.Name, e)
		os.Exit(1)
	}
	fmt.Printf("REPLAY-PASS %s\n", sc.Name)
	os.Exit(0)
	return true
}

// SortedKeys is a small helper for deterministic iteration in harness code.
func SortedKeys[V any](m map[string]V) []string {
	ks := make([]string, 0, len(m))
	for k := range m {
		ks = append(ks, k)
	}
	sort.Strings(ks)
	return ks
}
