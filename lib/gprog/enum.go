package gprog

import (
	"fmt"
	"sort"
	"strings"
)

// MatchSteps checks that log is a concatenation of permutations of the given steps: every execution of
// step k precedes every execution of step k+1, each step's executions are exactly the model's multiset.
func MatchSteps(log []Entry, steps [][]Entry) error {
	pos := 0
	for si, st := range steps {
		if pos+len(st) > len(log) {
			return fmt.Errorf("step %d: implementation executed %d node(s) where the model executes %v (log so far %v)", si, len(log)-pos, st, log)
		}
		got := append([]Entry{}, log[pos:pos+len(st)]...)
		want := append([]Entry{}, st...)
		sortEntries(got)
		sortEntries(want)
		for i := range want {
			if got[i] != want[i] {
				return fmt.Errorf("step %d: implementation executed %v, model executes %v", si, got, want)
			}
		}
		pos += len(st)
	}
	if pos != len(log) {
		return fmt.Errorf("implementation executed %d extra node(s) beyond the model's last step: %v", len(log)-pos, log[pos:])
	}
	return nil
}

func sortEntries(es []Entry) {
	sort.Slice(es, func(i, j int) bool {
		if es[i].Path != es[j].Path {
			return es[i].Path < es[j].Path
		}
		return es[i].In < es[j].In
	})
}

// MatchOutcome compares the implementation's log with a model outcome: top-level step structure and the
// step structure inside every sub-graph node.
func MatchOutcome(log []Entry, o *Outcome) error {
	if err := MatchSteps(log, o.Steps); err != nil {
		return err
	}
	for _, sp := range sortedKeys(o.Inner) {
		var proj []Entry
		for _, e := range log {
			if strings.HasPrefix(e.Path, sp+"/") {
				proj = append(proj, e)
			}
		}
		if err := MatchSteps(proj, o.Inner[sp]); err != nil {
			return fmt.Errorf("inside sub-graph %s: %v", sp, err)
		}
	}
	return nil
}

// ---------------------------------------------------------------------------------------------------
// shape enumeration

type arc struct{ from, to string }

// EnumParams bounds the enumeration of graph shapes.
type EnumParams struct {
	Mode       string
	MaxNodes   int
	MaxArcs    int
	Cyclic     bool // allow cycles and self loops (pregel)
	MaxBranch  int  // max branches per program
	MultiToo   bool // also multi-branches
	BranchSize int  // max targets per branch
}

// EnumShapes returns all programs within the bounds, canonical up to node renaming, all-lambda nodes.
func EnumShapes(ep EnumParams) []*Prog {
	names := []string{"a", "b", "c", "d", "e"}
	var out []*Prog
	seen := map[string]bool{}
	for n := 1; n <= ep.MaxNodes; n++ {
		nodes := names[:n]
		var arcs []arc
		srcs := append([]string{START}, nodes...)
		tgts := append(append([]string{}, nodes...), END)
		for _, s := range srcs {
			for _, t := range tgts {
				if s == t && !ep.Cyclic {
					continue
				}
				arcs = append(arcs, arc{s, t})
			}
		}
		// arc sets are first reduced up to node renaming on a bitmask (cheap), then grouped into branches
		perms := permutations(n)
		bitOf := func(a arc, pm []int) uint64 {
			fi := 0
			if a.from != START {
				fi = pm[int(a.from[0]-'a')] + 1
			}
			ti := n
			if a.to != END {
				ti = pm[int(a.to[0]-'a')]
			}
			return 1 << uint(fi*(n+1)+ti)
		}
		isCanonArcs := func(as []arc) bool {
			var id uint64
			for _, a := range as {
				id |= bitOf(a, perms[0])
			}
			for _, pm := range perms[1:] {
				var m uint64
				for _, a := range as {
					m |= bitOf(a, pm)
				}
				if m < id {
					return false
				}
			}
			return true
		}
		var cur []arc
		var rec func(i int)
		rec = func(i int) {
			if len(cur) > 0 && validArcs(nodes, cur, ep.Cyclic) && isCanonArcs(cur) {
				for _, p := range groupBranches(ep, nodes, cur) {
					c := canonical(p)
					if !seen[c] {
						seen[c] = true
						out = append(out, p)
					}
				}
			}
			if len(cur) == ep.MaxArcs {
				return
			}
			for j := i; j < len(arcs); j++ {
				cur = append(cur, arcs[j])
				rec(j + 1)
				cur = cur[:len(cur)-1]
			}
		}
		rec(0)
	}
	sort.SliceStable(out, func(i, j int) bool {
		a, b := out[i], out[j]
		sa, sb := len(a.Nodes)*100+len(a.Edges)+3*len(a.Branches), len(b.Nodes)*100+len(b.Edges)+3*len(b.Branches)
		if sa != sb {
			return sa < sb
		}
		return a.String() < b.String()
	})
	return out
}

func validArcs(nodes []string, as []arc, cyclic bool) bool {
	in, outd := map[string]int{}, map[string]int{}
	for _, a := range as {
		in[a.to]++
		outd[a.from]++
	}
	if outd[START] == 0 || in[END] == 0 {
		return false
	}
	for _, n := range nodes {
		if in[n] == 0 || outd[n] == 0 {
			return false
		}
	}
	// every node reachable from START
	reach := map[string]bool{START: true}
	for changed := true; changed; {
		changed = false
		for _, a := range as {
			if reach[a.from] && !reach[a.to] {
				reach[a.to] = true
				changed = true
			}
		}
	}
	for _, n := range nodes {
		if !reach[n] {
			return false
		}
	}
	if !reach[END] {
		return false
	}
	if !cyclic {
		// acyclic check
		state := map[string]int{}
		var dfs func(x string) bool
		dfs = func(x string) bool {
			state[x] = 1
			for _, a := range as {
				if a.from == x {
					if state[a.to] == 1 {
						return false
					}
					if state[a.to] == 0 && !dfs(a.to) {
						return false
					}
				}
			}
			state[x] = 2
			return true
		}
		if !dfs(START) {
			return false
		}
	}
	return true
}

// groupBranches turns an arc set into programs: all plain edges, and every way of grouping >=2 out-arcs of
// one source into a branch (at most MaxBranch branches, one per source).
func groupBranches(ep EnumParams, nodes []string, as []arc) []*Prog {
	bySrc := map[string][]string{}
	var srcs []string
	for _, a := range as {
		if len(bySrc[a.from]) == 0 {
			srcs = append(srcs, a.from)
		}
		bySrc[a.from] = append(bySrc[a.from], a.to)
	}
	type choice struct {
		targets []string
		multi   bool
	}
	opts := map[string][]*choice{}
	for _, s := range srcs {
		opts[s] = []*choice{nil}
		ts := bySrc[s]
		if len(ts) < 2 || ep.MaxBranch == 0 {
			continue
		}
		// subsets of size >= 2 (<= BranchSize)
		for mask := 1; mask < 1<<len(ts); mask++ {
			var sel []string
			for i, t := range ts {
				if mask&(1<<i) != 0 {
					sel = append(sel, t)
				}
			}
			if len(sel) < 2 || len(sel) > ep.BranchSize {
				continue
			}
			opts[s] = append(opts[s], &choice{targets: sel})
			if ep.MultiToo {
				opts[s] = append(opts[s], &choice{targets: sel, multi: true})
			}
		}
	}
	var out []*Prog
	pick := map[string]*choice{}
	var rec func(i, nb int)
	rec = func(i, nb int) {
		if i == len(srcs) {
			p := &Prog{Mode: ep.Mode}
			for _, n := range nodes {
				p.Nodes = append(p.Nodes, Node{Key: n, Kind: KLambda})
			}
			for _, s := range srcs {
				ch := pick[s]
				inBr := map[string]bool{}
				if ch != nil {
					for _, t := range ch.targets {
						inBr[t] = true
					}
					p.Branches = append(p.Branches, Branch{From: s, Targets: ch.targets, Multi: ch.multi})
				}
				for _, t := range bySrc[s] {
					if !inBr[t] {
						p.Edges = append(p.Edges, Edge{From: s, To: t})
					}
				}
			}
			out = append(out, p)
			return
		}
		for _, ch := range opts[srcs[i]] {
			if ch != nil && nb >= ep.MaxBranch {
				continue
			}
			pick[srcs[i]] = ch
			k := nb
			if ch != nil {
				k++
			}
			rec(i+1, k)
		}
		pick[srcs[i]] = nil
	}
	rec(0, 0)
	return out
}

func permutations(n int) [][]int {
	var out [][]int
	p := make([]int, n)
	for i := range p {
		p[i] = i
	}
	var rec func(k int)
	rec = func(k int) {
		if k == n {
			out = append(out, append([]int{}, p...))
			return
		}
		for i := k; i < n; i++ {
			p[k], p[i] = p[i], p[k]
			rec(k + 1)
			p[k], p[i] = p[i], p[k]
		}
	}
	rec(0)
	// identity first
	return out
}

// canonical returns the minimum rendering of p over all renamings of its nodes.
func canonical(p *Prog) string {
	keys := make([]string, len(p.Nodes))
	for i, n := range p.Nodes {
		keys[i] = n.Key
	}
	best := ""
	perm := make([]int, len(keys))
	for i := range perm {
		perm[i] = i
	}
	var rec func(k int)
	rec = func(k int) {
		if k == len(perm) {
			ren := map[string]string{START: START, END: END}
			for i, key := range keys {
				ren[key] = keys[perm[i]]
			}
			var parts []string
			for _, n := range p.Nodes {
				parts = append(parts, "N"+ren[n.Key]+":"+n.Kind)
			}
			for _, e := range p.Edges {
				parts = append(parts, fmt.Sprintf("E%s>%s/%v%v", ren[e.From], ren[e.To], e.NoControl, e.NoData))
			}
			for _, b := range p.Branches {
				var ts []string
				for _, t := range b.Targets {
					ts = append(ts, ren[t])
				}
				sort.Strings(ts)
				parts = append(parts, fmt.Sprintf("B%s?%v%v", ren[b.From], ts, b.Multi))
			}
			sort.Strings(parts)
			s := strings.Join(parts, " ")
			if best == "" || s < best {
				best = s
			}
			return
		}
		for i := k; i < len(perm); i++ {
			perm[k], perm[i] = perm[i], perm[k]
			rec(k + 1)
			perm[k], perm[i] = perm[i], perm[k]
		}
	}
	rec(0)
	return p.Mode + "|" + best
}

// Canonical exposes the canonical form (used as a model-state key).
func Canonical(p *Prog) string { return canonical(p) }

// HasCycle reports whether the program's arcs contain a cycle.
func HasCycle(p *Prog) bool {
	adj := map[string][]string{}
	for _, e := range p.Edges {
		adj[e.From] = append(adj[e.From], e.To)
	}
	for _, b := range p.Branches {
		adj[b.From] = append(adj[b.From], b.Targets...)
	}
	state := map[string]int{}
	var dfs func(x string) bool
	dfs = func(x string) bool {
		state[x] = 1
		for _, y := range adj[x] {
			if state[y] == 1 {
				return true
			}
			if state[y] == 0 && dfs(y) {
				return true
			}
		}
		state[x] = 2
		return false
	}
	return dfs(START)
}

// SecondBranchVariants derives, from a program with at least one branch, the programs in which the source of
// a branch carries a second branch whose target set overlaps the first one (several branches of one node
// converging on a successor). Targets are taken from the program's nodes and END; acyclic programs stay acyclic.
func SecondBranchVariants(p *Prog, acyclic bool) []*Prog {
	var out []*Prog
	cands := []string{}
	for _, n := range p.Nodes {
		cands = append(cands, n.Key)
	}
	cands = append(cands, END)
	seen := map[string]bool{}
	for bi, b := range p.Branches {
		// only one extra branch per source
		cnt := 0
		for _, o := range p.Branches {
			if o.From == b.From {
				cnt++
			}
		}
		if cnt > 1 {
			continue
		}
		for i := 0; i < len(cands); i++ {
			for j := i + 1; j < len(cands); j++ {
				t2 := []string{cands[i], cands[j]}
				overlap, same := 0, 0
				for _, t := range t2 {
					for _, u := range b.Targets {
						if t == u {
							overlap++
						}
					}
					if t == b.From {
						same++
					}
				}
				if overlap == 0 || (overlap == 2 && len(b.Targets) == 2) {
					continue
				}
				if acyclic && same > 0 {
					continue
				}
				// skip targets that are also plain-edge successors of the source (duplicate arcs)
				dupEdge := false
				for _, e := range p.Edges {
					if e.From == b.From && (e.To == t2[0] || e.To == t2[1]) {
						dupEdge = true
					}
				}
				if dupEdge {
					continue
				}
				for _, multi := range []bool{false, true} {
					q := *p
					q.Branches = append(append([]Branch{}, p.Branches[:bi+1]...), Branch{From: b.From, Targets: t2, Multi: multi})
					q.Branches = append(q.Branches, p.Branches[bi+1:]...)
					if acyclic && HasCycle(&q) {
						continue
					}
					c := canonical(&q)
					if !seen[c] {
						seen[c] = true
						qq := q
						out = append(out, &qq)
					}
				}
			}
		}
	}
	return out
}
