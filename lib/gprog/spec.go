// Package gprog describes small graph programs declaratively, builds them with the real eino API
// (Graph in any-predecessor / all-predecessor mode, Workflow), and interprets them with boring reference
// models (Pregel supersteps, DAG readiness) for trace-by-trace conformance.
package gprog

import (
	"fmt"
	"sort"
	"strings"
)

const (
	START = "start" // compose.START
	END   = "end"   // compose.END
)

// Val is the value domain of every node: maps of strings (nested for Workflow inputs) so that fan-in
// merges are defined.
type Val = map[string]any

// Canon renders a value canonically (sorted keys, nested maps).
func Canon(v any) string {
	switch x := v.(type) {
	case nil:
		return "nil"
	case string:
		return x
	case map[string]any:
		ks := make([]string, 0, len(x))
		for k := range x {
			ks = append(ks, k)
		}
		sort.Strings(ks)
		var sb strings.Builder
		sb.WriteByte('{')
		for i, k := range ks {
			if i > 0 {
				sb.WriteByte(',')
			}
			sb.WriteString(k)
			sb.WriteByte('=')
			sb.WriteString(Canon(x[k]))
		}
		sb.WriteByte('}')
		return sb.String()
	}
	return fmt.Sprintf("%v", v)
}

// Node kinds.
const (
	KLambda = "lambda"
	KPass   = "pass"
	KSub    = "sub"
)

type Node struct {
	Key  string `json:"key"`
	Kind string `json:"kind,omitempty"`
	Sub  *Prog  `json:"sub,omitempty"`
}

// Edge: plain edge. In Workflow programs NoControl marks a data-only input (WithNoDirectDependency) and
// NoData a control-only dependency (AddDependency).
type Edge struct {
	From      string `json:"from"`
	To        string `json:"to"`
	NoControl bool   `json:"no_control,omitempty"`
	NoData    bool   `json:"no_data,omitempty"`
}

type Branch struct {
	From    string   `json:"from"`
	Targets []string `json:"targets"`
	Multi   bool     `json:"multi,omitempty"`
}

const (
	MPregel   = "pregel"
	MDag      = "dag"
	MWorkflow = "workflow"
)

type Prog struct {
	Mode     string   `json:"mode"`
	Nodes    []Node   `json:"nodes"`
	Edges    []Edge   `json:"edges"`
	Branches []Branch `json:"branches,omitempty"`
	MaxSteps int      `json:"max_steps,omitempty"` // pregel: 0 = framework default (nodes+10)
}

func (p *Prog) Node(key string) *Node {
	for i := range p.Nodes {
		if p.Nodes[i].Key == key {
			return &p.Nodes[i]
		}
	}
	return nil
}

func (p *Prog) String() string {
	var sb strings.Builder
	sb.WriteString(p.Mode)
	if p.MaxSteps > 0 {
		fmt.Fprintf(&sb, "[max%d]", p.MaxSteps)
	}
	sb.WriteString("{")
	for i, n := range p.Nodes {
		if i > 0 {
			sb.WriteString(" ")
		}
		sb.WriteString(n.Key)
		switch n.Kind {
		case KPass:
			sb.WriteString(":pass")
		case KSub:
			sb.WriteString(":sub(" + n.Sub.String() + ")")
		}
	}
	sb.WriteString(";")
	for _, e := range p.Edges {
		arrow := ">"
		if e.NoControl {
			arrow = "~>" // data only
		}
		if e.NoData {
			arrow = "=>" // control only
		}
		sb.WriteString(" " + e.From + arrow + e.To)
	}
	for _, b := range p.Branches {
		m := "?"
		if b.Multi {
			m = "*"
		}
		sb.WriteString(" " + b.From + m + "[" + strings.Join(b.Targets, ",") + "]")
	}
	sb.WriteString("}")
	return sb.String()
}

// Entry is one node execution: the node path (outermost/.../innermost) and its rendered input.
type Entry struct {
	Path string `json:"path"`
	In   string `json:"in"`
}

func (e Entry) String() string { return e.Path + "(" + e.In + ")" }

// BranchKey identifies one evaluation of one branch: path of the source node, index of the branch on that
// node, and how many times it was evaluated before in this run.
type BranchKey struct {
	Path string
	Idx  int
	Occ  int
}

func (k BranchKey) String() string { return fmt.Sprintf("%s#%d@%d", k.Path, k.Idx, k.Occ) }

// Script answers branch evaluations: single branch = index of the chosen target; multi branch = bitmask of
// chosen targets (0 = nothing selected). Missing entries answer 0 for single, 1 (first target) for multi.
type Script map[string]int

// Decision records one answer requested by the model, with its arity, for DFS over all scripts.
type Decision struct {
	Key   string
	Arity int
	Multi bool
	Ans   int
}
