package gprog

import (
	"errors"
	"context"
	"fmt"
	"io"
	"strings"

	"github.com/cloudwego/eino/compose"
	"github.com/cloudwego/eino/schema"
)

// Drain concatenates a stream of map chunks (chunks with distinct keys are unioned; dup reports that a
// key arrived twice).
func Drain(sr *schema.StreamReader[Val]) (out Val, err error, dup bool) {
	defer sr.Close()
	out = Val{}
	n := 0
	for {
		c, e := sr.Recv()
		if e == io.EOF {
			break
		}
		if e != nil {
			return nil, e, dup
		}
		n++
		if deepMerge(out, c) {
			dup = true
		}
	}
	if n == 0 {
		return nil, fmt.Errorf("stream is empty"), dup
	}
	return out, nil, dup
}

// deepMerge unions src into dst recursively (chunks of a streamed nested map arrive piecewise); it reports
// whether a non-map leaf arrived twice.
func deepMerge(dst, src Val) (dup bool) {
	for k, v := range src {
		old, ok := dst[k]
		if !ok {
			dst[k] = v
			continue
		}
		om, ok1 := old.(map[string]any)
		vm, ok2 := v.(map[string]any)
		if ok1 && ok2 {
			cp := Val{}
			for kk, vv := range om {
				cp[kk] = vv
			}
			if deepMerge(cp, vm) {
				dup = true
			}
			dst[k] = cp
			continue
		}
		dup = true
		dst[k] = v
	}
	return dup
}

// Exec runs one trace on the implementation: call is "invoke" or "stream".
func Exec(ctx context.Context, r compose.Runnable[Val, Val], rec *RunRec, call string, input Val, opts ...compose.Option) (Val, error) {
	ctx = WithRun(ctx, rec)
	if call == "stream" {
		sr, err := r.Stream(ctx, input, opts...)
		if err != nil {
			return nil, err
		}
		res, err, _ := Drain(sr)
		return res, err
	}
	return r.Invoke(ctx, input, opts...)
}

// Classify maps an implementation error to the model's error classes (by message text: the errors
// returned by graph runs do not unwrap, see C13).
func Classify(err error) string {
	if err == nil {
		return ""
	}
	s := err.Error()
	switch {
	case errors.Is(err, compose.ErrExceedMaxSteps), strings.Contains(s, compose.ErrExceedMaxSteps.Error()):
		return ErrMaxSteps
	case strings.Contains(s, "duplicated key"):
		return ErrConflict
	case strings.Contains(s, "no tasks to execute"):
		return ErrNoTasks
	}
	return "other: " + s
}

// SameClass reports whether an implementation error falls into the model's error class. The wording of the
// merge-conflict and no-tasks failures is not part of any property: when the model predicts one of them, any
// ordinary (non-panic) error other than the step-limit error is accepted.
func SameClass(model string, err error) bool {
	ic := Classify(err)
	if ic == model {
		return true
	}
	if (model == ErrConflict || model == ErrNoTasks) && err != nil && strings.HasPrefix(ic, "other: ") && !strings.Contains(ic, "panic") {
		return true
	}
	return false
}
