package gprog

import (
	"context"
	"fmt"
	"sync"

	"github.com/cloudwego/eino/compose"
	"github.com/cloudwego/eino/schema"
)

// RunRec is the per-run record carried in the context: execution log, branch script, hooks.
type RunRec struct {
	mu     sync.Mutex
	Log    []Entry
	Script Script
	occ    map[string]int
	// Body, when set, is called inside every lambda body before it computes (e.g. vsched.Yield, fault injection).
	Body func(ctx context.Context, path string, in Val) error
	// After, when set, is called at the end of every lambda body (after the node function was computed).
	After func(ctx context.Context, path string)
	// BranchEvals counts branch condition evaluations.
	BranchEvals int
	// Post counts state post-handler executions per node path (see PostCounter).
	Post map[string]int
	// Pre counts state pre-handler executions per node path.
	Pre map[string]int
}

// St is the graph state type used by instrumented programs.
type St struct {
	Counter int
	Log     []string
	Saved   map[string]any
}

// GenState is a state generator for compose.WithGenLocalState.
func GenState(ctx context.Context) *St { return &St{} }

// PostCounter is a state post-handler that counts collections of the node at path.
func PostCounter(path string) compose.GraphAddNodeOpt {
	return compose.WithStatePostHandler(func(ctx context.Context, out Val, st *St) (Val, error) {
		if r := RunOf(ctx); r != nil {
			r.mu.Lock()
			if r.Post == nil {
				r.Post = map[string]int{}
			}
			r.Post[path]++
			r.mu.Unlock()
		}
		return out, nil
	})
}

type recKey struct{}

func NewRun(script Script) *RunRec { return &RunRec{Script: script, occ: map[string]int{}} }

func WithRun(ctx context.Context, r *RunRec) context.Context {
	return context.WithValue(ctx, recKey{}, r)
}

func RunOf(ctx context.Context) *RunRec {
	r, _ := ctx.Value(recKey{}).(*RunRec)
	return r
}

func (r *RunRec) add(e Entry) {
	r.mu.Lock()
	r.Log = append(r.Log, e)
	r.mu.Unlock()
}

// Snapshot returns a copy of the log.
func (r *RunRec) Snapshot() []Entry {
	r.mu.Lock()
	defer r.mu.Unlock()
	return append([]Entry{}, r.Log...)
}

func (r *RunRec) answer(srcPath string, idx int, b *Branch) []string {
	r.mu.Lock()
	defer r.mu.Unlock()
	r.BranchEvals++
	ok := fmt.Sprintf("%s#%d", srcPath, idx)
	n := r.occ[ok]
	r.occ[ok] = n + 1
	key := BranchKey{Path: srcPath, Idx: idx, Occ: n}.String()
	ans, has := r.Script[key]
	if b.Multi {
		if !has {
			ans = 1
		}
		var sel []string
		for i, t := range b.Targets {
			if ans&(1<<i) != 0 {
				sel = append(sel, t)
			}
		}
		return sel
	}
	if ans >= len(b.Targets) {
		ans = 0
	}
	return []string{b.Targets[ans]}
}

// BuildOpts customises construction.
type BuildOpts struct {
	// NodeOpts returns extra AddNode options for the node at path (state handlers, keys ...).
	NodeOpts func(path string, n *Node) []compose.GraphAddNodeOpt
	// Lambda, when set, replaces the default invokable lambda of the node at path.
	Lambda func(path string, n *Node) *compose.Lambda
	// GraphOpts returns NewGraph options for the (sub-)graph at path ("" = top level).
	GraphOpts func(path string) []compose.NewGraphOption
	// CompileOpts returns extra compile options for the (sub-)graph at path.
	CompileOpts func(path string) []compose.GraphCompileOption
	// StreamBranch builds branches with stream conditions that read only the first chunk.
	StreamBranch bool
}

// DefaultLambda is the instrumented invokable lambda of node n at path.
func DefaultLambda(path string, key string) *compose.Lambda {
	return compose.InvokableLambda(func(ctx context.Context, in Val) (Val, error) {
		return LambdaBody(ctx, path, key, in)
	})
}

// LambdaBody logs the execution, runs the body hook and computes the node function.
func LambdaBody(ctx context.Context, path string, key string, in Val) (Val, error) {
	r := RunOf(ctx)
	if r != nil {
		r.add(Entry{Path: path, In: Canon(in)})
		if r.Body != nil {
			if err := r.Body(ctx, path, in); err != nil {
				return nil, err
			}
		}
	}
	out := NodeFn(key, in)
	if r != nil && r.After != nil {
		r.After(ctx, path)
	}
	return out, nil
}

func mkBranch(srcPath string, idx int, b Branch, stream bool) *compose.GraphBranch {
	ends := map[string]bool{}
	for _, t := range b.Targets {
		ends[t] = true
	}
	bc := b
	if stream {
		// a stream condition that reads only a prefix (one chunk) of its input and closes it
		if b.Multi {
			return compose.NewStreamGraphMultiBranch(func(ctx context.Context, in *schema.StreamReader[Val]) (map[string]bool, error) {
				_, _ = in.Recv()
				in.Close()
				sel := map[string]bool{}
				for _, t := range RunOf(ctx).answer(srcPath, idx, &bc) {
					sel[t] = true
				}
				return sel, nil
			}, ends)
		}
		return compose.NewStreamGraphBranch(func(ctx context.Context, in *schema.StreamReader[Val]) (string, error) {
			_, _ = in.Recv()
			in.Close()
			return RunOf(ctx).answer(srcPath, idx, &bc)[0], nil
		}, ends)
	}
	if b.Multi {
		return compose.NewGraphMultiBranch(func(ctx context.Context, in Val) (map[string]bool, error) {
			sel := map[string]bool{}
			for _, t := range RunOf(ctx).answer(srcPath, idx, &bc) {
				sel[t] = true
			}
			return sel, nil
		}, ends)
	}
	return compose.NewGraphBranch(func(ctx context.Context, in Val) (string, error) {
		return RunOf(ctx).answer(srcPath, idx, &bc)[0], nil
	}, ends)
}

func modeOpts(p *Prog) []compose.GraphCompileOption {
	var o []compose.GraphCompileOption
	if p.Mode == MDag {
		o = append(o, compose.WithNodeTriggerMode(compose.AllPredecessor))
	}
	if p.Mode == MPregel && p.MaxSteps > 0 {
		o = append(o, compose.WithMaxRunSteps(p.MaxSteps))
	}
	return o
}

// BuildAny constructs the uncompiled graph/workflow for p rooted at path.
func BuildAny(p *Prog, path string, bo *BuildOpts) (compose.AnyGraph, error) {
	if bo == nil {
		bo = &BuildOpts{}
	}
	var gopts []compose.NewGraphOption
	if bo.GraphOpts != nil {
		gopts = bo.GraphOpts(path)
	}
	nodeOpts := func(n *Node) []compose.GraphAddNodeOpt {
		var o []compose.GraphAddNodeOpt
		if bo.NodeOpts != nil {
			o = append(o, bo.NodeOpts(join(path, n.Key), n)...)
		}
		if n.Kind == KSub {
			co := modeOpts(n.Sub)
			if bo.CompileOpts != nil {
				co = append(co, bo.CompileOpts(join(path, n.Key))...)
			}
			if len(co) > 0 {
				o = append(o, compose.WithGraphCompileOptions(co...))
			}
		}
		return o
	}
	lambdaOf := func(n *Node) *compose.Lambda {
		if bo.Lambda != nil {
			if l := bo.Lambda(join(path, n.Key), n); l != nil {
				return l
			}
		}
		return DefaultLambda(join(path, n.Key), n.Key)
	}
	if p.Mode == MWorkflow {
		wf := compose.NewWorkflow[Val, Val](gopts...)
		wnodes := map[string]*compose.WorkflowNode{}
		for i := range p.Nodes {
			n := &p.Nodes[i]
			switch n.Kind {
			case KPass:
				wnodes[n.Key] = wf.AddPassthroughNode(n.Key, nodeOpts(n)...)
			case KSub:
				sub, err := BuildAny(n.Sub, join(path, n.Key), bo)
				if err != nil {
					return nil, err
				}
				wnodes[n.Key] = wf.AddGraphNode(n.Key, sub, nodeOpts(n)...)
			default:
				wnodes[n.Key] = wf.AddLambdaNode(n.Key, lambdaOf(n), nodeOpts(n)...)
			}
		}
		wnodes[END] = wf.End()
		for _, e := range p.Edges {
			to := wnodes[e.To]
			if to == nil {
				return nil, fmt.Errorf("edge to unknown node %s", e.To)
			}
			switch {
			case e.NoData:
				to.AddDependency(e.From)
			case e.NoControl:
				to.AddInputWithOptions(e.From, []*compose.FieldMapping{compose.ToField(e.From)}, compose.WithNoDirectDependency())
			default:
				to.AddInput(e.From, compose.ToField(e.From))
			}
		}
		idx := map[string]int{}
		for _, b := range p.Branches {
			wf.AddBranch(b.From, mkBranch(join(path, b.From), idx[b.From], b, bo.StreamBranch))
			idx[b.From]++
		}
		return wf, nil
	}
	g := compose.NewGraph[Val, Val](gopts...)
	for i := range p.Nodes {
		n := &p.Nodes[i]
		var err error
		switch n.Kind {
		case KPass:
			err = g.AddPassthroughNode(n.Key, nodeOpts(n)...)
		case KSub:
			var sub compose.AnyGraph
			sub, err = BuildAny(n.Sub, join(path, n.Key), bo)
			if err == nil {
				err = g.AddGraphNode(n.Key, sub, nodeOpts(n)...)
			}
		default:
			err = g.AddLambdaNode(n.Key, lambdaOf(n), nodeOpts(n)...)
		}
		if err != nil {
			return nil, err
		}
	}
	for _, e := range p.Edges {
		if err := g.AddEdge(e.From, e.To); err != nil {
			return nil, err
		}
	}
	idx := map[string]int{}
	for _, b := range p.Branches {
		if err := g.AddBranch(b.From, mkBranch(join(path, b.From), idx[b.From], b, bo.StreamBranch)); err != nil {
			return nil, err
		}
		idx[b.From]++
	}
	return g, nil
}

// Compile builds and compiles p.
func Compile(ctx context.Context, p *Prog, bo *BuildOpts, extra ...compose.GraphCompileOption) (compose.Runnable[Val, Val], error) {
	ag, err := BuildAny(p, "", bo)
	if err != nil {
		return nil, err
	}
	opts := append(modeOpts(p), extra...)
	if bo != nil && bo.CompileOpts != nil {
		opts = append(opts, bo.CompileOpts("")...)
	}
	switch g := ag.(type) {
	case *compose.Graph[Val, Val]:
		return g.Compile(ctx, opts...)
	case *compose.Workflow[Val, Val]:
		return g.Compile(ctx, opts...)
	}
	return nil, fmt.Errorf("unexpected graph type %T", ag)
}
