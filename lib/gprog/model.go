package gprog

import (
	"fmt"
	"sort"
)

// Error classes of the reference models.
const (
	ErrMaxSteps   = "max-steps"
	ErrConflict   = "merge-conflict"
	ErrNoTasks    = "no-tasks"
	ErrEndSkipped = "end-not-reached"
)

// Outcome of a model run.
type Outcome struct {
	Result    Val
	Err       string               // "" or one of the classes above (an inner failure is reported with the same class)
	Steps     [][]Entry            // top level: executions per superstep (pregel) or the whole run as one set (dag), inner executions flattened in
	Inner     map[string][][]Entry // per sub-graph node path: its own step lists, concatenated over its executions
	Decisions []Decision           // branch answers requested, in model order
	Execs     int                  // node executions
	ModelSteps int
}

// Model interprets programs under a script of branch answers.
type Model struct {
	Script Script
	occ    map[string]int
	out    *Outcome
	// StateSink receives canonical model states (optional)
	StateSink func(string)
}

func join(path, key string) string {
	if path == "" {
		return key
	}
	return path + "/" + key
}

func (m *Model) decide(srcPath string, idx int, b *Branch) []string {
	ok := fmt.Sprintf("%s#%d", srcPath, idx)
	n := m.occ[ok]
	m.occ[ok] = n + 1
	key := BranchKey{Path: srcPath, Idx: idx, Occ: n}.String()
	ans, has := m.Script[key]
	if b.Multi {
		if !has {
			ans = 1
		}
		m.out.Decisions = append(m.out.Decisions, Decision{Key: key, Arity: 1 << len(b.Targets), Multi: true, Ans: ans})
		var sel []string
		for i, t := range b.Targets {
			if ans&(1<<i) != 0 {
				sel = append(sel, t)
			}
		}
		return sel
	}
	m.out.Decisions = append(m.out.Decisions, Decision{Key: key, Arity: len(b.Targets), Ans: ans})
	if ans >= len(b.Targets) {
		ans = 0
	}
	return []string{b.Targets[ans]}
}

func mergeVals(vs []Val) (Val, bool) {
	if len(vs) == 1 {
		return vs[0], true
	}
	out := Val{}
	for _, v := range vs {
		for k, x := range v {
			if _, dup := out[k]; dup {
				return nil, false
			}
			out[k] = x
		}
	}
	return out, true
}

// NodeFn is the deterministic function every lambda node computes.
func NodeFn(key string, in Val) Val {
	return Val{key: key + "(" + Canon(in) + ")"}
}

// Run interprets p on input.
func (m *Model) Run(p *Prog, input Val) *Outcome {
	m.occ = map[string]int{}
	m.out = &Outcome{Inner: map[string][][]Entry{}}
	res, err, steps := m.run(p, "", input)
	m.out.Result, m.out.Err, m.out.Steps = res, err, steps
	return m.out
}

func (m *Model) run(p *Prog, path string, input Val) (Val, string, [][]Entry) {
	if p.Mode == MPregel {
		return m.runPregel(p, path, input)
	}
	return m.runDag(p, path, input)
}

// exec runs one node; entries produced (own + inner flattened) are appended to *step.
func (m *Model) exec(p *Prog, path string, n *Node, in Val, step *[]Entry) (Val, string) {
	np := join(path, n.Key)
	m.out.Execs++
	switch n.Kind {
	case KPass:
		return in, ""
	case KSub:
		res, err, inner := m.run(n.Sub, np, in)
		m.out.Inner[np] = append(m.out.Inner[np], inner...)
		for _, s := range inner {
			*step = append(*step, s...)
		}
		return res, err
	default:
		*step = append(*step, Entry{Path: np, In: Canon(in)})
		return NodeFn(n.Key, in), ""
	}
}

func sortedKeys[V any](mm map[string]V) []string {
	ks := make([]string, 0, len(mm))
	for k := range mm {
		ks = append(ks, k)
	}
	sort.Strings(ks)
	return ks
}

// ---------------------------------------------------------------------------------------------------
// Pregel: lock-step supersteps (the statement of C01)

func (m *Model) runPregel(p *Prog, path string, input Val) (Val, string, [][]Entry) {
	limit := p.MaxSteps
	if limit == 0 {
		limit = len(p.Nodes) + 10
	}
	var steps [][]Entry
	inbox := map[string]map[string]Val{}
	deliver := func(from string, out Val) {
		for _, e := range p.Edges {
			if e.From == from {
				if inbox[e.To] == nil {
					inbox[e.To] = map[string]Val{}
				}
				inbox[e.To][from] = out
			}
		}
		bi := 0
		for i := range p.Branches {
			b := &p.Branches[i]
			if b.From != from {
				continue
			}
			for _, t := range m.decide(join(path, from), bi, b) {
				if inbox[t] == nil {
					inbox[t] = map[string]Val{}
				}
				inbox[t][from] = out
			}
			bi++
		}
	}
	deliver(START, input)
	for step := 0; ; step++ {
		m.out.ModelSteps++
		if m.StateSink != nil {
			m.StateSink(fmt.Sprintf("%s|%s|%d|%v", p.String(), path, step, sortedKeys(inbox)))
		}
		// merge every inbox first: a conflict anywhere fails the run
		merged := map[string]Val{}
		for _, t := range sortedKeys(inbox) {
			var vs []Val
			for _, f := range sortedKeys(inbox[t]) {
				vs = append(vs, inbox[t][f])
			}
			v, ok := mergeVals(vs)
			if !ok {
				return nil, ErrConflict, steps
			}
			merged[t] = v
		}
		if v, ok := merged[END]; ok {
			return v, "", steps
		}
		if step >= limit {
			return nil, ErrMaxSteps, steps
		}
		if len(merged) == 0 {
			return nil, ErrNoTasks, steps
		}
		inbox = map[string]map[string]Val{}
		var cur []Entry
		outs := map[string]Val{}
		firstErr := ""
		for _, t := range sortedKeys(merged) {
			// all nodes of a superstep run (in parallel in the implementation) even if one of them fails
			out, err := m.exec(p, path, p.Node(t), merged[t], &cur)
			if err != "" {
				if firstErr == "" {
					firstErr = err
				}
				continue
			}
			outs[t] = out
		}
		steps = append(steps, cur)
		if firstErr != "" {
			return nil, firstErr, steps
		}
		for _, t := range sortedKeys(outs) {
			deliver(t, outs[t])
		}
	}
}

// ---------------------------------------------------------------------------------------------------
// All-predecessor mode and Workflow (the statement of C02)

type depKind int

func (m *Model) runDag(p *Prog, path string, input Val) (Val, string, [][]Entry) {
	// predecessor relations
	type pred struct {
		from    string
		control bool
		data    bool
		viaBr   bool // reached through a branch of `from`
	}
	preds := map[string][]pred{}
	for _, e := range p.Edges {
		preds[e.To] = append(preds[e.To], pred{from: e.From, control: !e.NoControl, data: !e.NoData})
	}
	brData := p.Mode == MDag // Graph branches carry data; Workflow branches are control-only
	for _, b := range p.Branches {
		for _, t := range b.Targets {
			dup := false
			for i := range preds[t] {
				if preds[t][i].from == b.From && preds[t][i].viaBr {
					dup = true
				}
			}
			if !dup {
				preds[t] = append(preds[t], pred{from: b.From, control: true, data: brData, viaBr: true})
			}
		}
	}
	// topological order over control+data arcs (programs are acyclic: compile rejects cycles)
	order := topo(p, func(n string) []string {
		var fs []string
		for _, pr := range preds[n] {
			fs = append(fs, pr.from)
		}
		return fs
	})
	ran := map[string]bool{START: true}
	skipped := map[string]bool{}
	outs := map[string]Val{START: input}
	selected := map[string]map[string]bool{} // from -> targets selected by any of its branches
	var all []Entry
	evalBranches := func(from string) {
		bi := 0
		for i := range p.Branches {
			b := &p.Branches[i]
			if b.From != from {
				continue
			}
			if selected[from] == nil {
				selected[from] = map[string]bool{}
			}
			for _, t := range m.decide(join(path, from), bi, b) {
				selected[from][t] = true
			}
			bi++
		}
	}
	evalBranches(START)
	var result Val
	endReached := false
	for _, n := range order {
		m.out.ModelSteps++
		routed := false
		allResolved := true
		var vs []Val
		var vfrom []string
		for _, pr := range preds[n] {
			done := ran[pr.from] || skipped[pr.from]
			if !done {
				allResolved = false
			}
			if !ran[pr.from] {
				continue
			}
			reached := !pr.viaBr || selected[pr.from][n]
			if pr.control && reached {
				routed = true
			}
			if pr.data && reached {
				vs = append(vs, outs[pr.from])
				vfrom = append(vfrom, pr.from)
			}
		}
		_ = allResolved
		if !routed {
			skipped[n] = true
			continue
		}
		var in Val
		if p.Mode == MWorkflow {
			in = Val{}
			for i, f := range vfrom {
				in[f] = vs[i]
			}
		} else if len(vs) == 0 {
			in = nil
		} else {
			v, ok := mergeVals(vs)
			if !ok {
				return nil, ErrConflict, [][]Entry{all}
			}
			in = v
		}
		if m.StateSink != nil {
			m.StateSink(fmt.Sprintf("%s|%s|%s|ran=%v|skip=%v", p.String(), path, n, sortedKeys(ran), sortedKeys(skipped)))
		}
		if n == END {
			result, endReached = in, true
			continue
		}
		out, err := m.exec(p, path, p.Node(n), in, &all)
		if err != "" {
			return nil, err, [][]Entry{all}
		}
		ran[n] = true
		outs[n] = out
		evalBranches(n)
	}
	if !endReached {
		return nil, ErrEndSkipped, [][]Entry{all}
	}
	return result, "", [][]Entry{all}
}

func topo(p *Prog, predsOf func(string) []string) []string {
	var order []string
	state := map[string]int{START: 2}
	var visit func(n string)
	visit = func(n string) {
		if state[n] != 0 {
			return
		}
		state[n] = 1
		fs := predsOf(n)
		sort.Strings(fs)
		for _, f := range fs {
			visit(f)
		}
		state[n] = 2
		order = append(order, n)
	}
	keys := []string{}
	for _, n := range p.Nodes {
		keys = append(keys, n.Key)
	}
	sort.Strings(keys)
	for _, k := range keys {
		visit(k)
	}
	visit(END)
	return order
}

// AllScripts enumerates, by DFS over the model's own decision points, every script of branch answers for p
// on input (bounded by maxRuns). Each script is delivered with the model outcome under it.
func AllScripts(p *Prog, input Val, maxRuns int, sink func(string), f func(s Script, o *Outcome) bool) (runs int, capped bool) {
	var rec func(prefix []Decision) bool
	rec = func(prefix []Decision) bool {
		if runs >= maxRuns {
			capped = true
			return false
		}
		s := Script{}
		for _, d := range prefix {
			s[d.Key] = d.Ans
		}
		m := &Model{Script: s, StateSink: sink}
		o := m.Run(p, input)
		runs++
		if !f(s, o) {
			return false
		}
		for i := len(prefix); i < len(o.Decisions); i++ {
			d := o.Decisions[i]
			for alt := 0; alt < d.Arity; alt++ {
				if alt == d.Ans {
					continue
				}
				np := append(append([]Decision{}, o.Decisions[:i]...), Decision{Key: d.Key, Arity: d.Arity, Multi: d.Multi, Ans: alt})
				if !rec(np) {
					return false
				}
			}
		}
		return true
	}
	rec(nil)
	return
}
