package intr

// Typed interrupt/resume histories. The gprog programs of the other groups carry one value type
// (map[string]any) on every edge, so everything in the checkpoint code that depends on the TYPES at an
// interrupt (which stream/value conversion pair belongs to START, to a pass-through, to a node with an
// input/output key, to a nested graph; graphs whose input type differs from their output type) is invisible
// there. This family is a small set of curated graphs over {int, string, map[string]any} with differing
// input and output types, pass-throughs typed from either side, keyed nodes, START fan-in in all-predecessor
// mode and a nested graph; every set of <= 2 interrupt points (per level), every paradigm pattern.
//
// Reference = the same graph compiled WITHOUT interrupt points and run once with Invoke on the implementation
// (differential against the uninterrupted run, as the C05 statement says); the C06 clauses are checked on the
// calls themselves.

import (
	"context"
	"fmt"
	"io"
	"sort"
	"strconv"
	"strings"
	"sync"

	"github.com/cloudwego/eino/compose"
	"github.com/cloudwego/eino/schema"

	"verif/lib/gprog"
)

type tnode struct {
	Key    string  `json:"key"`
	In     string  `json:"in,omitempty"`  // N | S | M
	Out    string  `json:"out,omitempty"` // N | S | M
	Pass   bool    `json:"pass,omitempty"`
	Kind   string  `json:"kind,omitempty"` // "" invokable | "stream0": streamable, sends NO chunk | "collect": collectable
	InKey  string  `json:"in_key,omitempty"`
	OutKey string  `json:"out_key,omitempty"`
	Sub    *tgraph `json:"sub,omitempty"`
}

type tgraph struct {
	Name string `json:"name"`
	In   string `json:"in"`
	Out  string `json:"out"`
	Dag  bool   `json:"dag,omitempty"`
	// StreamOnly: the graph is only meaningful in the stream paradigm (Invoke concatenates a streaming node's
	// output, and a stream without chunks does not concatenate): reference run and every call use Stream
	StreamOnly bool `json:"stream_only,omitempty"`
	// ChainPar: the graph is built as a Chain: lambda head, then a Parallel of the nested graph "sub" (Parallel.AddGraph,
	// with the nested interrupt points as the caller's WithGraphCompileOptions) and the lambda "l"; Edges describe the
	// same structure for the judges
	ChainPar bool        `json:"chain_par,omitempty"`
	Nodes    []tnode     `json:"nodes"`
	Edges    [][2]string `json:"edges"`
}

// TypedTrace is one typed history.
type TypedTrace struct {
	Graph   string            `json:"graph"`
	Ints    map[string]IntCfg `json:"ints"` // "" = top level, "sub" = the nested graph
	Pattern []string          `json:"pattern"`
}

func (t *TypedTrace) String() string {
	var parts []string
	for _, k := range sortedKeys(t.Ints) {
		c := t.Ints[k]
		parts = append(parts, fmt.Sprintf("%q:before%v,after%v", k, c.Before, c.After))
	}
	return fmt.Sprintf("typed/%s ints{%s} calls=%v", t.Graph, strings.Join(parts, " "), t.Pattern)
}

func typedGraphs() []*tgraph {
	sub := &tgraph{Name: "sub", In: "S", Out: "N", Nodes: []tnode{{Key: "x", In: "S", Out: "S"}, {Key: "y", In: "S", Out: "N"}}, Edges: [][2]string{{"start", "x"}, {"x", "y"}, {"y", "end"}}}
	var gs []*tgraph
	for _, dag := range []bool{false, true} {
		sfx := "/pregel"
		if dag {
			sfx = "/dag"
		}
		gs = append(gs,
			// a pass-through typed from a predecessor whose input and output types differ (edges are added in list order)
			&tgraph{Name: "conv-pass-tail" + sfx, In: "N", Out: "S", Dag: dag, Nodes: []tnode{{Key: "conv", In: "N", Out: "S"}, {Key: "p", Pass: true}, {Key: "tail", In: "S", Out: "S"}},
				Edges: [][2]string{{"start", "conv"}, {"conv", "p"}, {"p", "tail"}, {"tail", "end"}}},
			// ... and typed backwards from its successor
			&tgraph{Name: "conv-pass-tail-backwards" + sfx, In: "N", Out: "S", Dag: dag, Nodes: []tnode{{Key: "conv", In: "N", Out: "S"}, {Key: "p", Pass: true}, {Key: "tail", In: "S", Out: "S"}},
				Edges: [][2]string{{"p", "tail"}, {"start", "conv"}, {"conv", "p"}, {"tail", "end"}}},
			// a pass-through directly behind START of a graph whose output type differs from its input type
			&tgraph{Name: "start-pass" + sfx, In: "S", Out: "N", Dag: dag, Nodes: []tnode{{Key: "p", Pass: true}, {Key: "a", In: "S", Out: "S"}, {Key: "b", In: "S", Out: "N"}},
				Edges: [][2]string{{"start", "p"}, {"p", "a"}, {"a", "b"}, {"b", "end"}}},
			// keyed nodes: input key on a, output keys on the nodes that feed END (fan-in of maps)
			&tgraph{Name: "keys" + sfx, In: "M", Out: "M", Dag: dag, Nodes: []tnode{{Key: "a", In: "S", Out: "S", InKey: "q", OutKey: "a"}, {Key: "b", In: "S", Out: "N", InKey: "q", OutKey: "b"}},
				Edges: [][2]string{{"start", "a"}, {"start", "b"}, {"a", "end"}, {"b", "end"}}},
			// a nested graph between two conversions
			&tgraph{Name: "nested" + sfx, In: "S", Out: "S", Dag: dag, Nodes: []tnode{{Key: "sub", Sub: sub}, {Key: "c", In: "N", Out: "S"}},
				Edges: [][2]string{{"start", "sub"}, {"sub", "c"}, {"c", "end"}}},
		)
	}
	for _, dag := range []bool{false, true} {
		sfx := "/pregel"
		if dag {
			sfx = "/dag"
		}
		// a pending input that is a stream WITHOUT chunks (a streaming filter that lets nothing through, read by a
		// collecting node): it must survive the interrupt like any other value
		gs = append(gs, &tgraph{Name: "empty-stream" + sfx, In: "S", Out: "S", Dag: dag, StreamOnly: true, Nodes: []tnode{{Key: "filter", In: "S", Out: "S", Kind: "stream0"}, {Key: "count", In: "S", Out: "S", Kind: "collect"}, {Key: "tail", In: "S", Out: "S"}},
			Edges: [][2]string{{"start", "filter"}, {"filter", "count"}, {"count", "tail"}, {"tail", "end"}}})
	}
	for _, dag := range []bool{false, true} {
		sfx := "/pregel"
		if dag {
			sfx = "/dag"
		}
		// a node with an input key AND an output key, a pass-through typed from it, a keyed consumer: the value parked
		// in front of the pass-through at an interrupt is the MAP the keyed node hands to the graph
		gs = append(gs, &tgraph{Name: "keys-pass" + sfx, In: "M", Out: "M", Dag: dag, Nodes: []tnode{{Key: "a", In: "S", Out: "S", InKey: "q", OutKey: "a"}, {Key: "p", Pass: true}, {Key: "b", In: "S", Out: "N", InKey: "a", OutKey: "b"}},
			Edges: [][2]string{{"start", "a"}, {"a", "p"}, {"p", "b"}, {"b", "end"}}})
	}
	// a nested graph added to the Parallel of a Chain: its interrupt points travel as the caller's compile options of that node
	gs = append(gs, &tgraph{Name: "chain-parallel-sub", In: "S", Out: "M", ChainPar: true, Nodes: []tnode{{Key: "head", In: "S", Out: "S"}, {Key: "sub", Sub: sub, OutKey: "sub"}, {Key: "l", In: "S", Out: "S", OutKey: "l"}},
		Edges: [][2]string{{"start", "head"}, {"head", "sub"}, {"head", "l"}, {"sub", "end"}, {"l", "end"}}})
	// START's value parked in a channel at the interrupt: b waits for START and for a (all-predecessor mode only)
	gs = append(gs, &tgraph{Name: "start-fanin/dag", In: "M", Out: "S", Dag: true, Nodes: []tnode{{Key: "a", In: "M", Out: "S", OutKey: "a"}, {Key: "b", In: "M", Out: "S"}},
		Edges: [][2]string{{"start", "a"}, {"start", "b"}, {"a", "b"}, {"b", "end"}}})
	return gs
}

func typedInput(t string) any {
	switch t {
	case "N":
		return 3
	case "S":
		return "x"
	}
	return map[string]any{"q": "x"}
}

func renderTyped(v any) string {
	switch x := v.(type) {
	case map[string]any:
		return gprog.Canon(x)
	case nil:
		return "<nil>"
	}
	return fmt.Sprint(v)
}

type typedLog struct {
	mu     sync.Mutex
	call   int
	execs  []string         // "key(in)"
	byCall map[int][]string // node keys started per call, in order
}

func (l *typedLog) add(key string, in any) {
	l.mu.Lock()
	defer l.mu.Unlock()
	l.execs = append(l.execs, key+"("+renderTyped(in)+")")
	l.byCall[l.call] = append(l.byCall[l.call], key)
}

func lambdaFor(n tnode, path string, log *typedLog) *compose.Lambda {
	key := path + n.Key
	switch n.Kind {
	case "stream0":
		// a streaming filter that lets nothing through: a stream that ends without a single chunk is a legal value
		return compose.StreamableLambda(func(ctx context.Context, in string) (*schema.StreamReader[string], error) {
			log.add(key, in)
			sr, sw := schema.Pipe[string](1)
			sw.Close()
			return sr, nil
		})
	case "collect":
		return compose.CollectableLambda(func(ctx context.Context, in *schema.StreamReader[string]) (string, error) {
			defer in.Close()
			got := ""
			n := 0
			for {
				c, err := in.Recv()
				if err == io.EOF {
					break
				}
				if err != nil {
					return "", err
				}
				got += c
				n++
			}
			log.add(key, fmt.Sprintf("%d chunks:%s", n, got))
			return key + "(" + got + ")", nil
		})
	}
	switch n.In + ">" + n.Out {
	case "N>S":
		return compose.InvokableLambda(func(ctx context.Context, in int) (string, error) {
			log.add(key, in)
			return key + "(" + strconv.Itoa(in) + ")", nil
		})
	case "S>S":
		return compose.InvokableLambda(func(ctx context.Context, in string) (string, error) {
			log.add(key, in)
			return key + "(" + in + ")", nil
		})
	case "S>N":
		return compose.InvokableLambda(func(ctx context.Context, in string) (int, error) {
			log.add(key, in)
			return len(in), nil
		})
	case "M>S":
		return compose.InvokableLambda(func(ctx context.Context, in map[string]any) (string, error) {
			log.add(key, in)
			return key + "(" + gprog.Canon(in) + ")", nil
		})
	}
	panic("typed: no lambda for " + n.In + ">" + n.Out)
}

func fillGraph(add func(n tnode, opts []compose.GraphAddNodeOpt) error, edge func(a, b string) error, tg *tgraph, path string, ints map[string]IntCfg, log *typedLog) error {
	for _, n := range tg.Nodes {
		var opts []compose.GraphAddNodeOpt
		if n.InKey != "" {
			opts = append(opts, compose.WithInputKey(n.InKey))
		}
		if n.OutKey != "" {
			opts = append(opts, compose.WithOutputKey(n.OutKey))
		}
		if err := add(n, opts); err != nil {
			return err
		}
	}
	for _, e := range tg.Edges {
		a, b := e[0], e[1]
		if a == "start" {
			a = compose.START
		}
		if b == "end" {
			b = compose.END
		}
		if err := edge(a, b); err != nil {
			return err
		}
	}
	return nil
}

func intOpts(c IntCfg) []compose.GraphCompileOption {
	var o []compose.GraphCompileOption
	if len(c.Before) > 0 {
		o = append(o, compose.WithInterruptBeforeNodes(c.Before))
	}
	if len(c.After) > 0 {
		o = append(o, compose.WithInterruptAfterNodes(c.After))
	}
	return o
}

func newTypedGraph[I, O any](tg *tgraph, path string, ints map[string]IntCfg, log *typedLog) (*compose.Graph[I, O], error) {
	g := compose.NewGraph[I, O]()
	add := func(n tnode, opts []compose.GraphAddNodeOpt) error {
		switch {
		case n.Pass:
			return g.AddPassthroughNode(n.Key, opts...)
		case n.Sub != nil:
			sg, err := newTypedGraph[string, int](n.Sub, path+n.Key+"/", ints, log)
			if err != nil {
				return err
			}
			co := intOpts(ints[strings.TrimSuffix(path+n.Key, "/")])
			if n.Sub.Dag || tg.Dag {
				co = append(co, compose.WithNodeTriggerMode(compose.AllPredecessor))
			}
			return g.AddGraphNode(n.Key, sg, append(opts, compose.WithGraphCompileOptions(co...))...)
		}
		return g.AddLambdaNode(n.Key, lambdaFor(n, path, log), opts...)
	}
	return g, fillGraph(add, g.AddEdge, tg, path, ints, log)
}

type typedRunnable struct {
	call func(ctx context.Context, mode string, in any, opts ...compose.Option) (string, error)
}

func drainTyped[O any](sr *schema.StreamReader[O]) (string, error) {
	defer sr.Close()
	var chunks []any
	for {
		v, err := sr.Recv()
		if err == io.EOF {
			break
		}
		if err != nil {
			return "", err
		}
		chunks = append(chunks, any(v))
	}
	if len(chunks) == 0 {
		return "", fmt.Errorf("empty output stream")
	}
	switch chunks[0].(type) {
	case map[string]any:
		m := map[string]any{}
		for _, c := range chunks {
			for k, v := range c.(map[string]any) {
				m[k] = v
			}
		}
		return renderTyped(m), nil
	case string:
		s := ""
		for _, c := range chunks {
			s += c.(string)
		}
		return s, nil
	}
	if len(chunks) != 1 {
		return "", fmt.Errorf("%d chunks of a type that does not concatenate: %v", len(chunks), chunks)
	}
	return renderTyped(chunks[0]), nil
}

// chainParallel builds a ChainPar graph: head -> Parallel{sub (nested graph), l} as a Chain[string, map].
func chainParallel(tg *tgraph, ints map[string]IntCfg, log *typedLog, co []compose.GraphCompileOption) (compose.Runnable[string, map[string]any], error) {
	ch := compose.NewChain[string, map[string]any]()
	par := compose.NewParallel()
	for _, n := range tg.Nodes {
		switch {
		case n.Sub != nil:
			sg, err := newTypedGraph[string, int](n.Sub, n.Key+"/", ints, log)
			if err != nil {
				return nil, err
			}
			par.AddGraph(n.OutKey, sg, compose.WithNodeKey(n.Key), compose.WithGraphCompileOptions(intOpts(ints[n.Key])...))
		case n.OutKey != "":
			par.AddLambda(n.OutKey, lambdaFor(n, "", log), compose.WithNodeKey(n.Key))
		default:
			ch.AppendLambda(lambdaFor(n, "", log), compose.WithNodeKey(n.Key))
		}
	}
	ch.AppendParallel(par)
	return ch.Compile(context.Background(), co...)
}

func compileTyped[I, O any](tg *tgraph, ints map[string]IntCfg, store compose.CheckPointStore, log *typedLog) (*typedRunnable, error) {
	co := intOpts(ints[""])
	if tg.Dag {
		co = append(co, compose.WithNodeTriggerMode(compose.AllPredecessor))
	}
	if store != nil {
		co = append(co, compose.WithCheckPointStore(store))
	}
	var r compose.Runnable[I, O]
	if tg.ChainPar {
		cr, err := chainParallel(tg, ints, log, co)
		if err != nil {
			return nil, err
		}
		var ok bool
		if r, ok = any(cr).(compose.Runnable[I, O]); !ok {
			return nil, fmt.Errorf("typed: a ChainPar graph is string>map")
		}
	} else {
		g, err := newTypedGraph[I, O](tg, "", ints, log)
		if err != nil {
			return nil, err
		}
		if r, err = g.Compile(context.Background(), co...); err != nil {
			return nil, err
		}
	}
	return &typedRunnable{call: func(ctx context.Context, mode string, in any, opts ...compose.Option) (string, error) {
		if mode == "stream" {
			sr, err := r.Stream(ctx, in.(I), opts...)
			if err != nil {
				return "", err
			}
			return drainTyped(sr)
		}
		v, err := r.Invoke(ctx, in.(I), opts...)
		if err != nil {
			return "", err
		}
		return renderTyped(any(v)), nil
	}}, nil
}

func compileTypedAny(tg *tgraph, ints map[string]IntCfg, store compose.CheckPointStore, log *typedLog) (*typedRunnable, error) {
	switch tg.In + ">" + tg.Out {
	case "N>S":
		return compileTyped[int, string](tg, ints, store, log)
	case "S>N":
		return compileTyped[string, int](tg, ints, store, log)
	case "S>S":
		return compileTyped[string, string](tg, ints, store, log)
	case "M>S":
		return compileTyped[map[string]any, string](tg, ints, store, log)
	case "M>M":
		return compileTyped[map[string]any, map[string]any](tg, ints, store, log)
	case "S>M":
		return compileTyped[string, map[string]any](tg, ints, store, log)
	}
	return nil, fmt.Errorf("typed: no graph type %s>%s", tg.In, tg.Out)
}

type typedCall struct {
	Mode        string
	Interrupted bool
	Info        *compose.InterruptInfo
	Sets        int
	Err         string
	Started     []string
}

type typedResult struct {
	Calls    []typedCall
	Final    string
	FinalErr error
	NoProg   bool
	Execs    []string
	Want     string
	WantExec []string
}

func typedByName(name string) *tgraph {
	for _, g := range typedGraphs() {
		if g.Name == name {
			return g
		}
	}
	return nil
}

// RunTyped executes a typed history and its uninterrupted reference.
func RunTyped(t *TypedTrace) (*typedResult, error) {
	tg := typedByName(t.Graph)
	if tg == nil {
		return nil, fmt.Errorf("unknown typed graph %q", t.Graph)
	}
	res := &typedResult{}
	refLog := &typedLog{byCall: map[int][]string{}}
	ref, err := compileTypedAny(tg, nil, nil, refLog)
	if err != nil {
		return nil, fmt.Errorf("reference graph does not compile: %w", err)
	}
	in := typedInput(tg.In)
	refMode := "invoke"
	if tg.StreamOnly {
		refMode = "stream"
	}
	if res.Want, err = ref.call(context.Background(), refMode, in); err != nil {
		return nil, fmt.Errorf("uninterrupted reference run fails: %w", err)
	}
	res.WantExec = append([]string{}, refLog.execs...)
	sort.Strings(res.WantExec)

	store := &memStore{m: map[string][]byte{}}
	log := &typedLog{byCall: map[int][]string{}}
	r, err := compileTypedAny(tg, t.Ints, store, log)
	if err != nil {
		return nil, fmt.Errorf("graph with interrupt points does not compile: %w", err)
	}
	maxCalls := 2*len(res.WantExec) + 6
	for call := 0; ; call++ {
		if call >= maxCalls {
			res.NoProg = true
			break
		}
		mode := t.Pattern[call%len(t.Pattern)]
		log.mu.Lock()
		log.call = call
		log.mu.Unlock()
		before := store.sets
		out, err := r.call(context.Background(), mode, in, compose.WithCheckPointID("cp"))
		info, isInt := compose.ExtractInterruptInfo(err)
		tc := typedCall{Mode: mode, Interrupted: isInt, Info: info, Sets: store.sets - before, Started: append([]string{}, log.byCall[call]...)}
		if err != nil {
			tc.Err = err.Error()
		}
		res.Calls = append(res.Calls, tc)
		if !isInt {
			res.Final, res.FinalErr = out, err
			break
		}
	}
	res.Execs = append([]string{}, log.execs...)
	sort.Strings(res.Execs)
	return res, nil
}

func (r *typedResult) summary() string {
	var p []string
	for i, c := range r.Calls {
		s := fmt.Sprintf("#%d %s started%v", i, c.Mode, c.Started)
		switch {
		case c.Interrupted:
			s += " -> interrupt " + infoString(c.Info)
		case c.Err != "":
			s += " -> error " + strings.ReplaceAll(c.Err, "\n", " | ")
		default:
			s += " -> done"
		}
		p = append(p, s)
	}
	return strings.Join(p, " ; ")
}

// JudgeTyped applies the C05 or the C06 oracle to a typed history.
func JudgeTyped(prop string, t *TypedTrace, r *typedResult) (string, error) {
	if prop == "C05" {
		switch {
		case r.NoProg:
			return "typed:no-progress", fmt.Errorf("the run did not complete within %d calls; the uninterrupted run returns %s (%s)", len(r.Calls), r.Want, r.summary())
		case r.FinalErr != nil:
			return "typed:final-error", fmt.Errorf("the uninterrupted run returns %s but the interrupted+resumed run fails: %v (%s)", r.Want, r.FinalErr, r.summary())
		case r.Final != r.Want:
			return "typed:final-differs", fmt.Errorf("final output differs: uninterrupted %s, interrupted+resumed %s (%s)", r.Want, r.Final, r.summary())
		case strings.Join(r.Execs, ";") != strings.Join(r.WantExec, ";"):
			return "typed:executions-differ", fmt.Errorf("node invocations differ from the uninterrupted run: got %v want %v (%s)", r.Execs, r.WantExec, r.summary())
		}
		return "", nil
	}
	// C06
	top := t.Ints[""]
	reported := map[string]int{}
	started := map[string]int{}
	for i, c := range r.Calls {
		last := i == len(r.Calls)-1
		if !c.Interrupted && (!last || c.Err != "") && !r.NoProg {
			return "typed:interrupt-not-extractable", fmt.Errorf("call #%d returned an error that is neither a result nor an interrupt from which the interrupt information can be extracted: %s (%s)", i, strings.ReplaceAll(c.Err, "\n", " | "), r.summary())
		}
		if c.Interrupted && c.Sets != 1 {
			return "typed:checkpoint-count", fmt.Errorf("call #%d returned an interrupt under a checkpoint id but wrote %d checkpoints (%s)", i, c.Sets, r.summary())
		}
		if !c.Interrupted && c.Sets != 0 {
			return "typed:checkpoint-count", fmt.Errorf("call #%d returned no interrupt but wrote %d checkpoints (%s)", i, c.Sets, r.summary())
		}
		for _, k := range c.Started {
			if contains(top.Before, k) {
				started[k]++
				if reported[k] < started[k] {
					return "typed:before-ignored", fmt.Errorf("node %s is configured interrupt-before but started in call #%d with only %d preceding interrupt(s) reporting it (%s)", k, i, reported[k], r.summary())
				}
			}
		}
		if c.Interrupted && c.Info != nil {
			for _, k := range c.Info.BeforeNodes {
				if !contains(top.Before, k) {
					return "typed:info-lists-unconfigured", fmt.Errorf("call #%d reports before-node %s which is not configured (%s)", i, k, r.summary())
				}
				reported[k]++
			}
			for _, k := range c.Info.AfterNodes {
				if !contains(top.After, k) {
					return "typed:info-lists-unconfigured", fmt.Errorf("call #%d reports after-node %s which is not configured (%s)", i, k, r.summary())
				}
			}
		}
		// the same two clauses for the nested graph "sub" (its points are configured under that path, its nodes are logged
		// as sub/<key>, its part of the interrupt information hangs under SubGraphs["sub"]); an inner after-node whose
		// completion finishes the inner run need not be reported (the statement's "unless the run finished with it")
		if inner, ok := t.Ints["sub"]; ok {
			var sub *compose.InterruptInfo
			if c.Interrupted {
				sub = infoAt(c.Info, "sub")
			}
			for _, k := range c.Started {
				if !strings.HasPrefix(k, "sub/") {
					continue
				}
				name := k[len("sub/"):]
				if contains(inner.Before, name) {
					started[k]++
					if reported[k] < started[k] {
						return "typed:before-ignored", fmt.Errorf("node %s is configured interrupt-before inside the nested graph but started in call #%d with only %d preceding interrupt(s) reporting it (%s)", k, i, reported[k], r.summary())
					}
				}
				if name == "x" && contains(inner.After, name) && (sub == nil || !contains(sub.AfterNodes, name)) {
					return "typed:after-not-reported", fmt.Errorf("interrupt-after node %s of the nested graph completed in call #%d but the call does not report it (%s)", k, i, r.summary())
				}
			}
			if sub != nil {
				for _, k := range sub.BeforeNodes {
					if !contains(inner.Before, k) {
						return "typed:info-lists-unconfigured", fmt.Errorf("call #%d reports before-node sub/%s which is not configured (%s)", i, k, r.summary())
					}
					reported["sub/"+k]++
				}
			}
		}
		// an after-node that ran in this call: the call must report it, unless the run finished with it
		for _, k := range c.Started {
			if contains(top.After, k) && !(last && !c.Interrupted) {
				if c.Info == nil || !contains(c.Info.AfterNodes, k) {
					return "typed:after-not-reported", fmt.Errorf("interrupt-after node %s completed in call #%d but the call does not report it (%s)", k, i, r.summary())
				}
			}
		}
	}
	if r.NoProg {
		return "typed:no-progress", fmt.Errorf("the run did not complete within %d calls (%s)", len(r.Calls), r.summary())
	}
	return "", nil
}

// typedTraces enumerates the typed histories.
func typedTraces(emit func(t *TypedTrace)) {
	for _, g := range typedGraphs() {
		var keys []string
		for _, n := range g.Nodes {
			keys = append(keys, n.Key)
		}
		sort.Strings(keys)
		var inner []IntCfg
		hasSub := false
		for _, n := range g.Nodes {
			if n.Sub != nil {
				hasSub = true
				inner = append([]IntCfg{{}}, intConfigs([]string{"x", "y"}, 2)...)
			}
		}
		if !hasSub {
			inner = []IntCfg{{}}
		}
		for _, oc := range append([]IntCfg{{}}, intConfigs(keys, 2)...) {
			for _, ic := range inner {
				if len(oc.Before)+len(oc.After)+len(ic.Before)+len(ic.After) == 0 {
					continue
				}
				for _, pat := range patterns {
					if g.StreamOnly && !(len(pat) == 1 && pat[0] == "stream") {
						continue
					}
					ints := map[string]IntCfg{}
					if len(oc.Before)+len(oc.After) > 0 {
						ints[""] = oc
					}
					if len(ic.Before)+len(ic.After) > 0 {
						ints["sub"] = ic
					}
					emit(&TypedTrace{Graph: g.Name, Ints: ints, Pattern: pat})
				}
			}
		}
	}
}
