package intr

// Engine-S part of C05 / C06: interrupt/resume histories of eager Workflows. A Workflow starts every node as
// soon as it is ready and collects completions one by one, so WHICH nodes have completed, are still running or
// have not started when an interrupt is taken depends on the schedule. The same histories as in the native
// part (workflow-mode groups of Groups) are therefore run under the controlled scheduler: every interleaving
// of the run loop and the node goroutines within the preemption bound, each judged with the same oracles.

import (
	"fmt"
	"strings"

	"github.com/cloudwego/eino/vsched"

	"verif/lib/gprog"
	"verif/lib/harness"
)

type schedSpec struct {
	prop  string
	t     *Trace
	yield bool
	prep  [2]*prepared // per map order
	perr  [2]error
}

func (s *schedSpec) prepared() (*prepared, error) {
	i := 0
	if vsched.MapOrderDesc {
		i = 1
	}
	if s.prep[i] == nil && s.perr[i] == nil {
		s.prep[i], s.perr[i] = prepare(s.t)
	}
	return s.prep[i], s.perr[i]
}

type sigErr struct {
	sig string
	err error
}

func (e *sigErr) Error() string { return e.err.Error() }

func (s *schedSpec) build() (func(), func(x *vsched.Exec) (string, error)) {
	var res *Result
	var evs []event
	var perr error
	main := func() {
		var p *prepared
		if p, perr = s.prepared(); perr != nil {
			return
		}
		var inBody func()
		if s.yield {
			inBody = vsched.Yield
		}
		res, evs = p.exec(inBody, func() { vsched.Note(1) })
	}
	check := func(x *vsched.Exec) (string, error) {
		if perr != nil {
			return "compile-rejected", nil
		}
		switch {
		case x.Deadlock:
			return "", &sigErr{"hang", fmt.Errorf("a call of the history hangs: %v", x.Blocked)}
		case x.MainPanic != "" || x.ThreadPanic != "":
			return "", &sigErr{"panic", fmt.Errorf("panic during the history: %s%s", x.MainPanic, x.ThreadPanic)}
		case len(x.Blocked) > 0:
			return "", &sigErr{"leak", fmt.Errorf("goroutines left blocked after the history: %v", x.Blocked)}
		case res == nil:
			return "", &sigErr{"hang", fmt.Errorf("the history did not finish")}
		}
		interrupts := 0
		for _, cr := range res.Calls {
			if cr.Interrupted {
				interrupts++
			}
		}
		var sig string
		var err error
		if s.prop == "C05" {
			sig, err = JudgeC05(s.t, res)
			if err == nil && sig == "" {
				sig = fmt.Sprintf("equivalent-after-%d-interrupts", interrupts)
			}
		} else {
			sig, err = JudgeC06(s.t, res, evs)
			if err == nil {
				sig = fmt.Sprintf("honoured-%d-interrupts", interrupts)
			}
		}
		if err != nil {
			return "", &sigErr{refineSig(s.prop, sig, s.t), err}
		}
		return sig, nil
	}
	return main, check
}

// MainS is the entry point of the Engine-S binaries checks/c05s and checks/c06s.
func MainS(prop string) {
	c := harness.Init(prop)
	c.Res.Rule = "scenario = interrupt/resume history of a Workflow program (the workflow-mode histories of the native part: all small flat shapes incl. branches, a sub-workflow next to / before a node, a fan-in with nodes that ask for interrupt-and-rerun; every set of <=2 interrupt-before/after points per level, every sequence of branch outcomes, resume paradigm patterns, with/without checkpoint id / state modifier); the whole history (all calls until the run completes, through the byte-only store) is executed under the controlled scheduler, every interleaving of the run loop and the node goroutines of every call within the preemption bound, both map orders; non-trivial/distinct = distinct scheduling signatures of scenarios with >= 2 of them"
	c.Res.Assumptions = []string{
		"sequential consistency at synchronisation granularity; node bodies are atomic",
		"happens-before state caching is on: the run loop, the checkpoint code and the task manager synchronise all their shared accesses (the event log of the harness is ordered with vsched.Note)",
		"deterministic node functions; nodes that ask for a re-run rebuild their input from graph state through a state pre-handler (as the statement presupposes)",
	}
	if prop == "C05" {
		c.Res.Explanation = "oracle per execution: the C05 oracle of the native part (same final output and same multiset of (node, input) executions as the uninterrupted model run, apart from aborted attempts of re-run nodes), plus no deadlock, no escaped panic, nothing left blocked (exact, from the scheduler's thread table)"
	} else {
		c.Res.Explanation = "oracle per execution: the C06 oracle of the native part (interrupt-before nodes start only after a report and a resume; after an interrupt-after node completes no successor starts; interrupt info extractable and exact; checkpoint written iff an interrupt is returned under an id), plus no deadlock, no escaped panic, nothing left blocked"
	}
	quick := c.Quick()
	// bound 0 already contains every order in which concurrently running nodes complete and in which the run
	// loop collects them (all choices at blocking points are free); bound 1 adds one preemption anywhere
	// (measured: bound 0 = 53 k executions, bound 1 = 625 k with happens-before caching, 100 s on 16 cores)
	bounds := []int{0}
	if !quick {
		bounds = []int{0, 1, 2}
	}
	for _, g := range Groups(quick) {
		if g.mode != gprog.MWorkflow {
			continue
		}
		// sharding by history (not by group): a few programs carry most of the interleavings
		g.traces(func(t *Trace) {
			if t.NoID && prop == "C05" {
				return
			}
			sp := &schedSpec{prop: prop, t: t}
			sc := harness.Scenario{Name: t.String(), Bounds: bounds, MaxExecs: 500_000, New: sp.build, HBCache: true,
				Signature: func(err error) string {
					if se, ok := err.(*sigErr); ok {
						return se.sig
					}
					return "other"
				}}
			if c.Replay != "" {
				c.ReplayScenario(sc)
				return
			}
			if !c.Mine(sc.Name) {
				return
			}
			c.Sample(map[string]any{"history": t.String(), "bounds": bounds})
			c.Add(sc)
		})
	}
	_ = strings.TrimSpace
	c.ExploreAll()
	c.Finish()
}
