// Package intr runs interrupt/resume histories of gprog programs on the real implementation through a
// byte-level checkpoint store and judges them for C05 (equivalence with the uninterrupted run) and C06
// (interrupt points honoured and reported exactly).
package intr

import (
	"context"
	"errors"
	"fmt"
	"sort"
	"strings"
	"sync"

	"github.com/cloudwego/eino/compose"

	"verif/lib/gprog"
)

func init() {
	_ = compose.RegisterSerializableType[gprog.St]("verif_gprog_st")
}

type IntCfg struct {
	Before []string `json:"before,omitempty"`
	After  []string `json:"after,omitempty"`
}

// Trace is one interrupt/resume history to run.
type Trace struct {
	Prog    *gprog.Prog       `json:"prog"`
	Script  gprog.Script      `json:"script"`
	Ints    map[string]IntCfg `json:"ints"`             // graph path ("" = top level, "a" = sub-graph node a) -> interrupt points
	Rerun   []string          `json:"rerun,omitempty"`  // top-level lambda nodes that ask for InterruptAndRerun on their first attempt
	Pattern []string          `json:"pattern"`          // calling paradigm of the k-th call, cyclic
	NoID    bool              `json:"no_id,omitempty"`  // call without a checkpoint id
	Modify  bool              `json:"modify,omitempty"` // pass a StateModifier on every resume (bumps St.Counter)
}

func (t *Trace) String() string {
	var parts []string
	for _, k := range sortedKeys(t.Ints) {
		c := t.Ints[k]
		parts = append(parts, fmt.Sprintf("%q:before%v,after%v", k, c.Before, c.After))
	}
	s := fmt.Sprintf("%s ints{%s} script=%v calls=%v", t.Prog.String(), strings.Join(parts, " "), t.Script, t.Pattern)
	if len(t.Rerun) > 0 {
		s += fmt.Sprintf(" rerun=%v", t.Rerun)
	}
	if t.NoID {
		s += " noid"
	}
	if t.Modify {
		s += " modify"
	}
	return s
}

func sortedKeys[V any](m map[string]V) []string {
	ks := make([]string, 0, len(m))
	for k := range m {
		ks = append(ks, k)
	}
	sort.Strings(ks)
	return ks
}

// memStore keeps bytes only.
type memStore struct {
	mu   sync.Mutex
	m    map[string][]byte
	sets int
	gets int
}

func (s *memStore) Get(ctx context.Context, id string) ([]byte, bool, error) {
	s.mu.Lock()
	defer s.mu.Unlock()
	s.gets++
	b, ok := s.m[id]
	if !ok {
		return nil, false, nil
	}
	return append([]byte{}, b...), true, nil
}

func (s *memStore) Set(ctx context.Context, id string, b []byte) error {
	s.mu.Lock()
	defer s.mu.Unlock()
	s.sets++
	s.m[id] = append([]byte{}, b...)
	return nil
}

type CallRec struct {
	Mode        string
	LogFrom     int
	LogTo       int
	Interrupted bool
	Info        *compose.InterruptInfo
	Sets        int
	Err         string
}

type Result struct {
	Calls    []CallRec
	Log      []gprog.Entry
	Aborted  []gprog.Entry
	Final    gprog.Val
	FinalErr error
	NoProg   bool // call budget exhausted: the run made no progress
	State    *gprog.St
}

// Events in the order they happened (node start / node end), per call, for C06's ordering oracle.
type event struct {
	call int
	kind string // "start" | "end"
	path string
	in   string // rendered input of the execution
}

type runner struct {
	lastIn map[string]string
	events []event
	mu     sync.Mutex
	call   int
}

var input = gprog.Val{"in": "x"}

// Input is the fixed run input.
func Input() gprog.Val { return input }

// prepared is a history whose program has been built and compiled; exec runs the history on it (any number of
// times: every run starts with an empty store and fresh records).
type prepared struct {
	t        *Trace
	store    *memStore
	rerun    map[string]bool
	r        compose.Runnable[gprog.Val, gprog.Val]
	maxCalls int
}

// Run executes the history.
func Run(t *Trace) (*Result, []event, error) {
	p, err := prepare(t)
	if err != nil {
		return nil, nil, err
	}
	res, evs := p.exec(nil, nil)
	return res, evs, nil
}

func prepare(t *Trace) (*prepared, error) {
	store := &memStore{m: map[string][]byte{}}
	needState := len(t.Rerun) > 0 || t.Modify
	rerun := map[string]bool{}
	for _, r := range t.Rerun {
		rerun[r] = true
	}
	bo := &gprog.BuildOpts{
		CompileOpts: func(path string) []compose.GraphCompileOption {
			var o []compose.GraphCompileOption
			if c, ok := t.Ints[path]; ok {
				if len(c.Before) > 0 {
					o = append(o, compose.WithInterruptBeforeNodes(c.Before))
				}
				if len(c.After) > 0 {
					o = append(o, compose.WithInterruptAfterNodes(c.After))
				}
			}
			if path == "" {
				o = append(o, compose.WithCheckPointStore(store))
			}
			return o
		},
	}
	if needState {
		bo.GraphOpts = func(path string) []compose.NewGraphOption {
			if path == "" {
				return []compose.NewGraphOption{compose.WithGenLocalState(gprog.GenState)}
			}
			return nil
		}
		bo.NodeOpts = func(path string, n *gprog.Node) []compose.GraphAddNodeOpt {
			if rerun[path] {
				// the node's input is rebuilt from state on the re-run, as the statement presupposes
				return []compose.GraphAddNodeOpt{compose.WithStatePreHandler(func(ctx context.Context, in gprog.Val, st *gprog.St) (gprog.Val, error) {
					if st.Saved == nil {
						st.Saved = map[string]any{}
					}
					if len(in) > 0 {
						st.Saved[path] = in
						return in, nil
					}
					if v, ok := st.Saved[path].(map[string]any); ok {
						return v, nil
					}
					return in, nil
				})}
			}
			return nil
		}
	}
	r, err := gprog.Compile(context.Background(), t.Prog, bo)
	if err != nil {
		return nil, err
	}
	// every execution can be preceded and followed by at most one interrupt; a history that needs more calls
	// than that makes no progress. (A tight cap also keeps values small: node outputs embed their inputs.)
	om := (&gprog.Model{Script: t.Script}).Run(t.Prog, input)
	maxCalls := 2*om.Execs + 6
	if om.Err != "" && maxCalls > 12 {
		maxCalls = 12
	}
	return &prepared{t: t, store: store, rerun: rerun, r: r, maxCalls: maxCalls}, nil
}

// exec runs the history call by call. inBody, when set, is called inside every node body (scheduler runs use it
// to take time there).
func (p *prepared) exec(inBody func(), note func()) (*Result, []event) {
	if note == nil {
		note = func() {}
	}
	t, store, rerun, r := p.t, p.store, p.rerun, p.r
	store.mu.Lock()
	store.m, store.sets, store.gets = map[string][]byte{}, 0, 0
	store.mu.Unlock()
	rec := gprog.NewRun(t.Script)
	rn := &runner{lastIn: map[string]string{}}
	attempts := map[string]int{}
	res := &Result{}
	rec.Body = func(ctx context.Context, path string, in gprog.Val) error {
		note() // the order of the recorded events is part of the observation
		rn.mu.Lock()
		rn.events = append(rn.events, event{rn.call, "start", path, gprog.Canon(in)})
		rn.lastIn[path] = gprog.Canon(in)
		first := rerun[path] && attempts[path] == 0
		if first {
			attempts[path]++
			res.Aborted = append(res.Aborted, gprog.Entry{Path: path, In: gprog.Canon(in)})
		}
		rn.mu.Unlock()
		note()
		if inBody != nil {
			inBody()
		}
		if first {
			return compose.InterruptAndRerun
		}
		return nil
	}
	rec.After = func(ctx context.Context, path string) {
		note()
		rn.mu.Lock()
		rn.events = append(rn.events, event{rn.call, "end", path, rn.lastIn[path]})
		rn.mu.Unlock()
		note()
	}
	for call := 0; ; call++ {
		if call >= p.maxCalls {
			res.NoProg = true
			break
		}
		mode := t.Pattern[call%len(t.Pattern)]
		rn.mu.Lock()
		rn.call = call
		rn.mu.Unlock()
		from := len(rec.Snapshot())
		setsBefore := store.sets
		var opts []compose.Option
		if !t.NoID {
			opts = append(opts, compose.WithCheckPointID("cp"))
		}
		if t.Modify && call > 0 {
			opts = append(opts, compose.WithStateModifier(func(ctx context.Context, path compose.NodePath, state any) error {
				if st, ok := state.(*gprog.St); ok && len(path.GetPath()) == 0 {
					st.Counter++
				}
				return nil
			}))
		}
		out, err := gprog.Exec(context.Background(), r, rec, mode, input, opts...)
		info, isInt := compose.ExtractInterruptInfo(err)
		cr := CallRec{Mode: mode, LogFrom: from, LogTo: len(rec.Snapshot()), Interrupted: isInt, Info: info, Sets: store.sets - setsBefore}
		if err != nil {
			cr.Err = err.Error()
		}
		res.Calls = append(res.Calls, cr)
		if !isInt {
			res.Final, res.FinalErr = out, err
			break
		}
		if t.NoID {
			// nothing was stored: a further call would start from scratch
			res.Final, res.FinalErr = nil, err
			break
		}
	}
	res.Log = rec.Snapshot()
	return res, rn.events
}

// ---------------------------------------------------------------------------------------------------
// C05

// JudgeC05 compares the accumulated history with the uninterrupted model run.
func JudgeC05(t *Trace, res *Result) (string, error) {
	if t.NoID {
		return "no-checkpoint-id", nil // nothing can be resumed; these histories only serve C06 (iv)
	}
	o := (&gprog.Model{Script: t.Script}).Run(t.Prog, input)
	if o.Err != "" {
		// the uninterrupted run fails (step limit, merge conflict ...): there is no final output to compare; the
		// statement is about runs that produce one. (Every resume call gets a fresh step budget, so a graph that
		// loops forever interrupts forever; each call still returns.)
		return "model-fails", nil
	}
	if res.NoProg {
		return "no-progress", fmt.Errorf("the run did not complete within %d resume calls (no progress); the uninterrupted run returns %s (calls: %s)", len(res.Calls), gprog.Canon(o.Result), callSummary(res))
	}
	if res.FinalErr != nil {
		return "final-error", fmt.Errorf("the uninterrupted run returns %s but the interrupted+resumed run fails: %v", gprog.Canon(o.Result), res.FinalErr)
	}
	if gprog.Canon(res.Final) != gprog.Canon(o.Result) {
		return "final-differs", fmt.Errorf("final output differs: uninterrupted %s, interrupted+resumed %s", gprog.Canon(o.Result), gprog.Canon(res.Final))
	}
	// executions: multiset equality, minus the aborted attempts of rerun nodes
	log := append([]gprog.Entry{}, res.Log...)
	for _, a := range res.Aborted {
		for i := range log {
			if log[i] == a {
				log = append(log[:i], log[i+1:]...)
				break
			}
		}
	}
	var want, got []string
	for _, st := range o.Steps {
		for _, e := range st {
			want = append(want, e.String())
		}
	}
	for _, e := range log {
		got = append(got, e.String())
	}
	sort.Strings(want)
	sort.Strings(got)
	if strings.Join(want, ";") != strings.Join(got, ";") {
		return "executions-differ", fmt.Errorf("node invocations differ from the uninterrupted run: got %v want %v (calls: %s)", got, want, callSummary(res))
	}
	return "", nil
}

func callSummary(res *Result) string {
	var p []string
	for i, c := range res.Calls {
		s := fmt.Sprintf("#%d %s ran%v", i, c.Mode, res.Log[c.LogFrom:c.LogTo])
		if c.Interrupted {
			s += " -> interrupt " + infoString(c.Info)
		} else if c.Err != "" {
			s += " -> error"
		} else {
			s += " -> done"
		}
		p = append(p, s)
	}
	return strings.Join(p, " | ")
}

func infoString(i *compose.InterruptInfo) string {
	if i == nil {
		return "<nil>"
	}
	s := fmt.Sprintf("{before%v after%v rerun%v", i.BeforeNodes, i.AfterNodes, i.RerunNodes)
	for _, k := range sortedKeys(i.SubGraphs) {
		s += " " + k + ":" + infoString(i.SubGraphs[k])
	}
	return s + "}"
}

// ---------------------------------------------------------------------------------------------------
// C06

func infoAt(i *compose.InterruptInfo, graphPath string) *compose.InterruptInfo {
	if graphPath == "" || i == nil {
		return i
	}
	parts := strings.Split(graphPath, "/")
	cur := i
	for _, p := range parts {
		if cur == nil || cur.SubGraphs == nil {
			return nil
		}
		cur = cur.SubGraphs[p]
	}
	return cur
}

func contains(xs []string, x string) bool {
	for _, y := range xs {
		if x == y {
			return true
		}
	}
	return false
}

// successors of node n inside the graph at graphPath (by arcs).
func progAt(p *gprog.Prog, graphPath string) *gprog.Prog {
	if graphPath == "" {
		return p
	}
	cur := p
	for _, k := range strings.Split(graphPath, "/") {
		n := cur.Node(k)
		if n == nil || n.Sub == nil {
			return nil
		}
		cur = n.Sub
	}
	return cur
}

func splitPath(path string) (graphPath, key string) {
	i := strings.LastIndex(path, "/")
	if i < 0 {
		return "", path
	}
	return path[:i], path[i+1:]
}

// JudgeC06 checks the reporting/ordering oracle.
func JudgeC06(t *Trace, res *Result, events []event) (string, error) {
	if res.NoProg {
		return "", nil // C05's business
	}
	// (iii)+(iv): every interrupt carries extractable info; store writes
	for i, c := range res.Calls {
		if c.Interrupted {
			if c.Info == nil {
				return "info-missing", fmt.Errorf("call #%d returned an interrupt without information", i)
			}
			if t.NoID {
				if c.Sets != 0 {
					return "store-written-without-id", fmt.Errorf("call #%d wrote %d checkpoint(s) although no checkpoint id was supplied", i, c.Sets)
				}
			} else if c.Sets != 1 {
				return "store-writes", fmt.Errorf("call #%d returned an interrupt but wrote %d checkpoints (want exactly 1)", i, c.Sets)
			}
		} else if c.Sets != 0 {
			return "store-written-without-interrupt", fmt.Errorf("call #%d did not return an interrupt but wrote %d checkpoint(s)", i, c.Sets)
		}
	}
	// (i) a before-node's body starts only after an interrupt that reported it, followed by a resume
	reported := map[string]int{} // node path -> interrupts that reported it so far (completed calls)
	startedCnt := map[string]int{}
	ei := 0
	for ci, c := range res.Calls {
		for ; ei < len(events) && events[ei].call == ci; ei++ {
			ev := events[ei]
			if ev.kind != "start" {
				continue
			}
			// check the node itself and every enclosing sub-graph node that is configured as interrupt-before
			parts := strings.Split(ev.path, "/")
			for d := 1; d <= len(parts); d++ {
				np := strings.Join(parts[:d], "/")
				gp, key := splitPath(np)
				cfg, ok := t.Ints[gp]
				if !ok || !contains(cfg.Before, key) {
					continue
				}
				if d < len(parts) {
					// an enclosing graph node: count its "start" once per contiguous activation — approximated by the
					// first inner start of this call
					k := fmt.Sprintf("%s@%d", np, ci)
					if startedCnt[k] > 0 {
						continue
					}
					startedCnt[k]++
					if reported[np] == 0 {
						return "before-ignored", fmt.Errorf("sub-graph node %s is configured interrupt-before but its inner node %s started in call #%d without a preceding interrupt that reported it (calls: %s)", np, ev.path, ci, callSummary(res))
					}
					continue
				}
				startedCnt[np]++
				if reported[np] < startedCnt[np] {
					return "before-ignored", fmt.Errorf("node %s is configured interrupt-before but started (execution %d) in call #%d with only %d preceding interrupt(s) reporting it (calls: %s)", np, startedCnt[np], ci, reported[np], callSummary(res))
				}
			}
		}
		if c.Interrupted {
			var walk func(i *compose.InterruptInfo, gp string)
			walk = func(i *compose.InterruptInfo, gp string) {
				if i == nil {
					return
				}
				for _, b := range append(append([]string{}, i.BeforeNodes...), i.RerunNodes...) {
					// a node that asked for its own re-run was reported as well (RerunNodes) before it starts again
					np := b
					if gp != "" {
						np = gp + "/" + b
					}
					reported[np]++
				}
				for _, k := range sortedKeys(i.SubGraphs) {
					ngp := k
					if gp != "" {
						ngp = gp + "/" + k
					}
					walk(i.SubGraphs[k], ngp)
				}
			}
			walk(c.Info, "")
			// consistency: reported before-nodes must be configured ones
			var chk func(i *compose.InterruptInfo, gp string) error
			chk = func(i *compose.InterruptInfo, gp string) error {
				if i == nil {
					return nil
				}
				cfg := t.Ints[gp]
				for _, b := range i.BeforeNodes {
					if !contains(cfg.Before, b) {
						return fmt.Errorf("interrupt of call #%d reports before-node %q in graph %q which is not configured", ci, b, gp)
					}
				}
				for _, a := range i.AfterNodes {
					if !contains(cfg.After, a) {
						return fmt.Errorf("interrupt of call #%d reports after-node %q in graph %q which is not configured", ci, a, gp)
					}
				}
				for _, k := range sortedKeys(i.SubGraphs) {
					ngp := k
					if gp != "" {
						ngp = gp + "/" + k
					}
					if err := chk(i.SubGraphs[k], ngp); err != nil {
						return err
					}
				}
				return nil
			}
			if err := chk(c.Info, ""); err != nil {
				return "info-inconsistent", err
			}
		}
	}
	var modelLog []gprog.Entry
	// (ii) when an after-node completes, the call returns an interrupt listing it (unless the run finished),
	// and no successor of it starts in that call after its completion
	for ci, c := range res.Calls {
		var evs []event
		for _, ev := range events {
			if ev.call == ci {
				evs = append(evs, ev)
			}
		}
		for i, ev := range evs {
			if ev.kind != "end" {
				continue
			}
			gp, key := splitPath(ev.path)
			cfg, ok := t.Ints[gp]
			if !ok || !contains(cfg.After, key) {
				continue
			}
			finished := !c.Interrupted && c.Err == ""
			// executions caused by this completion: their input carries this execution's output
			g := progAt(t.Prog, gp)
			isLambda := g != nil && g.Node(key) != nil && (g.Node(key).Kind == gprog.KLambda || g.Node(key).Kind == "")
			out := key + "=" + key + "(" + ev.in + ")"
			sameGraph := func(path string) bool {
				// the execution belongs to the same graph run: same level, or inside a sub-graph node of that level
				return gp == "" || strings.HasPrefix(path, gp+"/")
			}
			succ := map[string]bool{}
			if g != nil {
				for _, e := range g.Edges {
					if e.From == key {
						succ[e.To] = true
					}
				}
				for _, b := range g.Branches {
					if b.From == key {
						for _, tg := range b.Targets {
							succ[tg] = true
						}
					}
				}
			}
			// a direct successor in the same graph: a static successor whose input holds this output at top level
			caused := func(path, in string) bool {
				if !sameGraph(path) {
					return false
				}
				rest := path
				if gp != "" {
					rest = strings.TrimPrefix(path, gp+"/")
				}
				if !succ[strings.Split(rest, "/")[0]] {
					return false
				}
				return topLevelHas(in, out) || topLevelHas(in, key+"={"+out+"}")
			}
			if isLambda {
				for _, later := range evs[i+1:] {
					if later.kind == "start" && caused(later.path, later.in) {
						return "after-successor-started", fmt.Errorf("node %s (interrupt-after) completed in call #%d and its successor %s started on its output before the run stopped (calls: %s)", ev.path, ci, later.path, callSummary(res))
					}
				}
			}
			if finished || !c.Interrupted || !isLambda {
				continue // the run finished with it, or the call failed for another reason
			}
			// "unless the run finished with it": a report is only due when, uninterrupted, some node of the same
			// graph would start on this execution's output
			if modelLog == nil {
				o := (&gprog.Model{Script: t.Script}).Run(t.Prog, input)
				modelLog = []gprog.Entry{}
				for _, st := range o.Steps {
					modelLog = append(modelLog, st...)
				}
			}
			due := false
			for _, e := range modelLog {
				if caused(e.Path, e.In) {
					due = true
				}
			}
			if !due {
				continue
			}
			inf := infoAt(c.Info, gp)
			if inf == nil || !contains(inf.AfterNodes, key) {
				return "after-not-reported", fmt.Errorf("node %s (interrupt-after) completed in call #%d but the returned interrupt does not list it at graph %q: %s", ev.path, ci, gp, infoString(c.Info))
			}
		}
	}
	return "", nil
}

// topLevelHas reports whether the canonical map rendering in has token as one of its top-level entries.
func topLevelHas(in, token string) bool {
	if len(in) < 2 || in[0] != '{' {
		return false
	}
	depth := 0
	start := 1
	for i := 1; i < len(in); i++ {
		switch in[i] {
		case '{', '(':
			depth++
		case ')':
			depth--
		case '}':
			if depth == 0 {
				return in[start:i] == token
			}
			depth--
		case ',':
			if depth == 0 {
				if in[start:i] == token {
					return true
				}
				start = i + 1
			}
		}
	}
	return false
}

func joinNonEmpty(a, b string) string {
	if a == "" {
		return b
	}
	return a + "/" + b
}

// ErrCompile marks programs the framework rejects.
var ErrCompile = errors.New("compile rejected")
