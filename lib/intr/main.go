package intr

import (
	"encoding/json"
	"fmt"
	"strings"
	"time"

	"verif/lib/gprog"
	"verif/lib/harness"
)

func subsetsUpTo(keys []string, max int) [][]string {
	out := [][]string{nil}
	var rec func(i int, cur []string)
	rec = func(i int, cur []string) {
		if len(cur) > 0 {
			out = append(out, append([]string{}, cur...))
		}
		if len(cur) == max {
			return
		}
		for j := i; j < len(keys); j++ {
			rec(j+1, append(cur, keys[j]))
		}
	}
	rec(0, nil)
	return out
}

func nodeKeys(p *gprog.Prog) []string {
	var ks []string
	for _, n := range p.Nodes {
		ks = append(ks, n.Key)
	}
	return ks
}

// intConfigs: all (before, after) pairs with |before|+|after| <= max, not both empty.
func intConfigs(keys []string, max int) []IntCfg {
	var out []IntCfg
	for _, b := range subsetsUpTo(keys, max) {
		for _, a := range subsetsUpTo(keys, max-len(b)) {
			if len(a)+len(b) == 0 {
				continue
			}
			out = append(out, IntCfg{Before: b, After: a})
		}
	}
	return out
}

func L(keys ...string) []gprog.Node {
	var ns []gprog.Node
	for _, k := range keys {
		ns = append(ns, gprog.Node{Key: k, Kind: gprog.KLambda})
	}
	return ns
}

func E(pairs ...string) []gprog.Edge {
	var es []gprog.Edge
	for _, p := range pairs {
		ft := strings.Split(p, ">")
		es = append(es, gprog.Edge{From: ft[0], To: ft[1]})
	}
	return es
}

type group struct {
	name   string
	mode   string // mode of the top-level program
	traces func(emit func(t *Trace))
}

var patterns = [][]string{{"invoke"}, {"stream"}, {"invoke", "stream"}}

// Groups enumerates the histories, one group per program (sharding unit).
func Groups(quick bool) []group {
	var gs []group
	intMax := 2
	scriptCap := 64
	// (1) enumerated flat shapes in the three modes
	type fam struct {
		mode   string
		cyclic bool
	}
	for _, f := range []fam{{gprog.MPregel, true}, {gprog.MDag, false}, {gprog.MWorkflow, false}} {
		ep := gprog.EnumParams{Mode: f.mode, MaxNodes: 3, MaxArcs: 5, Cyclic: f.cyclic, MaxBranch: 1, MultiToo: false, BranchSize: 2}
		if f.mode == gprog.MWorkflow {
			ep.Mode = gprog.MDag
		}
		if !quick {
			ep.MaxArcs = 6
			ep.MultiToo = true
		}
		for _, base := range gprog.EnumShapes(ep) {
			p := *base
			p.Mode = f.mode
			if f.mode == gprog.MPregel && gprog.HasCycle(&p) {
				p.MaxSteps = 5
			}
			pp := p
			gs = append(gs, group{name: "flat/" + pp.String(), mode: pp.Mode, traces: func(emit func(t *Trace)) {
				cfgs := intConfigs(nodeKeys(&pp), intMax)
				gprog.AllScripts(&pp, input, scriptCap, nil, func(s gprog.Script, o *gprog.Outcome) bool {
					for ci, cfg := range cfgs {
						for _, pat := range patterns {
							emit(&Trace{Prog: &pp, Script: s, Ints: map[string]IntCfg{"": cfg}, Pattern: pat})
						}
						if ci%3 == 0 {
							emit(&Trace{Prog: &pp, Script: s, Ints: map[string]IntCfg{"": cfg}, Pattern: patterns[0], NoID: true})
						}
					}
					return true
				})
			}})
		}
	}
	// (1b) curated Workflows: three independent nodes, two independent lanes of two nodes, and a diamond with a late joiner. With
	// eager scheduling an interrupt taken in one lane finds the other lane not started / running / completed
	// (these only run in the Engine-S part, which owns the schedule)
	wf4 := map[string]*gprog.Prog{
		"wf-2lanes": {Mode: gprog.MWorkflow, Nodes: L("a", "b", "c", "d"), Edges: E("start>a", "a>c", "start>b", "b>d", "c>end", "d>end")},
		// three independent nodes: when the interrupt is taken after the first one to complete, TWO tasks are still in flight
		"wf-fan3":    {Mode: gprog.MWorkflow, Nodes: L("a", "b", "c"), Edges: E("start>a", "start>b", "start>c", "a>end", "b>end", "c>end")},
		"wf-diamond": {Mode: gprog.MWorkflow, Nodes: L("a", "b", "c", "d"), Edges: E("start>a", "start>b", "a>c", "b>c", "b>d", "c>end", "d>end")},
	}
	for _, wk := range sortedKeys(wf4) {
		p := wf4[wk]
		if wk == "wf-fan3" && !quick {
			continue // six arcs: part of the enumerated flat shapes of the thorough tier
		}
		gs = append(gs, group{name: "wf4/" + wk, mode: p.Mode, traces: func(emit func(t *Trace)) {
			for _, cfg := range intConfigs(nodeKeys(p), intMax) {
				for _, pat := range patterns {
					emit(&Trace{Prog: p, Script: gprog.Script{}, Ints: map[string]IntCfg{"": cfg}, Pattern: pat})
				}
			}
		}})
	}
	// (2) nested graphs, including a cycle through a sub-graph node
	subLinear := func(mode string) *gprog.Prog {
		return &gprog.Prog{Mode: mode, Nodes: L("x", "y"), Edges: E("start>x", "x>y", "y>end")}
	}
	subFan := func(mode string) *gprog.Prog {
		return &gprog.Prog{Mode: mode, Nodes: L("x", "y"), Edges: E("start>x", "start>y", "x>end", "y>end")}
	}
	N := func(key string, sub *gprog.Prog) gprog.Node { return gprog.Node{Key: key, Kind: gprog.KSub, Sub: sub} }
	nested := map[string]*gprog.Prog{
		"sub-linear":     {Mode: gprog.MPregel, Nodes: []gprog.Node{N("a", subLinear(gprog.MPregel))}, Edges: E("start>a", "a>end")},
		"sub-then-node":  {Mode: gprog.MPregel, Nodes: []gprog.Node{N("a", subLinear(gprog.MPregel)), {Key: "b", Kind: gprog.KLambda}}, Edges: E("start>a", "a>b", "b>end")},
		"node-then-sub":  {Mode: gprog.MPregel, Nodes: []gprog.Node{{Key: "b", Kind: gprog.KLambda}, N("a", subFan(gprog.MPregel))}, Edges: E("start>b", "b>a", "a>end")},
		"sub-parallel":   {Mode: gprog.MPregel, Nodes: []gprog.Node{N("a", subLinear(gprog.MPregel)), {Key: "b", Kind: gprog.KLambda}}, Edges: E("start>a", "start>b", "a>end", "b>end")},
		"cycle-thru-sub": {Mode: gprog.MPregel, MaxSteps: 6, Nodes: []gprog.Node{N("a", subLinear(gprog.MPregel))}, Edges: E("start>a"), Branches: []gprog.Branch{{From: "a", Targets: []string{"a", "end"}}}},
		"cycle-sub-node": {Mode: gprog.MPregel, MaxSteps: 8, Nodes: []gprog.Node{N("a", subLinear(gprog.MPregel)), {Key: "b", Kind: gprog.KLambda}}, Edges: E("start>a", "a>b"), Branches: []gprog.Branch{{From: "b", Targets: []string{"a", "end"}}}},
		"dag-sub":        {Mode: gprog.MDag, Nodes: []gprog.Node{N("a", subLinear(gprog.MDag)), {Key: "b", Kind: gprog.KLambda}}, Edges: E("start>a", "start>b", "a>end", "b>end")},
		"dag-sub-chain":  {Mode: gprog.MDag, Nodes: []gprog.Node{N("a", subFan(gprog.MDag)), {Key: "b", Kind: gprog.KLambda}}, Edges: E("start>a", "a>b", "b>end")},
		"wf-sub":         {Mode: gprog.MWorkflow, Nodes: []gprog.Node{N("a", subLinear(gprog.MWorkflow)), {Key: "b", Kind: gprog.KLambda}}, Edges: E("start>a", "start>b", "a>end", "b>end")},
		"wf-sub-chain":   {Mode: gprog.MWorkflow, Nodes: []gprog.Node{N("a", subLinear(gprog.MWorkflow)), {Key: "b", Kind: gprog.KLambda}}, Edges: E("start>a", "a>b", "b>end")},
		// depth 3 with the cycle on the MIDDLE level: the graph that re-executes its sub-graph node is itself resumed as a
		// sub-graph (from the checkpoint in the context, not from the store)
		"cycle-in-sub-thru-sub": {Mode: gprog.MPregel, Nodes: []gprog.Node{N("a", &gprog.Prog{Mode: gprog.MPregel, MaxSteps: 4, Nodes: []gprog.Node{N("m", subLinear(gprog.MPregel))}, Edges: E("start>m"), Branches: []gprog.Branch{{From: "m", Targets: []string{"m", "end"}}}})}, Edges: E("start>a", "a>end")},
		"sub-in-sub":            {Mode: gprog.MPregel, Nodes: []gprog.Node{N("a", &gprog.Prog{Mode: gprog.MPregel, Nodes: []gprog.Node{N("m", subLinear(gprog.MPregel))}, Edges: E("start>m", "m>end")})}, Edges: E("start>a", "a>end")},
	}
	for _, nk := range sortedKeys(nested) {
		p := nested[nk]
		gs = append(gs, group{name: "nested/" + nk, mode: p.Mode, traces: func(emit func(t *Trace)) {
			outer := append([]IntCfg{{}}, intConfigs(nodeKeys(p), 1)...)
			// inner graph paths
			type lvl struct {
				path string
				keys []string
			}
			var lvls []lvl
			var walk func(g *gprog.Prog, path string)
			walk = func(g *gprog.Prog, path string) {
				for _, n := range g.Nodes {
					if n.Kind == gprog.KSub {
						np := n.Key
						if path != "" {
							np = path + "/" + n.Key
						}
						lvls = append(lvls, lvl{np, nodeKeys(n.Sub)})
						walk(n.Sub, np)
					}
				}
			}
			walk(p, "")
			gprog.AllScripts(p, input, scriptCap, nil, func(s gprog.Script, o *gprog.Outcome) bool {
				for _, oc := range outer {
					// inner configs: product over levels of configs with <= 2 points (including none)
					var rec func(i int, cur map[string]IntCfg)
					rec = func(i int, cur map[string]IntCfg) {
						if i == len(lvls) {
							n := 0
							for _, c := range cur {
								n += len(c.Before) + len(c.After)
							}
							if n == 0 {
								return
							}
							for _, pat := range patterns {
								ints := map[string]IntCfg{}
								for k, v := range cur {
									ints[k] = v
								}
								emit(&Trace{Prog: p, Script: s, Ints: ints, Pattern: pat})
							}
							return
						}
						for _, ic := range append([]IntCfg{{}}, intConfigs(lvls[i].keys, 2)...) {
							nc := map[string]IntCfg{}
							for k, v := range cur {
								nc[k] = v
							}
							if len(ic.Before)+len(ic.After) > 0 {
								nc[lvls[i].path] = ic
							}
							rec(i+1, nc)
						}
					}
					start := map[string]IntCfg{}
					if len(oc.Before)+len(oc.After) > 0 {
						start[""] = oc
					}
					rec(0, start)
				}
				return true
			})
		}})
	}
	// (3) nodes that ask to be interrupted and re-run (input rebuilt from state), alone and combined with
	// configured interrupt points and a state modifier
	rer := map[string]*gprog.Prog{
		"lin":    {Mode: gprog.MPregel, Nodes: L("a", "b"), Edges: E("start>a", "a>b", "b>end")},
		"fan":    {Mode: gprog.MPregel, Nodes: L("a", "b"), Edges: E("start>a", "start>b", "a>end", "b>end")},
		"loop":   {Mode: gprog.MPregel, MaxSteps: 6, Nodes: L("a", "b"), Edges: E("start>a", "a>b"), Branches: []gprog.Branch{{From: "b", Targets: []string{"a", "end"}}}},
		"dagfan": {Mode: gprog.MDag, Nodes: L("a", "b", "c"), Edges: E("start>a", "start>b", "a>c", "b>c", "c>end")},
		"wffan":  {Mode: gprog.MWorkflow, Nodes: L("a", "b", "c"), Edges: E("start>a", "start>b", "a>c", "b>c", "c>end")},
		// three parallel nodes: with two of them asking for a re-run, the third is a plain task that completes next to two failed ones
		"fan3": {Mode: gprog.MPregel, Nodes: L("a", "b", "c"), Edges: E("start>a", "start>b", "start>c", "a>end", "b>end", "c>end")},
		// two independent lanes: the successor of the node that completes first is ready on its own (its value has left the
		// channels and lives in the pending tasks) when the other lane's node asks for its re-run
		"wf2lanes": {Mode: gprog.MWorkflow, Nodes: L("a", "b", "c", "d"), Edges: E("start>a", "a>c", "start>b", "b>d", "c>end", "d>end")},
		"wffan3":   {Mode: gprog.MWorkflow, Nodes: L("a", "b", "c"), Edges: E("start>a", "start>b", "start>c", "a>end", "b>end", "c>end")},
	}
	for _, rk := range sortedKeys(rer) {
		p := rer[rk]
		gs = append(gs, group{name: "rerun/" + rk, mode: p.Mode, traces: func(emit func(t *Trace)) {
			keys := nodeKeys(p)
			gprog.AllScripts(p, input, scriptCap, nil, func(s gprog.Script, o *gprog.Outcome) bool {
				for _, rr := range subsetsUpTo(keys, 2)[1:] {
					for _, cfg := range append([]IntCfg{{}}, intConfigs(keys, 1)...) {
						for _, pat := range patterns {
							for _, mod := range []bool{false, true} {
								ints := map[string]IntCfg{}
								if len(cfg.Before)+len(cfg.After) > 0 {
									ints[""] = cfg
								}
								emit(&Trace{Prog: p, Script: s, Ints: ints, Rerun: rr, Pattern: pat, Modify: mod})
							}
						}
					}
				}
				return true
			})
		}})
	}
	return gs
}

// features used for known-finding signatures.
func features(t *Trace) (cycleThroughSub bool, innerInts bool, beforeAfterStart bool) {
	for gp := range t.Ints {
		if gp != "" {
			innerInts = true
		}
	}
	if gprog.HasCycle(t.Prog) {
		for _, n := range t.Prog.Nodes {
			if n.Kind == gprog.KSub {
				cycleThroughSub = true
			}
		}
	}
	// interrupt-before configured on a direct successor of START (at any level)
	for gp, cfg := range t.Ints {
		g := progAt(t.Prog, gp)
		if g == nil {
			continue
		}
		for _, b := range cfg.Before {
			for _, e := range g.Edges {
				if e.From == gprog.START && e.To == b {
					beforeAfterStart = true
				}
			}
			for _, br := range g.Branches {
				if br.From == gprog.START && contains(br.Targets, b) {
					beforeAfterStart = true
				}
			}
		}
	}
	return
}

// Main is the entry point of the C05 and C06 check binaries.
func Main(prop string) {
	c := harness.Init(prop)
	c.Res.Rule = "history = program (all small flat shapes in Pregel / all-predecessor mode - the Workflow-mode histories are run by the Engine-S part -; curated nested graphs incl. cycles through a sub-graph node, a sub-graph in a sub-graph and a cycle through a sub-graph node INSIDE a sub-graph (depth 3); nodes that ask for interrupt-and-rerun) x every set of <=2 interrupt-before/after points per nesting level x every sequence of branch outcomes x resume paradigm pattern (all Invoke / all Stream / alternating) x with/without checkpoint id x with/without state modifier; plus typed histories: 11 curated graphs over {int, string, map[string]any} whose input and output types differ (pass-throughs typed from either side, keyed nodes, START fan-in, a nested graph) x every set of <= 2 interrupt points per level x the paradigm patterns, judged against the uninterrupted run of the same graph; every history is executed call by call on the implementation through a byte-only in-memory store until the run completes. Non-trivial = history with >= 1 interrupt actually taken; distinct = distinct (program, points, script, pattern)."
	c.Res.Assumptions = []string{
		"deterministic node functions; nodes that ask for a re-run rebuild their input from graph state through a state pre-handler (as the statement presupposes)",
		"histories whose uninterrupted model run fails (step limit, merge conflict) are only required to terminate",
	}
	if prop == "C05" {
		c.Res.Explanation = "reference model = the uninterrupted run of the same program under the same branch outcomes (C01/C02 models); oracle: same final output, and the multiset of (node, input) executions accumulated over all calls equals the uninterrupted one apart from aborted attempts of re-run nodes; a run that needs more than 40 resume calls is reported as no progress"
	} else {
		c.Res.Explanation = "oracle per history: (i) an interrupt-before node (or any node inside an interrupt-before sub-graph node) starts only after an earlier call returned an interrupt reporting it at the right nesting path, one report per execution; (ii) when an interrupt-after node completes the call returns an interrupt listing it and none of its successors started, unless the run finished with it; (iii) interrupt info is extractable and only lists configured nodes; (iv) with a checkpoint id exactly one checkpoint is written iff the call returns an interrupt, without id none"
	}
	quick := c.Quick()

	if v := c.LoadReplay(); v != nil {
		if m, ok := v.Case.(map[string]any); ok && m["graph"] != nil {
			var tt TypedTrace
			b, _ := json.Marshal(v.Case)
			if err := json.Unmarshal(b, &tt); err != nil {
				c.ReplayExit(v.Scenario, fmt.Errorf("bad replay case: %v", err))
			}
			_, err := judgeTyped(c, prop, &tt, true)
			c.ReplayExit(v.Scenario, err)
		}
		var t Trace
		b, _ := json.Marshal(v.Case)
		if err := json.Unmarshal(b, &t); err != nil {
			c.ReplayExit(v.Scenario, fmt.Errorf("bad replay case: %v", err))
		}
		_, err := judge(c, prop, &t, true)
		c.ReplayExit(v.Scenario, err)
	}

	for _, g := range Groups(quick) {
		if g.mode == gprog.MWorkflow {
			// eager scheduling: what an interrupt finds completed / running / not started depends on the schedule;
			// these histories belong to the Engine-S part (checks/c05s, checks/c06s; lib/intr/sched.go)
			continue
		}
		if !c.Mine(g.name) {
			continue
		}
		if c.TimeUp() {
			break
		}
		g.traces(func(t *Trace) {
			if c.TooManyViolations() || c.TimeUp() {
				return
			}
			sig, err := judge(c, prop, t, false)
			if err != nil {
				c.Violate(harness.Violation{Scenario: t.String(), Signature: sig, Case: t, Msg: err.Error()})
			}
		})
	}
	// typed histories (lib/intr/typed.go): graphs whose edges carry different types
	typedTraces(func(t *TypedTrace) {
		if !c.Mine("typed/"+t.Graph) || c.TooManyViolations() || c.TimeUp() {
			return
		}
		sig, err := judgeTyped(c, prop, t, false)
		if err != nil {
			c.Violate(harness.Violation{Scenario: t.String(), Signature: sig, Case: t, Msg: err.Error()})
		}
	})
	c.Finish()
}

func judgeTyped(c *harness.Ctx, prop string, t *TypedTrace, verbose bool) (string, error) {
	var res *typedResult
	var rerr error
	gerr := c.Guard(t.String(), t, 120*time.Second, func() error {
		res, rerr = RunTyped(t)
		return nil
	})
	if gerr != nil {
		return "typed:panic-or-hang", gerr
	}
	if rerr != nil {
		return "typed:harness", rerr
	}
	c.Res.Evaluations++
	c.Res.Transitions += int64(len(res.Calls))
	c.StateStr(t.String())
	if len(res.Calls) > 1 {
		c.Res.Nontrivial++
	}
	if verbose {
		fmt.Println(res.summary())
	}
	sig, err := JudgeTyped(prop, t, res)
	if err != nil {
		return sig, err
	}
	c.Outcome(fmt.Sprintf("typed-%d-interrupts", len(res.Calls)-1))
	c.Res.Validated++
	return "", nil
}

func judge(c *harness.Ctx, prop string, t *Trace, verbose bool) (string, error) {
	var res *Result
	var evs []event
	var rerr error
	gerr := c.Guard(t.String(), t, 120*time.Second, func() error {
		res, evs, rerr = Run(t)
		return nil
	})
	if gerr != nil {
		sig := "panic-or-hang"
		if strings.Contains(gerr.Error(), "interface is nil, not compose.streamReader") || strings.Contains(gerr.Error(), "nil pointer dereference") {
			// a value written by START is held in a channel when a streamed call converts the checkpoint
			sig = "stream-checkpoint-of-start-value-panics"
		}
		return sig, gerr
	}
	if rerr != nil {
		c.Count("programs_rejected_at_compile", 1)
		c.Outcome("compile-rejected")
		return "", nil
	}
	c.Res.Evaluations++
	c.Res.Transitions += int64(len(res.Calls))
	c.StateStr(t.String())
	interrupts := 0
	for _, cr := range res.Calls {
		if cr.Interrupted {
			interrupts++
		}
	}
	if interrupts > 0 {
		c.Res.Nontrivial++
	}
	if verbose {
		fmt.Println(callSummary(res))
	}
	var sig string
	var err error
	if prop == "C05" {
		sig, err = JudgeC05(t, res)
		if err == nil {
			if sig == "" {
				sig = fmt.Sprintf("equivalent-after-%d-interrupts", interrupts)
			}
			c.Outcome(sig)
		}
	} else {
		sig, err = JudgeC06(t, res, evs)
		if err == nil {
			c.Outcome(fmt.Sprintf("honoured-%d-interrupts", interrupts))
		}
	}
	if err != nil {
		return refineSig(prop, sig, t), err
	}
	c.Res.Validated++
	if interrupts > 0 {
		c.Sample(map[string]any{"history": t.String(), "calls": callSummary(res)})
	}
	return "", nil
}

// refineSig groups the symptoms of one root cause under one known-findings class.
func refineSig(prop, sig string, t *Trace) string {
	cyc, inner, bas := features(t)
	switch {
	case prop == "C06" && sig == "before-ignored" && bas:
		return "before-ignored-on-successor-of-start"
	case cyc && inner && !strings.HasPrefix(sig, "stream-checkpoint"):
		// histories in which a sub-graph node interrupts inside a cycle: one root cause (the sub-graph's
		// checkpoint is handed to every later execution of that node), many symptoms
		return "stale-subgraph-checkpoint-in-cycle:" + sig
	}
	return sig
}
