#!/usr/bin/env python3
"""tools_seedprompts.py <suffix> [ids...]: prepare a round of independently seeded property-breaking changes.
For every property creates a scratch worktree /tmp/seed-<ID><suffix> of /repo's HEAD and writes the complete brief
of the sub-agent to /tmp/seedprompts/<ID><suffix>.txt. The brief contains the text of the property and the path of
the worktree, nothing from /verif. Afterwards: ./seedtest.sh <ID><suffix> [check ids...]."""
import json, subprocess, os, sys
suffix = sys.argv[1] if len(sys.argv) > 1 else ''
only = sys.argv[2:]
props = {json.loads(l)['id']: json.loads(l) for l in open('/verif/properties.jsonl')}
os.makedirs('/tmp/seedprompts', exist_ok=True)
extra = ""
if suffix >= 'h':
    extra = ("\nFor this round the breakage must need SIZE or HISTORY to manifest, not an exotic feature: it should be invisible "
             "with the smallest instances and appear only from a certain count, depth or repetition on - e.g. only with the "
             "third (or later) element / chunk / tool call / successor / branch / handler / reader / option, only at nesting "
             "depth 2 or more (a graph inside a graph inside a graph), only on the SECOND resume of one checkpoint or the second "
             "interrupt of one run, only on the second or third iteration of a cycle, only when a collection crosses a size "
             "where a fast path switches to a general path (hand-unrolled cases vs reflection, small-buffer vs spill, "
             "pre-sized slice vs growth), only when one object (graph, runnable, stream copy, option value, message, agent) is "
             "used a second time after a first use that ended in an error / an interrupt / an early close. Avoid ideas that "
             "amount to a shared buffer between concurrent runs, a renamed serialised field, errors.Is vs == for io.EOF, or a "
             "dropped lock (used many times already). Before you edit, write down THREE candidates in three different files, "
             "each naming the smallest instance on which it manifests; implement the one whose smallest failing instance is "
             "the LARGEST while your demonstration still runs in under a second.\n")
elif suffix >= 'g':
    extra = ("\nRestriction for this round: earlier rounds have changed graph_run.go, graph_manager.go, graph.go, tool_node.go, "
             "utils.go, dag.go, workflow.go, field_mapping.go, generic_helper.go, state.go, runnable.go, error.go, checkpoint.go, "
             "stream.go, message.go, select.go, serialization.go, concat.go and react.go many times. Your change must be in a file "
             "that has NOT been used yet. Candidates: compose/chain_branch.go, compose/chain_parallel.go, compose/chain.go, "
             "compose/branch.go, compose/types_lambda.go, compose/component_to_graph_node.go, compose/graph_add_node_options.go, "
             "compose/graph_compile_options.go, compose/graph_call_options.go, compose/generic_graph.go, compose/graph_node.go, "
             "compose/stream_reader.go, compose/stream_concat.go, compose/interrupt.go, compose/pregel.go, compose/values_merge.go, "
             "compose/introspect.go, internal/channel.go, internal/safe/panic.go, internal/callbacks/manager.go, "
             "internal/callbacks/inject.go, callbacks/aspect_inject.go, callbacks/handler_builder.go, utils/callbacks/template.go, "
             "schema/tool.go, flow/agent/multiagent/host/compose.go, flow/agent/multiagent/host/types.go, "
             "flow/agent/multiagent/host/callback.go, flow/agent/react/option.go, flow/agent/react/callback.go, "
             "flow/agent/agent_option.go, flow/agent/utils.go, flow/retriever/... . Read the property, find out which of these "
             "files take part in realising it (most properties are realised by more code than the obvious central loop: "
             "constructors and wrappers that prepare nodes, option plumbing, the chain / parallel / branch builders that "
             "translate into graph calls, stream adapters, callback injection), write down THREE candidates in three of "
             "these files, and implement the one that needs the most specific circumstances. If, after an honest search, "
             "none of these files can break the property, say so and use the least-used other file you can find.\n")
elif suffix >= 'f':
    extra = ("\nFor diversity, do NOT use any of these ideas (they have been used in earlier rounds): shared buffers / maps / "
             "prototype objects; aliasing through spare slice capacity or shared pointers; errors.Is vs == for io.EOF; captured "
             "loop variables; swapped defers; break vs continue; a wrong index in the select tables; a mutated package-level "
             "error; a dropped or split lock; a renamed serialised field; a helper taken from the wrong side; a variadic "
             "opts... argument dropped in a wrapper closure; > vs >= at a size threshold; waiting for one task instead of all; "
             "reflect AssignableTo vs identity; stable vs unstable sort; a context cancelled when a function returns; skipping "
             "empty fragments or empty messages; clearing a pending list before it was used; a non-blocking send that drops an "
             "item; an atomic counter re-read after the increment; a pre-handler skipped or repeated on resume; a cursor not "
             "reset between mappings. The property is realised by SEVERAL features of the framework working together: look for a "
             "slip at the seam between TWO of them (state handlers x interrupts, branches x field mappings, callbacks x "
             "streams of nested graphs, checkpoints x stream conversion, call options x nested chains / parallels, input / "
             "output keys x branches, static values x streams, multi-agent hand-off x callbacks, tools node x checkpoints, "
             "step limits x nested graphs, cancellation x eager scheduling ...), where each feature alone still works and "
             "each has tests of its own. Before you edit, write down THREE candidates in three different files, each naming "
             "the two features it needs; implement the one whose two features are least likely to be tested together.\n")
elif suffix >= 'e':
    extra = ("\nFor diversity, do NOT use any of these idea families (they have been used in earlier rounds): a buffer / map / "
             "prototype object allocated once and shared between runs or calls; merging or appending in place into an input "
             "(aliasing through spare slice capacity or a shared pointer); errors.Is instead of == for io.EOF; a loop variable "
             "captured by a closure; two defers swapped; break instead of continue; a wrong index in the hand-unrolled select "
             "tables; a package-level error value that gets mutated; a lock dropped or split; a renamed struct field that the "
             "serialiser then skips; taking a helper / converter from the input side instead of the output side. "
             "Look for OTHER kinds of slips: a boundary or off-by-one, a condition that is slightly too weak or too strong, an "
             "early return that skips a later step, a default taken from the wrong level (node vs graph vs sub-graph), a "
             "lookup by key where a path is needed (or the other way round), a state transition missed on a rare path "
             "(error, interrupt, skip, empty input, zero items, last element), an option or flag not propagated into a nested "
             "or wrapped object, a comparison of the wrong pair of types, a count that is taken before instead of after an "
             "update. Before you edit, write down THREE candidates in three different files; implement the one that needs the "
             "most specific circumstances.\n")
elif suffix >= 'd':
    extra = ("\nRestrictions for this round: the change must NOT be in compose/graph_run.go, compose/graph_manager.go, "
             "compose/graph.go, compose/tool_node.go, compose/utils.go, compose/dag.go, compose/generic_helper.go or schema/stream.go "
             "(these have been covered by earlier rounds) - look at the other files of compose/ (workflow.go, chain*.go, branch.go, "
             "field_mapping.go, state.go, checkpoint.go, interrupt.go, stream_reader.go, runnable.go, graph_node.go, "
             "graph_call_options.go, graph_add_node_options.go, types_lambda.go, values_merge.go, error.go ...), at schema/ "
             "(message.go, select.go, tool.go ...), internal/ (callbacks, serialization, generic, safe, concat ...), callbacks/, "
             "utils/callbacks, components/ and flow/. Before you edit, write down THREE candidates in three different files; "
             "implement the one that needs the most specific circumstances (a combination of two features, a particular "
             "order of calls or completions, an unusual but legal value such as empty / nil / zero / duplicate / wrapped, a "
             "second use of the same object, a type other than the common one).\n")
elif suffix >= 'c':
    extra = ("\nBefore you edit anything, survey the code and write down THREE candidate changes in three DIFFERENT source "
             "files (or clearly different mechanisms) that would each break the property; then implement the one that a "
             "careful reviewer would find hardest to notice and that needs the most specific circumstances (a combination "
             "of two features, a particular order of calls or completions, an unusual but legal value such as empty / nil / "
             "zero / duplicate, a second use of the same object). Prefer mechanisms other than the obvious central loop.\n")
elif suffix:
    extra = ("\nThere are usually several code paths that realise a property like this one (invoke vs stream vs collect vs "
             "transform execution, Pregel vs DAG vs workflow scheduling, nested graphs, chain / parallel / branch wrappers, "
             "the tools node, the agents under flow/, helpers in schema/ and internal/). Do NOT take the first, most "
             "central place that comes to mind: survey the paths first and put the change in a less obvious one, or make "
             "it depend on a combination of two features.\n")
for pid, p in props.items():
    if only and pid not in only:
        continue
    sid = pid + suffix
    wt = f'/tmp/seed-{sid}'
    if not os.path.isdir(wt):
        subprocess.run(['git', '-C', '/repo', 'worktree', 'add', '--detach', wt], capture_output=True)
    text = f"""You are given a scratch git worktree of the Go repository cloudwego/eino (an LLM application framework whose core is a typed graph/chain/workflow orchestration engine) at {wt}. Work ONLY inside {wt} (and, for temporary files, under /tmp/seedwork-{sid}); do not read or touch /verif or /repo. The sandbox is offline; for every go command use: export GOFLAGS=-mod=mod GOPROXY=off GOSUMDB=off GOTOOLCHAIN=local

Here is a semantic property that this code base is supposed to satisfy:

  {p['id']} — {p['title']}
  {p['statement']}
  (quantified over: {p['quantifier']['text']})

Your job: make a REALISTIC change to the non-test sources of the repository (the kind of slip or well-meant refactoring a maintainer could commit: a wrong bound, a lost copy, a reordered step, shared state where there was a fresh value, a missing close, an off-by-one in a counter, a check done on the wrong variable ...) that BREAKS this property, while the code still compiles and the repository's existing test suite still passes (`cd {wt} && go build ./... && go test -vet=off -count=1 ./...` — run it, all packages must be ok; if a test is flaky, run it 3 times). The breakage must need something SPECIFIC to manifest — a particular interleaving of goroutines, a fault or interrupt at a particular point, a multi-step sequence of operations, an unusual input or configuration, or two cooperating sites that each look fine alone — not something that ordinary use would expose at once. Do not add new exported API; do not touch _test.go files for the change itself. Keep the change small (ideally under 15 changed lines).
{extra}
Then write a DEMONSTRATION: a Go test file (put it next to the code it exercises, name it zz_seed_demo_test.go, package of that directory or its _test variant) that FAILS with your change and PASSES on the original code, using only what the repository already offers. Make it deterministic if you possibly can (for schedule-dependent breakage, force the interleaving with channels/sync in the test's own node functions; say so if it can only be shown probabilistically and then loop enough times to fail >95% of the time). Verify both directions yourself: `git diff > /tmp/seedwork-{sid}/p.diff; git checkout -- <files>` to run the demo on the original code (must pass), `git apply /tmp/seedwork-{sid}/p.diff` to re-apply, run again (must fail). Do NOT use `git stash`: the stash is shared with other worktrees of this repository.

Leave in the worktree: the change applied (uncommitted, `git diff` shows it, the demo test file untracked), and write /tmp/seedwork-{sid}/REPORT.md with: the idea in two sentences, exactly which files/lines changed, what is needed for the breakage to manifest, the exact commands you ran and their outcome (test suite with the change: ok; demo with change: FAIL; demo without: PASS). Your final answer should repeat the report briefly. Do not commit anything.
"""
    open(f'/tmp/seedprompts/{sid}.txt', 'w').write(text)
print(sorted(os.listdir('/tmp/seedprompts')))
