#!/bin/bash
# MANIFEST.setup_cmd: build the repo-independent tools and warm the Go build cache (offline).
set -e
cd /verif
export GOFLAGS=-mod=mod GOPROXY=off GOSUMDB=off GOTOOLCHAIN=local
mkdir -p bin evidence replays
[ -f go.sum ] || cp /repo/go.sum go.sum
(cd engine/rewrite && go build -o /verif/bin/rewrite .)
go build -o bin/check-driver ./cmd/check
# warm caches: instrumented and native builds of every check binary
W=$(mktemp -d)
trap 'rm -rf "$W"' EXIT
bin/check-driver --warm "$W" || true
echo setup done
