// C03 — run result is independent of node completion order; no completion lost (Engine S).
package main

import (
	"context"
	"errors"
	"fmt"
	"sort"
	"strings"

	"github.com/cloudwego/eino/compose"
	"github.com/cloudwego/eino/vsched"

	"verif/lib/gprog"
	"verif/lib/harness"
)

var input = gprog.Val{"in": "x"}

type behaviour struct {
	yields int
	fail   string // "" | "err" | "panic"
}

type spec struct {
	name  string
	prog  *gprog.Prog
	beh   map[string]behaviour // by node path
	call  string
	state bool // graph state + post-handlers as collection counters

	compiled [2]compose.Runnable[gprog.Val, gprog.Val] // per map order; compiled outside the exploration (Compile has no synchronisation)
	cerr     [2]error
}

func (sp *spec) runnable() (compose.Runnable[gprog.Val, gprog.Val], error) {
	i := 0
	if vsched.MapOrderDesc {
		i = 1
	}
	if sp.compiled[i] == nil && sp.cerr[i] == nil {
		bo := &gprog.BuildOpts{}
		if sp.state {
			bo.GraphOpts = func(path string) []compose.NewGraphOption {
				if path == "" {
					return []compose.NewGraphOption{compose.WithGenLocalState(gprog.GenState)}
				}
				return nil
			}
			bo.NodeOpts = func(path string, n *gprog.Node) []compose.GraphAddNodeOpt {
				if !strings.Contains(path, "/") && n.Kind == gprog.KLambda {
					return []compose.GraphAddNodeOpt{gprog.PostCounter(path)}
				}
				return nil
			}
		}
		sp.compiled[i], sp.cerr[i] = gprog.Compile(context.Background(), sp.prog, bo)
	}
	return sp.compiled[i], sp.cerr[i]
}

var errNode = errors.New("node-failed")

func L(keys ...string) []gprog.Node {
	var ns []gprog.Node
	for _, k := range keys {
		ns = append(ns, gprog.Node{Key: k, Kind: gprog.KLambda})
	}
	return ns
}

func E(pairs ...string) []gprog.Edge {
	var es []gprog.Edge
	for _, p := range pairs {
		ft := strings.Split(p, ">")
		es = append(es, gprog.Edge{From: ft[0], To: ft[1]})
	}
	return es
}

func shapes() map[string]*gprog.Prog {
	sub := &gprog.Prog{Mode: gprog.MPregel, Nodes: L("x", "y"), Edges: E("start>x", "start>y", "x>end", "y>end")}
	return map[string]*gprog.Prog{
		"pregel-fan2":   {Mode: gprog.MPregel, Nodes: L("a", "b"), Edges: E("start>a", "start>b", "a>end", "b>end")},
		"pregel-fan3":   {Mode: gprog.MPregel, Nodes: L("a", "b", "c"), Edges: E("start>a", "start>b", "start>c", "a>end", "b>end", "c>end")},
		"pregel-2steps": {Mode: gprog.MPregel, Nodes: L("a", "b", "c", "d"), Edges: E("start>a", "start>b", "a>c", "b>d", "c>end", "d>end")},
		"dag-unequal":   {Mode: gprog.MDag, Nodes: L("a", "b", "c"), Edges: E("start>a", "start>b", "a>c", "c>end", "b>end")},
		"dag-join":      {Mode: gprog.MDag, Nodes: L("a", "b", "c"), Edges: E("start>a", "start>b", "a>c", "b>c", "c>end")},
		"wf-eager":      {Mode: gprog.MWorkflow, Nodes: L("a", "b", "c"), Edges: E("start>a", "start>b", "a>c", "c>end", "b>end")},
		"wf-latejoin":   {Mode: gprog.MWorkflow, Nodes: L("a", "b", "c"), Edges: E("start>a", "start>b", "a>c", "b>c", "c>end", "a>end")},
		"wf-fan3":       {Mode: gprog.MWorkflow, Nodes: L("a", "b", "c"), Edges: E("start>a", "start>b", "start>c", "a>end", "b>end", "c>end")},
		// a node (x) with a plain predecessor (a) and a branch (on b) that does not select it: it becomes ready
		// through a dependency report or through a skip report, whichever completion the run loop collects last
		"wf-branch-skip": {Mode: gprog.MWorkflow, Nodes: L("a", "b", "x", "y"),
			Edges:    []gprog.Edge{{From: "start", To: "a"}, {From: "start", To: "b"}, {From: "a", To: "x"}, {From: "b", To: "y", NoControl: true}, {From: "x", To: "end"}, {From: "y", To: "end"}},
			Branches: []gprog.Branch{{From: "b", Targets: []string{"y", "x"}}}},
		// the same with the branch selecting x (y is skipped, END must not wait for it)
		"wf-branch-take": {Mode: gprog.MWorkflow, Nodes: L("a", "b", "x", "y"),
			Edges:    []gprog.Edge{{From: "start", To: "a"}, {From: "start", To: "b"}, {From: "a", To: "x"}, {From: "b", To: "y", NoControl: true}, {From: "x", To: "end"}, {From: "y", To: "end"}},
			Branches: []gprog.Branch{{From: "b", Targets: []string{"x", "y"}}}},
		"dag-branch-skip": {Mode: gprog.MDag, Nodes: L("a", "b", "x", "y"), Edges: E("start>a", "start>b", "a>x", "x>end", "y>end"),
			Branches: []gprog.Branch{{From: "b", Targets: []string{"y", "x"}}}},
		"pregel-sub":    {Mode: gprog.MPregel, Nodes: []gprog.Node{{Key: "a", Kind: gprog.KLambda}, {Key: "s", Kind: gprog.KSub, Sub: sub}}, Edges: E("start>a", "start>s", "a>end", "s>end")},
		"wf-sub":        {Mode: gprog.MWorkflow, Nodes: []gprog.Node{{Key: "a", Kind: gprog.KLambda}, {Key: "s", Kind: gprog.KSub, Sub: sub}}, Edges: E("start>a", "start>s", "a>end", "s>end")},
	}
}

func lambdaPaths(p *gprog.Prog, prefix string, out *[]string) {
	for _, n := range p.Nodes {
		np := n.Key
		if prefix != "" {
			np = prefix + "/" + n.Key
		}
		switch n.Kind {
		case gprog.KSub:
			lambdaPaths(n.Sub, np, out)
		case gprog.KPass:
		default:
			*out = append(*out, np)
		}
	}
}

func (sp *spec) build() (func(), func(x *vsched.Exec) (string, error)) {
	var res gprog.Val
	var rerr error
	var rec *gprog.RunRec
	finished := map[string]bool{}
	var unfinishedAtReturn []string
	returned := false
	main := func() {
		r, err := sp.runnable()
		if err != nil {
			rerr = fmt.Errorf("compile: %w", err)
			return
		}
		rec = gprog.NewRun(nil)
		started := map[string]bool{}
		rec.Body = func(ctx context.Context, path string, in gprog.Val) error {
			vsched.HLock() // started/finished are shared by the node goroutines (no-op under the scheduler, a mutex in the race pass)
			started[path] = true
			vsched.HUnlock()
			b := sp.beh[path]
			for i := 0; i < b.yields; i++ {
				vsched.Yield()
			}
			switch b.fail {
			case "err":
				return errNode
			case "panic":
				panic("node-panic")
			}
			return nil
		}
		rec.After = func(ctx context.Context, path string) {
			vsched.HLock()
			finished[path] = true
			vsched.HUnlock()
		}
		res, rerr = gprog.Exec(context.Background(), r, rec, sp.call, input)
		returned = true
		vsched.HLock() // after a failed run other node bodies may still be running
		for p := range started {
			if !finished[p] && sp.beh[p].fail == "" {
				unfinishedAtReturn = append(unfinishedAtReturn, p)
			}
		}
		vsched.HUnlock()
		sort.Strings(unfinishedAtReturn)
	}
	check := func(x *vsched.Exec) (string, error) {
		if x.Deadlock {
			return "", fmt.Errorf("the run hangs: %v", x.Blocked)
		}
		if x.MainPanic != "" {
			return "", fmt.Errorf("panic escaped the run: %s", x.MainPanic)
		}
		if x.ThreadPanic != "" {
			return "", fmt.Errorf("panic escaped a framework goroutine: %s", x.ThreadPanic)
		}
		if len(x.Blocked) > 0 {
			return "", fmt.Errorf("goroutines left blocked after the run returned: %v", x.Blocked)
		}
		if !returned {
			return "", fmt.Errorf("run did not return: %v", rerr)
		}
		o := (&gprog.Model{}).Run(sp.prog, input)
		// a failing behaviour counts only if the sequential model executes that node at all (a node that a branch
		// skips never runs, whatever its body would do)
		executed := map[string]bool{}
		for _, st := range o.Steps {
			for _, e := range st {
				executed[e.Path] = true
			}
		}
		anyFail := false
		for path, b := range sp.beh {
			if b.fail != "" && executed[path] {
				anyFail = true
			}
		}
		log := rec.Snapshot()
		if anyFail {
			if rerr == nil {
				return "", fmt.Errorf("a node failed but the run returned a result %s", gprog.Canon(res))
			}
			if !strings.Contains(rerr.Error(), "node-failed") && !strings.Contains(rerr.Error(), "node-panic") {
				return "", fmt.Errorf("run failed with an unrelated error: %v", rerr)
			}
			return "failed-as-expected", nil
		}
		if rerr != nil {
			return "", fmt.Errorf("run failed: %v", rerr)
		}
		if gprog.Canon(res) != gprog.Canon(o.Result) {
			return "", fmt.Errorf("result depends on completion order: got %s, sequential model %s", gprog.Canon(res), gprog.Canon(o.Result))
		}
		// same set of executions (order free)
		var want, got []string
		for _, st := range o.Steps {
			for _, e := range st {
				want = append(want, e.String())
			}
		}
		for _, e := range log {
			got = append(got, e.String())
		}
		sort.Strings(want)
		sort.Strings(got)
		if strings.Join(want, ";") != strings.Join(got, ";") {
			return "", fmt.Errorf("executions differ from the sequential model: got %v want %v", got, want)
		}
		if len(unfinishedAtReturn) > 0 {
			return "", fmt.Errorf("run returned successfully while started nodes were still running: %v", unfinishedAtReturn)
		}
		if sp.state {
			var paths []string
			lambdaPaths(sp.prog, "", &paths)
			for _, p := range paths {
				if strings.Contains(p, "/") {
					continue
				}
				want := 0
				if executed[p] {
					want = 1
				}
				if rec.Post[p] != want {
					return "", fmt.Errorf("node %s was started %d time(s) but collected %d times (post-handler count)", p, want, rec.Post[p])
				}
			}
		}
		return gprog.Canon(res), nil
	}
	return main, check
}

func main() {
	c := harness.Init("C03")
	c.Res.Rule = "scenario = graph shape with 2-3 concurrently runnable nodes (Pregel fan-out, DAG with unequal path lengths / join, eager Workflow with late joiner, nested graph among parallel nodes) x assignment of 0/1 yields to node bodies x failing node (error / panic) x Invoke/Stream x with/without state post-handlers as collection counters; every interleaving of the executor goroutines and the run loop at channel/lock/select/yield points is executed up to the preemption bound under both map iteration orders; non-trivial/distinct = distinct scheduling signatures, counted for scenarios with >= 2 of them"
	c.Res.Assumptions = []string{
		"sequential consistency at synchronisation granularity; node bodies are atomic between their explicit yields",
		"map iteration order restricted to ascending and descending key order (both explored)",
		"the rewriter/shim model Go channel, select, mutex semantics faithfully",
		harness.RacePassAssumption,
	}
	c.Res.Explanation = "stateless exhaustive exploration of real graph runs under the controlled scheduler; oracle per execution: result and set of node executions equal the sequential reference model, every started node collected exactly once (post-handler count), a successful run returns only after every started node finished, a failing node fails the run with its error, no deadlock and no goroutine left blocked (exact, from the thread table). " + harness.RacePassExplanation
	quick := c.Quick()
	rp := c.StartRacePass("./checks/c03") // worker 0 only: native -race build of this package, free runs of the scenario bodies
	sh := shapes()
	names := harness.SortedKeys(sh)
	bounds := []int{0, 1, 2}
	if !quick {
		bounds = []int{0, 1, 2, 3}
	}
	quickShapes := map[string]bool{"pregel-fan2": true, "pregel-fan3": true, "dag-unequal": true, "wf-eager": true, "wf-latejoin": true, "pregel-sub": true, "wf-branch-skip": true, "dag-branch-skip": true}
	for _, sn := range names {
		if quick && !quickShapes[sn] {
			continue
		}
		p := sh[sn]
		var paths []string
		lambdaPaths(p, "", &paths)
		sort.Strings(paths)
		// behaviours: (1) yields in every subset of <=2 nodes; (2) one failing node (err/panic) with a yield elsewhere
		type bset struct {
			tag string
			beh map[string]behaviour
		}
		var bsets []bset
		bsets = append(bsets, bset{"plain", map[string]behaviour{}})
		for i, a := range paths {
			bsets = append(bsets, bset{"y:" + a, map[string]behaviour{a: {yields: 1}}})
			for j, b := range paths[i+1:] {
				if quick && j > 0 {
					break
				}
				bsets = append(bsets, bset{"y:" + a + "," + b, map[string]behaviour{a: {yields: 1}, b: {yields: 1}}})
			}
		}
		for _, a := range paths {
			for _, f := range []string{"err", "panic"} {
				bsets = append(bsets, bset{f + ":" + a, map[string]behaviour{a: {fail: f}}})
				n := 0
				for _, b := range paths {
					if b != a {
						if quick && n > 0 {
							break
						}
						n++
						bsets = append(bsets, bset{f + ":" + a + "+y:" + b, map[string]behaviour{a: {fail: f, yields: 1}, b: {yields: 1}}})
					}
				}
			}
		}
		if len(paths) >= 2 {
			bsets = append(bsets, bset{"2fail", map[string]behaviour{paths[0]: {fail: "err", yields: 1}, paths[1]: {fail: "panic", yields: 1}}})
		}
		for _, bs := range bsets {
			for _, call := range []string{"invoke", "stream"} {
				for _, st := range []bool{false, true} {
					if st && (call == "stream" || strings.Contains(sn, "sub")) {
						continue
					}
					if quick && call == "stream" && (strings.Contains(bs.tag, ",") || strings.Contains(bs.tag, "+")) {
						continue
					}
					if quick && st && strings.Contains(bs.tag, ":") && !strings.HasPrefix(bs.tag, "y:") {
						continue
					}
					sp := &spec{name: fmt.Sprintf("%s/%s/%s/state=%v", sn, bs.tag, call, st), prog: p, beh: bs.beh, call: call, state: st}
					sc := harness.Scenario{Name: sp.name, Bounds: bounds, MaxExecs: 2_000_000, HBCache: true, New: sp.build}
					if c.Replay != "" {
						c.ReplayScenario(sc)
						continue
					}
					if !c.Mine(sp.name) {
						continue
					}
					c.Sample(map[string]any{"scenario": sp.name, "program": p.String(), "bounds": bounds})
					c.Add(sc)
				}
			}
		}
	}
	c.ExploreAll()
	rp.Collect()
	c.Finish()
}
