// C02 — all-predecessor (DAG / Workflow) nodes run at most once, exactly when triggered (Engine R).
package main

import (
	"context"
	"encoding/json"
	"fmt"
	"strings"
	"time"

	"verif/lib/gprog"
	"verif/lib/harness"
)

type Case struct {
	Prog   *gprog.Prog  `json:"prog"`
	Script gprog.Script `json:"script"`
	Call   string       `json:"call"`
}

var input = gprog.Val{"in": "x"}

func compare(o *gprog.Outcome, res gprog.Val, err error, log []gprog.Entry, stream bool) error {
	ic := gprog.Classify(err)
	switch o.Err {
	case gprog.ErrEndSkipped:
		// weak oracle: the run ends with an error (no hang, no result)
		if err == nil {
			return fmt.Errorf("END is skipped in the model but the implementation returned a result %s", gprog.Canon(res))
		}
	case gprog.ErrConflict:
		if stream {
			return nil
		}
		if !gprog.SameClass(o.Err, err) {
			return fmt.Errorf("model outcome %q, implementation %q (err=%v)", o.Err, ic, err)
		}
	default:
		if !gprog.SameClass(o.Err, err) {
			return fmt.Errorf("model outcome %q, implementation %q (err=%v, result=%s)", o.Err, ic, err, gprog.Canon(res))
		}
	}
	if o.Err == "" && gprog.Canon(res) != gprog.Canon(o.Result) {
		return fmt.Errorf("result differs: model %s, implementation %s", gprog.Canon(o.Result), gprog.Canon(res))
	}
	// at most once per node
	seen := map[string]int{}
	for _, e := range log {
		seen[e.Path]++
		if seen[e.Path] > 1 {
			return fmt.Errorf("node %s executed more than once: %v", e.Path, log)
		}
	}
	if o.Err == gprog.ErrConflict {
		return nil
	}
	if e := gprog.MatchOutcome(log, o); e != nil {
		return fmt.Errorf("executed set differs: %v", e)
	}
	return nil
}

func sigOf(err error) string {
	s := err.Error()
	switch {
	case strings.HasPrefix(s, "panic"):
		return "panic"
	case strings.Contains(s, "more than once"):
		return "executed-twice"
	case strings.Contains(s, "result differs"):
		return "result-differs"
	case strings.Contains(s, "model outcome"), strings.Contains(s, "END is skipped"):
		return "outcome-class-differs"
	case strings.Contains(s, "executed set"):
		return "executed-set-differs"
	}
	return "other"
}

// hasControlPath: is there a control path from f to t of length >= 2 (or via a branch) not using edge skip?
func hasIndirectControl(p *gprog.Prog, skip int) bool {
	f, t := p.Edges[skip].From, p.Edges[skip].To
	adj := map[string][]string{}
	for i, e := range p.Edges {
		if i == skip || e.NoControl {
			continue
		}
		adj[e.From] = append(adj[e.From], e.To)
	}
	for _, b := range p.Branches {
		adj[b.From] = append(adj[b.From], b.Targets...)
	}
	seen := map[string]bool{}
	var dfs func(x string) bool
	dfs = func(x string) bool {
		if x == t {
			return true
		}
		seen[x] = true
		for _, y := range adj[x] {
			if !seen[y] && dfs(y) {
				return true
			}
		}
		return false
	}
	return dfs(f)
}

// workflowVariants derives Workflow programs from an acyclic shape: every assignment of edge kinds
// (normal / control-only / data-only where an indirect control path exists) for small edge counts, single
// modifications otherwise; branch targets optionally receive the branch source's data through a data-only input.
func workflowVariants(base *gprog.Prog) []*gprog.Prog {
	var out []*gprog.Prog
	mk := func(kinds []int, brData bool) *gprog.Prog {
		p := &gprog.Prog{Mode: gprog.MWorkflow, Nodes: base.Nodes, Branches: base.Branches}
		for i, e := range base.Edges {
			ne := gprog.Edge{From: e.From, To: e.To}
			switch kinds[i] {
			case 1:
				ne.NoData = true
			case 2:
				ne.NoControl = true
			}
			p.Edges = append(p.Edges, ne)
		}
		for i := range p.Edges {
			if p.Edges[i].NoControl && !hasIndirectControl(p, i) {
				return nil
			}
		}
		if brData {
			for _, b := range base.Branches {
				for _, t := range b.Targets {
					p.Edges = append(p.Edges, gprog.Edge{From: b.From, To: t, NoControl: true})
				}
			}
		}
		return p
	}
	n := len(base.Edges)
	brOpts := []bool{false}
	if len(base.Branches) > 0 {
		brOpts = []bool{false, true}
	}
	for _, bd := range brOpts {
		if n <= 4 {
			kinds := make([]int, n)
			var rec func(i int)
			rec = func(i int) {
				if i == n {
					if p := mk(kinds, bd); p != nil {
						out = append(out, p)
					}
					return
				}
				for k := 0; k < 3; k++ {
					kinds[i] = k
					rec(i + 1)
				}
				kinds[i] = 0
			}
			rec(0)
		} else {
			kinds := make([]int, n)
			if p := mk(kinds, bd); p != nil {
				out = append(out, p)
			}
			for i := 0; i < n; i++ {
				for k := 1; k < 3; k++ {
					kinds[i] = k
					if p := mk(kinds, bd); p != nil {
						out = append(out, p)
					}
					kinds[i] = 0
				}
			}
		}
	}
	return out
}

func subMenu(mode string) map[string]*gprog.Prog {
	L := func(keys ...string) []gprog.Node {
		var ns []gprog.Node
		for _, k := range keys {
			ns = append(ns, gprog.Node{Key: k, Kind: gprog.KLambda})
		}
		return ns
	}
	return map[string]*gprog.Prog{
		"linear": {Mode: mode, Nodes: L("x", "y"), Edges: []gprog.Edge{{From: "start", To: "x"}, {From: "x", To: "y"}, {From: "y", To: "end"}}},
		"fanin":  {Mode: mode, Nodes: L("x", "y"), Edges: []gprog.Edge{{From: "start", To: "x"}, {From: "start", To: "y"}, {From: "x", To: "end"}, {From: "y", To: "end"}}},
		"branch": {Mode: mode, Nodes: L("x", "y"), Edges: []gprog.Edge{{From: "x", To: "end"}, {From: "y", To: "end"}}, Branches: []gprog.Branch{{From: "start", Targets: []string{"x", "y"}}}},
	}
}

func main() {
	c := harness.Init("C02")
	c.Res.Rule = "programs = all acyclic shapes (canonical up to renaming) within the node/arc bounds with single and multi branches (several branches converging on one node, branches to END), built (1) as Graph in all-predecessor mode and (2) as Workflow with every assignment of dependency kinds to edges (normal / control-only AddDependency / data-only WithNoDirectDependency where an indirect control path exists) and branch targets with and without data from the branch source; plus pass-through and nested sub-graph variants; for each program ALL combinations of branch outcomes (DFS over the reference model's decision points, multi-branches over all subsets incl. the empty one); each (program, outcomes) is replayed with Invoke and Stream. Non-trivial = the model skips >=1 node or evaluates >=1 branch or merges >=2 inputs; distinct = distinct (program, script, call)."
	c.Res.Assumptions = []string{
		"deterministic node functions with non-nil single-key map outputs",
		"data-only inputs are only declared where an indirect control path exists (documented requirement of WithNoDirectDependency)",
		"when the model says END is never reached the implementation is only required to end with an error (statement is silent on which)",
	}
	c.Res.Explanation = "reference model = the readiness rule of the statement evaluated in topological order (routed / skipped per control predecessor, skip propagation, input = merge of data predecessors that ran and routed; Workflow inputs keyed by predecessor); oracle = equal result / error class, every node at most once, executed set and per-node inputs equal to the model's"
	quick := c.Quick()
	if v := c.LoadReplay(); v != nil {
		var cs Case
		b, _ := json.Marshal(v.Case)
		json.Unmarshal(b, &cs)
		r, err := gprog.Compile(context.Background(), cs.Prog, nil)
		if err != nil {
			c.ReplayExit(v.Scenario, fmt.Errorf("compile: %v", err))
		}
		o := (&gprog.Model{Script: cs.Script}).Run(cs.Prog, input)
		rec := gprog.NewRun(cs.Script)
		var res gprog.Val
		var rerr error
		gerr := c.Guard("replay", cs, 120*time.Second, func() error {
			res, rerr = gprog.Exec(context.Background(), r, rec, cs.Call, input)
			return nil
		})
		fmt.Printf("model: result=%s err=%q steps=%v\nimpl:  result=%s err=%v log=%v\n", gprog.Canon(o.Result), o.Err, o.Steps, gprog.Canon(res), rerr, rec.Snapshot())
		if gerr != nil {
			c.ReplayExit(v.Scenario, gerr)
		}
		c.ReplayExit(v.Scenario, compare(o, res, rerr, rec.Snapshot(), cs.Call == "stream"))
	}

	ep := gprog.EnumParams{Mode: gprog.MDag, MaxNodes: 4, MaxArcs: 7, Cyclic: false, MaxBranch: 2, MultiToo: true, BranchSize: 3}
	if !quick {
		ep.MaxNodes, ep.MaxArcs = 5, 8
	}
	shapes := gprog.EnumShapes(ep)
	for _, base := range shapes {
		// (1) Graph in all-predecessor mode
		name := "dag/" + base.String()
		if c.Mine(name) && !c.TimeUp() {
			runProgram(c, base, name)
		}
		// (1b) a second, overlapping branch on a branching node (several branches converging on one successor)
		if len(base.Nodes) <= 3 {
			for _, sb := range gprog.SecondBranchVariants(base, true) {
				for _, mode := range []string{gprog.MDag, gprog.MWorkflow} {
					q := *sb
					q.Mode = mode
					name := "2br/" + q.String()
					if c.Mine(name) && !c.TimeUp() {
						runProgram(c, &q, name)
					}
				}
			}
		}
		// (2) Workflow variants
		for _, wp := range workflowVariants(base) {
			name := "wf/" + wp.String()
			if c.Mine(name) && !c.TimeUp() {
				runProgram(c, wp, name)
			}
		}
	}
	// (3) node-kind variants on small shapes
	kp := gprog.EnumParams{Mode: gprog.MDag, MaxNodes: 3, MaxArcs: 5, Cyclic: false, MaxBranch: 1, MultiToo: true, BranchSize: 2}
	for _, base := range gprog.EnumShapes(kp) {
		for ni := range base.Nodes {
			for _, kind := range []string{"pass", "linear", "fanin", "branch"} {
				for _, mode := range []string{gprog.MDag, gprog.MWorkflow} {
					p := *base
					p.Mode = mode
					p.Nodes = append([]gprog.Node{}, base.Nodes...)
					if kind == "pass" {
						p.Nodes[ni].Kind = gprog.KPass
					} else {
						p.Nodes[ni].Kind = gprog.KSub
						p.Nodes[ni].Sub = subMenu(mode)[kind]
					}
					name := "kind/" + p.String()
					if c.Mine(name) && !c.TimeUp() {
						runProgram(c, &p, name)
					}
				}
			}
		}
	}
	c.Finish()
}

func runProgram(c *harness.Ctx, p *gprog.Prog, name string) {
	r, err := gprog.Compile(context.Background(), p, nil)
	if err != nil {
		c.Count("programs_rejected_at_compile", 1)
		c.Outcome("compile-rejected")
		reason := err.Error()
		if i := strings.Index(reason, ":"); i > 0 {
			reason = reason[:i]
		}
		if len(reason) > 60 {
			reason = reason[:60]
		}
		c.Count("rejected: "+reason, 1)
		if c.Res.Counters["rejected: "+reason] == 1 {
			c.Res.Notes = append(c.Res.Notes, "first program rejected with '"+err.Error()+"': "+p.String())
		}
		return
	}
	c.Count("programs_compiled", 1)
	_, capped := gprog.AllScripts(p, input, 5000, c.StateStr, func(s gprog.Script, o *gprog.Outcome) bool {
		for _, call := range []string{"invoke", "stream"} {
			cs := &Case{Prog: p, Script: s, Call: call}
			rec := gprog.NewRun(s)
			var res gprog.Val
			var rerr error
			gerr := c.Guard(name, cs, 120*time.Second, func() error {
				res, rerr = gprog.Exec(context.Background(), r, rec, call, input)
				return nil
			})
			c.Res.Evaluations++
			c.Res.Transitions += int64(o.ModelSteps)
			executed := 0
			if len(o.Steps) > 0 {
				executed = len(o.Steps[0])
			}
			if len(o.Decisions) >= 1 || executed < countLambdas(p) {
				c.Res.Nontrivial++
			}
			verr := gerr
			if verr == nil {
				verr = compare(o, res, rerr, rec.Snapshot(), call == "stream")
			}
			oc := o.Err
			if oc == "" {
				oc = fmt.Sprintf("ok-ran%d", executed)
			}
			c.Outcome(oc)
			if verr != nil {
				c.Violate(harness.Violation{Scenario: name + " script=" + fmt.Sprint(s) + " " + call, Signature: sigOf(verr), Case: cs, Msg: verr.Error()})
				return !c.TooManyViolations()
			}
			c.Res.Validated++
			if len(o.Decisions) > 0 && p.Mode == gprog.MWorkflow {
				c.Sample(map[string]any{"program": p.String(), "script": s, "call": call, "model_executed": o.Steps, "result": gprog.Canon(o.Result), "err": o.Err})
			}
		}
		return !c.TimeUp()
	})
	if capped {
		c.Res.Capped, c.Res.CapReason = true, "script cap hit on "+name
	}
}

func countLambdas(p *gprog.Prog) int {
	n := 0
	for _, nd := range p.Nodes {
		switch nd.Kind {
		case gprog.KSub:
			n += countLambdas(nd.Sub)
		case gprog.KPass:
		default:
			n++
		}
	}
	return n
}
