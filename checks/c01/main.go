// C01 — any-predecessor (Pregel) runs follow lock-step superstep semantics and terminate (Engine R).
package main

import (
	"context"
	"encoding/json"
	"fmt"
	"strings"
	"time"

	"github.com/cloudwego/eino/compose"
	"github.com/cloudwego/eino/schema"

	"verif/lib/gprog"
	"verif/lib/harness"
)

type Case struct {
	Family string       `json:"family"` // shape | kind | chain
	Prog   *gprog.Prog  `json:"prog,omitempty"`
	Chain  []Stage      `json:"chain,omitempty"`
	Script gprog.Script `json:"script"`
	Call   string       `json:"call"`             // invoke | stream
	RtMax  int          `json:"rt_max,omitempty"` // WithRuntimeMaxSteps call option
}

var input = gprog.Val{"in": "x"}

// runImpl executes one trace on the real implementation.
func runImpl(r compose.Runnable[gprog.Val, gprog.Val], cs *Case) (res gprog.Val, err error, log []gprog.Entry) {
	rec := gprog.NewRun(cs.Script)
	ctx := gprog.WithRun(context.Background(), rec)
	var opts []compose.Option
	if cs.RtMax > 0 {
		opts = append(opts, compose.WithRuntimeMaxSteps(cs.RtMax))
	}
	if cs.Call == "stream" {
		sr, e := r.Stream(ctx, input, opts...)
		if e != nil {
			return nil, e, rec.Snapshot()
		}
		res, err, _ = gprog.Drain(sr)
	} else {
		res, err = r.Invoke(ctx, input, opts...)
	}
	return res, err, rec.Snapshot()
}

func compare(o *gprog.Outcome, res gprog.Val, err error, log []gprog.Entry, stream bool) error {
	ic := gprog.Classify(err)
	if o.Err == gprog.ErrConflict && stream {
		// streamed fan-in concatenates map chunks per key instead of rejecting duplicate keys; the statement
		// does not define duplicate-key merges: only demand termination (which we have) and stop here
		return nil
	}
	if !gprog.SameClass(o.Err, err) {
		return fmt.Errorf("model outcome %q, implementation %q (err=%v, result=%s)", o.Err, ic, err, gprog.Canon(res))
	}
	if o.Err == "" && gprog.Canon(res) != gprog.Canon(o.Result) {
		return fmt.Errorf("result differs: model %s, implementation %s", gprog.Canon(o.Result), gprog.Canon(res))
	}
	if e := gprog.MatchOutcome(log, o); e != nil {
		return e
	}
	return nil
}

func sigOf(err error) string {
	s := err.Error()
	switch {
	case strings.HasPrefix(s, "panic"):
		return "panic"
	case strings.Contains(s, "extra node"):
		return "extra-executions"
	case strings.Contains(s, "result differs"):
		return "result-differs"
	case strings.Contains(s, "model outcome"):
		return "outcome-class-differs"
	case strings.Contains(s, "step"):
		return "step-structure-differs"
	}
	return "other"
}

// ---------------------------------------------------------------------------------------------------
// chains

type Stage struct {
	Kind string   `json:"kind"` // lambda | parallel | branch | pass | chain
	Keys []string `json:"keys,omitempty"`
	Sub  []Stage  `json:"sub,omitempty"`
}

func stagesString(st []Stage) string {
	var p []string
	for _, s := range st {
		switch s.Kind {
		case "lambda":
			p = append(p, s.Keys[0])
		case "pass":
			p = append(p, "pass")
		case "parallel":
			p = append(p, "par("+strings.Join(s.Keys, ",")+")")
		case "branch":
			p = append(p, "br("+strings.Join(s.Keys, ",")+")")
		case "chain":
			p = append(p, "chain["+stagesString(s.Sub)+"]")
		}
	}
	return strings.Join(p, "->")
}

func buildChain(st []Stage, path string, bid *int) *compose.Chain[gprog.Val, gprog.Val] {
	c := compose.NewChain[gprog.Val, gprog.Val]()
	for _, s := range st {
		switch s.Kind {
		case "lambda":
			c.AppendLambda(gprog.DefaultLambda(joinp(path, s.Keys[0]), s.Keys[0]))
		case "pass":
			c.AppendPassthrough()
		case "parallel":
			p := compose.NewParallel()
			for _, k := range s.Keys {
				if strings.HasPrefix(k, "p3") {
					p.AddPassthrough(k) // the third member of a three-way parallel hands the input through under its key
					continue
				}
				p.AddLambda(k, gprog.DefaultLambda(joinp(path, k), k))
			}
			c.AppendParallel(p)
			elsewhere(func(o *compose.Chain[gprog.Val, gprog.Val]) { o.AppendParallel(p) })
		case "branch":
			id := fmt.Sprintf("chainbr%d", *bid)
			*bid++
			keys := s.Keys
			decide := func(ctx context.Context) string {
				ans := gprog.RunOf(ctx).Script[id]
				if ans >= len(keys) {
					ans = 0
				}
				return keys[ans]
			}
			var b *compose.ChainBranch
			if (*bid)%2 == 0 { // every second chain branch is a STREAM branch (reads its input to the end)
				b = compose.NewStreamChainBranch(func(ctx context.Context, in *schema.StreamReader[gprog.Val]) (string, error) {
					defer in.Close()
					for {
						if _, err := in.Recv(); err != nil {
							break
						}
					}
					return decide(ctx), nil
				})
			} else {
				b = compose.NewChainBranch(func(ctx context.Context, in gprog.Val) (string, error) { return decide(ctx), nil })
			}
			for _, k := range s.Keys {
				b.AddLambda(k, gprog.DefaultLambda(joinp(path, k), k))
			}
			c.AppendBranch(b)
			// building blocks are values: the same ChainBranch used by another chain afterwards must not change this one
			elsewhere(func(o *compose.Chain[gprog.Val, gprog.Val]) { o.AppendBranch(b) })
		case "chain":
			c.AppendGraph(buildChain(s.Sub, joinp(path, "sub"), bid))
		}
	}
	return c
}

// elsewhere uses a building block a second time, in a throw-away chain that already has one stage.
func elsewhere(use func(o *compose.Chain[gprog.Val, gprog.Val])) {
	o := compose.NewChain[gprog.Val, gprog.Val]()
	o.AppendLambda(gprog.DefaultLambda("elsewhere", "elsewhere"))
	use(o)
}

func joinp(a, b string) string {
	if a == "" {
		return b
	}
	return a + "/" + b
}

// chainModel: sequential function composition, parallel stages merged by key.
func chainModel(st []Stage, path string, v gprog.Val, script gprog.Script, bid *int, steps *[][]gprog.Entry, decisions *[]gprog.Decision) gprog.Val {
	for _, s := range st {
		switch s.Kind {
		case "lambda":
			*steps = append(*steps, []gprog.Entry{{Path: joinp(path, s.Keys[0]), In: gprog.Canon(v)}})
			v = gprog.NodeFn(s.Keys[0], v)
		case "pass":
		case "parallel":
			out := gprog.Val{}
			var step []gprog.Entry
			for _, k := range s.Keys {
				if strings.HasPrefix(k, "p3") {
					out[k] = v // pass-through member: no execution, the input under its key
					continue
				}
				step = append(step, gprog.Entry{Path: joinp(path, k), In: gprog.Canon(v)})
				out[k] = gprog.NodeFn(k, v)
			}
			*steps = append(*steps, step)
			v = out
		case "branch":
			id := fmt.Sprintf("chainbr%d", *bid)
			*bid++
			ans := script[id]
			*decisions = append(*decisions, gprog.Decision{Key: id, Arity: len(s.Keys), Ans: ans})
			k := s.Keys[ans]
			*steps = append(*steps, []gprog.Entry{{Path: joinp(path, k), In: gprog.Canon(v)}})
			v = gprog.NodeFn(k, v)
		case "chain":
			v = chainModel(s.Sub, joinp(path, "sub"), v, script, bid, steps, decisions)
		}
	}
	return v
}

func enumChains(maxLen int, nested bool) [][]Stage {
	menu := []Stage{
		{Kind: "lambda", Keys: []string{"L"}},
		{Kind: "pass"},
		{Kind: "parallel", Keys: []string{"p1", "p2"}},
		{Kind: "parallel", Keys: []string{"p1", "p2", "p3"}},
		{Kind: "branch", Keys: []string{"b1", "b2"}},
		{Kind: "branch", Keys: []string{"b1", "b2", "b3"}},
	}
	if nested {
		menu = append(menu, Stage{Kind: "chain", Sub: []Stage{{Kind: "lambda", Keys: []string{"n1"}}, {Kind: "parallel", Keys: []string{"q1", "q2"}}}})
		menu = append(menu, Stage{Kind: "chain", Sub: []Stage{{Kind: "branch", Keys: []string{"c1", "c2"}}, {Kind: "lambda", Keys: []string{"n2"}}}})
	}
	var out [][]Stage
	var rec func(cur []Stage)
	rec = func(cur []Stage) {
		if len(cur) > 0 {
			// rename keys per position so every lambda is distinguishable
			var st []Stage
			for i, s := range cur {
				st = append(st, renameStage(s, fmt.Sprintf("%d", i)))
			}
			out = append(out, st)
		}
		if len(cur) == maxLen {
			return
		}
		for _, m := range menu {
			rec(append(append([]Stage{}, cur...), m))
		}
	}
	rec(nil)
	return out
}

func renameStage(s Stage, suffix string) Stage {
	n := Stage{Kind: s.Kind}
	for _, k := range s.Keys {
		n.Keys = append(n.Keys, k+"_"+suffix)
	}
	for _, x := range s.Sub {
		n.Sub = append(n.Sub, renameStage(x, suffix))
	}
	return n
}

// ---------------------------------------------------------------------------------------------------

func subMenu() map[string]*gprog.Prog {
	L := func(keys ...string) []gprog.Node {
		var ns []gprog.Node
		for _, k := range keys {
			ns = append(ns, gprog.Node{Key: k, Kind: gprog.KLambda})
		}
		return ns
	}
	return map[string]*gprog.Prog{
		"linear": {Mode: gprog.MPregel, Nodes: L("x", "y"), Edges: []gprog.Edge{{From: "start", To: "x"}, {From: "x", To: "y"}, {From: "y", To: "end"}}},
		"fanin":  {Mode: gprog.MPregel, Nodes: L("x", "y"), Edges: []gprog.Edge{{From: "start", To: "x"}, {From: "start", To: "y"}, {From: "x", To: "end"}, {From: "y", To: "end"}}},
		"branch": {Mode: gprog.MPregel, Nodes: L("x", "y"), Edges: []gprog.Edge{{From: "x", To: "end"}, {From: "y", To: "end"}}, Branches: []gprog.Branch{{From: "start", Targets: []string{"x", "y"}}}},
		"loop":   {Mode: gprog.MPregel, MaxSteps: 4, Nodes: L("x"), Edges: []gprog.Edge{{From: "start", To: "x"}}, Branches: []gprog.Branch{{From: "x", Targets: []string{"x", "end"}}}},
	}
}

func main() {
	c := harness.Init("C01")
	c.Res.Rule = "programs = all any-predecessor graphs (canonical up to node renaming) within the node/arc bounds incl. self-loops, cycles, single and multi branches, START->END; x step limits (default, 1, 2, 4 as compile option; runtime option) x node-kind variants (pass-through, 4 sub-graph kinds) x all chains of <=3 stages over {lambda, pass, parallel(2,3), branch(2,3), nested chain}; for each program ALL sequences of branch outcomes are enumerated by DFS over the reference model's decision points; every (program, script) is replayed on the implementation with Invoke and Stream. A case is non-trivial when the model run has >=2 supersteps or >=1 branch decision; distinct = distinct (program, script, call)."
	c.Res.Assumptions = []string{
		"node functions are deterministic and produce non-nil map values with one key per node (nil outputs and duplicate-key merges in stream mode are outside the statement's alphabet)",
		"errors are classified by message text (max-steps sentinel text, 'duplicated key', 'no tasks to execute') because the returned error does not unwrap (see C13)",
	}
	c.Res.Explanation = "reference model = the superstep rule of the statement (inbox per node; END wins; step limit; sub-graph = recursive model; chain = function composition); oracle = equal result / equal error class and the implementation's execution log is a concatenation of permutations of the model's per-step sets (exactly once per step, exact merged inputs, no step beyond the limit), also inside every sub-graph node; sub-graph as node vs same graph alone is covered by using the same model for both"
	quick := c.Quick()

	if v := c.LoadReplay(); v != nil {
		var cs Case
		b, _ := json.Marshal(v.Case)
		if err := json.Unmarshal(b, &cs); err != nil {
			fmt.Println("bad case:", err)
			c.ReplayExit(v.Scenario, fmt.Errorf("bad replay file"))
		}
		c.ReplayExit(v.Scenario, replayCase(c, &cs))
	}

	// ---- family: shapes
	ep := gprog.EnumParams{Mode: gprog.MPregel, MaxNodes: 4, MaxArcs: 7, Cyclic: true, MaxBranch: 2, MultiToo: true, BranchSize: 3}
	scriptCap := 300
	if !quick {
		ep.MaxNodes, ep.MaxArcs = 4, 8
		scriptCap = 3000
	}
	shapes := gprog.EnumShapes(ep)
	c.Count("shape_programs_enumerated", int64(len(shapes)))
	for _, base := range shapes {
		cyc := gprog.HasCycle(base)
		limits := []int{0}
		if cyc {
			// a branch inside a cycle is re-evaluated every round: keep arity^limit within the script cap
			ar := 1
			for _, b := range base.Branches {
				if b.Multi {
					ar *= 1 << len(b.Targets)
				} else {
					ar *= len(b.Targets)
				}
			}
			limits = []int{1}
			for _, l := range []int{2, 3, 4} {
				n := 1
				for i := 0; i < l; i++ {
					n *= ar
				}
				if n <= scriptCap {
					limits = append(limits, l)
				}
			}
			if len(base.Branches) == 0 {
				limits = append(limits, 0)
			}
		} else if len(base.Nodes) <= 2 {
			limits = []int{0, 1, 2}
		}
		for _, lim := range limits {
			p := *base
			p.MaxSteps = lim
			name := "shape/" + p.String()
			if !c.Mine(name) {
				continue
			}
			if c.TimeUp() {
				break
			}
			runProgram(c, "shape", &p, name, scriptCap, 0)
		}
	}
	// a second, overlapping branch on a branching node (small shapes)
	for _, base := range shapes {
		if len(base.Nodes) > 2 || len(base.Branches) == 0 {
			continue
		}
		for _, sb := range gprog.SecondBranchVariants(base, false) {
			q := *sb
			if gprog.HasCycle(&q) {
				ar := 1
				for _, b := range q.Branches {
					if b.Multi {
						ar *= 1 << len(b.Targets)
					} else {
						ar *= len(b.Targets)
					}
				}
				q.MaxSteps = 1
				if ar*ar <= scriptCap {
					q.MaxSteps = 2
				}
				if ar > scriptCap {
					continue
				}
			}
			name := "2br/" + q.String()
			if !c.Mine(name) {
				continue
			}
			if c.TimeUp() {
				break
			}
			runProgram(c, "shape", &q, name, scriptCap, 0)
		}
	}
	// runtime max-steps option overriding the compile-time value, on a cyclic and an acyclic program
	for _, rt := range []int{1, 2, 3} {
		for _, key := range []string{"loop", "linear"} {
			p := *subMenu()[key]
			p.MaxSteps = 0
			name := fmt.Sprintf("rtmax%d/%s", rt, p.String())
			if !c.Mine(name) {
				continue
			}
			runProgram(c, "shape", &p, name, scriptCap, rt)
		}
	}

	// ---- family: node kinds (pass-through and sub-graphs substituted into small shapes)
	kp := gprog.EnumParams{Mode: gprog.MPregel, MaxNodes: 3, MaxArcs: 4, Cyclic: true, MaxBranch: 1, MultiToo: false, BranchSize: 2}
	if !quick {
		kp.MaxNodes, kp.MaxArcs = 3, 6
	}
	subs := subMenu()
	for _, base := range gprog.EnumShapes(kp) {
		for ni := range base.Nodes {
			for _, kind := range []string{"pass", "linear", "fanin", "branch", "loop"} {
				p := *base
				p.Nodes = append([]gprog.Node{}, base.Nodes...)
				if gprog.HasCycle(base) {
					p.MaxSteps = 3
					if kind == "loop" || kind == "branch" {
						p.MaxSteps = 2
					}
				}
				if kind == "pass" {
					p.Nodes[ni].Kind = gprog.KPass
				} else {
					p.Nodes[ni].Kind = gprog.KSub
					p.Nodes[ni].Sub = subs[kind]
				}
				name := "kind/" + p.String()
				if !c.Mine(name) {
					continue
				}
				if c.TimeUp() {
					break
				}
				runProgram(c, "kind", &p, name, scriptCap, 0)
			}
		}
	}

	// ---- family: chains
	maxLen := 3
	if !quick {
		maxLen = 4
	}
	for _, st := range enumChains(maxLen, true) {
		name := "chain/" + stagesString(st)
		if !c.Mine(name) {
			continue
		}
		if c.TimeUp() {
			break
		}
		runChain(c, st, name)
	}
	c.Finish()
}

func runProgram(c *harness.Ctx, family string, p *gprog.Prog, name string, scriptCap int, rtMax int) {
	r, err := gprog.Compile(context.Background(), p, nil)
	if err != nil {
		c.Count("programs_rejected_at_compile", 1)
		c.Outcome("compile-rejected")
		return
	}
	c.Count("programs_compiled", 1)
	pm := *p
	if rtMax > 0 {
		pm.MaxSteps = rtMax
	}
	_, capped := gprog.AllScripts(&pm, input, scriptCap, c.StateStr, func(s gprog.Script, o *gprog.Outcome) bool {
		for _, call := range []string{"invoke", "stream"} {
			cs := &Case{Family: family, Prog: p, Script: s, Call: call, RtMax: rtMax}
			var res gprog.Val
			var rerr error
			var log []gprog.Entry
			gerr := c.Guard(name, cs, 120*time.Second, func() error {
				res, rerr, log = runImpl(r, cs)
				return nil
			})
			c.Res.Evaluations++
			c.Res.Transitions += int64(o.ModelSteps)
			if len(o.Steps) >= 2 || len(o.Decisions) >= 1 {
				c.Res.Nontrivial++
			}
			var verr error
			if gerr != nil {
				verr = gerr
			} else {
				verr = compare(o, res, rerr, log, call == "stream")
			}
			oc := o.Err
			if oc == "" {
				oc = fmt.Sprintf("ok-steps%d", len(o.Steps))
			}
			c.Outcome(oc)
			if verr != nil {
				c.Violate(harness.Violation{Scenario: name + " script=" + fmt.Sprint(s) + " " + call, Signature: sigOf(verr), Case: cs, Msg: verr.Error()})
				return !c.TooManyViolations()
			}
			c.Res.Validated++
			if len(o.Decisions) > 0 {
				c.Sample(map[string]any{"program": p.String(), "script": s, "call": call, "model_steps": o.Steps, "result": gprog.Canon(o.Result), "err": o.Err})
			}
		}
		return !c.TimeUp()
	})
	if capped {
		c.Res.Capped, c.Res.CapReason = true, fmt.Sprintf("script cap %d hit on %s", scriptCap, name)
	}
}

func runChain(c *harness.Ctx, st []Stage, name string) {
	bid := 0
	ch := buildChain(st, "", &bid)
	r, err := ch.Compile(context.Background())
	if err != nil {
		// construction rules of chains (e.g. a branch must be followed by a single node) are C20's business
		c.Count("chains_rejected_at_compile", 1)
		c.Outcome("chain-compile-rejected")
		return
	}
	c.Count("chains_compiled", 1)
	// DFS over branch answers
	var rec func(prefix []gprog.Decision)
	rec = func(prefix []gprog.Decision) {
		s := gprog.Script{}
		for _, d := range prefix {
			s[d.Key] = d.Ans
		}
		var steps [][]gprog.Entry
		var decisions []gprog.Decision
		b := 0
		want := chainModel(st, "", input, s, &b, &steps, &decisions)
		o := &gprog.Outcome{Result: want, Steps: steps, Decisions: decisions, Inner: map[string][][]gprog.Entry{}}
		c.StateStr(name + fmt.Sprint(s))
		for _, call := range []string{"invoke", "stream"} {
			cs := &Case{Family: "chain", Chain: st, Script: s, Call: call}
			var res gprog.Val
			var rerr error
			var log []gprog.Entry
			gerr := c.Guard(name, cs, 120*time.Second, func() error {
				res, rerr, log = runImpl(r, cs)
				return nil
			})
			c.Res.Evaluations++
			c.Res.Transitions += int64(len(steps))
			if len(steps) >= 2 {
				c.Res.Nontrivial++
			}
			verr := gerr
			if verr == nil {
				verr = compare(o, res, rerr, log, call == "stream")
			}
			c.Outcome(fmt.Sprintf("chain-ok-steps%d", len(steps)))
			if verr != nil {
				c.Violate(harness.Violation{Scenario: name + " script=" + fmt.Sprint(s) + " " + call, Signature: "chain-" + sigOf(verr), Case: cs, Msg: verr.Error()})
				continue
			}
			c.Res.Validated++
		}
		for i := len(prefix); i < len(decisions); i++ {
			d := decisions[i]
			for alt := 0; alt < d.Arity; alt++ {
				if alt != d.Ans {
					rec(append(append([]gprog.Decision{}, decisions[:i]...), gprog.Decision{Key: d.Key, Arity: d.Arity, Ans: alt}))
				}
			}
		}
	}
	rec(nil)
}

func replayCase(c *harness.Ctx, cs *Case) error {
	if cs.Family == "chain" {
		bid := 0
		r, err := buildChain(cs.Chain, "", &bid).Compile(context.Background())
		if err != nil {
			return err
		}
		var steps [][]gprog.Entry
		var decisions []gprog.Decision
		b := 0
		want := chainModel(cs.Chain, "", input, cs.Script, &b, &steps, &decisions)
		o := &gprog.Outcome{Result: want, Steps: steps, Inner: map[string][][]gprog.Entry{}}
		var res gprog.Val
		var rerr error
		var log []gprog.Entry
		if gerr := c.Guard("replay", cs, 120*time.Second, func() error { res, rerr, log = runImpl(r, cs); return nil }); gerr != nil {
			return gerr
		}
		return compare(o, res, rerr, log, cs.Call == "stream")
	}
	r, err := gprog.Compile(context.Background(), cs.Prog, nil)
	if err != nil {
		return fmt.Errorf("compile: %v", err)
	}
	pm := *cs.Prog
	if cs.RtMax > 0 {
		pm.MaxSteps = cs.RtMax
	}
	o := (&gprog.Model{Script: cs.Script}).Run(&pm, input)
	var res gprog.Val
	var rerr error
	var log []gprog.Entry
	if gerr := c.Guard("replay", cs, 120*time.Second, func() error { res, rerr, log = runImpl(r, cs); return nil }); gerr != nil {
		return gerr
	}
	fmt.Printf("model: result=%s err=%q steps=%v\nimpl:  result=%s err=%v log=%v\n", gprog.Canon(o.Result), o.Err, o.Steps, gprog.Canon(res), rerr, log)
	return compare(o, res, rerr, log, cs.Call == "stream")
}
