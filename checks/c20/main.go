// C20 — ill-formed graphs are rejected deterministically; compiled graphs are immutable (Engine R, explicit-state).
//
// Breadth-first search over construction call sequences of the three public builders (Graph, Chain,
// Workflow). The search runs on a small validity MODEL (one per builder, written from the property
// statement); every model transition (state, call) is validated on the real implementation by replaying
// the shortest call path to the state on a FRESH builder instance plus the one call (live builders cannot
// be cloned), several times (determinism clause). The oracle clauses are documented at judge().
//
// Development aids (replay mode): C20_DEBUG=1 prints every step's error text and probe results and the stack
// of a panic; C20_PROBE_ALL=1 also probes runnables of constructions the model rejects.
package main

import (
	"encoding/json"
	"fmt"
	"os"
	"runtime/debug"
	"sort"
	"strings"
	"time"

	"verif/lib/harness"
)

// ---------------------------------------------------------------------------------------------------
// vocabulary shared by the three builders

type verdict int

const (
	vAccept verdict = iota // the statement (and the evident design) makes this call well-formed
	vReject                // the call completes an ill-formed construction: it must be rejected
	vEither                // the statement is silent
)

const (
	stLive     = iota // under construction; no rejection has been observed yet
	stDead            // a call has been rejected (first error): everything must be rejected from now on
	stCompiled        // a Compile has succeeded: no modification, first runnable unaffected
	stUnknown         // outcome of the last call is not determined by the statement: not explored further
)

// Call is one letter of a builder's alphabet.
type Call struct {
	Idx  int      `json:"-"`
	Name string   `json:"name"`
	Op   string   `json:"op"`
	K    string   `json:"k,omitempty"`   // node key
	U    string   `json:"u,omitempty"`   // edge / branch start, workflow input source
	V    string   `json:"v,omitempty"`   // edge end, workflow input target
	T    []string `json:"t,omitempty"`   // branch targets
	Pre  bool     `json:"pre,omitempty"` // node carries a state pre-handler
	Opt  string   `json:"opt,omitempty"` // compile option set
	Map  string   `json:"map,omitempty"` // workflow: "" whole output, "from>to" field mapping, "dep" dependency only
	Var  string   `json:"var,omitempty"` // chain: variant of the appended element
}

func (c *Call) IsCompile() bool { return c.Op == "compile" || c.Op == "subcompile" }

// Expect is what the model says about one call in one state.
type Expect struct {
	HasErr   bool     // the public call returns an error value (Graph.Add*, every Compile); Chain.Append*/Workflow.Add* do not
	V        verdict  // for calls out of a live state
	Rules    []string // violated rules when V == vReject
	Unlisted bool     // every violated rule is outside the statement's list: a disagreement is counted, not reported
	NViol    int      // number of violating instances (two unknown keys in one call count twice), listed or not
	From     int      // status of the source state
	// source state dead:
	DeadPos     int      // position in the path of the call the model rejected
	DeadCompile bool     // that call was a Compile
	DeadRules   []string // its rules
	DeadOp      string
	DeadUnl     bool
	// source state compiled:
	SameAsFirst bool // if this call is a Compile that succeeds, its runnable must behave like the first one
}

type Model interface {
	Key() string
	Status() int
	Tags() string // feature tags of the construction (used in signatures): e.g. "workflow-mappings"
	Step(c *Call) (next Model, e Expect, enabled bool)
}

type probeFn func() string

type StepRes struct {
	HasErr bool
	Err    error
	Run    probeFn // non-nil when the call returned a runnable
}

type Instance interface {
	Do(c *Call) StepRes
}

type Builder interface {
	Name() string
	Alphabet() []*Call
	Init() Model
	New() Instance
	MaxLen(quick bool) int
}

// ---------------------------------------------------------------------------------------------------
// running a sequence on the implementation

type Obs struct {
	HasErr   bool
	Nil      bool
	Err      string
	Panic    string
	Base     string // baseline probe of the first runnable (at the step that created it)
	Unstable bool   // two baseline probes differed (the graph itself runs nondeterministically)
	Probe    string // probe of the FIRST runnable after this (later) step
	NewProbe string // probe of the runnable returned by this (later) step
}

func safeDo(inst Instance, c *Call) (res StepRes, pan string) {
	defer func() {
		if r := recover(); r != nil {
			st := string(debug.Stack())
			if os.Getenv("C20_DEBUG") != "" {
				fmt.Fprintln(os.Stderr, st)
			}
			pan = firstLine(fmt.Sprint(r)) + " @" + panicSite(st)
		}
	}()
	return inst.Do(c), ""
}

// panicSite extracts the innermost eino function on the panicking stack (stable class of a panic).
func panicSite(stack string) string {
	lines := strings.Split(stack, "\n")
	after := false
	for _, l := range lines {
		if strings.HasPrefix(l, "panic(") {
			after = true
			continue
		}
		if after && strings.HasPrefix(l, "github.com/cloudwego/eino/") {
			l = strings.TrimPrefix(l, "github.com/cloudwego/eino/")
			if i := strings.LastIndexByte(l, '('); i > 0 {
				l = l[:i]
			}
			// drop instantiation brackets: compose.(*Workflow[...]).compile
			for {
				i := strings.IndexByte(l, '[')
				j := strings.IndexByte(l, ']')
				if i < 0 || j < i {
					break
				}
				l = l[:i] + l[j+1:]
			}
			return l
		}
	}
	return "unknown-site"
}

func firstLine(s string) string {
	if i := strings.IndexByte(s, '\n'); i >= 0 {
		s = s[:i]
	}
	if len(s) > 300 {
		s = s[:300]
	}
	return s
}

// expectations re-steps the model along seq.
func expectations(b Builder, seq []*Call) []Expect {
	out := make([]Expect, 0, len(seq))
	m := b.Init()
	for _, c := range seq {
		nx, e, ok := m.Step(c)
		if !ok {
			break
		}
		out = append(out, e)
		m = nx
	}
	return out
}

// hung is set when a probe of a runnable did not return: the worker reports it and stops (the stuck
// goroutine cannot be recovered).
var hung bool

func withTimeout(f probeFn) string {
	done := make(chan string, 1)
	go func() { done <- f() }()
	select {
	case r := <-done:
		return r
	case <-time.After(20 * time.Second):
		hung = true
		return "hang:the runnable did not answer the probe input within 20s"
	}
}

func runAttempt(b Builder, seq []*Call, exps []Expect) []Obs { return runAttemptX(b, seq, exps, false) }

// runAttemptX: with probeLast the runnable returned by the last call is probed even though the model
// rejected an earlier Compile (used only when the model finds the remaining construction well-formed).
func runAttemptX(b Builder, seq []*Call, exps []Expect, probeLast bool) []Obs {
	inst := b.New()
	var first probeFn
	baseUnstable := false
	out := make([]Obs, 0, len(seq))
	for i, c := range seq {
		o := Obs{}
		res, pan := safeDo(inst, c)
		if pan != "" {
			o.Panic = pan
			out = append(out, o)
			break
		}
		o.HasErr = res.HasErr
		o.Nil = res.Err == nil
		if res.Err != nil {
			o.Err = res.Err.Error()
		}
		created := false
		// a Compile that the model rejects but the implementation accepts is reported as such; its runnable is not
		// probed (an ill-formed graph that got through may well not terminate)
		diverged := i < len(exps) && exps[i].From != stCompiled && exps[i].V == vReject
		if probeLast && i == len(seq)-1 {
			diverged = false
		}
		if os.Getenv("C20_PROBE_ALL") != "" {
			diverged = false // development aid: look at what an ill-formed graph that got through computes
		}
		if res.Run != nil && !diverged && !hung {
			if first == nil {
				first = res.Run
				created = true
				o.Base = withTimeout(first)
				if !hung && withTimeout(first) != o.Base {
					baseUnstable = true
				}
			} else {
				o.NewProbe = withTimeout(res.Run)
			}
		}
		if first != nil && !created && !hung {
			o.Probe = withTimeout(first)
		}
		o.Unstable = baseUnstable
		out = append(out, o)
	}
	return out
}

// ---------------------------------------------------------------------------------------------------
// oracle

type finding struct {
	sig string
	msg string
}

func probeClass(p string) string {
	if i := strings.IndexByte(p, ':'); i >= 0 {
		return p[:i]
	}
	return p
}

func sortedWords(s string) string {
	f := strings.FieldsFunc(s, func(r rune) bool {
		return !(r >= 'a' && r <= 'z' || r >= 'A' && r <= 'Z' || r >= '0' && r <= '9' || r == '_')
	})
	sort.Strings(f)
	return strings.Join(f, " ")
}

func render(seq []*Call, tr []Obs) string {
	var sb strings.Builder
	for i, c := range seq {
		if i > 0 {
			sb.WriteString("; ")
		}
		sb.WriteString(c.Name)
		if i < len(tr) {
			o := tr[i]
			switch {
			case o.Panic != "":
				sb.WriteString(" => PANIC " + o.Panic)
			case !o.HasErr:
				sb.WriteString(" => (no error result)")
			case o.Nil:
				sb.WriteString(" => nil")
			default:
				sb.WriteString(" => error(" + o.Err + ")")
			}
		} else {
			sb.WriteString(" => (not run)")
		}
	}
	return sb.String()
}

type counters interface{ Count(k string, n int64) }

// judge applies the property to the traces of one transition (source state reached by seq[:n-1], call
// seq[n-1]). Clauses, exactly as stated:
//
//	(1) no call panics;
//	(2) out of a live state, a call that returns an error value is rejected iff the model says the
//	    construction is ill-formed (listed kinds only); an ill-formed Add* that is accepted is tolerated
//	    (the statement does not say WHERE the error surfaces) but then every later Compile must reject;
//	(3) after the first rejection every later call that returns an error value returns an error;
//	(4) every attempt of the same sequence gives the same accept/reject vector and the same error texts;
//	(5) after a successful Compile every Add* that returns an error value fails, the first runnable
//	    answers the probe input identically after every later call, and a later successful Compile of
//	    the (unmodified) construction yields a runnable that answers like the first one.
func judge(cnt counters, b Builder, src Model, seq []*Call, exp Expect, traces [][]Obs) *finding {
	n := len(seq)
	last := seq[n-1]
	t0 := traces[0]
	ctx := func() string { return b.Name() + ": " + render(seq, t0) }

	// (1) panics
	for _, tr := range traces {
		for i, o := range tr {
			if o.Panic != "" {
				site := o.Panic
				if k := strings.LastIndex(site, " @"); k >= 0 {
					site = site[k+2:]
				}
				return &finding{
					sig: fmt.Sprintf("panic:%s:%s", sigName(b), site),
					msg: fmt.Sprintf("call %d (%s) panicked instead of returning an error: %s | %s", i+1, seq[i].Name, o.Panic, b.Name()+": "+render(seq, tr)),
				}
			}
			if strings.HasPrefix(o.Base, "panic:") && i == n-1 {
				// the freshly compiled runnable panics into its caller on the probe input: not this property's subject
				cnt.Count("baseline_probe_panics", 1)
			}
		}
	}

	for _, tr := range traces {
		for i, o := range tr {
			for _, p := range []string{o.Base, o.Probe, o.NewProbe} {
				if strings.HasPrefix(p, "hang:") {
					return &finding{
						sig: "runnable-hangs:" + sigName(b),
						msg: fmt.Sprintf("after call %d (%s) a compiled runnable does not answer the probe input (no return within 20s) | %s", i+1, seq[i].Name, b.Name()+": "+render(seq, tr)),
					}
				}
			}
		}
	}

	// (4) determinism
	for k := 1; k < len(traces); k++ {
		tr := traces[k]
		for i := range t0 {
			a, c := t0[i], tr[i]
			if a.Nil != c.Nil {
				return &finding{
					sig: "nondeterministic-outcome:" + sigName(b),
					msg: fmt.Sprintf("call %d (%s) is accepted on one attempt and rejected on another attempt of the same sequence | attempt A: %s | attempt B: %s", i+1, seq[i].Name, render(seq, t0), render(seq, tr)),
				}
			}
		}
	}
	for k := 1; k < len(traces); k++ {
		tr := traces[k]
		for i := range t0 {
			a, c := t0[i], tr[i]
			if a.Err == c.Err {
				continue
			}
			// which rules does the model see violated at this step?
			rules, multi := rulesAt(b, seq, i)
			if multi {
				cnt.Count("error_text_varies_with_several_rules_violated", 1)
				continue
			}
			x, y := a.Err, c.Err
			if x > y {
				x, y = y, x
			}
			if sortedWords(x) == sortedWords(y) {
				return &finding{
					sig: "nondeterministic-error-text-order:" + sigName(b) + ":" + rules,
					msg: fmt.Sprintf("call %d (%s) violates one rule (%s) but its error text lists the same names in different orders on different attempts: %q vs %q | %s", i+1, seq[i].Name, rules, x, y, b.Name()+": "+renderCalls(seq)),
				}
			}
			return &finding{
				sig: "nondeterministic-error-text:" + sigName(b) + ":" + rules,
				msg: fmt.Sprintf("call %d (%s) violates one rule (%s) but returns different error texts on different attempts of the same sequence, e.g. %q vs %q | %s", i+1, seq[i].Name, rules, x, y, b.Name()+": "+renderCalls(seq)),
			}
		}
	}

	if len(t0) < n {
		return nil // cannot happen without a panic
	}
	o := t0[n-1]

	switch exp.From {
	case stLive:
		if !exp.HasErr || !o.HasErr {
			return nil
		}
		switch exp.V {
		case vEither:
			cnt.Count("statement_silent_calls", 1)
		case vAccept:
			if !o.Nil {
				return &finding{
					sig: fmt.Sprintf("well-formed-rejected:%s:%s", sigName(b), last.Op),
					msg: fmt.Sprintf("the model finds no violated rule, yet call %d (%s) is rejected: %s | %s", n, last.Name, o.Err, ctx()),
				}
			}
		case vReject:
			if o.Nil {
				if exp.Unlisted {
					cnt.Count("unlisted_rule_disagreement", 1)
					return nil
				}
				if last.IsCompile() {
					return &finding{
						sig: fmt.Sprintf("ill-formed-accepted:%s:%s", sigName(b), strings.Join(exp.Rules, "+")),
						msg: fmt.Sprintf("the construction violates [%s] but %s succeeds | %s", strings.Join(exp.Rules, ", "), last.Name, ctx()),
					}
				}
				cnt.Count("ill_formed_add_accepted_judged_at_compile", 1)
			}
		}
	case stDead:
		first := t0[exp.DeadPos]
		if first.HasErr && first.Nil {
			// the model rejected that call, the implementation accepted it
			if exp.DeadCompile {
				cnt.Count("continuations_of_an_already_reported_divergence", 1)
				return nil
			}
			if exp.DeadUnl {
				cnt.Count("unlisted_rule_disagreement", 1)
				return nil
			}
			// ill-formed Add* accepted at Add time: it must be rejected by the time Compile returns
			if last.IsCompile() && o.HasErr && o.Nil {
				return &finding{
					sig: fmt.Sprintf("ill-formed-accepted:%s:%s", sigName(b), strings.Join(exp.DeadRules, "+")),
					msg: fmt.Sprintf("call %d (%s) violates [%s]; it is accepted and so is the later %s | %s", exp.DeadPos+1, seq[exp.DeadPos].Name, strings.Join(exp.DeadRules, ", "), last.Name, ctx()),
				}
			}
			return nil
		}
		// (3) the first error sticks
		if o.HasErr && o.Nil {
			if exp.DeadCompile {
				return &finding{
					sig: "compile-error-not-sticky:" + sigName(b) + ":" + ruleStage(exp.DeadRules),
					msg: fmt.Sprintf("call %d (%s) was rejected [%s], yet the later call %d (%s) on the same construction succeeds: the first error does not stick | %s", exp.DeadPos+1, seq[exp.DeadPos].Name, strings.Join(exp.DeadRules, ", "), n, last.Name, ctx()),
				}
			}
			return &finding{
				sig: fmt.Sprintf("add-error-not-sticky:%s:%s:%s", sigName(b), exp.DeadOp, strings.Join(exp.DeadRules, "+")),
				msg: fmt.Sprintf("call %d (%s) was rejected [%s], yet the later call %d (%s) on the same construction succeeds: the first error does not stick | %s", exp.DeadPos+1, seq[exp.DeadPos].Name, strings.Join(exp.DeadRules, ", "), n, last.Name, ctx()),
			}
		}
	case stCompiled:
		if o.HasErr && o.Nil && !last.IsCompile() {
			return &finding{
				sig: fmt.Sprintf("modified-after-compile:%s:%s", sigName(b), last.Op),
				msg: fmt.Sprintf("after a successful Compile, %s is accepted | %s", last.Name, ctx()),
			}
		}
	}

	// (5) first runnable unaffected; recompiled runnable behaves alike
	base, unstable := "", false
	for i, ob := range t0 {
		if ob.Base != "" {
			base = ob.Base
		}
		unstable = unstable || ob.Unstable
		if ob.Probe == "" || base == "" {
			continue
		}
		same := ob.Probe == base
		if unstable {
			cnt.Count("probe_unstable_baseline", 1)
			same = probeClass(ob.Probe) == probeClass(base)
		}
		if !same && i < n-1 {
			// an earlier call already changed the first runnable: that transition is reported on its own
			cnt.Count("continuations_of_an_already_reported_divergence", 1)
			return nil
		}
		if !same && i == n-1 {
			kind := "add-after-compile"
			if seq[i].Op == "compile" {
				kind = "recompile"
			} else if seq[i].Op == "subcompile" {
				kind = "subgraph-compile"
			}
			return &finding{
				sig: fmt.Sprintf("%s-corrupts-first-runnable-%s", kind, src.Tags()),
				msg: fmt.Sprintf("the runnable returned by the first successful Compile answers the probe input differently after call %d (%s): before %q, after %q | %s", i+1, seq[i].Name, base, ob.Probe, ctx()),
			}
		}
	}
	if exp.From == stCompiled && exp.SameAsFirst && o.NewProbe != "" && base != "" && !unstable && o.NewProbe != base {
		return &finding{
			sig: fmt.Sprintf("recompiled-runnable-differs-%s", src.Tags()),
			msg: fmt.Sprintf("the construction was not modified after its first Compile, yet the runnable returned by call %d (%s) answers the probe input differently from the first runnable: first %q, new %q | %s", n, last.Name, base, o.NewProbe, ctx()),
		}
	}
	return nil
}

// ruleStage tells whether a rejected Compile reported a violation committed by an earlier Add* call (builders
// whose Add* has no error result defer it) or one that only exists at Compile time.
func ruleStage(rules []string) string {
	for _, r := range rules {
		if !compileStageRules[r] {
			return "deferred-add-rule"
		}
	}
	return "compile-stage-rule"
}

// sigName: the stateful Graph flavour shares the classes of the plain one.
func sigName(b Builder) string { return strings.TrimSuffix(b.Name(), "s") }

func renderCalls(seq []*Call) string {
	s := make([]string, len(seq))
	for i, c := range seq {
		s[i] = c.Name
	}
	return strings.Join(s, "; ")
}

// rulesAt re-steps the model along seq and reports the rules violated at step i.
func rulesAt(b Builder, seq []*Call, i int) (string, bool) {
	m := b.Init()
	lastLive := m
	for k := 0; k <= i; k++ {
		if m.Status() == stLive {
			lastLive = m
		}
		nx, e, ok := m.Step(seq[k])
		if !ok {
			return "?", false
		}
		if k == i {
			switch e.From {
			case stLive:
				if len(e.Rules) == 0 {
					return "none", false
				}
				return strings.Join(e.Rules, "+"), e.NViol > 1
			case stDead:
				// the sticky error repeats the text of the first error
				r, multi := rulesAt(b, seq, e.DeadPos)
				// if the implementation did not make that error sticky, the text is the call's own verdict
				if _, e2, ok2 := lastLive.Step(seq[k]); ok2 && e2.NViol > 1 {
					multi = true
				}
				if e.NViol > 1 {
					multi = true
				}
				return "sticky(" + r + ")", multi
			default:
				return "compiled", e.NViol > 1 // several rejected modification attempts pending: either may be reported
			}
		}
		m = nx
	}
	return "?", false
}

// ---------------------------------------------------------------------------------------------------
// BFS

type Case struct {
	B     string   `json:"builder"`
	Calls []string `json:"calls"`
	All   bool     `json:"all_calls_from_here,omitempty"` // expand every call from the state reached by Calls (crash journal)
}

type bfsNode struct {
	m    Model
	path []*Call
}

type engine struct {
	c        *harness.Ctx
	attempts int
	sigSeen  map[string]int
	curMax   int // length bound of the search that is running (the builder's bound, or seed length + extra)
}

func (e *engine) Count(k string, n int64) { e.c.Count(k, n) }

func caseName(b Builder, seq []*Call) string {
	return fmt.Sprintf("%s/L%d/%s", b.Name(), len(seq), renderCalls(seq))
}

func nontrivial(b Builder, seq []*Call) bool {
	m := b.Init()
	for _, c := range seq {
		if c.IsCompile() {
			return true
		}
		nx, e, ok := m.Step(c)
		if !ok {
			return false
		}
		if e.From == stLive && e.V == vReject {
			return true
		}
		m = nx
	}
	return false
}

// transition validates (state reached by path, call) on the implementation.
func (e *engine) transition(b Builder, src Model, path []*Call, c *Call, exp Expect, attempts int) *finding {
	seq := make([]*Call, 0, len(path)+1)
	seq = append(seq, path...)
	seq = append(seq, c)
	traces := make([][]Obs, attempts)
	exps := expectations(b, seq)
	for k := range traces {
		traces[k] = runAttempt(b, seq, exps)
		e.c.Res.Evaluations++
		if hung {
			traces = traces[:k+1]
			break
		}
	}
	e.c.Res.Transitions++
	if os.Getenv("C20_DEBUG") != "" {
		for i, o := range traces[0] {
			fmt.Fprintf(os.Stderr, "  step %d %-45s err=%q base=%q probe=%q new=%q\n", i+1, seq[i].Name, o.Err, o.Base, o.Probe, o.NewProbe)
		}
	}
	f := judge(e, b, src, seq, exp, traces)
	if f != nil && strings.HasPrefix(f.sig, "compile-error-not-sticky") && c.IsCompile() {
		if g := e.afterRejectedCompile(b, seq, exps, traces[0]); g != nil {
			f = g
		}
	}
	if f != nil && strings.HasPrefix(f.sig, "compile-error-not-sticky") && c.IsCompile() {
		// a rejected Compile followed by nothing but the same Compile call again: the construction is unchanged, so "the
		// same outcome on every attempt" applies literally, whatever one thinks about stickiness
		onlyCompiles := true
		for i := exp.DeadPos + 1; i < len(seq); i++ {
			if !seq[i].IsCompile() || seq[i].Name != seq[exp.DeadPos].Name {
				onlyCompiles = false // another call, or a Compile with other options
			}
		}
		if onlyCompiles && exp.DeadPos < len(seq)-1 {
			f = &finding{
				sig: "compile-retry-accepted:" + strings.SplitN(f.sig, ":", 2)[1],
				msg: "Compile rejects the construction, a repeated Compile of the unchanged construction accepts it | " + f.msg,
			}
		}
	}
	if f != nil && (strings.HasPrefix(f.sig, "compile-error-not-sticky") || strings.HasPrefix(f.sig, "nondeterministic-error-text")) {
		// Not judged. (a) The sticky first error of the statement is the build error set by Add* calls; whether
		// a Compile-time rejection (missing entry/exit edge, invalid option) must poison later calls is not
		// stated. (b) "The same outcome on every attempt" is accept/reject; an error text that lists the same
		// names in map order, or names another node of the same cycle, is the same outcome.
		e.c.Count("not_judged:"+strings.SplitN(f.sig, ":", 2)[0], 1)
		f = nil
	}
	nt := c.IsCompile() || src.Status() != stLive || (exp.V == vReject)
	if !nt {
		nt = nontrivial(b, seq)
	}
	if nt {
		e.c.Res.Nontrivial++
	}
	o := traces[0][len(traces[0])-1]
	switch {
	case o.Panic != "":
		e.c.Outcome("panic")
	case !o.HasErr:
		e.c.Outcome(fmt.Sprintf("from%d/no-error-result", exp.From))
	case o.Nil:
		e.c.Outcome(fmt.Sprintf("from%d/%s/accepted", exp.From, c.Op))
	default:
		e.c.Outcome(fmt.Sprintf("from%d/%s/rejected", exp.From, c.Op))
	}
	if f == nil {
		e.c.Res.Validated++
	}
	return f
}

// afterRejectedCompile refines a "first error does not stick" finding whose last call is an accepted Compile:
// the construction without its rejected Compile calls is built on a fresh instance; if the model finds it
// well-formed, both runnables must answer the probe alike. A difference means that the rejected Compile left
// the builder in a state in which later calls are accepted but not honoured.
func (e *engine) afterRejectedCompile(b Builder, seq []*Call, exps []Expect, tr []Obs) *finding {
	var ref []*Call
	for i, c := range seq {
		if c.IsCompile() && i < len(seq)-1 {
			if i < len(tr) && tr[i].HasErr && !tr[i].Nil {
				continue // rejected Compile: dropped from the reference construction
			}
			return nil // an earlier Compile succeeded: not this class
		}
		ref = append(ref, c)
	}
	rexp := expectations(b, ref)
	if len(rexp) != len(ref) || rexp[len(ref)-1].From != stLive || rexp[len(ref)-1].V != vAccept {
		return nil
	}
	want := runAttempt(b, ref, rexp)
	got := runAttemptX(b, seq, exps, true)
	e.c.Res.Evaluations += 2
	if len(want) != len(ref) || len(got) != len(seq) {
		return nil
	}
	w, g := want[len(ref)-1], got[len(seq)-1]
	if w.Base == "" || g.Base == "" || w.Unstable || g.Unstable || w.Base == g.Base {
		return nil
	}
	return &finding{
		sig: "rejected-compile-leaves-builder-inconsistent:" + sigName(b),
		msg: fmt.Sprintf("after a rejected Compile later calls are accepted but not honoured: the final runnable answers %q, the same calls without the rejected Compile give %q | %s", g.Base, w.Base, b.Name()+": "+render(seq, tr)),
	}
}

func (e *engine) report(b Builder, seq []*Call, f *finding) {
	e.c.Count("violating_transitions["+f.sig+"]", 1)
	e.sigSeen[f.sig]++
	if e.sigSeen[f.sig] > 1 {
		return // one (the shortest) per class and worker; the driver keeps at most three per class anyway
	}
	names := make([]string, len(seq))
	for i, c := range seq {
		names[i] = c.Name
	}
	e.c.Violate(harness.Violation{Scenario: caseName(b, seq), Signature: f.sig, Case: Case{B: b.Name(), Calls: names}, Msg: f.msg})
}

func (e *engine) attemptsFor(c *Call) int {
	if c.IsCompile() {
		return e.attempts + 1 // compile iterates several Go maps: look a little harder for run-to-run differences
	}
	return e.attempts
}

// expand validates every enabled call out of one state.
func (e *engine) expand(b Builder, nd *bfsNode) {
	for _, c := range b.Alphabet() {
		nx, exp, ok := nd.m.Step(c)
		if !ok {
			continue
		}
		e.c.StateStr(b.Name() + "#" + nx.Key())
		if f := e.transition(b, nd.m, nd.path, c, exp, e.attemptsFor(c)); f != nil {
			e.report(b, append(append([]*Call{}, nd.path...), c), f)
		}
		if hung {
			e.c.Res.Capped, e.c.Res.CapReason = true, "worker stopped after a runnable hung"
			return
		}
		// at the depth bound: every Compile is retried once more (one call beyond the bound), so that "the same
		// outcome on every attempt" is also checked for the deepest constructions
		if c.IsCompile() && len(nd.path)+1 >= e.curMax {
			p2 := append(append([]*Call{}, nd.path...), c)
			if _, exp2, ok2 := nx.Step(c); ok2 {
				if f := e.transition(b, nx, p2, c, exp2, e.attemptsFor(c)); f != nil {
					e.report(b, append(p2, c), f)
				}
				e.c.Count("compile_retries_beyond_the_depth_bound", 1)
			}
		}
	}
}

// seeder is implemented by builders that name curated NON-INITIAL start states: well-formed constructions that lie
// beyond the depth bound (call names of the builder's alphabet). From each of them the search continues for a few
// more calls, so that ill-formed constructions which need many calls (a cycle behind a node that is attached twice
// to its predecessor ...) are reached as "one or two calls away from a well-formed one".
type seeder interface {
	Seeds() [][]string
}

func (e *engine) bfs(b Builder) {
	init := &bfsNode{m: b.Init()}
	seen := map[string]struct{}{init.m.Key(): {}}
	e.bfsFrom(b, init, b.MaxLen(e.c.Quick()), seen, "")
	sd, ok := b.(seeder)
	if !ok || e.c.Res.Capped {
		return
	}
	extra := 2
	if !e.c.Quick() {
		extra = 3
	}
	byName := map[string]*Call{}
	for _, x := range b.Alphabet() {
		byName[x.Name] = x
	}
	for si, names := range sd.Seeds() {
		m := b.Init()
		var path []*Call
		for _, n := range names {
			c, ok := byName[n]
			if !ok {
				e.c.Infra(fmt.Sprintf("seed %d of %s: unknown call %s", si, b.Name(), n))
				return
			}
			nx, _, ok := m.Step(c)
			if !ok {
				e.c.Infra(fmt.Sprintf("seed %d of %s: call %s is not enabled in the model", si, b.Name(), n))
				return
			}
			m = nx
			path = append(path, c)
		}
		seen[m.Key()] = struct{}{}
		e.bfsFrom(b, &bfsNode{m: m, path: path}, len(path)+extra, seen, fmt.Sprintf("seed%d:", si))
		if e.c.Res.Capped {
			return
		}
	}
}

// bfsFrom explores breadth-first from root until paths reach maxLen calls. seen is shared between the roots of one
// builder (a state reached from the initial state is not expanded again from a seed).
func (e *engine) bfsFrom(b Builder, root *bfsNode, maxLen int, seen map[string]struct{}, tag string) {
	e.curMax = maxLen
	level := []*bfsNode{root}
	for depth := len(root.path); depth < maxLen && len(level) > 0; depth++ {
		var next []*bfsNode
		newStates := 0
		for _, nd := range level {
			name := caseName(b, nd.path)
			mine := e.c.Mine(name)
			// successor computation is done by every worker (model only); the implementation is exercised by the owner
			for _, c := range b.Alphabet() {
				nx, _, ok := nd.m.Step(c)
				if !ok || nx.Status() == stUnknown {
					continue
				}
				k := nx.Key()
				if _, dup := seen[k]; dup {
					continue
				}
				seen[k] = struct{}{}
				newStates++
				if depth+1 < maxLen {
					p := make([]*Call, len(nd.path)+1)
					copy(p, nd.path)
					p[len(nd.path)] = c
					next = append(next, &bfsNode{m: nx, path: p})
				}
			}
			if !mine {
				continue
			}
			if e.c.TimeUp() || hung {
				return
			}
			e.c.StateStr(b.Name() + "#" + nd.m.Key())
			names := make([]string, len(nd.path))
			for i, x := range nd.path {
				names[i] = x.Name
			}
			cs := Case{B: b.Name(), Calls: names, All: true}
			e.c.Journal(name, cs)
			if err := e.c.Guard(name, cs, 120*time.Second, func() error { e.expand(b, nd); return nil }); err != nil {
				e.c.Infra(fmt.Sprintf("check code failed on %s: %v", name, err))
			}
			if len(e.c.Res.Samples) < 6 && len(nd.path) >= 3 && nd.m.Status() == stCompiled {
				e.c.Sample(map[string]any{"builder": b.Name(), "state_reached_by": names, "model_state": nd.m.Key()})
			}
		}
		if e.c.Worker == 0 {
			e.c.Count(fmt.Sprintf("model_states_first_reached_at_depth_%s%d[%s]", tag, depth+1, b.Name()), int64(newStates))
		}
		level = next
	}
}

// ---------------------------------------------------------------------------------------------------

func builders(quick bool) []Builder {
	return []Builder{newGraphBuilder(false), newWorkflowBuilder(), newChainBuilder(quick), newGraphBuilder(true)}
}

func replay(c *harness.Ctx, e *engine, v *harness.Violation) {
	raw, _ := json.Marshal(v.Case)
	var cs Case
	if err := json.Unmarshal(raw, &cs); err != nil {
		fmt.Fprintln(os.Stderr, "bad case:", err)
		os.Exit(2)
	}
	var b Builder
	for _, x := range builders(false) { // replays always use the full (thorough) alphabets
		if x.Name() == cs.B {
			b = x
		}
	}
	if b == nil {
		fmt.Fprintln(os.Stderr, "unknown builder", cs.B)
		os.Exit(2)
	}
	byName := map[string]*Call{}
	for _, x := range b.Alphabet() {
		byName[x.Name] = x
	}
	var seq []*Call
	for _, n := range cs.Calls {
		x, ok := byName[n]
		if !ok {
			fmt.Fprintln(os.Stderr, "unknown call", n)
			os.Exit(2)
		}
		seq = append(seq, x)
	}
	attempts := e.attempts * 2
	if strings.HasPrefix(v.Signature, "nondeterministic") {
		attempts = 64 // a two-valued coin must show both faces with certainty for the 5/5 confirmation
	}
	walk := func(seq []*Call) (Model, bool) {
		m := b.Init()
		for _, x := range seq {
			nx, _, ok := m.Step(x)
			if !ok {
				return nil, false
			}
			m = nx
		}
		return m, true
	}
	if cs.All {
		m, ok := walk(seq)
		if !ok {
			fmt.Fprintln(os.Stderr, "path not enabled in the model")
			os.Exit(2)
		}
		var err error
		for _, x := range b.Alphabet() {
			_, exp, ok := m.Step(x)
			if !ok {
				continue
			}
			if f := e.transition(b, m, seq, x, exp, attempts); f != nil && err == nil {
				err = fmt.Errorf("[%s] %s", f.sig, f.msg)
			}
		}
		c.ReplayExit(v.Scenario, err)
	}
	if len(seq) == 0 {
		c.ReplayExit(v.Scenario, nil)
	}
	m, ok := walk(seq[:len(seq)-1])
	if !ok {
		fmt.Fprintln(os.Stderr, "path not enabled in the model")
		os.Exit(2)
	}
	_, exp, ok := m.Step(seq[len(seq)-1])
	if !ok {
		fmt.Fprintln(os.Stderr, "last call not enabled in the model")
		os.Exit(2)
	}
	var err error
	if f := e.transition(b, m, seq[:len(seq)-1], seq[len(seq)-1], exp, attempts); f != nil {
		err = fmt.Errorf("[%s] %s", f.sig, f.msg)
	}
	c.ReplayExit(v.Scenario, err)
}

func main() {
	c := harness.Init("C20")
	c.Res.Rule = "a case is one model transition (canonical validity-model state reached by its shortest call path, one more call), " +
		"replayed on a fresh Graph/Chain/Workflow several times; distinct = distinct (model state, call); non-trivial = the sequence contains " +
		"at least one rejected call or a Compile"
	c.Res.Assumptions = []string{
		"explicit-state search: two call sequences that lead to the same canonical model state (same node set, edge set, branch multiset, pending violations, first rejected call, compile history) are explored once, through the shortest one",
		"node bodies are total string/map functions; probe input is fixed; all node types are mutually assignable so that no type-mismatch rule (property C07) interferes",
		"rules the statement does not list (mapping-target conflicts, chain shape rules) are predicted by the model but a disagreement on them is only counted",
		"nil arguments (nil *Lambda, nil *GraphBranch) are not in the alphabet: the statement lists kinds of ill-formed constructions, not Go-level misuse",
	}
	c.Res.Explanation = "BFS over all Add*/Append*/AddInput/AddBranch/Compile call sequences up to the length bound (Graph 5 quick / 6 thorough; Chain and Workflow alike) " +
		"on a validity model (reserved/unknown/duplicate keys, duplicate edges, missing entry/exit, uninferable passthrough, cycle in all-predecessor mode, single-target branch, " +
		"state handler without state, invalid compile options, sticky first error, compiled flag). Every model transition is replayed on the real builder (fresh instance, >=3 attempts). " +
		"Oracle: no panic; rejected iff ill-formed (an ill-formed Add* may be accepted if every later Compile rejects); after the first rejection every later call fails; " +
		"identical accept/reject vector and error texts on every attempt; after a successful Compile every Add* fails and the first runnable answers a probe input " +
		"(Invoke and Stream) identically after every later Add*/Compile/compile-as-sub-graph attempt; a later Compile of the unmodified construction yields an equivalent runnable. " +
		"Where a Compile is accepted after a rejected one (first error not sticky), its runnable is also compared with the same calls made on a fresh builder without the rejected Compile " +
		"(class rejected-compile-leaves-builder-inconsistent). Chain/Workflow models keep following Append*/Add* calls after a rejected Compile (those calls have no error result)."
	e := &engine{c: c, attempts: 3, sigSeen: map[string]int{}}
	if v := c.LoadReplay(); v != nil {
		replay(c, e, v)
	}
	for _, b := range builders(c.Quick()) {
		if c.Quick() && b.Name() == "Gs" {
			continue // the stateful-graph flavour adds no violation kind; thorough tier only
		}
		e.bfs(b)
		if c.Res.Capped {
			break
		}
	}
	c.Finish()
}
