package main

import (
	"context"
	"fmt"
	"strings"

	"github.com/cloudwego/eino/compose"
)

// ---------------------------------------------------------------------------------------------------
// Chain builder. Append* returns the chain (no error): everything is judged at Compile.
// Chain[string, any]; every node body is any -> string, every branch condition takes any, so that no
// type rule (property C07) interferes with the construction rules.

type cBuilder struct{ calls []*Call }

func (b *cBuilder) Name() string      { return "C" }
func (b *cBuilder) Alphabet() []*Call { return b.calls }
func (b *cBuilder) MaxLen(quick bool) int {
	if quick {
		return 5
	}
	return 6
}

func newChainBuilder(quick bool) *cBuilder {
	b := &cBuilder{}
	for _, c := range []*Call{
		{Name: "AppendLambda()", Op: "capp", Var: "L"},
		{Name: "AppendLambda(WithNodeKey(k))", Op: "capp", Var: "Lk"},
		{Name: "AppendLambda(WithNodeKey(end))", Op: "capp", Var: "Lend"},
		{Name: "AppendLambda(WithStatePreHandler)", Op: "capp", Var: "Lpre"},
		{Name: "AppendPassthrough()", Op: "capp", Var: "P"},
		{Name: "AppendParallel({o1,o2})", Op: "capp", Var: "Par2"},
		{Name: "AppendParallel({o1})", Op: "capp", Var: "Par1"},
		{Name: "AppendParallel({o1,o1})", Op: "capp", Var: "ParDup"},
		{Name: "AppendBranch({k1,k2})", Op: "capp", Var: "Br2"},
		{Name: "AppendBranch({k1})", Op: "capp", Var: "Br1"},
		{Name: "AppendBranch({k1,k1})", Op: "capp", Var: "BrDup"},
		{Name: "Compile()", Op: "compile", Opt: ""},
		{Name: "Compile(WithNodeTriggerMode(AllPredecessor))", Op: "compile", Opt: "allpred"},
		{Name: "Compile(WithNodeTriggerMode(AnyPredecessor))", Op: "compile", Opt: "anypred"},
		{Name: "Compile(WithMaxRunSteps(50))", Op: "compile", Opt: "max50"},
		{Name: "CompileAsSubGraphOfAFreshParent()", Op: "subcompile"},
	} {
		if quick && c.Opt == "anypred" {
			continue // same rule as the AllPredecessor variant (a chain takes no trigger mode): thorough tier only
		}
		c.Idx = len(b.calls)
		b.calls = append(b.calls, c)
	}
	return b
}

type cState struct {
	status          int
	elems           string // applied elements, e.g. "L,Br2,L"
	multi           bool   // the last element left several open ends (parallel / branch)
	usedK           bool
	pending         []string // listed rules violated by an Append* so far
	pendingUnl      []string
	deadBy, deadPos int
	deadRules       []string
	first           int
	later           string
	touched         bool
	depth           int
}

type cModel struct {
	b *cBuilder
	s cState
}

func (b *cBuilder) Init() Model { return &cModel{b: b} }
func (m *cModel) Status() int   { return m.s.status }

func (m *cModel) core() string {
	s := &m.s
	return fmt.Sprintf("%s|%v|%v", s.elems, s.pending, s.pendingUnl)
}

func (m *cModel) Key() string {
	s := &m.s
	switch s.status {
	case stDead:
		return fmt.Sprintf("dead|%s|by%d@%d", m.core(), s.deadBy, s.deadPos) // calls made before and after the rejected Compile are not interchangeable
	case stCompiled:
		return fmt.Sprintf("compiled|%s|first%d|later%s|%v", m.core(), s.first, s.later, s.touched)
	case stUnknown:
		return "unknown"
	}
	return "live|" + m.core()
}

func (m *cModel) Tags() string {
	t := "chain"
	if strings.Contains(m.s.elems, "Br2") {
		t += "-branch"
	}
	if strings.Contains(m.s.elems, "Par2") {
		t += "-parallel"
	}
	return t
}

func (m *cModel) compileRules(opt string) (listed, unlisted []string) {
	s := &m.s
	listed = append([]string{}, s.pending...)
	unlisted = append([]string{}, s.pendingUnl...)
	if s.elems == "" && len(listed)+len(unlisted) == 0 {
		listed = append(listed, "missing-entry", "missing-exit")
	}
	if opt == "allpred" || opt == "anypred" {
		listed = append(listed, "invalid-option-combination")
	}
	return listed, unlisted
}

// appendTo applies an Append* call to the modelled chain.
func (m *cModel) appendTo(n *cModel, c *Call) {
	s := &m.s
	if len(s.pending)+len(s.pendingUnl) > 0 {
		return // the chain already carries an error: later appends change nothing
	}
	var l, u []string
	switch c.Var {
	case "Lk":
		if s.usedK {
			l = append(l, "duplicate-key")
		}
	case "Lend":
		l = append(l, "reserved-key")
	case "Lpre":
		l = append(l, "state-handler-without-state")
	case "Par1":
		u = append(u, "parallel-of-one-node")
	case "ParDup":
		u = append(u, "parallel-duplicate-output-key")
	case "Br1":
		l = append(l, "single-target-branch")
	case "BrDup":
		l = append(l, "duplicate-key")
	}
	if s.multi && (strings.HasPrefix(c.Var, "Par") || strings.HasPrefix(c.Var, "Br")) {
		u = append(u, "parallel-or-branch-after-several-open-ends")
	}
	if len(l)+len(u) > 0 {
		n.s.pending, n.s.pendingUnl = l, u
		return
	}
	if n.s.elems != "" {
		n.s.elems += ","
	}
	n.s.elems += c.Var
	n.s.multi = c.Var == "Par2" || c.Var == "Br2"
	if c.Var == "Lk" {
		n.s.usedK = true
	}
}

func (m *cModel) Step(c *Call) (Model, Expect, bool) {
	s := &m.s
	if s.status == stUnknown {
		return nil, Expect{}, false
	}
	n := &cModel{b: m.b, s: m.s}
	n.s.depth++
	switch s.status {
	case stDead:
		// Append* has no error result: the model keeps following the calls (the implementation does not make a
		// rejected Compile final), so that a later accepted Compile can be compared with a fresh construction
		nv := 0
		if c.Op == "capp" {
			m.appendTo(n, c)
		} else {
			l, u := m.compileRules(c.Opt)
			nv = len(l) + len(u)
		}
		return n, Expect{HasErr: c.IsCompile(), V: vReject, NViol: nv, From: stDead, DeadPos: s.deadPos, DeadCompile: true, DeadRules: s.deadRules, DeadOp: "compile"}, true
	case stCompiled:
		if c.IsCompile() {
			n.s.later += fmt.Sprintf(",%d", c.Idx)
			return n, Expect{HasErr: true, V: vEither, From: stCompiled, SameAsFirst: s.later == ""}, true
		}
		n.s.touched = true
		return n, Expect{HasErr: false, From: stCompiled}, true
	}
	if c.Op == "capp" {
		m.appendTo(n, c)
		return n, Expect{HasErr: false, V: vAccept, From: stLive}, true
	}
	// compile
	listed, unlisted := m.compileRules(c.Opt)
	nviol := len(listed) + len(unlisted)
	listed = dedupe(listed)
	if len(listed)+len(unlisted) == 0 {
		n.s.status = stCompiled
		n.s.first = c.Idx
		return n, Expect{HasErr: true, V: vAccept, From: stLive}, true
	}
	if len(listed) == 0 {
		n.s = cState{status: stUnknown}
		return n, Expect{HasErr: true, V: vEither, Rules: unlisted, Unlisted: true, NViol: nviol, From: stLive}, true
	}
	n.s.status = stDead
	n.s.deadBy = c.Idx
	n.s.deadPos = s.depth
	n.s.deadRules = listed
	return n, Expect{HasErr: true, V: vReject, Rules: listed, NViol: nviol, From: stLive}, true
}

// ---------------------------------------------------------------------------------------------------

type cInst struct {
	ch *compose.Chain[string, any]
}

func (b *cBuilder) New() Instance { return &cInst{ch: compose.NewChain[string, any]()} }

func anyLambda(tag string) *compose.Lambda {
	return compose.InvokableLambda(func(ctx context.Context, in any) (string, error) {
		if m, ok := in.(map[string]any); ok {
			return tag + "(" + renderMap(m) + ")", nil
		}
		return fmt.Sprintf("%s(%v)", tag, in), nil
	})
}

func (x *cInst) Do(c *Call) StepRes {
	ctx := context.Background()
	switch c.Op {
	case "capp":
		switch c.Var {
		case "L":
			x.ch.AppendLambda(anyLambda("l"))
		case "Lk":
			x.ch.AppendLambda(anyLambda("lk"), compose.WithNodeKey("k"))
		case "Lend":
			x.ch.AppendLambda(anyLambda("lend"), compose.WithNodeKey(compose.END))
		case "Lpre":
			x.ch.AppendLambda(anyLambda("lpre"), compose.WithStatePreHandler(func(ctx context.Context, in any, s *gst) (any, error) { return in, nil }))
		case "P":
			x.ch.AppendPassthrough()
		case "Par2":
			x.ch.AppendParallel(compose.NewParallel().AddLambda("o1", anyLambda("p1")).AddLambda("o2", anyLambda("p2")))
		case "Par1":
			x.ch.AppendParallel(compose.NewParallel().AddLambda("o1", anyLambda("p1")))
		case "ParDup":
			x.ch.AppendParallel(compose.NewParallel().AddLambda("o1", anyLambda("p1")).AddLambda("o1", anyLambda("p2")))
		case "Br2":
			x.ch.AppendBranch(compose.NewChainBranch(func(ctx context.Context, in any) (string, error) { return "k1", nil }).
				AddLambda("k1", anyLambda("b1")).AddLambda("k2", anyLambda("b2")))
		case "Br1":
			x.ch.AppendBranch(compose.NewChainBranch(func(ctx context.Context, in any) (string, error) { return "k1", nil }).
				AddLambda("k1", anyLambda("b1")))
		case "BrDup":
			x.ch.AppendBranch(compose.NewChainBranch(func(ctx context.Context, in any) (string, error) { return "k1", nil }).
				AddLambda("k1", anyLambda("b1")).AddLambda("k1", anyLambda("b2")))
		default:
			panic("unknown chain element " + c.Var)
		}
		return StepRes{}
	case "compile":
		r, err := x.ch.Compile(ctx, compileOpts(c.Opt)...)
		if err != nil {
			return StepRes{HasErr: true, Err: err}
		}
		return StepRes{HasErr: true, Run: probe[string, any](r, "x")}
	case "subcompile":
		r, err := compileAsSub[string, any](x.ch)
		if err != nil {
			return StepRes{HasErr: true, Err: err}
		}
		return StepRes{HasErr: true, Run: probe[string, any](r, "x")}
	}
	panic("unknown op " + c.Op)
}
