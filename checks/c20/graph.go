package main

import (
	"context"
	"fmt"
	"io"
	"sort"
	"strings"

	"github.com/cloudwego/eino/compose"
)

// ---------------------------------------------------------------------------------------------------
// Graph builder: alphabet

type gst struct{ N int }

type gBuilder struct {
	stateful bool
	calls    []*Call
	edges    []*Call // edge calls, bit i of gState.edges
	brs      []*Call // branch calls, gState.br[i]
}

func (b *gBuilder) Name() string {
	if b.stateful {
		return "Gs"
	}
	return "G"
}
func (b *gBuilder) Alphabet() []*Call { return b.calls }
func (b *gBuilder) MaxLen(quick bool) int {
	if quick {
		return 5
	}
	return 6
}

// Seeds: well-formed graphs of 8-9 calls in which a node hangs on its predecessor TWICE (edge + branch) or is reached
// over two routes; one or two calls further lie cycles that do not run through the entry node, a second exit, a
// duplicate edge ... (all-predecessor validation counts predecessors per edge and per branch).
func (b *gBuilder) Seeds() [][]string {
	return [][]string{
		{"AddLambdaNode(a)", "AddLambdaNode(b)", "AddPassthroughNode(p)", "AddEdge(start,p)", "AddEdge(p,a)", "AddBranch(p->{a,end})", "AddEdge(a,b)", "AddEdge(b,end)"},
		{"AddLambdaNode(a)", "AddLambdaNode(b)", "AddEdge(start,a)", "AddEdge(a,b)", "AddBranch(a->{b,end})", "AddEdge(b,end)"},
		{"AddLambdaNode(a)", "AddLambdaNode(b)", "AddPassthroughNode(p)", "AddEdge(start,a)", "AddEdge(start,p)", "AddEdge(a,b)", "AddEdge(p,b)", "AddEdge(b,end)"},
	}
}

const ghost = "ghost"

func newGraphBuilder(stateful bool) *gBuilder {
	b := &gBuilder{stateful: stateful}
	add := func(c *Call) {
		c.Idx = len(b.calls)
		b.calls = append(b.calls, c)
	}
	// nodes
	add(&Call{Name: "AddLambdaNode(a)", Op: "lambda", K: "a"})
	add(&Call{Name: "AddLambdaNode(b)", Op: "lambda", K: "b"})
	add(&Call{Name: "AddPassthroughNode(p)", Op: "pass", K: "p"})
	add(&Call{Name: "AddLambdaNode(start)", Op: "lambda", K: compose.START})
	add(&Call{Name: "AddLambdaNode(end)", Op: "lambda", K: compose.END})
	add(&Call{Name: "AddLambdaNode(b,WithStatePreHandler)", Op: "lambda", K: "b", Pre: true})
	// edges: every violation kind (END as source, START as target, unknown source, unknown target, duplicate by
	// repetition, self loops, 2-cycles, passthrough self loop) and enough legal ones to build entry/exit/cycles
	S, E := compose.START, compose.END
	for _, e := range [][2]string{
		{S, "a"}, {S, "b"}, {S, "p"}, {S, E},
		{"a", "b"}, {"b", "a"}, {"a", E}, {"b", E},
		{"a", "p"}, {"p", "a"}, {"p", "b"}, {"p", E}, {"p", "p"}, {"a", "a"},
		{E, "a"}, {"a", S}, {ghost, "a"}, {"a", ghost},
	} {
		c := &Call{Name: fmt.Sprintf("AddEdge(%s,%s)", e[0], e[1]), Op: "edge", U: e[0], V: e[1]}
		add(c)
		b.edges = append(b.edges, c)
	}
	for _, br := range []struct {
		u string
		t []string
	}{
		{"a", []string{"b", E}},
		{"b", []string{"a", E}},
		{"a", []string{"a", E}}, // loops back to its own start node (the ReAct shape): a cycle in all-predecessor mode
		{S, []string{"a", E}},
		{"p", []string{"a", E}},
		{"a", []string{"b"}},        // single target
		{"a", []string{"b", ghost}}, // unknown target
		{E, []string{"a", "b"}},     // END as source
		{ghost, []string{"a", E}},   // unknown source
	} {
		c := &Call{Name: fmt.Sprintf("AddBranch(%s->{%s})", br.u, strings.Join(br.t, ",")), Op: "branch", U: br.u, T: br.t}
		add(c)
		b.brs = append(b.brs, c)
	}
	add(&Call{Name: "Compile()", Op: "compile", Opt: ""})
	add(&Call{Name: "Compile(WithNodeTriggerMode(AllPredecessor))", Op: "compile", Opt: "allpred"})
	add(&Call{Name: "Compile(WithNodeTriggerMode(AllPredecessor),WithMaxRunSteps(7))", Op: "compile", Opt: "allpred+max"})
	add(&Call{Name: "Compile(WithMaxRunSteps(7))", Op: "compile", Opt: "max"})
	add(&Call{Name: "CompileAsSubGraphOfAFreshParent()", Op: "subcompile"})
	return b
}

// ---------------------------------------------------------------------------------------------------
// Graph builder: validity model

const (
	nA = 1 << iota
	nB
	nP
	nBPre
)

type gState struct {
	status int
	nodes  uint8
	edges  uint32
	br     [9]uint8
	// dead
	deadBy      int
	deadPos     int
	deadCompile bool
	deadRules   []string
	// compiled
	first int
	later string
	depth int
}

type gModel struct {
	b *gBuilder
	s gState
}

func (b *gBuilder) Init() Model { return &gModel{b: b} }

func (m *gModel) Status() int { return m.s.status }

func (m *gModel) Key() string {
	s := &m.s
	switch s.status {
	case stDead:
		return fmt.Sprintf("dead|%x|%x|%v|by%d", s.nodes, s.edges, s.br, s.deadBy)
	case stCompiled:
		return fmt.Sprintf("compiled|%x|%x|%v|first%d|later%s", s.nodes, s.edges, s.br, s.first, s.later)
	case stUnknown:
		return "unknown"
	}
	return fmt.Sprintf("live|%x|%x|%v", s.nodes, s.edges, s.br)
}

func (m *gModel) Tags() string {
	t := "graph"
	for _, n := range m.s.br {
		if n > 0 {
			t = "graph-branches"
		}
	}
	return t
}

func (m *gModel) has(k string) bool {
	switch k {
	case "a":
		return m.s.nodes&nA != 0
	case "b":
		return m.s.nodes&nB != 0
	case "p":
		return m.s.nodes&nP != 0
	}
	return false
}

func (m *gModel) edgeBit(c *Call) uint32 {
	for i, e := range m.b.edges {
		if e == c {
			return 1 << uint(i)
		}
	}
	panic("edge not in alphabet")
}

func (m *gModel) brIdx(c *Call) int {
	for i, e := range m.b.brs {
		if e == c {
			return i
		}
	}
	panic("branch not in alphabet")
}

// successors in the control graph (edges and branch targets), START/END excluded
func (m *gModel) adjacency() map[string][]string {
	adj := map[string][]string{}
	inner := func(k string) bool { return k == "a" || k == "b" || k == "p" }
	for i, e := range m.b.edges {
		if m.s.edges&(1<<uint(i)) != 0 && inner(e.U) && inner(e.V) {
			adj[e.U] = append(adj[e.U], e.V)
		}
	}
	for i, br := range m.b.brs {
		if m.s.br[i] > 0 && inner(br.U) {
			for _, t := range br.T {
				if inner(t) {
					adj[br.U] = append(adj[br.U], t)
				}
			}
		}
	}
	return adj
}

func hasCycle(adj map[string][]string) bool {
	color := map[string]int{}
	var visit func(n string) bool
	visit = func(n string) bool {
		color[n] = 1
		for _, s := range adj[n] {
			if color[s] == 1 {
				return true
			}
			if color[s] == 0 && visit(s) {
				return true
			}
		}
		color[n] = 2
		return false
	}
	for _, n := range []string{"a", "b", "p"} {
		if color[n] == 0 && visit(n) {
			return true
		}
	}
	return false
}

func (m *gModel) compileRules(opt string) []string {
	var rules []string
	entry, exit := false, false
	pTouched, pSelf := false, false
	for i, e := range m.b.edges {
		if m.s.edges&(1<<uint(i)) == 0 {
			continue
		}
		if e.U == compose.START {
			entry = true
		}
		if e.V == compose.END {
			exit = true
		}
		if (e.U == "p") != (e.V == "p") {
			pTouched = true
		}
		if e.U == "p" && e.V == "p" {
			pSelf = true
		}
	}
	for i, br := range m.b.brs {
		if m.s.br[i] == 0 {
			continue
		}
		if br.U == compose.START {
			entry = true
		}
		if br.U == "p" {
			pTouched = true // the branch condition's input type types the passthrough
		}
		for _, t := range br.T {
			if t == compose.END {
				exit = true
			}
			if t == "p" {
				pTouched = true
			}
		}
	}
	if !entry {
		rules = append(rules, "missing-entry")
	}
	if !exit {
		rules = append(rules, "missing-exit")
	}
	if m.has("p") && !pTouched {
		if pSelf {
			rules = append(rules, "uninferable-passthrough")
		} else {
			rules = append(rules, "uninferable-passthrough-isolated")
		}
	}
	if strings.HasPrefix(opt, "allpred") && hasCycle(m.adjacency()) {
		rules = append(rules, "cycle-in-all-predecessor-mode")
	}
	if opt == "allpred+max" {
		rules = append(rules, "invalid-option-combination")
	}
	sort.Strings(rules)
	return rules
}

func (m *gModel) kill(c *Call, rules []string) *gModel {
	n := &gModel{b: m.b, s: m.s}
	n.s.status = stDead
	n.s.deadBy = c.Idx
	n.s.deadPos = m.s.depth
	n.s.deadCompile = c.IsCompile()
	n.s.deadRules = rules
	n.s.depth++
	return n
}

func (m *gModel) Step(c *Call) (Model, Expect, bool) {
	s := &m.s
	switch s.status {
	case stUnknown:
		return nil, Expect{}, false
	case stDead:
		n := &gModel{b: m.b, s: m.s}
		n.s.depth++
		return n, Expect{HasErr: true, V: vReject, From: stDead, DeadPos: s.deadPos, DeadCompile: s.deadCompile,
			DeadRules: s.deadRules, DeadOp: m.b.calls[s.deadBy].Op}, true
	case stCompiled:
		n := &gModel{b: m.b, s: m.s}
		n.s.depth++
		if c.IsCompile() {
			n.s.later += fmt.Sprintf(",%d", c.Idx)
			fo := m.b.calls[s.first]
			same := (fo.Opt == c.Opt || (fo.Opt == "" && c.Op == "subcompile") || (fo.Op == "subcompile" && c.Opt == "")) && s.later == ""
			return n, Expect{HasErr: true, V: vEither, From: stCompiled, SameAsFirst: same}, true
		}
		return n, Expect{HasErr: true, V: vReject, Rules: []string{"compiled"}, From: stCompiled}, true
	}
	// live
	var rules []string
	nviol := 0
	n := &gModel{b: m.b, s: m.s}
	n.s.depth++
	switch c.Op {
	case "lambda", "pass":
		if c.K == compose.START || c.K == compose.END {
			rules = append(rules, "reserved-key")
		} else if m.has(c.K) {
			rules = append(rules, "duplicate-key")
		}
		if c.Pre && !m.b.stateful {
			rules = append(rules, "state-handler-without-state")
		}
		if len(rules) == 0 {
			switch c.K {
			case "a":
				n.s.nodes |= nA
			case "b":
				n.s.nodes |= nB
				if c.Pre {
					n.s.nodes |= nBPre
				}
			case "p":
				n.s.nodes |= nP
			}
		}
	case "edge":
		if c.U == compose.END || c.V == compose.START {
			rules = append(rules, "reserved-key-as-wrong-endpoint")
		}
		if c.U != compose.START && c.U != compose.END && !m.has(c.U) {
			rules = append(rules, "unknown-key")
		}
		if c.V != compose.END && c.V != compose.START && !m.has(c.V) {
			rules = append(rules, "unknown-key")
		}
		bit := m.edgeBit(c)
		if s.edges&bit != 0 {
			rules = append(rules, "duplicate-edge")
		}
		if len(rules) == 0 {
			n.s.edges |= bit
		}
	case "branch":
		if c.U == compose.END {
			rules = append(rules, "reserved-key-as-wrong-endpoint")
		} else if c.U != compose.START && !m.has(c.U) {
			rules = append(rules, "unknown-key")
		}
		if len(c.T) == 1 {
			rules = append(rules, "single-target-branch")
		}
		for _, t := range c.T {
			if t != compose.END && !m.has(t) {
				rules = append(rules, "unknown-key")
			}
		}
		if len(rules) == 0 {
			n.s.br[m.brIdx(c)]++
		}
	case "compile", "subcompile":
		rules = m.compileRules(c.Opt)
		if len(rules) == 0 {
			n.s.status = stCompiled
			n.s.first = c.Idx
			return n, Expect{HasErr: true, V: vAccept, From: stLive}, true
		}
	}
	if len(rules) > 0 {
		nviol = len(rules)
		rules = dedupe(rules)
		return m.kill(c, rules), Expect{HasErr: true, V: vReject, Rules: rules, NViol: nviol, From: stLive}, true
	}
	return n, Expect{HasErr: true, V: vAccept, From: stLive}, true
}

func dedupe(s []string) []string {
	sort.Strings(s)
	out := s[:0]
	for i, x := range s {
		if i == 0 || x != s[i-1] {
			out = append(out, x)
		}
	}
	return out
}

// ---------------------------------------------------------------------------------------------------
// Graph builder: the real thing

type gInst struct {
	g *compose.Graph[string, string]
}

func (b *gBuilder) New() Instance {
	if b.stateful {
		return &gInst{g: compose.NewGraph[string, string](compose.WithGenLocalState(func(ctx context.Context) *gst { return &gst{} }))}
	}
	return &gInst{g: compose.NewGraph[string, string]()}
}

func strLambda(tag string) *compose.Lambda {
	return compose.InvokableLambda(func(ctx context.Context, in string) (string, error) { return in + tag, nil })
}

func compileOpts(opt string) []compose.GraphCompileOption {
	switch opt {
	case "allpred":
		return []compose.GraphCompileOption{compose.WithNodeTriggerMode(compose.AllPredecessor)}
	case "allpred+max":
		return []compose.GraphCompileOption{compose.WithNodeTriggerMode(compose.AllPredecessor), compose.WithMaxRunSteps(7)}
	case "max":
		return []compose.GraphCompileOption{compose.WithMaxRunSteps(7)}
	case "max50":
		return []compose.GraphCompileOption{compose.WithMaxRunSteps(50)}
	case "anypred":
		return []compose.GraphCompileOption{compose.WithNodeTriggerMode(compose.AnyPredecessor)}
	}
	return nil
}

// probe renders the answer of a runnable to a fixed input through Invoke and Stream.
func probe[I, O any](r compose.Runnable[I, O], in I) probeFn {
	return func() (res string) {
		defer func() {
			if x := recover(); x != nil {
				res = "panic:" + firstLine(fmt.Sprint(x))
			}
		}()
		ctx := context.Background()
		out, err := r.Invoke(ctx, in)
		if err != nil {
			return "err:invoke:" + firstLine(err.Error())
		}
		sr, err := r.Stream(ctx, in)
		if err != nil {
			return fmt.Sprintf("err:stream:%s (invoke gave %v)", firstLine(err.Error()), out)
		}
		defer sr.Close()
		var chunks []string
		for {
			ch, e := sr.Recv()
			if e == io.EOF {
				break
			}
			if e != nil {
				return fmt.Sprintf("err:stream-recv:%s (invoke gave %v)", firstLine(e.Error()), out)
			}
			chunks = append(chunks, fmt.Sprintf("%v", ch))
		}
		sort.Strings(chunks) // chunks of parallel nodes legitimately arrive in either order
		return fmt.Sprintf("ok:invoke=%v stream=%v", out, chunks)
	}
}

func strCond(targets []string) func(ctx context.Context, in string) (string, error) {
	hasEnd := false
	other := ""
	for _, t := range targets {
		if t == compose.END {
			hasEnd = true
		} else if other == "" {
			other = t
		}
	}
	return func(ctx context.Context, in string) (string, error) {
		if hasEnd && (len(in) >= 3 || other == "") {
			return compose.END, nil
		}
		return other, nil
	}
}

func (x *gInst) Do(c *Call) StepRes {
	ctx := context.Background()
	switch c.Op {
	case "lambda":
		var opts []compose.GraphAddNodeOpt
		if c.Pre {
			opts = append(opts, compose.WithStatePreHandler(func(ctx context.Context, in string, s *gst) (string, error) { return in, nil }))
		}
		return StepRes{HasErr: true, Err: x.g.AddLambdaNode(c.K, strLambda(c.K), opts...)}
	case "pass":
		return StepRes{HasErr: true, Err: x.g.AddPassthroughNode(c.K)}
	case "edge":
		return StepRes{HasErr: true, Err: x.g.AddEdge(c.U, c.V)}
	case "branch":
		ends := map[string]bool{}
		for _, t := range c.T {
			ends[t] = true
		}
		return StepRes{HasErr: true, Err: x.g.AddBranch(c.U, compose.NewGraphBranch(strCond(c.T), ends))}
	case "compile":
		r, err := x.g.Compile(ctx, compileOpts(c.Opt)...)
		if err != nil {
			return StepRes{HasErr: true, Err: err}
		}
		return StepRes{HasErr: true, Run: probe[string, string](r, "x")}
	case "subcompile":
		r, err := compileAsSub[string, string](x.g)
		if err != nil {
			return StepRes{HasErr: true, Err: err}
		}
		return StepRes{HasErr: true, Run: probe[string, string](r, "x")}
	}
	panic("unknown op " + c.Op)
}

// compileAsSub uses g as the only node of a fresh parent graph and compiles the parent (what
// flow/agent/react.ExportGraph users do with an already compiled graph).
func compileAsSub[I, O any](g compose.AnyGraph) (compose.Runnable[I, O], error) {
	parent := compose.NewGraph[I, O]()
	if err := parent.AddGraphNode("sub", g); err != nil {
		return nil, fmt.Errorf("parent.AddGraphNode: %w", err)
	}
	if err := parent.AddEdge(compose.START, "sub"); err != nil {
		return nil, fmt.Errorf("parent.AddEdge: %w", err)
	}
	if err := parent.AddEdge("sub", compose.END); err != nil {
		return nil, fmt.Errorf("parent.AddEdge: %w", err)
	}
	return parent.Compile(context.Background())
}
