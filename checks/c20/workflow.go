package main

import (
	"context"
	"fmt"
	"sort"
	"strings"

	"github.com/cloudwego/eino/compose"
)

// ---------------------------------------------------------------------------------------------------
// Workflow builder: alphabet. Add*/AddInput/AddBranch return no error: everything is judged at Compile.

type wBuilder struct {
	calls  []*Call
	inputs []*Call
	brs    []*Call
}

func (b *wBuilder) Name() string      { return "W" }
func (b *wBuilder) Alphabet() []*Call { return b.calls }
func (b *wBuilder) MaxLen(quick bool) int {
	if quick {
		return 5
	}
	return 6
}

func newWorkflowBuilder() *wBuilder {
	b := &wBuilder{}
	add := func(c *Call) *Call {
		c.Idx = len(b.calls)
		b.calls = append(b.calls, c)
		return c
	}
	add(&Call{Name: "AddLambdaNode(a)", Op: "wlambda", K: "a"})
	add(&Call{Name: "AddLambdaNode(b)", Op: "wlambda", K: "b"})
	add(&Call{Name: "AddLambdaNode(end)", Op: "wlambda", K: compose.END})
	add(&Call{Name: "AddLambdaNode(a,WithStatePreHandler)", Op: "wlambda", K: "a", Pre: true})
	S, E := compose.START, compose.END
	for _, in := range []struct{ to, from, m string }{
		{"a", S, ""}, {"a", S, "X>X"}, {"b", "a", ""}, {"b", "a", "a>ba"}, {"a", ghost, ""}, {"a", "a", "dep"},
		{E, "a", ""}, {E, "a", "a>ea"}, {E, "b", ""}, {E, "b", "b>eb"},
	} {
		recv := in.to
		if in.to == E {
			recv = "End()"
		}
		var name string
		switch in.m {
		case "":
			name = fmt.Sprintf("%s.AddInput(%s)", recv, in.from)
		case "dep":
			name = fmt.Sprintf("%s.AddDependency(%s)", recv, in.from)
		default:
			ft := strings.Split(in.m, ">")
			name = fmt.Sprintf("%s.AddInput(%s,MapFields(%s,%s))", recv, in.from, ft[0], ft[1])
		}
		b.inputs = append(b.inputs, add(&Call{Name: name, Op: "winput", U: in.from, V: in.to, Map: in.m}))
	}
	b.brs = append(b.brs, add(&Call{Name: "AddBranch(a->{b,end})", Op: "wbranch", U: "a", T: []string{"b", E}}))
	b.brs = append(b.brs, add(&Call{Name: "AddBranch(a->{b})", Op: "wbranch", U: "a", T: []string{"b"}}))
	add(&Call{Name: "Compile()", Op: "compile", Opt: ""})
	add(&Call{Name: "Compile(WithNodeTriggerMode(AllPredecessor))", Op: "compile", Opt: "allpred"})
	add(&Call{Name: "Compile(WithMaxRunSteps(7))", Op: "compile", Opt: "max"})
	add(&Call{Name: "CompileAsSubGraphOfAFreshParent()", Op: "subcompile"})
	return b
}

// ---------------------------------------------------------------------------------------------------
// Workflow builder: validity model

type wState struct {
	status             int
	aPlain, aPre, bAdd uint8 // number of AddLambdaNode calls (capped at 2)
	reserved           uint8
	in                 [10]uint8 // per input call, capped at 2
	br                 [2]uint8
	deadBy, deadPos    int
	deadRules          []string
	deadUnl            bool
	first              int
	later              string
	touched            bool // an Add*/AddInput/AddBranch call was made after the first Compile
	touchedN           int
	depth              int
}

type wModel struct {
	b *wBuilder
	s wState
}

func (b *wBuilder) Init() Model { return &wModel{b: b} }
func (m *wModel) Status() int   { return m.s.status }
func cap2(x uint8) uint8 {
	if x >= 2 {
		return 2
	}
	return x + 1
}

func (m *wModel) core() string {
	s := &m.s
	return fmt.Sprintf("%d%d%d%d|%v|%v", s.aPlain, s.aPre, s.bAdd, s.reserved, s.in, s.br)
}

func (m *wModel) Key() string {
	s := &m.s
	switch s.status {
	case stDead:
		return fmt.Sprintf("dead|%s|by%d@%d", m.core(), s.deadBy, s.deadPos) // calls made before and after the rejected Compile are not interchangeable
	case stCompiled:
		return fmt.Sprintf("compiled|%s|first%d|later%s|%v", m.core(), s.first, s.later, s.touched)
	case stUnknown:
		return "unknown"
	}
	return "live|" + m.core()
}

func (m *wModel) Tags() string {
	t := "workflow"
	for i, c := range m.b.inputs {
		if m.s.in[i] > 0 && strings.Contains(c.Map, ">") {
			t = "workflow-mappings"
		}
	}
	if m.s.br[0]+m.s.br[1] > 0 {
		t += "-branches"
	}
	return t
}

func (m *wModel) exists(k string) bool {
	switch k {
	case "a":
		return m.s.aPlain+m.s.aPre > 0
	case "b":
		return m.s.bAdd > 0
	}
	return false
}

// compileRules: listed rules and rules outside the statement's list.
func (m *wModel) compileRules(opt string) (listed, unlisted []string, nviol int) {
	defer func() {
		nviol = len(listed) + len(unlisted)
		listed, unlisted = dedupe(listed), dedupe(unlisted)
	}()
	s := &m.s
	if s.reserved > 0 {
		listed = append(listed, "reserved-key")
	}
	if s.aPlain+s.aPre >= 2 || s.bAdd >= 2 {
		listed = append(listed, "duplicate-key")
	}
	if s.aPre > 0 {
		listed = append(listed, "state-handler-without-state")
	}
	entry, exit := false, false
	pair := map[string]int{}
	type tgt struct {
		whole   bool
		sources map[string]bool
	}
	targets := map[string]*tgt{}
	for i, c := range m.b.inputs {
		n := int(s.in[i])
		if n == 0 {
			continue
		}
		if c.U != compose.START && !m.exists(c.U) {
			listed = append(listed, "unknown-key")
		}
		pair[c.U+">"+c.V] += n
		if c.U == compose.START {
			entry = true
		}
		if c.V == compose.END {
			exit = true
		}
		if c.U == c.V {
			listed = append(listed, "cycle-in-all-predecessor-mode")
		}
		if c.Map != "dep" {
			t := targets[c.V]
			if t == nil {
				t = &tgt{sources: map[string]bool{}}
				targets[c.V] = t
			}
			t.sources[c.U] = true
			if c.Map == "" {
				t.whole = true
			}
		}
	}
	for _, n := range pair {
		if n >= 2 {
			listed = append(listed, "duplicate-edge")
		}
	}
	for _, t := range targets {
		if t.whole && len(t.sources) >= 2 {
			unlisted = append(unlisted, "mapping-target-conflict")
		}
	}
	for i, c := range m.b.brs {
		if s.br[i] == 0 {
			continue
		}
		if !m.exists(c.U) {
			listed = append(listed, "unknown-key")
		}
		for _, t := range c.T {
			if t == compose.END {
				// a workflow branch carries no data and does not count as an exit: END needs an input of its own
			} else if !m.exists(t) {
				listed = append(listed, "unknown-key")
			}
		}
		if len(c.T) == 1 {
			listed = append(listed, "single-target-branch")
		}
	}
	if !entry {
		listed = append(listed, "missing-entry")
	}
	if !exit {
		listed = append(listed, "missing-exit")
	}
	if opt == "allpred" || opt == "max" {
		listed = append(listed, "invalid-option-combination")
	}
	return listed, unlisted, 0
}

var compileStageRules = map[string]bool{"missing-entry": true, "missing-exit": true, "cycle-in-all-predecessor-mode": true,
	"invalid-option-combination": true, "uninferable-passthrough": true, "uninferable-passthrough-isolated": true}

// addTo applies an Add*/AddInput/AddBranch call to the modelled workflow.
func (m *wModel) addTo(n *wModel, c *Call) {
	s := &m.s
	switch c.Op {
	case "wlambda":
		switch {
		case c.K == compose.END:
			n.s.reserved = cap2(s.reserved)
		case c.K == "a" && c.Pre:
			n.s.aPre = cap2(s.aPre)
		case c.K == "a":
			n.s.aPlain = cap2(s.aPlain)
		case c.K == "b":
			n.s.bAdd = cap2(s.bAdd)
		}
	case "winput":
		for i, x := range m.b.inputs {
			if x == c {
				n.s.in[i] = cap2(s.in[i])
			}
		}
	case "wbranch":
		for i, x := range m.b.brs {
			if x == c {
				n.s.br[i] = cap2(s.br[i])
			}
		}
	}
}

func (m *wModel) Step(c *Call) (Model, Expect, bool) {
	s := &m.s
	if s.status == stUnknown {
		return nil, Expect{}, false
	}
	if c.Op == "winput" && c.V != compose.END && !m.exists(c.V) {
		return nil, Expect{}, false // no WorkflowNode handle to call AddInput on
	}
	n := &wModel{b: m.b, s: m.s}
	n.s.depth++
	hasErr := c.IsCompile()
	switch s.status {
	case stDead:
		// see cModel.Step: the model keeps following calls that have no error result
		nv := 0
		if !c.IsCompile() {
			m.addTo(n, c)
		} else {
			_, _, nv = m.compileRules(c.Opt) // what this Compile would find wrong by itself (several => the text may vary)
		}
		return n, Expect{HasErr: hasErr, V: vReject, NViol: nv, From: stDead, DeadPos: s.deadPos, DeadCompile: true, DeadRules: s.deadRules,
			DeadOp: m.b.calls[s.deadBy].Op, DeadUnl: s.deadUnl}, true
	case stCompiled:
		if c.IsCompile() {
			n.s.later += fmt.Sprintf(",%d", c.Idx)
			return n, Expect{HasErr: true, V: vEither, NViol: s.touchedN, From: stCompiled, SameAsFirst: s.later == "" && !s.touched}, true
		}
		n.s.touched = true
		n.s.touchedN++
		return n, Expect{HasErr: false, From: stCompiled}, true
	}
	if !c.IsCompile() {
		m.addTo(n, c)
		return n, Expect{HasErr: false, V: vAccept, From: stLive}, true
	}
	// compile
	listed, unlisted, nviol := m.compileRules(c.Opt)
	if len(listed) == 0 && len(unlisted) == 0 {
		n.s.status = stCompiled
		n.s.first = c.Idx
		return n, Expect{HasErr: true, V: vAccept, From: stLive}, true
	}
	if len(listed) == 0 {
		n.s = wState{status: stUnknown}
		return n, Expect{HasErr: true, V: vEither, Rules: unlisted, Unlisted: true, NViol: nviol, From: stLive}, true
	}
	n.s.status = stDead
	n.s.deadBy = c.Idx
	n.s.deadPos = s.depth
	n.s.deadRules = listed
	return n, Expect{HasErr: true, V: vReject, Rules: listed, NViol: nviol, From: stLive}, true
}

// ---------------------------------------------------------------------------------------------------
// Workflow builder: the real thing

// wIn is the workflow's input type and node a's input type: a struct, so that a field mapping onto it needs
// the map-to-struct input converter (a map-typed target would hide a converter that is applied twice).
type wIn struct{ X string }

type wInst struct {
	wf *compose.Workflow[wIn, map[string]any]
	h  map[string]*compose.WorkflowNode
}

func (b *wBuilder) New() Instance {
	return &wInst{wf: compose.NewWorkflow[wIn, map[string]any](), h: map[string]*compose.WorkflowNode{}}
}

func renderMap(m map[string]any) string {
	ks := make([]string, 0, len(m))
	for k := range m {
		ks = append(ks, k)
	}
	sort.Strings(ks)
	var sb strings.Builder
	for i, k := range ks {
		if i > 0 {
			sb.WriteByte(',')
		}
		fmt.Fprintf(&sb, "%s=%v", k, m[k])
	}
	return sb.String()
}

func mapLambda(tag string) *compose.Lambda {
	return compose.InvokableLambda(func(ctx context.Context, in map[string]any) (map[string]any, error) {
		return map[string]any{tag: tag + "(" + renderMap(in) + ")"}, nil
	})
}

func structLambda(tag string) *compose.Lambda {
	return compose.InvokableLambda(func(ctx context.Context, in wIn) (map[string]any, error) {
		return map[string]any{tag: tag + "(X=" + in.X + ")"}, nil
	})
}

func (x *wInst) Do(c *Call) StepRes {
	ctx := context.Background()
	in := wIn{X: "vx"}
	switch c.Op {
	case "wlambda":
		var opts []compose.GraphAddNodeOpt
		if c.Pre {
			opts = append(opts, compose.WithStatePreHandler(func(ctx context.Context, in wIn, s *gst) (wIn, error) { return in, nil }))
		}
		l := mapLambda(c.K)
		if c.K == "a" {
			l = structLambda(c.K)
		}
		x.h[c.K] = x.wf.AddLambdaNode(c.K, l, opts...)
		return StepRes{}
	case "winput":
		var n *compose.WorkflowNode
		if c.V == compose.END {
			n = x.wf.End()
		} else {
			n = x.h[c.V]
		}
		switch c.Map {
		case "":
			n.AddInput(c.U)
		case "dep":
			n.AddDependency(c.U)
		default:
			ft := strings.Split(c.Map, ">")
			n.AddInput(c.U, compose.MapFields(ft[0], ft[1]))
		}
		return StepRes{}
	case "wbranch":
		ends := map[string]bool{}
		other := compose.END
		for _, t := range c.T {
			ends[t] = true
			if t != compose.END && other == compose.END {
				other = t
			}
		}
		x.wf.AddBranch(c.U, compose.NewGraphBranch(func(ctx context.Context, in map[string]any) (string, error) { return other, nil }, ends))
		return StepRes{}
	case "compile":
		r, err := x.wf.Compile(ctx, compileOpts(c.Opt)...)
		if err != nil {
			return StepRes{HasErr: true, Err: err}
		}
		return StepRes{HasErr: true, Run: probe[wIn, map[string]any](r, in)}
	case "subcompile":
		r, err := compileAsSub[wIn, map[string]any](x.wf)
		if err != nil {
			return StepRes{HasErr: true, Err: err}
		}
		return StepRes{HasErr: true, Run: probe[wIn, map[string]any](r, in)}
	}
	panic("unknown op " + c.Op)
}
