package main

import (
	"context"
	"errors"
	"fmt"
	"io"
	"regexp"
	"sort"
	"strings"
	"time"

	"github.com/cloudwego/eino/compose"
	"github.com/cloudwego/eino/schema"
)

// finding is one broken clause of the property on one case.
type finding struct {
	Sig string
	Msg string
}

// harnessErr marks a failure of the harness itself (a structure that does not build, a baseline run
// that fails): reported as infrastructure error, never as a violation.
type harnessErr struct{ msg string }

func (h *harnessErr) Error() string { return h.msg }

var (
	reStack = regexp.MustCompile(`(?s),? ?\n?stack: .*?(\n------------------------|$)`)
	reAddr  = regexp.MustCompile(`0x[0-9a-fA-F]+`)
)

// clean renders an error text deterministically: stack traces and addresses removed, one line.
func clean(err error) string {
	if err == nil {
		return "<nil>"
	}
	s := err.Error()
	s = reStack.ReplaceAllString(s, " <stack>$1")
	s = reAddr.ReplaceAllString(s, "0x?")
	s = strings.ReplaceAll(s, "\n", " | ")
	if len(s) > 600 {
		s = s[:600] + "..."
	}
	return s
}

// pathVerdict: does text name the keys outermost -> innermost, in order?
//
//	"" ok | "wrong-order" the right keys in the wrong order | "missing" no key of the path in the text |
//	"wrong-node" the printed path names a node that is not on the failing path | "incomplete" part of the path is missing
func pathVerdict(text string, keys []string) string {
	if len(keys) == 0 {
		return ""
	}
	p := 0
	ordered := true
	for _, k := range keys {
		i := strings.Index(text[p:], k)
		if i < 0 {
			ordered = false
			break
		}
		p += i + len(k)
	}
	if ordered {
		// the keys appear in order; when the error prints exactly one path list, that list must be the path, not a
		// longer one that merely contains it (a path that accumulates entries of other runs names another node)
		if strings.Count(text, "node path: [") == 1 {
			rest := text[strings.Index(text, "node path: [")+len("node path: ["):]
			if j := strings.Index(rest, "]"); j >= 0 {
				if printed := strings.Split(rest[:j], ", "); len(printed) > len(keys) {
					return "longer-than-the-path"
				}
			}
		}
		return ""
	}
	present := 0
	for _, k := range keys {
		if strings.Contains(text, k) {
			present++
		}
	}
	// diagnosis from the printed "node path: [...]" list, when there is one
	if i := strings.LastIndex(text, "node path: ["); i >= 0 {
		rest := text[i+len("node path: ["):]
		if j := strings.Index(rest, "]"); j >= 0 {
			printed := strings.Split(rest[:j], ", ")
			exp := map[string]bool{}
			for _, k := range keys {
				exp[k] = true
			}
			subset := true
			for _, k := range printed {
				if !exp[k] {
					subset = false
				}
			}
			switch {
			case !subset:
				return "wrong-node"
			case len(printed) == len(keys):
				return "wrong-order"
			default:
				return "incomplete"
			}
		}
	}
	switch {
	case present == len(keys):
		return "wrong-order"
	case present == 0:
		return "missing"
	default:
		return "incomplete"
	}
}

func pathMsg(verdict string, keys []string, err error) string {
	return fmt.Sprintf("the error text does not name the failing node path %v outermost->innermost (%s); error: %s", keys, verdict, clean(err))
}

// judgeFailure applies clauses (1), (2), (3), (5) to the error a caller observed for one failing body.
func judgeFailure(c Case, f failure, o observed, expPath []string, prefix string) []finding {
	var out []finding
	err := o.err()
	isPanic := strings.HasPrefix(f.kind, "panic")
	if err == nil {
		if isPanic {
			return []finding{{prefix + "panic-swallowed", fmt.Sprintf("the body panicked with %q but the run reported success (no call error, no error item; %d chunks)", f.text(), o.chunks)}}
		}
		return []finding{{prefix + "failure-swallowed", fmt.Sprintf("the body failed with %q but the run reported success (no call error, no error item; %d chunks)", f.text(), o.chunks)}}
	}
	text := err.Error()
	if isPanic {
		if !strings.Contains(text, f.text()) {
			out = append(out, finding{prefix + "panic-value-lost", fmt.Sprintf("the run failed but its error does not mention the panic value %q; error (%s): %s", f.text(), o.where(), clean(err))})
		}
	} else if !f.matches(err) {
		verb := "errors.Is(err, original)"
		suffix := "is"
		if f.kind == "custom" {
			verb, suffix = "errors.As(err, &custom)", "as"
		}
		if strings.Contains(text, f.text()) {
			out = append(out, finding{"no-unwrap:node-error-" + suffix, fmt.Sprintf("%s is false although the text carries the original message: the chain stops at %s; error (%s): %s", verb, chainEnd(err), o.where(), clean(err))})
		} else {
			out = append(out, finding{prefix + "original-error-lost-" + suffix, fmt.Sprintf("%s is false and the text does not even contain the original message %q; error (%s): %s", verb, f.text(), o.where(), clean(err))})
		}
	}
	if v := pathVerdict(text, expPath); v != "" {
		p := prefix
		if isPanic {
			p += "panic:"
		}
		out = append(out, finding{p + "node-path-" + v, pathMsg(v, expPath, err)})
	}
	return out
}

// chainEnd names the type at which errors.Unwrap stops.
func chainEnd(err error) string {
	for i := 0; i < 64; i++ {
		n := errors.Unwrap(err)
		if n == nil {
			break
		}
		err = n
	}
	return fmt.Sprintf("%T", err)
}

func caseInput() M { return M{"in": "x"} }

// runCase executes one case on the real implementation and returns (findings, node executions, outcome class).
func runCase(c Case) (fs []finding, execs int64, outcome string, err error) {
	sameKeys = c.SameKeys
	w := &world{}
	defer func() { execs = w.execs.Load() }()
	ctx := context.Background()
	switch c.Family {
	case "baseline":
		top, e := buildTower(w, c.Levels, func(level int, letter string) role {
			return role{key: outKey(level, letter), native: c.Peers}
		})
		if e != nil {
			return nil, 0, "", &harnessErr{"build: " + e.Error()}
		}
		r, e := top.compile(ctx)
		if e != nil {
			return nil, 0, "", &harnessErr{"compile: " + e.Error()}
		}
		o := runParadigm(ctx, r, c.Paradigm, caseInput())
		if o.err() != nil {
			return nil, 0, "", &harnessErr{"a structure fails although no node fails: " + clean(o.err())}
		}
		return nil, 0, "baseline-ok", nil

	case "node":
		f := failure{kind: c.Kind}
		top, e := buildTower(w, c.Levels, func(level int, letter string) role {
			if level == c.FailLevel && letter == c.FailNode {
				return role{key: outKey(level, letter), native: c.Native, fail: &f}
			}
			return role{key: outKey(level, letter), native: c.Peers}
		})
		if e != nil {
			return nil, 0, "", &harnessErr{"build: " + e.Error()}
		}
		r, e := top.compile(ctx)
		if e != nil {
			return nil, 0, "", &harnessErr{"compile: " + e.Error()}
		}
		o := runParadigm(ctx, r, c.Paradigm, caseInput())
		prefix := ""
		exp := expectedPath(c.Levels, c.FailLevel, c.FailNode)
		switch {
		case c.isItem():
			// the node's call returned a stream and the failure arrives later as an item, read by whoever consumes
			// the stream: the statement does not say how such an item is attributed to a node path, so only
			// "reported, not swallowed, original recoverable" is demanded (path attribution is counted, not judged)
			prefix, exp = "error-item:", nil
		case strings.HasPrefix(c.Native, "stream-conv"):
			// clause (5) only: the panic happened in a stream-forwarding goroutine (or wherever the merged
			// stream was read), not in a node body: no node path is demanded
			prefix, exp = "merged-stream:", nil
		}
		return judgeFailure(c, f, o, exp, prefix), 0, outcomeOf(o), nil

	case "pair":
		fb, fc := failure{kind: c.Kind}, failure{kind: c.Kind2, second: true}
		last := len(c.Levels) - 1
		var all []finding
		oc := ""
		for rep := 0; rep < 3; rep++ { // natively several times: the verdict must not depend on who finishes first
			top, e := buildTower(w, c.Levels, func(level int, letter string) role {
				if level == last && letter == "b" {
					return role{key: outKey(level, letter), native: c.Native, fail: &fb}
				}
				if level == last && letter == "c" {
					return role{key: outKey(level, letter), native: c.Native, fail: &fc}
				}
				return role{key: outKey(level, letter), native: c.Peers}
			})
			if e != nil {
				return nil, 0, "", &harnessErr{"build: " + e.Error()}
			}
			r, e := top.compile(ctx)
			if e != nil {
				return nil, 0, "", &harnessErr{"compile: " + e.Error()}
			}
			o := runParadigm(ctx, r, c.Paradigm, caseInput())
			fs := judgePair(c, fb, fc, o)
			oc = outcomeOf(o)
			if len(fs) > 0 {
				all = fs
				break
			}
		}
		return all, 0, oc, nil

	case "tools":
		f := failure{kind: c.Kind}
		top, msg, e := buildTools(w, c)
		if e != nil {
			return nil, 0, "", &harnessErr{"build: " + e.Error()}
		}
		r, e := top.compile(ctx)
		if e != nil {
			return nil, 0, "", &harnessErr{"compile: " + e.Error()}
		}
		o := runParadigm(ctx, r, c.Paradigm, msg)
		prefix := ""
		exp := expectedPath(c.Levels, c.FailLevel, "t")
		if c.isItem() {
			prefix, exp = "error-item:", nil
		}
		return judgeFailure(c, f, o, exp, prefix), 0, outcomeOf(o), nil

	case "merge-schema":
		fs, oc := runMergeSchema(w, c)
		return fs, 0, oc, nil

	case "steps":
		last := len(c.Levels) - 1
		inner, e := buildSteps(w, c.Levels[last], last, c.MaxSteps, c.StepOpt == "compile")
		if e != nil {
			return nil, 0, "", &harnessErr{"build: " + e.Error()}
		}
		top, e := wrapSolo(c.Levels[:last], inner)
		if e != nil {
			return nil, 0, "", &harnessErr{"build: " + e.Error()}
		}
		r, e := top.compile(ctx)
		if e != nil {
			return nil, 0, "", &harnessErr{"compile: " + e.Error()}
		}
		var opts []compose.Option
		if c.StepOpt == "call" {
			opts = append(opts, compose.WithRuntimeMaxSteps(c.MaxSteps))
		}
		o := runParadigm(ctx, r, c.Paradigm, caseInput(), opts...)
		fs := judgeSteps(c, o)
		// the error is made by the framework itself: a second failing run must report its own, equally correct
		// error (not one that carries traces of the first run)
		o2 := runParadigm(ctx, r, c.Paradigm, caseInput(), opts...)
		for _, f := range judgeSteps(c, o2) {
			fs = append(fs, finding{"second-run:" + f.Sig, "the same run repeated on the same runnable: " + f.Msg})
		}
		return fs, 0, outcomeOf(o), nil

	case "cancel-pre", "cancel-in":
		cctx, cancel := context.WithCancel(ctx)
		defer cancel()
		w.cancel = cancel
		top, e := buildTower(w, c.Levels, func(level int, letter string) role {
			r := role{key: outKey(level, letter), native: "invoke"}
			if c.Family == "cancel-in" && level == c.FailLevel && letter == c.FailNode {
				r.cancel = true
			}
			return r
		})
		if e != nil {
			return nil, 0, "", &harnessErr{"build: " + e.Error()}
		}
		r, e := top.compile(ctx)
		if e != nil {
			return nil, 0, "", &harnessErr{"compile: " + e.Error()}
		}
		if c.Family == "cancel-pre" {
			cancel()
		}
		o := runParadigm(cctx, r, c.Paradigm, caseInput())
		return judgeCancel(c, o), 0, outcomeOf(o), nil
	}
	return nil, 0, "", &harnessErr{"unknown family " + c.Family}
}

// outcomeOf is the coarse observed outcome (vacuity statistic only).
func outcomeOf(o observed) string {
	e := o.err()
	if e == nil {
		return "success"
	}
	where := "call"
	if o.callErr == nil {
		where = fmt.Sprintf("item@%d", o.chunks)
	}
	t := e.Error()
	class := "plain"
	switch {
	case strings.HasPrefix(t, "[NodeRunError]"):
		class = "NodeRunError"
	case strings.HasPrefix(t, "[GraphRunError]"):
		class = "GraphRunError"
	}
	if strings.Contains(t, "panic error") {
		class += "+panic"
	}
	if strings.Contains(t, "failed to read from stream") {
		class += "+streamread"
	}
	if strings.Contains(t, "node path") {
		class += "+path"
	}
	return where + ":" + class
}

// judgePair: two parallel nodes fail. Whichever failure the run reports, it must be reported properly.
// Clauses that would make the verdict depend on which of the two finished first are not applied.
func judgePair(c Case, fb, fc failure, o observed) []finding {
	err := o.err()
	bothPanic := strings.HasPrefix(fb.kind, "panic") && strings.HasPrefix(fc.kind, "panic")
	bothErr := !strings.HasPrefix(fb.kind, "panic") && !strings.HasPrefix(fc.kind, "panic")
	if err == nil {
		return []finding{{"parallel:failure-swallowed", fmt.Sprintf("two parallel nodes failed (%q, %q) but the run reported success", fb.text(), fc.text())}}
	}
	text := err.Error()
	last := len(c.Levels) - 1
	pb, pc := expectedPath(c.Levels, last, "b"), expectedPath(c.Levels, last, "c")
	var out []finding
	switch {
	case bothErr:
		if !fb.matches(err) && !fc.matches(err) {
			if strings.Contains(text, fb.text()) || strings.Contains(text, fc.text()) {
				sfx := "is"
				if fb.kind == "custom" {
					sfx = "as"
				}
				out = append(out, finding{"no-unwrap:node-error-" + sfx, "two parallel nodes failed; the returned error matches neither original with errors.Is/errors.As although its text carries one of the original messages"})
			} else {
				out = append(out, finding{"parallel:original-error-lost", "two parallel nodes failed; the returned error matches neither original and its text carries neither original message"})
			}
		}
	case bothPanic:
		if !strings.Contains(text, fb.text()) && !strings.Contains(text, fc.text()) {
			out = append(out, finding{"parallel:panic-value-lost", "two parallel nodes panicked; the returned error mentions neither panic value"})
		}
	default:
		// one error, one panic: which one is reported depends on completion order; demand only that one of them is visible
		if !strings.Contains(text, fb.text()) && !strings.Contains(text, fc.text()) {
			out = append(out, finding{"parallel:failure-lost", "two parallel nodes failed (one error, one panic); the returned error mentions neither"})
		}
	}
	// the path must name the node whose failure is reported
	okB := strings.Contains(text, fb.text()) && pathVerdict(text, pb) == ""
	okC := strings.Contains(text, fc.text()) && pathVerdict(text, pc) == ""
	if !okB && !okC && (strings.Contains(text, fb.text()) || strings.Contains(text, fc.text())) {
		out = append(out, finding{"parallel:node-path-wrong", fmt.Sprintf("two parallel nodes failed; the error text does not name the path of the node whose failure it reports (%v or %v)", pb, pc)})
	}
	return out
}

func judgeSteps(c Case, o observed) []finding {
	err := o.err()
	if err == nil {
		return []finding{{"max-steps-not-enforced", fmt.Sprintf("the run needs more than %d steps but succeeded", c.MaxSteps)}}
	}
	var out []finding
	text := err.Error()
	if !errors.Is(err, compose.ErrExceedMaxSteps) {
		if strings.Contains(text, compose.ErrExceedMaxSteps.Error()) {
			out = append(out, finding{"no-unwrap:max-steps-sentinel", fmt.Sprintf("errors.Is(err, compose.ErrExceedMaxSteps) is false although the text carries its message: the chain stops at %s; error (%s): %s", chainEnd(err), o.where(), clean(err))})
		} else {
			out = append(out, finding{"max-steps-sentinel-lost", fmt.Sprintf("errors.Is(err, compose.ErrExceedMaxSteps) is false and the text does not mention it; error (%s): %s", o.where(), clean(err))})
		}
	}
	exp := expectedPath(c.Levels, len(c.Levels)-1, "")
	if v := pathVerdict(text, exp); v != "" {
		out = append(out, finding{"max-steps:node-path-" + v, pathMsg(v, exp, err)})
	}
	return out
}

func judgeCancel(c Case, o observed) []finding {
	err := o.err()
	if err == nil {
		must := c.Family == "cancel-pre"
		if c.Family == "cancel-in" {
			// a later step exists in the node's own graph or in an enclosing one: its poll must notice
			letter := c.FailNode
			for lv := c.FailLevel; lv >= 0; lv-- {
				if hasLaterStep(c.Levels[lv].Shape, letter) {
					must = true
				}
				if lv > 0 {
					letter = hostLetter(c.Levels[lv-1].Shape)
				}
			}
		}
		if must {
			return []finding{{"cancel-not-noticed", "the context was cancelled before a later step started, but the run reported success"}}
		}
		return nil
	}
	if !errors.Is(err, context.Canceled) {
		if strings.Contains(err.Error(), context.Canceled.Error()) {
			return []finding{{"no-unwrap:context-canceled", fmt.Sprintf("errors.Is(err, context.Canceled) is false although the text carries its message: the chain stops at %s (%s)", chainEnd(err), o.where())}}
		}
		return []finding{{"context-canceled-lost", fmt.Sprintf("errors.Is(err, context.Canceled) is false and the text does not mention it (%s)", o.where())}}
	}
	return nil
}

// runMergeSchema: schema.StreamReaderWithConvert + schema.MergeStreamReaders; a convert function panics
// in a forwarder goroutine.
//
// via=convert: n converted readers are merged (streamReaderWithConvert.toStream forwarders); the merged
// stream is finite, it is read to EOF and must carry an error item that mentions the panic.
//
// via=copy: one converted reader is copied n times and every child is merged with its own array reader
// (childStreamReader.toStream forwarders). Exactly one child executes the panicking Recv; its forwarder must
// deliver the panic as its only item. Every merged reader is read like a consumer does (to EOF or the first
// error item, then closed); one of them must end with an error item that mentions the panic. (The children
// are deliberately not merged with each other: after the panic the sibling children yield an endless
// sequence of "recv after stream closed" items, so a reader that contains a sibling never ends and "the
// panic item arrives within k reads" would be a timing oracle.)
func runMergeSchema(w *world, c Case) ([]finding, string) {
	f := failure{kind: c.Kind}
	if c.Via == "convert-lag" {
		return runMergeLag(w, c, f)
	}
	mk := func(src int, panics bool) *schema.StreamReader[string] {
		arr := make([]int, c.Chunks)
		for i := range arr {
			arr[i] = i
		}
		return schema.StreamReaderWithConvert(schema.StreamReaderFromArray(arr), func(i int) (string, error) {
			w.execs.Add(1)
			if panics && i == c.PanicAt {
				_ = f.fire()
			}
			return fmt.Sprintf("s%d-%d", src, i), nil
		})
	}
	var readers []*schema.StreamReader[string]
	switch c.Via {
	case "convert":
		var srs []*schema.StreamReader[string]
		for s := 0; s < c.Sources; s++ {
			srs = append(srs, mk(s, s == c.PanicSrc))
		}
		readers = append(readers, schema.MergeStreamReaders(srs))
	case "copy":
		for _, child := range mk(0, true).Copy(c.Sources) {
			readers = append(readers, schema.MergeStreamReaders([]*schema.StreamReader[string]{child, schema.StreamReaderFromArray([]string{"plain"})}))
		}
	}
	items, errItems, mention := 0, 0, false
	var others []string
	for _, r := range readers {
		for {
			_, err := r.Recv()
			if err == io.EOF {
				break
			}
			if err != nil {
				errItems++
				if strings.Contains(err.Error(), f.text()) {
					mention = true
				} else {
					others = append(others, clean(err))
				}
				if c.Via == "copy" {
					break // first error item ends a consumer's read
				}
				continue
			}
			items++
		}
		r.Close()
	}
	oc := fmt.Sprintf("merge:mention=%v", mention)
	if mention {
		return nil, oc
	}
	if errItems == 0 {
		return []finding{{"merged-stream:panic-swallowed", fmt.Sprintf("a convert function panicked with %q inside a merged stream; %d chunks were delivered and every stream ended without any error item", f.text(), items)}}, oc
	}
	sort.Strings(others)
	return []finding{{"merged-stream:panic-value-lost", fmt.Sprintf("a convert function panicked with %q inside a merged stream; %d chunks and %d error items were delivered but no error item mentions the panic: %v", f.text(), items, errItems, others)}}, oc
}

// runMergeLag: source 0 panics at chunk PanicAt of 10 while its forwarder's buffer is full (a lagging reader).
// The error item must still reach the reader.
func runMergeLag(w *world, c Case, f failure) ([]finding, string) {
	panicked := make(chan struct{})
	mk := func(src int, panics bool) *schema.StreamReader[string] {
		n := c.Chunks
		if !panics {
			n = 1
		}
		arr := make([]int, n)
		for i := range arr {
			arr[i] = i
		}
		return schema.StreamReaderWithConvert(schema.StreamReaderFromArray(arr), func(i int) (string, error) {
			w.execs.Add(1)
			if panics && i == c.PanicAt {
				close(panicked)
				_ = f.fire()
			}
			return fmt.Sprintf("s%d-%d", src, i), nil
		})
	}
	var srs []*schema.StreamReader[string]
	for s := 0; s < c.Sources; s++ {
		srs = append(srs, mk(s, s == c.PanicSrc))
	}
	r := schema.MergeStreamReaders(srs)
	defer r.Close()
	fromPanicking := 0
	items, errItems, mention := 0, 0, false
	var others []string
	waited := false
	for {
		if !waited {
			// lag: before every item is taken the forwarder gets time to run ahead as far as its buffer allows
			// (whatever its capacity is), so that the panic happens while the buffer is full; once it has happened
			// the forwarder gets time to reach its send. The pauses only give a defect time to show: a correct
			// implementation delivers the error item however the timing falls, so they cannot cause a false alarm.
			select {
			case <-panicked:
				time.Sleep(30 * time.Millisecond)
				waited = true
			case <-time.After(3 * time.Millisecond):
			}
		}
		v, err := r.Recv()
		if err == io.EOF {
			break
		}
		if err != nil {
			errItems++
			if strings.Contains(err.Error(), f.text()) {
				mention = true
			} else {
				others = append(others, clean(err))
			}
			continue
		}
		items++
		if strings.HasPrefix(v, fmt.Sprintf("s%d-", c.PanicSrc)) {
			fromPanicking++
		}
	}
	oc := fmt.Sprintf("merge-lag:mention=%v", mention)
	if mention {
		return nil, oc
	}
	if errItems == 0 {
		return []finding{{"merged-stream:panic-swallowed", fmt.Sprintf("a convert function panicked with %q inside a merged stream while the forwarding buffer was full; %d chunks were delivered and the stream ended without any error item", f.text(), items)}}, oc
	}
	sort.Strings(others)
	return []finding{{"merged-stream:panic-value-lost", fmt.Sprintf("a convert function panicked with %q inside a merged stream; no error item mentions the panic: %v", f.text(), others)}}, oc
}
