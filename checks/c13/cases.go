package main

import (
	"encoding/json"
	"fmt"
	"strings"
)

// Level is one graph of the nesting tower (outermost first).
type Level struct {
	Shape string `json:"shape"` // lin2 | lin3 | fan | branch | solo | tools | cycle | line
	Kind  string `json:"kind"`  // pregel | allpred | workflow | chain
}

// Case is one enumerated fault scenario. It is self-contained: -replay rebuilds everything from it.
type Case struct {
	Seq    int     `json:"seq"`
	Family string  `json:"family"` // baseline | node | pair | tools | merge-schema | steps | cancel-pre | cancel-in
	Levels []Level `json:"levels,omitempty"`

	FailLevel int    `json:"fail_level,omitempty"` // level index of the failing node
	FailNode  string `json:"fail_node,omitempty"`  // letter of the failing node in that level
	Kind      string `json:"kind,omitempty"`       // sentinel | custom | panic-string | panic-error
	Native    string `json:"native,omitempty"`     // invoke | stream-call | stream-item | collect | transform-call | transform-item | stream-conv0 | stream-conv1
	Peers     string `json:"peers,omitempty"`      // invoke | transform : native paradigm of the non-failing nodes
	Paradigm  string `json:"paradigm,omitempty"`   // invoke | stream | collect | transform

	Kind2 string `json:"kind2,omitempty"` // pair: failure kind of the second parallel node (letter c)

	Calls    int    `json:"calls,omitempty"`     // tools: number of tool calls in the message
	FailCall int    `json:"fail_call,omitempty"` // tools: index of the failing call (0 = runs inline, >0 = in a goroutine)
	ToolType string `json:"tool_type,omitempty"` // invokable | streamable-call | streamable-item

	Via      string `json:"via,omitempty"`       // merge-schema: convert | copy
	Sources  int    `json:"sources,omitempty"`   // merge-schema: number of merged readers
	Chunks   int    `json:"chunks,omitempty"`    // merge-schema: chunks per source
	PanicSrc int    `json:"panic_src,omitempty"` // merge-schema: source whose convert function panics
	PanicAt  int    `json:"panic_at,omitempty"`  // merge-schema: chunk index at which it panics

	MaxSteps int    `json:"max_steps,omitempty"` // steps
	StepOpt  string `json:"step_opt,omitempty"`  // steps: compile | call

	// SameKeys: node keys do not carry their level: the host node of every level has the same key ("h") and leaf
	// letters repeat across levels, so a node path contains the same key several times
	SameKeys bool `json:"same_keys,omitempty"`

	Clause string `json:"clause,omitempty"` // set in a recorded violation: the signature that is replayed
}

func levelsString(ls []Level) string {
	var p []string
	for _, l := range ls {
		p = append(p, l.Shape+"."+l.Kind)
	}
	return strings.Join(p, ">")
}

// Canon is the canonical description of the case (without the sequence number): the model state.
func (c Case) Canon() string {
	switch c.Family {
	case "baseline":
		return fmt.Sprintf("baseline %s peers=%s %s", levelsString(c.Levels), c.Peers, c.Paradigm)
	case "node":
		sk := ""
		if c.SameKeys {
			sk = " same-keys-on-every-level"
		}
		return fmt.Sprintf("node %s fail=L%d%s %s native=%s peers=%s %s%s", levelsString(c.Levels), c.FailLevel, c.FailNode, c.Kind, c.Native, c.Peers, c.Paradigm, sk)
	case "pair":
		return fmt.Sprintf("pair %s b=%s c=%s native=%s %s", levelsString(c.Levels), c.Kind, c.Kind2, c.Native, c.Paradigm)
	case "tools":
		return fmt.Sprintf("tools %s calls=%d fail=%d tool=%s %s %s", levelsString(c.Levels), c.Calls, c.FailCall, c.ToolType, c.Kind, c.Paradigm)
	case "merge-schema":
		return fmt.Sprintf("merge-schema via=%s sources=%d chunks=%d panic=src%d@%d %s", c.Via, c.Sources, c.Chunks, c.PanicSrc, c.PanicAt, c.Kind)
	case "steps":
		return fmt.Sprintf("steps %s max=%d opt=%s %s", levelsString(c.Levels), c.MaxSteps, c.StepOpt, c.Paradigm)
	case "cancel-pre":
		return fmt.Sprintf("cancel-pre %s %s", levelsString(c.Levels), c.Paradigm)
	case "cancel-in":
		return fmt.Sprintf("cancel-in %s at=L%d%s %s", levelsString(c.Levels), c.FailLevel, c.FailNode, c.Paradigm)
	}
	return "?"
}

func (c Case) Name() string { return fmt.Sprintf("%07d %s", c.Seq, c.Canon()) }

func (c Case) depth() int { return len(c.Levels) - 1 }

func (c Case) isPanic() bool { return strings.HasPrefix(c.Kind, "panic") }
func (c Case) isItem() bool {
	return strings.HasSuffix(c.Native, "-item") || c.ToolType == "streamable-item"
}
func (c Case) streaming() bool { return c.Paradigm == "stream" || c.Paradigm == "transform" }

func decodeCase(v any) (Case, error) {
	b, err := json.Marshal(v)
	if err != nil {
		return Case{}, err
	}
	var c Case
	err = json.Unmarshal(b, &c)
	return c, err
}

// ---------------------------------------------------------------------------------------------------
// shapes

var (
	shapes    = []string{"lin2", "lin3", "fan", "branch"}
	kinds     = []string{"pregel", "allpred", "workflow", "chain"}
	paradigms = []string{"invoke", "stream", "collect", "transform"}
	errKinds  = []string{"sentinel", "custom"}
	pncKinds  = []string{"panic-string", "panic-error"}
	allKinds  = []string{"sentinel", "custom", "panic-string", "panic-error"}
)

// executed letters of a shape (the branch always selects b, so c never runs and cannot be "the failing node")
func shapeNodes(shape string) []string {
	switch shape {
	case "lin2":
		return []string{"a", "b"}
	case "lin3":
		return []string{"a", "b", "c"}
	case "fan":
		return []string{"a", "b", "c", "d"}
	case "branch":
		return []string{"a", "b"}
	case "solo":
		return []string{"h"}
	}
	return nil
}

// the slot that holds the nested graph when the level is not the innermost one
func hostLetter(shape string) string {
	if shape == "solo" {
		return "h"
	}
	return "b"
}

// does a later step of the same graph follow the step in which this node runs?
func hasLaterStep(shape, letter string) bool {
	switch shape {
	case "lin2", "branch":
		return letter == "a"
	case "lin3":
		return letter != "c"
	case "fan":
		return letter != "d"
	}
	return false
}

// sameKeys is set by runCase for the case being run (cases run one at a time).
var sameKeys bool

// outKey is the key under which a node publishes its value: always level-qualified (with the same NODE keys on every
// level the values of an inner and an outer node must still not collide when they are merged).
func outKey(level int, letter string) string { return fmt.Sprintf("L%d%s", level, letter) }

func nodeKey(level int, letter string) string {
	if sameKeys {
		return letter
	}
	return fmt.Sprintf("L%d%s", level, letter)
}

// expected node path of a failure at (level, letter): host keys of the enclosing levels, then the node.
func expectedPath(levels []Level, level int, letter string) []string {
	var p []string
	for i := 0; i < level; i++ {
		p = append(p, nodeKey(i, hostLetter(levels[i].Shape)))
	}
	if letter != "" {
		p = append(p, nodeKey(level, letter))
	}
	return p
}

func levelTypes() []Level {
	var out []Level
	for _, s := range shapes {
		for _, k := range kinds {
			out = append(out, Level{s, k})
		}
	}
	return out
}

// towers enumerates the nesting structures of the map-typed families, simplest first.
// quick: depth 0 and 1 complete (16, 256 towers); depth 2 with the same shape on every level and the same
// kind on the two outer levels (4 shapes x 4 outer kinds x 4 inner kinds = 64 towers; every adjacent pair of
// kinds is already covered at depth 1). thorough: depth 2 complete (16^3 = 4096 towers).
func towers(quick bool, maxDepth int) [][]Level {
	lt := levelTypes()
	var out [][]Level
	for _, a := range lt {
		out = append(out, []Level{a})
	}
	if maxDepth >= 1 {
		for _, a := range lt {
			for _, b := range lt {
				out = append(out, []Level{a, b})
			}
		}
	}
	if maxDepth >= 2 {
		for _, a := range lt {
			for _, b := range lt {
				for _, c := range lt {
					if quick && !(a.Shape == b.Shape && b.Shape == c.Shape && a.Kind == b.Kind) {
						continue
					}
					out = append(out, []Level{a, b, c})
				}
			}
		}
	}
	return out
}

// soloHosts enumerates host towers (single-node graphs holding the next level) of depth 0..maxDepth.
func soloHosts(maxDepth int) [][]Level {
	out := [][]Level{{}}
	prev := [][]Level{{}}
	for d := 1; d <= maxDepth; d++ {
		var cur [][]Level
		for _, p := range prev {
			for _, k := range kinds {
				n := append(append([]Level{}, p...), Level{"solo", k})
				cur = append(cur, n)
			}
		}
		out = append(out, cur...)
		prev = cur
	}
	return out
}

// failing positions of a tower: every executed node of the innermost level, and every executed node of
// an outer level except the slot that holds the nested graph.
type pos struct {
	level  int
	letter string
}

func positions(t []Level) []pos {
	var out []pos
	for i, l := range t {
		for _, n := range shapeNodes(l.Shape) {
			if i < len(t)-1 && n == hostLetter(l.Shape) {
				continue
			}
			out = append(out, pos{i, n})
		}
	}
	return out
}

// enumerate lists every case of the tier in a fixed order (simplest first inside each family).
func enumerate(quick bool, yield func(Case)) {
	seq := 0
	add := func(c Case) {
		c.Seq = seq
		seq++
		yield(c)
	}
	tw := towers(quick, 2)

	// 0. harness self-check: every structure runs cleanly when nothing fails
	for _, t := range tw {
		for _, peers := range []string{"invoke", "transform"} {
			for _, p := range paradigms {
				add(Case{Family: "baseline", Levels: t, Peers: peers, Paradigm: p})
			}
		}
	}

	// 1. schema level: convert function panicking inside a merged stream (forwarder goroutines)
	for _, via := range []string{"convert", "copy"} {
		for _, n := range []int{2, 3} {
			for _, ch := range []int{1, 2, 3} {
				for s := 0; s < n; s++ {
					if via == "copy" && s > 0 {
						continue // the copied (panicking) reader is always source 0
					}
					for at := 0; at < ch; at++ {
						for _, k := range pncKinds {
							add(Case{Family: "merge-schema", Via: via, Sources: n, Chunks: ch, PanicSrc: s, PanicAt: at, Kind: k})
						}
					}
				}
			}
		}
	}

	// 1b. the same with a reader that lags behind: the forwarder's buffer (5) is full when the convert function
	// panics, so the error item has to wait for the reader
	for _, n := range []int{2, 3} {
		for _, at := range []int{6, 7} {
			for _, k := range pncKinds {
				add(Case{Family: "merge-schema", Via: "convert-lag", Sources: n, Chunks: 10, PanicSrc: 0, PanicAt: at, Kind: k})
			}
		}
	}

	// 2. one failing node
	type nat struct{ native, peers string }
	errNat := []nat{{"invoke", "invoke"}, {"stream-call", "invoke"}, {"stream-item", "invoke"}, {"stream-item", "transform"},
		{"collect", "invoke"}, {"transform-call", "invoke"}, {"transform-item", "invoke"}, {"transform-item", "transform"}}
	pncNat := []nat{{"invoke", "invoke"}, {"stream-call", "invoke"}, {"collect", "invoke"}, {"transform-call", "invoke"}}
	for _, t := range tw {
		for _, ps := range positions(t) {
			for _, k := range allKinds {
				ns := errNat
				if strings.HasPrefix(k, "panic") {
					ns = pncNat
				}
				for _, n := range ns {
					for _, p := range paradigms {
						add(Case{Family: "node", Levels: t, FailLevel: ps.level, FailNode: ps.letter, Kind: k, Native: n.native, Peers: n.peers, Paradigm: p})
					}
				}
			}
			// convert function of the node's output stream panics lazily; only where the stream is merged with a
			// sibling's stream (fan-in), so that the panic happens in a framework forwarder goroutine
			if t[ps.level].Shape == "fan" && (ps.letter == "b" || ps.letter == "c") && ps.level == len(t)-1 {
				for _, k := range pncKinds {
					for _, native := range []string{"stream-conv0", "stream-conv1"} {
						for _, p := range paradigms {
							add(Case{Family: "node", Levels: t, FailLevel: ps.level, FailNode: ps.letter, Kind: k, Native: native, Peers: "invoke", Paradigm: p})
						}
					}
				}
			}
		}
	}

	// 2b. the same keys on every level (the path of a failure at depth 2 is h/h/<leaf>): one error and one panic kind,
	// two native paradigms, every position of every nested tower
	for _, t := range tw {
		if len(t) < 2 {
			continue
		}
		for _, ps := range positions(t) {
			if ps.level == 0 {
				continue
			}
			for _, k := range []string{"custom", "panic-string"} {
				for _, n := range []nat{{"invoke", "invoke"}, {"stream-call", "invoke"}} {
					for _, p := range paradigms {
						add(Case{Family: "node", Levels: t, FailLevel: ps.level, FailNode: ps.letter, Kind: k, Native: n.native, Peers: n.peers, Paradigm: p, SameKeys: true})
					}
				}
			}
		}
	}

	// 3. two parallel nodes both failing (innermost level is a fan; b and c fail)
	pairDepth := 1
	if !quick {
		pairDepth = 2
	}
	for _, t := range towers(quick, pairDepth) {
		if t[len(t)-1].Shape != "fan" {
			continue
		}
		for _, k1 := range allKinds {
			for _, k2 := range allKinds {
				for _, native := range []string{"invoke", "stream-call"} {
					for _, p := range paradigms {
						add(Case{Family: "pair", Levels: t, FailLevel: len(t) - 1, Kind: k1, Kind2: k2, Native: native, Peers: "invoke", Paradigm: p})
					}
				}
			}
		}
	}

	// 4. tool inside a tools node
	toolDepth := 1
	if !quick {
		toolDepth = 2
	}
	for _, hosts := range soloHosts(toolDepth) {
		for _, k := range kinds {
			t := append(append([]Level{}, hosts...), Level{"tools", k})
			for calls := 1; calls <= 3; calls++ {
				for fc := 0; fc < calls; fc++ {
					for _, tt := range []string{"invokable", "streamable-call", "streamable-item"} {
						for _, fk := range allKinds {
							if strings.HasPrefix(fk, "panic") && tt == "streamable-item" {
								continue
							}
							for _, p := range paradigms {
								add(Case{Family: "tools", Levels: t, FailLevel: len(t) - 1, FailNode: "t", Calls: calls, FailCall: fc, ToolType: tt, Kind: fk, Paradigm: p})
							}
						}
					}
				}
			}
		}
	}

	// 5. step limit
	for _, hosts := range soloHosts(2) {
		for _, inner := range []Level{{"cycle", "pregel"}, {"line", "pregel"}, {"line", "chain"}} {
			t := append(append([]Level{}, hosts...), inner)
			maxes := []int{1, 2, 3}
			if inner.Shape == "line" {
				maxes = []int{1, 2}
			}
			for _, m := range maxes {
				for _, so := range []string{"compile", "call"} {
					if so == "call" && len(hosts) > 0 {
						continue
					}
					for _, p := range paradigms {
						add(Case{Family: "steps", Levels: t, FailLevel: len(t) - 1, MaxSteps: m, StepOpt: so, Paradigm: p})
					}
				}
			}
		}
	}

	// 6. cancellation
	for _, t := range tw {
		for _, p := range paradigms {
			add(Case{Family: "cancel-pre", Levels: t, Peers: "invoke", Paradigm: p})
		}
	}
	for _, t := range tw {
		for _, ps := range positions(t) {
			for _, p := range paradigms {
				add(Case{Family: "cancel-in", Levels: t, FailLevel: ps.level, FailNode: ps.letter, Native: "invoke", Peers: "invoke", Paradigm: p})
			}
		}
	}
}
