// Check C13: node failures surface as identifiable, unwrappable errors; panics are contained.
//
// Engine R: every fault scenario of a bounded alphabet is built through eino's public API and run
// natively; the oracle inspects only what a caller can see (returned error / error item, errors.Is,
// errors.As, error text, survival of the process).
package main

import (
	"encoding/json"
	"errors"
	"fmt"
	"os"
	"strings"
	"time"

	"verif/lib/harness"
)

func nontrivial(c Case) bool {
	switch c.Family {
	case "baseline":
		return false
	case "pair", "merge-schema":
		return true
	case "tools":
		return c.depth() >= 1 || c.isPanic() || c.FailCall > 0
	}
	return c.depth() >= 1 || c.isPanic()
}

func main() {
	c := harness.Init("C13")
	c.Res.Rule = "a case = (family, nesting tower of (shape,kind) levels, failing position, failure kind, native paradigm of the failing body, paradigm of the peers, calling paradigm); distinct = distinct canonical case string; non-trivial = nesting depth >= 1, or a panic, or two parallel failures, or a failure in a tool goroutine / merged-stream forwarder"
	c.Res.Assumptions = []string{
		"node bodies ignore their context; a node 'fails' by returning an error, by panicking, or (stream bodies) by sending an error item after one good chunk",
		"a returned stream is read until EOF or the first error item and then closed, as a consumer would",
		"the branch shape always selects node b; the never-executed alternative c is not a failing position",
		"for panics only 'surfaces as an error that mentions the panic value, process survives, run returns' is demanded (no errors.Is on the panic value)",
		"two parallel failures: whichever failure the run reports must be reported properly; clauses whose verdict would depend on completion order are not applied",
		"cancellation: a run may succeed if no step starts after the cancellation; if it returns an error, errors.Is(err, context.Canceled) is demanded; no node path is demanded for cancellation",
		"a convert function that panics lazily is only placed where the stream is merged with a sibling's stream (fan-in), so that the panic happens in a framework goroutine, never in the caller's own Recv",
	}
	c.Res.Explanation = "Alphabet: shapes {lin2, lin3, fan-out/fan-in, branch} x kinds {Graph pregel, Graph AllPredecessor, Workflow, Chain (parallel stage / chain branch)} nested to depth 0-2 (graph as node in slot b); quick = depth 0 and 1 complete (16 and 256 towers) and depth 2 with one shape per tower and one kind on the two outer levels (64 towers), thorough = depth 2 complete (4096 towers). For every tower: every executed node position (inner and outer) x {sentinel, custom typed error, panic(string), panic(error)} x native body {invoke, stream (call-time error / error item after a chunk), collect, transform (call-time / item)} x peers {invoke, lazy transform} x {Invoke, Stream, Collect, Transform}; two parallel failing nodes (all 16 kind pairs, 3 native runs each); a tool in a ToolsNode (1-3 calls, every failing call index: 0 inline, >0 goroutine; invokable / streamable tools) inside 0-1 (thorough 0-2) host graphs; a convert function panicking inside merged converted / copied streams at schema level and at a graph fan-in; step limit (cyclic pregel graph and too-short limit on a line, compile option and call option, 0-2 hosts); context cancelled before the run and from inside every node position. Oracle = the statement: a failing run never succeeds (call error or error item); errors.Is / errors.As recover the original; the error text names the node keys outermost->innermost; errors.Is(err, ErrExceedMaxSteps) / errors.Is(err, context.Canceled); a panic surfaces as an error mentioning it, the process survives (journal), the run returns (120 s guard). Every broken clause is its own violation with its own signature."

	if v := c.LoadReplay(); v != nil {
		cs, err := decodeCase(v.Case)
		if err != nil {
			fmt.Println("bad replay case:", err)
			c.ReplayExit(v.Scenario, nil)
		}
		rerr := c.Guard(v.Scenario, cs, 120*time.Second, func() error {
			fs, _, _, herr := runCase(cs)
			if herr != nil {
				fmt.Println("harness error:", herr)
				return nil
			}
			for _, f := range fs {
				fmt.Printf("  finding %s: %s\n", f.Sig, f.Msg)
			}
			for _, f := range fs {
				if cs.Clause == "" || f.Sig == cs.Clause {
					return errors.New(f.Sig + ": " + f.Msg)
				}
			}
			return nil
		})
		if pe, ok := rerr.(*harness.PanicError); ok {
			if cs.Clause == "" || cs.Clause == "panic-escaped-to-caller" {
				c.ReplayExit(v.Scenario, pe)
			}
			c.ReplayExit(v.Scenario, nil)
		}
		c.ReplayExit(v.Scenario, rerr)
	}

	seen := map[string]int{}
	jr := newJournal(c)
	stop := false
	enumerate(c.Quick(), func(cs Case) {
		if stop {
			return
		}
		name := ""
		if c.Only != "" {
			name = cs.Name()
		}
		if !c.Mine(name) {
			return
		}
		if c.TimeUp() {
			stop = true
			return
		}
		name = cs.Name()
		jr.write(name, cs)
		var fs []finding
		var execs int64
		var outcome string
		gerr := c.Guard(name, cs, 120*time.Second, func() error {
			var herr error
			fs, execs, outcome, herr = runCase(cs)
			return herr
		})
		c.Res.Evaluations++
		c.Res.Transitions += execs
		c.StateStr(cs.Canon())
		c.Count("cases_"+cs.Family, 1)
		if nontrivial(cs) {
			c.Res.Nontrivial++
		}
		if gerr != nil {
			var he *harnessErr
			if errors.As(gerr, &he) {
				c.Infra(name + ": " + he.msg)
				return
			}
			// a panic unwound to the caller of the public API
			fs = []finding{{"panic-escaped-to-caller", "a panic escaped from the public API call into the caller: " + strings.SplitN(gerr.Error(), "\n", 2)[0]}}
			outcome = "panic-to-caller"
		}
		c.Outcome(cs.Family + "/" + outcome)
		if len(fs) == 0 {
			c.Res.Validated++
			if cs.Family != "baseline" {
				c.Sample(name)
			}
			return
		}
		for _, f := range fs {
			c.Count("violations_"+f.Sig, 1)
			seen[f.Sig]++
			if seen[f.Sig] > 1 {
				continue // enumeration is simplest-first: the first case of a class is its minimal one for this worker
			}
			v := cs
			v.Clause = f.Sig
			c.Violate(harness.Violation{Scenario: name + " #" + f.Sig, Signature: f.Sig, Case: v, Msg: f.Msg})
		}
	})
	c.Finish()
}

// journal does what harness.Ctx.Journal does (same file, same record: the driver attributes a dead worker
// to the case named there) but keeps the file open and overwrites it in place: one pwrite per case instead
// of open+truncate+write+close, which dominated the wall time with 300k cases. The record is padded with
// blanks to the longest record written so far, so a shorter record leaves no tail of the previous one.
type journal struct {
	c   *harness.Ctx
	f   *os.File
	max int
}

func newJournal(c *harness.Ctx) *journal {
	j := &journal{c: c}
	if c.Out == "" || c.Replay != "" {
		return j
	}
	f, err := os.OpenFile(c.Out+".journal", os.O_CREATE|os.O_WRONLY|os.O_TRUNC, 0o644)
	if err == nil {
		j.f = f
	}
	return j
}

func (j *journal) write(name string, cs Case) {
	if j.f == nil {
		j.c.Journal(name, cs)
		return
	}
	b, _ := json.Marshal(harness.Violation{Property: j.c.Property, Scenario: name, Signature: "process-crash", Case: cs,
		Msg: "the process died while running this case (a panic escaped into a goroutine)"})
	for len(b) < j.max {
		b = append(b, ' ')
	}
	j.max = len(b)
	j.f.WriteAt(b, 0)
}
