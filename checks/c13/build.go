package main

import (
	"context"
	"errors"
	"fmt"
	"io"
	"sync/atomic"

	"github.com/cloudwego/eino/components/tool"
	"github.com/cloudwego/eino/compose"
	"github.com/cloudwego/eino/schema"
)

type M = map[string]any

// ---------------------------------------------------------------------------------------------------
// original failures

type customErr struct {
	Code int
	Tag  string
}

func (e *customErr) Error() string { return fmt.Sprintf("c13-custom-%s code=%d", e.Tag, e.Code) }

// Unwrap: the errors of the failing bodies WRAP io.EOF (as read errors of real sources do). An error is an
// error, whatever it wraps; only the bare io.EOF ends a stream.
func (e *customErr) Unwrap() error { return io.EOF }

var (
	errSentinel  = fmt.Errorf("c13-sentinel-boom (%w)", io.EOF)
	errSentinel2 = fmt.Errorf("c13-sentinel2-boom (%w)", io.EOF)
	errCustom    = &customErr{Code: 7, Tag: "boom"}
	errCustom2   = &customErr{Code: 8, Tag: "boom2"}
	errPanicVal  = errors.New("c13-panic-error-boom")
	errPanicVal2 = errors.New("c13-panic-error2-boom")
)

const (
	panicStr  = "c13-panic-string-boom"
	panicStr2 = "c13-panic-string2-boom"
)

// failure describes what a failing body does. second selects the second set of values (pair family).
type failure struct {
	kind   string
	second bool
}

// text is the message of the original error / the rendered panic value.
func (f failure) text() string {
	switch f.kind {
	case "sentinel":
		if f.second {
			return errSentinel2.Error()
		}
		return errSentinel.Error()
	case "custom":
		if f.second {
			return errCustom2.Error()
		}
		return errCustom.Error()
	case "panic-string":
		if f.second {
			return panicStr2
		}
		return panicStr
	case "panic-error":
		if f.second {
			return errPanicVal2.Error()
		}
		return errPanicVal.Error()
	}
	return ""
}

// fire returns the original error, or panics.
func (f failure) fire() error {
	switch f.kind {
	case "sentinel":
		if f.second {
			return errSentinel2
		}
		return errSentinel
	case "custom":
		if f.second {
			return errCustom2
		}
		return errCustom
	case "panic-string":
		if f.second {
			panic(panicStr2)
		}
		panic(panicStr)
	case "panic-error":
		if f.second {
			panic(errPanicVal2)
		}
		panic(errPanicVal)
	}
	return nil
}

// matches: can the original error be recovered from err with errors.Is / errors.As?
func (f failure) matches(err error) bool {
	switch f.kind {
	case "sentinel":
		if f.second {
			return errors.Is(err, errSentinel2)
		}
		return errors.Is(err, errSentinel)
	case "custom":
		var ce *customErr
		if !errors.As(err, &ce) {
			return false
		}
		if f.second {
			return ce == errCustom2 && ce.Code == 8
		}
		return ce == errCustom && ce.Code == 7
	}
	return false
}

// ---------------------------------------------------------------------------------------------------
// world: per-case runtime state shared by the node bodies

type world struct {
	execs  atomic.Int64 // node / tool bodies executed (model transitions)
	cancel context.CancelFunc
}

// role of a node body
type role struct {
	key    string
	native string   // paradigm the lambda is written in
	fail   *failure // nil: succeeds
	cancel bool     // calls the run's cancel function, then succeeds
}

func okChunk(key string) M { return M{key: "ok"} }

func drainClose[T any](sr *schema.StreamReader[T]) {
	defer sr.Close()
	for {
		_, err := sr.Recv()
		if err != nil {
			return
		}
	}
}

// itemStream yields one good chunk, then the error as a stream item.
func itemStream(key string, err error) *schema.StreamReader[M] {
	sr, sw := schema.Pipe[M](2)
	sw.Send(M{key: "o"}, nil)
	sw.Send(nil, err)
	sw.Close()
	return sr
}

func (w *world) lambda(r role) *compose.Lambda {
	pre := func() {
		w.execs.Add(1)
		if r.cancel && w.cancel != nil {
			w.cancel()
		}
	}
	switch r.native {
	case "invoke":
		return compose.InvokableLambda(func(ctx context.Context, in M) (M, error) {
			pre()
			if r.fail != nil {
				return nil, r.fail.fire()
			}
			return okChunk(r.key), nil
		})
	case "stream-call":
		return compose.StreamableLambda(func(ctx context.Context, in M) (*schema.StreamReader[M], error) {
			pre()
			if r.fail != nil {
				return nil, r.fail.fire()
			}
			return schema.StreamReaderFromArray([]M{{r.key: "o"}, {r.key: "k"}}), nil
		})
	case "stream-item":
		return compose.StreamableLambda(func(ctx context.Context, in M) (*schema.StreamReader[M], error) {
			pre()
			return itemStream(r.key, r.fail.fire()), nil
		})
	case "stream-conv0", "stream-conv1":
		// the body succeeds; the convert function of the returned stream panics at chunk 0 / 1
		at := 0
		if r.native == "stream-conv1" {
			at = 1
		}
		return compose.StreamableLambda(func(ctx context.Context, in M) (*schema.StreamReader[M], error) {
			pre()
			src := schema.StreamReaderFromArray([]int{0, 1, 2})
			return schema.StreamReaderWithConvert(src, func(i int) (M, error) {
				if i == at {
					_ = r.fail.fire()
				}
				return M{r.key: "o"}, nil
			}), nil
		})
	case "collect":
		return compose.CollectableLambda(func(ctx context.Context, in *schema.StreamReader[M]) (M, error) {
			pre()
			drainClose(in)
			if r.fail != nil {
				return nil, r.fail.fire()
			}
			return okChunk(r.key), nil
		})
	case "transform-call":
		return compose.TransformableLambda(func(ctx context.Context, in *schema.StreamReader[M]) (*schema.StreamReader[M], error) {
			pre()
			if r.fail != nil {
				in.Close()
				return nil, r.fail.fire()
			}
			drainClose(in)
			return schema.StreamReaderFromArray([]M{{r.key: "o"}, {r.key: "k"}}), nil
		})
	case "transform-item":
		return compose.TransformableLambda(func(ctx context.Context, in *schema.StreamReader[M]) (*schema.StreamReader[M], error) {
			pre()
			drainClose(in)
			return itemStream(r.key, r.fail.fire()), nil
		})
	case "transform":
		// lazy pass-through peer: maps every input chunk (errors flow through untouched)
		return compose.TransformableLambda(func(ctx context.Context, in *schema.StreamReader[M]) (*schema.StreamReader[M], error) {
			pre()
			return schema.StreamReaderWithConvert(in, func(m M) (M, error) { return okChunk(r.key), nil }), nil
		})
	}
	panic("c13 harness: unknown native " + r.native)
}

// ---------------------------------------------------------------------------------------------------
// graphs

// built is a graph of some kind together with the options it must be compiled with.
type built[I, O any] struct {
	g       compose.AnyGraph
	copts   []compose.GraphCompileOption
	compile func(ctx context.Context, opts ...compose.GraphCompileOption) (compose.Runnable[I, O], error)
}

func (b *built[I, O]) nodeOpts(extra ...compose.GraphAddNodeOpt) []compose.GraphAddNodeOpt {
	if len(b.copts) > 0 {
		extra = append(extra, compose.WithGraphCompileOptions(b.copts...))
	}
	return extra
}

// slot is what sits at a letter of a shape: a lambda or a nested graph.
type slot struct {
	lambda *compose.Lambda
	sub    *built[M, M]
}

func alwaysB(target string) func(ctx context.Context, in M) (string, error) {
	return func(ctx context.Context, in M) (string, error) { return target, nil }
}

// buildShape builds one level. keys are "L<level><letter>".
func buildShape(l Level, level int, slots map[string]slot) (*built[M, M], error) {
	k := func(letter string) string { return nodeKey(level, letter) }
	letters := shapeNodes(l.Shape)
	if l.Shape == "branch" {
		letters = []string{"a", "b", "c"}
	}
	switch l.Kind {
	case "pregel", "allpred":
		g := compose.NewGraph[M, M]()
		for _, x := range letters {
			s := slots[x]
			var err error
			if s.sub != nil {
				err = g.AddGraphNode(k(x), s.sub.g, s.sub.nodeOpts()...)
			} else {
				err = g.AddLambdaNode(k(x), s.lambda)
			}
			if err != nil {
				return nil, err
			}
		}
		edges := shapeEdges(l.Shape)
		for _, e := range edges {
			from, to := e[0], e[1]
			if from != compose.START {
				from = k(from)
			}
			if to != compose.END {
				to = k(to)
			}
			if err := g.AddEdge(from, to); err != nil {
				return nil, err
			}
		}
		if l.Shape == "branch" {
			if err := g.AddBranch(k("a"), compose.NewGraphBranch(alwaysB(k("b")), map[string]bool{k("b"): true, k("c"): true})); err != nil {
				return nil, err
			}
		}
		b := &built[M, M]{g: g}
		if l.Kind == "allpred" {
			b.copts = []compose.GraphCompileOption{compose.WithNodeTriggerMode(compose.AllPredecessor)}
		}
		b.compile = func(ctx context.Context, opts ...compose.GraphCompileOption) (compose.Runnable[M, M], error) {
			return g.Compile(ctx, append(append([]compose.GraphCompileOption{}, b.copts...), opts...)...)
		}
		return b, nil

	case "workflow":
		wf := compose.NewWorkflow[M, M]()
		nodes := map[string]*compose.WorkflowNode{}
		for _, x := range letters {
			s := slots[x]
			if s.sub != nil {
				nodes[x] = wf.AddGraphNode(k(x), s.sub.g, s.sub.nodeOpts()...)
			} else {
				nodes[x] = wf.AddLambdaNode(k(x), s.lambda)
			}
		}
		switch l.Shape {
		case "lin2":
			nodes["a"].AddInput(compose.START)
			nodes["b"].AddInput(k("a"))
			wf.End().AddInput(k("b"))
		case "lin3":
			nodes["a"].AddInput(compose.START)
			nodes["b"].AddInput(k("a"))
			nodes["c"].AddInput(k("b"))
			wf.End().AddInput(k("c"))
		case "fan":
			nodes["a"].AddInput(compose.START)
			nodes["b"].AddInput(k("a"))
			nodes["c"].AddInput(k("a"))
			nodes["d"].AddInput(k("b"), compose.ToField("b")).AddInput(k("c"), compose.ToField("c"))
			wf.End().AddInput(k("d"))
		case "branch":
			nodes["a"].AddInput(compose.START)
			wf.AddBranch(k("a"), compose.NewGraphBranch(alwaysB(k("b")), map[string]bool{k("b"): true, k("c"): true}))
			nodes["b"].AddInputWithOptions(k("a"), nil, compose.WithNoDirectDependency())
			nodes["c"].AddInputWithOptions(k("a"), nil, compose.WithNoDirectDependency())
			wf.End().AddInput(k("b"), compose.ToField("b")).AddInput(k("c"), compose.ToField("c"))
		}
		b := &built[M, M]{g: wf}
		b.compile = func(ctx context.Context, opts ...compose.GraphCompileOption) (compose.Runnable[M, M], error) {
			return wf.Compile(ctx, opts...)
		}
		return b, nil

	case "chain":
		ch := compose.NewChain[M, M]()
		appendSlot := func(x string) {
			s := slots[x]
			if s.sub != nil {
				ch.AppendGraph(s.sub.g, s.sub.nodeOpts(compose.WithNodeKey(k(x)))...)
			} else {
				ch.AppendLambda(s.lambda, compose.WithNodeKey(k(x)))
			}
		}
		switch l.Shape {
		case "lin2", "lin3":
			for _, x := range letters {
				appendSlot(x)
			}
		case "fan":
			appendSlot("a")
			p := compose.NewParallel()
			for _, x := range []string{"b", "c"} {
				s := slots[x]
				if s.sub != nil {
					p.AddGraph(x, s.sub.g, s.sub.nodeOpts(compose.WithNodeKey(k(x)))...)
				} else {
					p.AddLambda(x, s.lambda, compose.WithNodeKey(k(x)))
				}
			}
			ch.AppendParallel(p)
			appendSlot("d")
		case "branch":
			appendSlot("a")
			br := compose.NewChainBranch(alwaysB("b"))
			for _, x := range []string{"b", "c"} {
				s := slots[x]
				if s.sub != nil {
					br.AddGraph(x, s.sub.g, s.sub.nodeOpts(compose.WithNodeKey(k(x)))...)
				} else {
					br.AddLambda(x, s.lambda, compose.WithNodeKey(k(x)))
				}
			}
			ch.AppendBranch(br)
		}
		b := &built[M, M]{g: ch}
		b.compile = func(ctx context.Context, opts ...compose.GraphCompileOption) (compose.Runnable[M, M], error) {
			return ch.Compile(ctx, opts...)
		}
		return b, nil
	}
	return nil, fmt.Errorf("c13 harness: unknown kind %q", l.Kind)
}

func shapeEdges(shape string) [][2]string {
	S, E := compose.START, compose.END
	switch shape {
	case "lin2":
		return [][2]string{{S, "a"}, {"a", "b"}, {"b", E}}
	case "lin3":
		return [][2]string{{S, "a"}, {"a", "b"}, {"b", "c"}, {"c", E}}
	case "fan":
		return [][2]string{{S, "a"}, {"a", "b"}, {"a", "c"}, {"b", "d"}, {"c", "d"}, {"d", E}}
	case "branch":
		return [][2]string{{S, "a"}, {"b", E}, {"c", E}}
	}
	return nil
}

// buildTower builds the nested structure of the map-typed families. roleOf decides the body of every
// lambda slot.
func buildTower(w *world, levels []Level, roleOf func(level int, letter string) role) (*built[M, M], error) {
	var inner *built[M, M]
	for i := len(levels) - 1; i >= 0; i-- {
		l := levels[i]
		letters := shapeNodes(l.Shape)
		if l.Shape == "branch" {
			letters = []string{"a", "b", "c"}
		}
		slots := map[string]slot{}
		for _, x := range letters {
			if inner != nil && x == hostLetter(l.Shape) {
				slots[x] = slot{sub: inner}
				continue
			}
			slots[x] = slot{lambda: w.lambda(roleOf(i, x))}
		}
		b, err := buildShape(l, i, slots)
		if err != nil {
			return nil, err
		}
		inner = b
	}
	return inner, nil
}

// wrapSolo wraps inner into host graphs (outermost host first in hosts), each a single-node graph
// START -> L<i>h -> END of the given kind. extra are compile options for the innermost graph.
func wrapSolo[I, O any](hosts []Level, inner *built[I, O]) (*built[I, O], error) {
	cur := inner
	for i := len(hosts) - 1; i >= 0; i-- {
		key := nodeKey(i, "h")
		sub := cur
		var b *built[I, O]
		switch hosts[i].Kind {
		case "pregel", "allpred":
			g := compose.NewGraph[I, O]()
			if err := g.AddGraphNode(key, sub.g, sub.nodeOpts()...); err != nil {
				return nil, err
			}
			if err := g.AddEdge(compose.START, key); err != nil {
				return nil, err
			}
			if err := g.AddEdge(key, compose.END); err != nil {
				return nil, err
			}
			b = &built[I, O]{g: g}
			if hosts[i].Kind == "allpred" {
				b.copts = []compose.GraphCompileOption{compose.WithNodeTriggerMode(compose.AllPredecessor)}
			}
			bb := b
			b.compile = func(ctx context.Context, opts ...compose.GraphCompileOption) (compose.Runnable[I, O], error) {
				return g.Compile(ctx, append(append([]compose.GraphCompileOption{}, bb.copts...), opts...)...)
			}
		case "workflow":
			wf := compose.NewWorkflow[I, O]()
			wf.AddGraphNode(key, sub.g, sub.nodeOpts()...).AddInput(compose.START)
			wf.End().AddInput(key)
			b = &built[I, O]{g: wf}
			b.compile = func(ctx context.Context, opts ...compose.GraphCompileOption) (compose.Runnable[I, O], error) {
				return wf.Compile(ctx, opts...)
			}
		case "chain":
			ch := compose.NewChain[I, O]()
			ch.AppendGraph(sub.g, sub.nodeOpts(compose.WithNodeKey(key))...)
			b = &built[I, O]{g: ch}
			b.compile = func(ctx context.Context, opts ...compose.GraphCompileOption) (compose.Runnable[I, O], error) {
				return ch.Compile(ctx, opts...)
			}
		default:
			return nil, fmt.Errorf("c13 harness: unknown host kind %q", hosts[i].Kind)
		}
		cur = b
	}
	return cur, nil
}

// ---------------------------------------------------------------------------------------------------
// step-limit graphs

func buildSteps(w *world, l Level, level int, maxSteps int, viaCompile bool) (*built[M, M], error) {
	k := func(letter string) string { return nodeKey(level, letter) }
	ok := func(letter string) *compose.Lambda {
		return w.lambda(role{key: k(letter), native: "invoke"})
	}
	var copts []compose.GraphCompileOption
	if viaCompile {
		copts = append(copts, compose.WithMaxRunSteps(maxSteps))
	}
	switch {
	case l.Shape == "cycle" && l.Kind == "pregel":
		g := compose.NewGraph[M, M]()
		if err := g.AddLambdaNode(k("a"), ok("a")); err != nil {
			return nil, err
		}
		if err := g.AddEdge(compose.START, k("a")); err != nil {
			return nil, err
		}
		if err := g.AddBranch(k("a"), compose.NewGraphBranch(alwaysB(k("a")), map[string]bool{k("a"): true, compose.END: true})); err != nil {
			return nil, err
		}
		b := &built[M, M]{g: g, copts: copts}
		b.compile = func(ctx context.Context, opts ...compose.GraphCompileOption) (compose.Runnable[M, M], error) {
			return g.Compile(ctx, append(append([]compose.GraphCompileOption{}, copts...), opts...)...)
		}
		return b, nil
	case l.Shape == "line":
		slots := map[string]slot{"a": {lambda: ok("a")}, "b": {lambda: ok("b")}, "c": {lambda: ok("c")}}
		b, err := buildShape(Level{"lin3", l.Kind}, level, slots)
		if err != nil {
			return nil, err
		}
		b.copts = append(b.copts, copts...)
		inner := b.compile
		b.compile = func(ctx context.Context, opts ...compose.GraphCompileOption) (compose.Runnable[M, M], error) {
			return inner(ctx, append(append([]compose.GraphCompileOption{}, copts...), opts...)...)
		}
		return b, nil
	}
	return nil, fmt.Errorf("c13 harness: unknown step shape %v", l)
}

// ---------------------------------------------------------------------------------------------------
// tools

type fakeTool struct {
	w    *world
	name string
	typ  string // invokable | streamable-call | streamable-item (behaviour when failing); base interface by prefix
	fail *failure
}

func (t *fakeTool) Info(ctx context.Context) (*schema.ToolInfo, error) {
	return &schema.ToolInfo{Name: t.name, Desc: "c13 tool " + t.name}, nil
}

type invTool struct{ *fakeTool }

func (t invTool) InvokableRun(ctx context.Context, args string, opts ...tool.Option) (string, error) {
	t.w.execs.Add(1)
	if t.fail != nil {
		return "", t.fail.fire()
	}
	return "ok-" + t.name, nil
}

type strTool struct{ *fakeTool }

func (t strTool) StreamableRun(ctx context.Context, args string, opts ...tool.Option) (*schema.StreamReader[string], error) {
	t.w.execs.Add(1)
	if t.fail != nil {
		if t.typ == "streamable-item" {
			sr, sw := schema.Pipe[string](2)
			sw.Send("o", nil)
			sw.Send("", t.fail.fire())
			sw.Close()
			return sr, nil
		}
		return nil, t.fail.fire()
	}
	return schema.StreamReaderFromArray([]string{"ok-", t.name}), nil
}

type TM = *schema.Message
type TO = []*schema.Message

func buildTools(w *world, c Case) (*built[TM, TO], TM, error) {
	level := len(c.Levels) - 1
	key := nodeKey(level, "t")
	var tools []tool.BaseTool
	msg := &schema.Message{Role: schema.Assistant}
	for i := 0; i < c.Calls; i++ {
		ft := &fakeTool{w: w, name: fmt.Sprintf("t%d", i), typ: c.ToolType}
		if i == c.FailCall {
			ft.fail = &failure{kind: c.Kind}
		}
		if c.ToolType == "invokable" {
			tools = append(tools, invTool{ft})
		} else {
			tools = append(tools, strTool{ft})
		}
		msg.ToolCalls = append(msg.ToolCalls, schema.ToolCall{ID: fmt.Sprintf("call%d", i), Type: "function",
			Function: schema.FunctionCall{Name: ft.name, Arguments: "{}"}})
	}
	tn, err := compose.NewToolNode(context.Background(), &compose.ToolsNodeConfig{Tools: tools})
	if err != nil {
		return nil, nil, err
	}
	var inner *built[TM, TO]
	switch c.Levels[level].Kind {
	case "pregel", "allpred":
		g := compose.NewGraph[TM, TO]()
		if err := g.AddToolsNode(key, tn); err != nil {
			return nil, nil, err
		}
		if err := g.AddEdge(compose.START, key); err != nil {
			return nil, nil, err
		}
		if err := g.AddEdge(key, compose.END); err != nil {
			return nil, nil, err
		}
		b := &built[TM, TO]{g: g}
		if c.Levels[level].Kind == "allpred" {
			b.copts = []compose.GraphCompileOption{compose.WithNodeTriggerMode(compose.AllPredecessor)}
		}
		b.compile = func(ctx context.Context, opts ...compose.GraphCompileOption) (compose.Runnable[TM, TO], error) {
			return g.Compile(ctx, append(append([]compose.GraphCompileOption{}, b.copts...), opts...)...)
		}
		inner = b
	case "workflow":
		wf := compose.NewWorkflow[TM, TO]()
		wf.AddToolsNode(key, tn).AddInput(compose.START)
		wf.End().AddInput(key)
		b := &built[TM, TO]{g: wf}
		b.compile = func(ctx context.Context, opts ...compose.GraphCompileOption) (compose.Runnable[TM, TO], error) {
			return wf.Compile(ctx, opts...)
		}
		inner = b
	case "chain":
		ch := compose.NewChain[TM, TO]()
		ch.AppendToolsNode(tn, compose.WithNodeKey(key))
		b := &built[TM, TO]{g: ch}
		b.compile = func(ctx context.Context, opts ...compose.GraphCompileOption) (compose.Runnable[TM, TO], error) {
			return ch.Compile(ctx, opts...)
		}
		inner = b
	default:
		return nil, nil, fmt.Errorf("c13 harness: unknown kind")
	}
	top, err := wrapSolo(c.Levels[:level], inner)
	return top, msg, err
}

// ---------------------------------------------------------------------------------------------------
// running

// observed is what a caller holding only the public API sees.
type observed struct {
	callErr error // error returned by Invoke/Stream/Collect/Transform
	itemErr error // first error item of the returned stream (stream / transform)
	chunks  int
}

func (o observed) err() error {
	if o.callErr != nil {
		return o.callErr
	}
	return o.itemErr
}

func (o observed) where() string {
	if o.callErr != nil {
		return "returned by the call"
	}
	if o.itemErr != nil {
		return fmt.Sprintf("error item on the returned stream after %d chunk(s)", o.chunks)
	}
	return "none"
}

// runParadigm calls r in the given paradigm; a returned stream is read until EOF or the first error item,
// then closed (what a consumer does).
func runParadigm[I, O any](ctx context.Context, r compose.Runnable[I, O], paradigm string, in I, opts ...compose.Option) observed {
	var o observed
	drain := func(sr *schema.StreamReader[O]) {
		defer sr.Close()
		for {
			_, err := sr.Recv()
			if err == io.EOF {
				return
			}
			if err != nil {
				o.itemErr = err
				return
			}
			o.chunks++
		}
	}
	switch paradigm {
	case "invoke":
		_, o.callErr = r.Invoke(ctx, in, opts...)
	case "stream":
		sr, err := r.Stream(ctx, in, opts...)
		o.callErr = err
		if err == nil {
			drain(sr)
		}
	case "collect":
		_, o.callErr = r.Collect(ctx, schema.StreamReaderFromArray([]I{in}), opts...)
	case "transform":
		sr, err := r.Transform(ctx, schema.StreamReaderFromArray([]I{in}), opts...)
		o.callErr = err
		if err == nil {
			drain(sr)
		}
	default:
		panic("c13 harness: unknown paradigm " + paradigm)
	}
	return o
}
