// C07 — a graph that compiles cannot hit a type mismatch between concretely typed nodes (Engine R).
//
// Every program of the template families in program.go (type universe: string, int, struct A, *B,
// interface I1 {A,*B}, interface I2 {*B}, any, map[string]any) is built on the real eino API in EVERY order
// of its Add* calls that adds a node before the calls that mention it, as a Graph in both trigger modes and,
// where it can be written as one, as a Chain. Every accepted build is run with Invoke and Stream for every
// dynamic value each interface-typed position can carry and every branch decision. The reference model
// (model.go) says which connections are statically impossible and what each run must return.
package main

import (
	"context"
	"encoding/json"
	"fmt"
	"os"
	"sort"
	"strings"
	"time"

	"verif/lib/harness"
)

// Case is the replayable form of a violation: the program, the failing order and run.
type Case struct {
	Program *Program `json:"program"`
	Order   []int    `json:"order,omitempty"`
	Mode    string   `json:"mode,omitempty"`
	Choices []choice `json:"choices,omitempty"`
	Calls   string   `json:"calls"` // human-readable construction sequence
}

// finding is one oracle failure on one (program, order[, run]).
type finding struct {
	Kind    string // "panic-escapes", "accepted-concrete-mismatch", "run-mismatch"
	Sig     string
	Order   []int
	Mode    string
	Choices []choice
	Msg     string
}

type progStats struct {
	orders, accepted, rejected int
	calls                      int64
	runs, agreed               int64
}

type evaluator struct {
	c   *harness.Ctx
	ctx context.Context
}

// evalProgram checks one call multiset in all of its orders. It returns the findings (first per signature).
func (e *evaluator) evalProgram(p *Program) ([]finding, progStats) {
	m := newModel(p)
	var st progStats
	var fs []finding
	seen := map[string]bool{}
	add := func(f finding) {
		if seen[f.Sig] {
			e.c.Count("violating_orders_or_runs/"+f.Sig, 1)
			return
		}
		seen[f.Sig] = true
		e.c.Count("violating_orders_or_runs/"+f.Sig, 1)
		fs = append(fs, f)
	}
	var accOrder, rejOrder []int
	pname := p.Name()
	p.forEachOrder(func(order []int) bool {
		st.orders++
		ord := append([]int(nil), order...)
		e.c.StateStr(pname + "|" + fmt.Sprint(ord))
		b := build(e.ctx, p, ord)
		st.calls += int64(b.Calls)
		if b.PanicBy != "" {
			e.c.Outcome("panic out of a construction call")
			add(finding{Kind: "panic-escapes", Sig: classify(p, m, ord, "panic-escapes", nil, "build"), Order: ord,
				Msg: fmt.Sprintf("a panic escaped from %s: %s", b.PanicBy, b.PanicMsg)})
			return true
		}
		if !b.Accepted {
			st.rejected++
			if rejOrder == nil {
				rejOrder = ord
			}
			e.c.Outcome("rejected by " + opOf(b.RejectedBy))
			return true
		}
		st.accepted++
		if accOrder == nil {
			accOrder = ord
		}
		// runs
		var runNotes []string
		worst := ""
		runFinding := func(mode string, ch *chooser, ex expect, o obs) {
			st.runs++
			if ex.HasNil {
				e.c.Count("nil_interface_value_runs/"+o.Kind, 1)
				return
			}
			e.c.Outcome("accepted; " + mode + " " + o.Kind)
			choices := append([]choice(nil), ch.taken...)
			switch {
			case o.Kind == "panic":
				if len(m.concreteMismatch) == 0 {
					add(finding{Kind: "panic-escapes", Sig: classify(p, m, ord, "panic-escapes", &ex, mode), Order: ord, Mode: mode, Choices: choices,
						Msg: fmt.Sprintf("%s(%s) %s (the model expected: %s)", mode, choicesString(choices), o, expectString(ex))})
				}
			case ex.Kind == "unjudged":
				// statically mismatched connection with a concrete upstream: judged by the acceptance clause below
			case ex.Kind == "ok" && o.Kind == "ok" && ex.Dyn == o.Dyn:
				st.agreed++
			case ex.Kind == "error" && o.Kind == "error":
				st.agreed++
			default:
				add(finding{Kind: "run-mismatch", Sig: classify(p, m, ord, "run-mismatch:"+ex.Kind+">"+o.Kind, &ex, mode), Order: ord, Mode: mode, Choices: choices,
					Msg: fmt.Sprintf("%s(%s) %s; the model expected: %s", mode, choicesString(choices), o, expectString(ex))})
			}
			if len(m.concreteMismatch) > 0 && o.Kind != "ok" {
				rank := map[string]int{"error": 1, "panic-error": 2, "panic": 3}
				if rank[o.Kind] > rank[worst] {
					worst = o.Kind
					runNotes = []string{fmt.Sprintf("%s(%s) %s", mode, choicesString(choices), o)}
				}
			}
		}
		withNil := st.accepted == 1 // nil interface values: a statistic, taken on the first accepted order only
		for _, mode := range []string{"Invoke", "Stream"} {
			ch := &chooser{}
			for {
				ex := m.simulate(ch, withNil)
				o := b.runOnce(e.ctx, mode, ch.taken)
				runFinding(mode, ch, ex, o)
				if !ch.next() {
					break
				}
			}
		}
		if len(m.concreteMismatch) > 0 {
			msg := fmt.Sprintf("accepted although %s", m.concreteMismatch[0])
			if len(runNotes) > 0 {
				msg += "; then " + runNotes[0]
			} else {
				msg += "; no run failed"
			}
			add(finding{Kind: "accepted-concrete-mismatch", Sig: classify(p, m, ord, "accepted-concrete-mismatch", nil, worst), Order: ord, Msg: msg})
		}
		return true
	})
	if st.accepted > 0 && st.rejected > 0 {
		e.c.Count("programs_accepted_in_some_orders_rejected_in_others", 1)
		for i := range fs {
			fs[i].Msg += fmt.Sprintf(" [order differential: %d of %d orders accepted, %d rejected, e.g. rejected: %s]", st.accepted, st.orders, st.rejected, p.OrderString(rejOrder))
		}
	}
	return fs, st
}

func opOf(call string) string {
	if i := strings.Index(call, "("); i >= 0 {
		return call[:i]
	}
	return call
}

func expectString(ex expect) string {
	switch ex.Kind {
	case "ok":
		return "success with a " + ex.Dyn + " value"
	case "error":
		return "an ordinary error, because the " + ex.Why
	}
	return "nothing (" + ex.Why + ")"
}

// ---------------------------------------------------------------------------------------------------
// signatures

// typedBefore reports the declared types attached (through pass-through nodes only, using only the calls
// made before position pos of the order) to pass-through node pt.
func typedBefore(p *Program, order []int, pos int, pt string) []int {
	isPass := func(n string) bool {
		nd := p.node(n)
		return nd != nil && nd.Kind == "P" && nd.Pre < 0 && nd.Post < 0
	}
	adj := map[string][]string{}
	types := map[string][]int{}
	outT := func(n string) int { // declared type of what n emits
		if n == START {
			return p.GI
		}
		nd := p.node(n)
		if nd.Post >= 0 {
			return nd.Post
		}
		if nd.Kind == "L" {
			return nd.Out
		}
		if nd.Pre >= 0 {
			return nd.Pre
		}
		return -1
	}
	inT := func(n string) int {
		if n == END {
			return p.GO
		}
		nd := p.node(n)
		if nd.Pre >= 0 {
			return nd.Pre
		}
		if nd.Kind == "L" {
			return nd.In
		}
		if nd.Post >= 0 {
			return nd.Post
		}
		return -1
	}
	link := func(a, b string) {
		pa, pb := isPass(a), isPass(b)
		switch {
		case pa && pb:
			adj[a] = append(adj[a], b)
			adj[b] = append(adj[b], a)
		case pa:
			types[a] = append(types[a], inT(b))
		case pb:
			types[b] = append(types[b], outT(a))
		}
	}
	for _, i := range order[:pos] {
		c := p.Calls[i]
		switch c.Op {
		case "E":
			link(c.A, c.B)
		case "B":
			if isPass(c.A) {
				types[c.A] = append(types[c.A], c.Cond)
			}
			for _, t := range c.Targets {
				link(c.A, t)
			}
		}
	}
	seen := map[string]bool{pt: true}
	queue := []string{pt}
	var out []int
	for len(queue) > 0 {
		n := queue[0]
		queue = queue[1:]
		out = append(out, types[n]...)
		for _, x := range adj[n] {
			if !seen[x] {
				seen[x] = true
				queue = append(queue, x)
			}
		}
	}
	return out
}

// retypePattern: the order contains an AddBranch on a pass-through node whose type had already been
// determined, by the calls made before it, to something other than the condition's input type.
func retypePattern(p *Program, order []int) bool {
	if p.Container == "chain" {
		// a chain makes the graph calls in stage order: node, edges from the previous stage, then the branch
		order = make([]int, len(p.Calls))
		for i := range order {
			order[i] = i
		}
	}
	for pos, i := range order {
		c := p.Calls[i]
		if c.Op != "B" {
			continue
		}
		nd := p.node(c.A)
		if nd == nil || nd.Kind != "P" {
			continue
		}
		for _, t := range typedBefore(p, order, pos, c.A) {
			if t >= 0 && t != c.Cond {
				return true
			}
		}
	}
	return false
}

func positionKind(p *Program, pos string) string {
	switch {
	case pos == END:
		return "end"
	case pos == START:
		return "start"
	case strings.HasPrefix(pos, "branch("):
		return "branch-condition"
	}
	if i := strings.LastIndex(pos, "."); i >= 0 {
		nd := p.node(pos[:i])
		what := "node"
		if nd != nil && nd.Kind == "P" {
			what = "passthrough"
		}
		switch pos[i+1:] {
		case "pre":
			return what + "-pre-handler"
		case "post":
			return what + "-post-handler"
		}
		return what
	}
	return pos
}

// classify names the class of a failure. Known mechanisms first (a bigger program that merely contains the
// pattern is attributed to it); otherwise a mechanical description of the failing connection.
func classify(p *Program, m *model, order []int, kind string, ex *expect, extra string) string {
	if retypePattern(p, order) {
		switch {
		case kind == "accepted-concrete-mismatch":
			return "branch-retypes-inferred-passthrough"
		case strings.HasPrefix(kind, "run-mismatch") || (ex != nil && ex.Kind == "error"):
			return "branch-retypes-inferred-passthrough/runtime-check-lost"
		case ex != nil && ex.Kind == "ok":
			return "branch-retypes-inferred-passthrough/assignable-value-fails"
		default:
			return "branch-retypes-inferred-passthrough/mismatch-with-interface-type"
		}
	}
	cont := ""
	if p.Container == "chain" {
		cont = "chain:"
	}
	if kind == "accepted-concrete-mismatch" {
		all := true
		for _, c := range m.concreteMismatch {
			if !m.widened(c) {
				all = false
			}
		}
		if all {
			return "passthrough-typed-by-interface-neighbour"
		}
	}
	switch {
	case kind == "accepted-concrete-mismatch":
		c := m.concreteMismatch[0]
		for _, x := range m.concreteMismatch {
			if !m.widened(x) {
				c = x
				break
			}
		}
		via := "direct"
		if c.Via > 0 {
			via = "through-passthrough"
		}
		return cont + "accepted-concrete-mismatch/" + positionKind(p, c.From) + "-to-" + positionKind(p, c.To) + "/" + via
	case ex != nil && ex.Kind == "error":
		// a run-time check was due at ex.FailFrom -> ex.FailTo
		got := strings.TrimPrefix(kind, "run-mismatch:error>")
		return cont + "runtime-check-missing/" + positionKind(p, ex.FailFrom) + "-to-" + positionKind(p, ex.FailTo) + "/got-" + got
	case ex != nil && ex.Kind == "ok":
		return cont + "assignable-value-fails/" + p.Tmpl + "/" + strings.TrimPrefix(kind, "run-mismatch:ok>")
	}
	return cont + kind + "/" + p.Tmpl + "/" + extra
}

// ---------------------------------------------------------------------------------------------------

func main() {
	c := harness.Init("C07")
	c.Res.Rule = "a case is a construction program: container (Graph any-predecessor, Graph AllPredecessor, Chain) + input/output types + multiset of Add*/Append* calls; " +
		"states = distinct (program, order of the calls); non-trivial = programs with at least one connection whose two declared types are not identical"
	c.Res.Assumptions = []string{
		"nil interface values flowing between nodes are run but not judged (statistic nil_interface_value_runs/*): the statement is about values of the wrong type",
		"acceptance that depends on the order of the calls is not by itself a violation (the statement only demands that impossible connections are rejected in every order); it is counted in programs_accepted_in_some_orders_rejected_in_others and quoted in violation messages",
		"a connection from a concrete type to an interface it does not implement is outside the both-concrete clause: accepting it is not reported, a panic escaping from it is",
		"node bodies are InvokableLambda; runs are Invoke and Stream (drained)",
	}
	c.Res.Explanation = "Universe {string,int,A,*B,I1{A,*B},I2{*B},any,map[string]any}; template families (program.go): linear START/lambda -> 0..2 pass-throughs -> END/lambda, " +
		"branches on START/lambda/pass-through with END, lambda and pass-through targets, fan-in and fan-out on a pass-through, two branches on one pass-through, state pre/post handlers of every type on " +
		"pass-throughs and lambdas; every type parameter ranges over the whole universe (quick narrows the target type of two 3-parameter families). All linear extensions of 'node before the calls that mention it'. " +
		"Oracle: (1) no panic escapes any Add*/Compile/Invoke/Stream/Recv call; (2) a connection (seen through pass-throughs) whose two declared types are concrete and unequal => some call returned an error, in every order; " +
		"(3) on a connection with an interface upstream the run returns an ordinary error iff the dynamic value is not assignable, else succeeds with the expected value; (4) covered by (2)+(3): an accepted graph never fails at a both-concrete connection."
	ev := &evaluator{c: c, ctx: context.Background()}

	if v := c.LoadReplay(); v != nil {
		var cs Case
		b, _ := json.Marshal(v.Case)
		if err := json.Unmarshal(b, &cs); err != nil || cs.Program == nil {
			fmt.Fprintln(os.Stderr, "bad case:", err)
			os.Exit(2)
		}
		err := c.Guard(v.Scenario, cs, 120*time.Second, func() error {
			fs, _ := ev.evalProgram(cs.Program)
			for _, f := range fs {
				if f.Sig == v.Signature {
					return fmt.Errorf("%s: %s: %s", f.Sig, cs.Program.OrderString(f.Order), f.Msg)
				}
			}
			return nil
		})
		c.ReplayExit(v.Scenario, err)
	}

	sigSeen := map[string]bool{}
	enumerate(c.Quick(), func(p *Program) {
		if c.Res.Capped || c.TooManyViolations() {
			return
		}
		name := p.Name()
		if !c.Mine(name) {
			return
		}
		if c.TimeUp() {
			return
		}
		c.Journal(name, Case{Program: p, Calls: name})
		var fs []finding
		var st progStats
		t0 := time.Now()
		err := c.Guard(name, Case{Program: p, Calls: name}, 120*time.Second, func() error {
			fs, st = ev.evalProgram(p)
			return nil
		})
		if err != nil { // a panic inside the harness itself (every API call is guarded separately)
			c.Infra(fmt.Sprintf("%s: harness panic: %v", name, err))
			return
		}
		c.Res.Evaluations += int64(st.orders) + st.runs
		c.Res.Transitions += st.calls
		c.Res.Validated += st.agreed
		c.Count("orders_built", int64(st.orders))
		c.Count("orders_accepted", int64(st.accepted))
		c.Count("orders_rejected", int64(st.rejected))
		c.Count("runs", st.runs)
		c.Count("programs/"+p.Container, 1)
		c.Count("tmpl_orders/"+p.Tmpl, int64(st.orders))
		c.Count("tmpl_runs/"+p.Tmpl, st.runs)
		c.Count("tmpl_programs/"+p.Tmpl, 1)
		c.Count("tmpl_ms/"+p.Tmpl, time.Since(t0).Milliseconds())
		m := newModel(p)
		if p.nontrivial(m) {
			c.Res.Nontrivial++
		}
		if len(fs) == 0 {
			c.Sample(map[string]any{"program": name, "orders": st.orders, "accepted": st.accepted, "runs": st.runs})
			return
		}
		sort.SliceStable(fs, func(i, j int) bool { return fs[i].Sig < fs[j].Sig })
		for _, f := range fs {
			c.Count("violating_programs/"+f.Sig, 1)
			if sigSeen[f.Sig] {
				continue // programs come simplest first: keep the first (smallest) of each class per worker
			}
			sigSeen[f.Sig] = true
			calls := p.OrderString(f.Order)
			c.Violate(harness.Violation{
				Scenario:  name,
				Signature: f.Sig,
				Case:      Case{Program: p, Order: f.Order, Mode: f.Mode, Choices: f.Choices, Calls: calls},
				Msg:       calls + " => " + f.Msg,
			})
		}
	})
	c.Finish()
}
