// C07 — a graph that compiles cannot hit a type mismatch between concretely typed nodes (Engine R).
//
// Every program of the template families in program.go (type universe: string, int, struct A, *B,
// interface I1 {A,*B}, interface I2 {*B}, any, map[string]any) is built on the real eino API in EVERY order
// of its Add* calls that adds a node before the calls that mention it, as a Graph in both trigger modes and,
// where it can be written as one, as a Chain. Every accepted build is run with Invoke and Stream for every
// dynamic value each interface-typed position can carry and every branch decision. The reference model
// (model.go) says which connections are statically impossible and what each run must return.
package main

import (
	"context"
	"encoding/json"
	"fmt"
	"os"
	"sort"
	"strings"
	"time"

	"verif/lib/harness"
)

// Case is the replayable form of a violation: the program, the failing order and run.
type Case struct {
	Program *Program `json:"program"`
	Order   []int    `json:"order,omitempty"`
	Mode    string   `json:"mode,omitempty"`
	Choices []choice `json:"choices,omitempty"`
	Calls   string   `json:"calls"` // human-readable construction sequence
}

// finding is one oracle failure on one (program, order[, run]).
type finding struct {
	Kind    string // "panic-escapes", "accepted-concrete-mismatch", "run-mismatch"
	Sig     string
	Order   []int
	Mode    string
	Choices []choice
	Msg     string
}

type progStats struct {
	orders, accepted, rejected int
	calls                      int64
	runs, agreed               int64
}

type evaluator struct {
	c   *harness.Ctx
	ctx context.Context
}

// repeats: eino keeps chain-branch arms in a Go map, so the order in which a chain connects the arms to the
// next stage is random per build. Such a chain is built and run 24 times (each of the two orders is then missed
// with probability 2^-24); everything else is deterministic and evaluated once.
func repeats(p *Program) int {
	if p.Container != "chain" {
		return 1
	}
	for i, s := range p.Stages {
		if s.Kind == "B" && i+1 < len(p.Stages) {
			return 24
		}
	}
	return 1
}

// evalProgramN evaluates p `n` times and merges the findings (first per signature).
func (e *evaluator) evalProgramN(p *Program, n int) ([]finding, progStats) {
	var all []finding
	var st progStats
	seen := map[string]bool{}
	for i := 0; i < n; i++ {
		fs, s := e.evalProgram(p)
		st.orders += s.orders
		st.accepted += s.accepted
		st.rejected += s.rejected
		st.calls += s.calls
		st.runs += s.runs
		st.agreed += s.agreed
		for _, f := range fs {
			if !seen[f.Sig] {
				seen[f.Sig] = true
				all = append(all, f)
			}
		}
	}
	return all, st
}

// evalProgram checks one call multiset in all of its orders. It returns the findings (first per signature).
func (e *evaluator) evalProgram(p *Program) ([]finding, progStats) {
	m := newModel(p)
	var st progStats
	var fs []finding
	seen := map[string]bool{}
	add := func(f finding) {
		if seen[f.Sig] {
			e.c.Count("violating_orders_or_runs/"+f.Sig, 1)
			return
		}
		seen[f.Sig] = true
		e.c.Count("violating_orders_or_runs/"+f.Sig, 1)
		fs = append(fs, f)
	}
	var accOrder, rejOrder []int
	pname := p.Name()
	p.forEachOrder(func(order []int) bool {
		st.orders++
		ord := append([]int(nil), order...)
		e.c.StateStr(pname + "|" + fmt.Sprint(ord))
		b := build(e.ctx, p, ord)
		st.calls += int64(b.Calls)
		if b.PanicBy != "" {
			e.c.Outcome("panic out of a construction call")
			add(finding{Kind: "panic-escapes", Sig: classify(p, m, ord, "build-panic", nil, opOf(b.PanicBy)), Order: ord,
				Msg: fmt.Sprintf("a panic escaped from %s: %s", b.PanicBy, b.PanicMsg)})
			return true
		}
		if !b.Accepted {
			st.rejected++
			if rejOrder == nil {
				rejOrder = ord
			}
			e.c.Outcome("rejected by " + opOf(b.RejectedBy))
			return true
		}
		st.accepted++
		if accOrder == nil {
			accOrder = ord
		}
		// runs
		var runNotes []string
		worst := ""
		runFinding := func(mode string, ch *chooser, ex expect, o obs) {
			st.runs++
			if ex.HasNil {
				e.c.Count("nil_interface_value_runs/"+o.Kind, 1)
				return
			}
			if ex.Ambiguous {
				e.c.Count("passthrough_handler_replaces_refused_value_runs/"+o.Kind, 1)
				return
			}
			e.c.Outcome("accepted; " + mode + " " + o.Kind)
			choices := append([]choice(nil), ch.taken...)
			switch {
			case o.Kind == "panic":
				if len(m.concreteMismatch) == 0 {
					add(finding{Kind: "panic-escapes", Sig: classify(p, m, ord, "run:"+ex.Kind+">panic", &ex, mode), Order: ord, Mode: mode, Choices: choices,
						Msg: fmt.Sprintf("%s(%s) %s (the model expected: %s)", mode, choicesString(choices), o, expectString(ex))})
				}
			case ex.Kind == "unjudged":
				// statically mismatched connection with a concrete upstream: judged by the acceptance clause below
			case ex.Kind == "ok" && o.Kind == "ok" && ex.Dyn == o.Dyn:
				st.agreed++
			case ex.Kind == "error" && o.Kind == "error":
				st.agreed++
			default:
				add(finding{Kind: "run-mismatch", Sig: classify(p, m, ord, "run:"+ex.Kind+">"+o.Kind, &ex, mode), Order: ord, Mode: mode, Choices: choices,
					Msg: fmt.Sprintf("%s(%s) %s; the model expected: %s", mode, choicesString(choices), o, expectString(ex))})
			}
			if len(m.concreteMismatch) > 0 && o.Kind != "ok" {
				rank := map[string]int{"error": 1, "panic-error": 2, "panic": 3}
				if rank[o.Kind] > rank[worst] {
					worst = o.Kind
					runNotes = []string{fmt.Sprintf("%s(%s) %s", mode, choicesString(choices), o)}
				}
			}
		}
		withNil := st.accepted == 1 // nil interface values: a statistic, taken on the first accepted order only
		for _, mode := range []string{"Invoke", "Stream"} {
			ch := &chooser{}
			for {
				ex := m.simulate(ch, withNil)
				o := b.runOnce(e.ctx, mode, ch.taken)
				runFinding(mode, ch, ex, o)
				if !ch.next() {
					break
				}
			}
		}
		if len(m.concreteMismatch) > 0 {
			msg := fmt.Sprintf("accepted although %s", m.concreteMismatch[0])
			if len(runNotes) > 0 {
				msg += "; then " + runNotes[0]
			} else {
				msg += "; no run failed"
			}
			add(finding{Kind: "accepted-concrete-mismatch", Sig: classify(p, m, ord, "accepted-concrete-mismatch", nil, ""), Order: ord, Msg: msg})
		}
		return true
	})
	if st.accepted > 0 && st.rejected > 0 {
		e.c.Count("programs_accepted_in_some_orders_rejected_in_others", 1)
		for i := range fs {
			fs[i].Msg += fmt.Sprintf(" [order differential: %d of %d orders accepted, %d rejected, e.g. rejected: %s]", st.accepted, st.orders, st.rejected, p.OrderString(rejOrder))
		}
	}
	return fs, st
}

func opOf(call string) string {
	if i := strings.Index(call, "("); i >= 0 {
		return call[:i]
	}
	return call
}

func expectString(ex expect) string {
	switch ex.Kind {
	case "ok":
		return "success with a " + ex.Dyn + " value"
	case "error":
		return "an ordinary error, because the " + ex.Why
	}
	return "nothing (" + ex.Why + ")"
}

// ---------------------------------------------------------------------------------------------------
// signatures

// typedBefore reports the declared types attached (through pass-through nodes only, using only the calls
// made before position pos of the order) to pass-through node pt.
func typedBefore(p *Program, order []int, pos int, pt string) []int {
	isPass := func(n string) bool {
		nd := p.node(n)
		return nd != nil && nd.Kind == "P"
	}
	adj := map[string][]string{}
	types := map[string][]int{}
	outT := func(n string) int { // declared type of what typed node n emits
		if n == START {
			return p.GI
		}
		return p.node(n).Out
	}
	inT := func(n string) int {
		if n == END {
			return p.GO
		}
		return p.node(n).In
	}
	link := func(a, b string) {
		pa, pb := isPass(a), isPass(b)
		switch {
		case pa && pb:
			adj[a] = append(adj[a], b)
			adj[b] = append(adj[b], a)
		case pa:
			types[a] = append(types[a], inT(b))
		case pb:
			types[b] = append(types[b], outT(a))
		}
	}
	for _, i := range order[:pos] {
		c := p.Calls[i]
		switch c.Op {
		case "E":
			link(c.A, c.B)
		case "B":
			if isPass(c.A) {
				types[c.A] = append(types[c.A], c.Cond)
			}
			for _, t := range c.Targets {
				link(c.A, t)
			}
		}
	}
	seen := map[string]bool{pt: true}
	queue := []string{pt}
	var out []int
	for len(queue) > 0 {
		n := queue[0]
		queue = queue[1:]
		out = append(out, types[n]...)
		for _, x := range adj[n] {
			if !seen[x] {
				seen[x] = true
				queue = append(queue, x)
			}
		}
	}
	return out
}

// retypePattern: the order contains an AddBranch on a pass-through node whose type had already been
// determined, by the calls made before it, to something other than the condition's input type.
func retypePattern(p *Program, order []int) bool {
	if p.Container == "chain" {
		// a chain makes the graph calls in stage order: node, edges from the previous stage, then the branch
		order = make([]int, len(p.Calls))
		for i := range order {
			order[i] = i
		}
	}
	for pos, i := range order {
		c := p.Calls[i]
		if c.Op != "B" {
			continue
		}
		nd := p.node(c.A)
		if nd == nil || nd.Kind != "P" {
			continue
		}
		for _, t := range typedBefore(p, order, pos, c.A) {
			if t >= 0 && t != c.Cond {
				return true
			}
		}
	}
	return false
}

func positionKind(p *Program, pos string) string {
	switch {
	case pos == END:
		return "end"
	case pos == START:
		return "start"
	case strings.HasPrefix(pos, "branch("):
		return "branch-condition"
	}
	if i := strings.LastIndex(pos, "."); i >= 0 {
		nd := p.node(pos[:i])
		what := "node"
		if nd != nil && nd.Kind == "P" {
			what = "passthrough"
		}
		switch pos[i+1:] {
		case "pre":
			return what + "-pre-handler"
		case "post":
			return what + "-post-handler"
		}
		return what
	}
	return pos
}

// classify names the class of a failure. Known mechanisms first (a bigger program that merely contains the
// pattern is attributed to it); otherwise a mechanical description of the failing connection.
// kind: "build-panic", "accepted-concrete-mismatch", or "run:<expected>><observed>".
func classify(p *Program, m *model, order []int, kind string, ex *expect, mode string) string {
	exp, got := "", ""
	if strings.HasPrefix(kind, "run:") {
		parts := strings.SplitN(kind[4:], ">", 2)
		exp, got = parts[0], parts[1]
	}
	plainMismatch := false
	for _, c := range m.concreteMismatch {
		if !m.widened(c) {
			plainMismatch = true
		}
	}
	handlerSource := exp == "error" && ex != nil && strings.HasPrefix(positionKind(p, ex.FailFrom), "passthrough-")
	// the re-typing mechanism shows as a panic escaping the run, or as a plain (not interface-widened) concrete
	// mismatch being accepted; other failures of programs that merely contain the pattern have other causes
	if retypePattern(p, order) && !handlerSource && (got == "panic" || (kind == "accepted-concrete-mismatch" && plainMismatch)) {
		switch {
		case kind == "accepted-concrete-mismatch":
			return "branch-retypes-inferred-passthrough"
		case exp == "error":
			return "branch-retypes-inferred-passthrough/runtime-check-lost"
		case exp == "ok":
			return "branch-retypes-inferred-passthrough/assignable-value-fails"
		case exp == "unjudged":
			return "branch-retypes-inferred-passthrough/mismatch-with-interface-type"
		}
	}
	cont := "" // the container (graph / chain) is not part of the class
	passHandler := false
	for _, n := range p.Nodes {
		if n.Kind == "P" && (n.Pre >= 0 || n.Post >= 0) {
			passHandler = true
		}
	}
	switch {
	case kind == "accepted-concrete-mismatch":
		var plain *conn
		for i, c := range m.concreteMismatch {
			if !m.widened(c) && plain == nil {
				plain = &m.concreteMismatch[i]
			}
		}
		if plain == nil {
			return "passthrough-typed-by-first-neighbour/hides-concrete-mismatch"
		}
		via := "direct"
		if plain.Via > 0 {
			via = "through-passthrough"
		}
		return cont + "accepted-concrete-mismatch/" + positionKind(p, plain.From) + "-to-" + positionKind(p, plain.To) + "/" + via
	case exp == "error":
		// a run-time check was due at ex.FailFrom -> ex.FailTo
		from := positionKind(p, ex.FailFrom)
		if strings.HasPrefix(from, "passthrough-") {
			return "passthrough-state-handler/output-unchecked"
		}
		return cont + "runtime-check-missing/" + from + "-to-" + positionKind(p, ex.FailTo) + "/got-" + got
	case exp == "ok":
		if passHandler && mode == "Stream" && got == "panic" {
			return "passthrough-state-handler/stream-panics"
		}
		if got == "error" && m.narrowed() {
			return "passthrough-typed-by-first-neighbour/refuses-assignable-value"
		}
		return cont + "assignable-value-fails/" + p.Tmpl + "/got-" + got
	case exp == "unjudged":
		return cont + "panic-escapes/static-mismatch-with-interface-type/" + p.Tmpl
	}
	return cont + "panic-escapes/construction/" + mode
}

// ---------------------------------------------------------------------------------------------------

func main() {
	c := harness.Init("C07")
	c.Res.Rule = "a case is a construction program: container (Graph any-predecessor, Graph AllPredecessor, Chain) + input/output types + multiset of Add*/Append* calls; " +
		"states = distinct (program, order of the calls); non-trivial = programs with at least one connection whose two declared types are not identical"
	c.Res.Assumptions = []string{
		"nil interface values flowing between nodes are run but not judged (statistic nil_interface_value_runs/*): the statement is about values of the wrong type",
		"acceptance that depends on the order of the calls is not by itself a violation (the statement only demands that impossible connections are rejected in every order); it is counted in programs_accepted_in_some_orders_rejected_in_others and quoted in violation messages",
		"a connection from a concrete type to an interface it does not implement is outside the both-concrete clause: accepting it is not reported, a panic escaping from it is",
		"node bodies are InvokableLambda; runs are Invoke and Stream (drained)",
	}
	c.Res.Explanation = "Universe {string,int,A,*B,I1{A,*B},I2{*B},any,map[string]any}; template families (program.go): linear START/lambda -> 0..2 pass-throughs -> END/lambda, " +
		"branches on START/lambda/pass-through with END, lambda and pass-through targets, fan-in and fan-out on a pass-through, two branches on one pass-through, state pre/post handlers of every type on " +
		"pass-throughs and lambdas; every type parameter ranges over the whole universe, except that quick narrows the third parameter of five 3-parameter families of seven calls to {X, Y, any} (or X to {string,int,A,I1,any} for the fan-out) " +
		"and leaves the nine-call family lambda -> 2 pass-throughs -> lambda and the four-parameter families to thorough. All linear extensions of 'node before the calls that mention it' (up to 272 orders per program in quick). " +
		"Oracle: (1) no panic escapes any Add*/Compile/Invoke/Stream/Recv call; (2) a connection (seen through pass-throughs) whose two declared types are concrete and unequal => some call returned an error, in every order; " +
		"(3) on a connection with an interface upstream the run returns an ordinary error iff the dynamic value is not assignable, else succeeds with the expected value; (4) covered by (2)+(3): an accepted graph never fails at a both-concrete connection."
	ev := &evaluator{c: c, ctx: context.Background()}

	if v := c.LoadReplay(); v != nil {
		var cs Case
		b, _ := json.Marshal(v.Case)
		if err := json.Unmarshal(b, &cs); err != nil || cs.Program == nil {
			fmt.Fprintln(os.Stderr, "bad case:", err)
			os.Exit(2)
		}
		err := c.Guard(v.Scenario, cs, 120*time.Second, func() error {
			fs, _ := ev.evalProgramN(cs.Program, 32) // see repeats(): a replay must not depend on Go's map iteration order
			for _, f := range fs {
				if f.Sig == v.Signature {
					return fmt.Errorf("%s: %s: %s", f.Sig, cs.Program.OrderString(f.Order), f.Msg)
				}
			}
			return nil
		})
		c.ReplayExit(v.Scenario, err)
	}

	sigSeen := map[string]bool{}
	enumerate(c.Quick(), func(p *Program) {
		if c.Res.Capped || c.TooManyViolations() {
			return
		}
		name := p.Name()
		if !c.Mine(name) {
			return
		}
		if c.TimeUp() {
			return
		}
		c.Journal(name, Case{Program: p, Calls: name})
		var fs []finding
		var st progStats
		t0 := time.Now()
		err := c.Guard(name, Case{Program: p, Calls: name}, 120*time.Second, func() error {
			fs, st = ev.evalProgramN(p, repeats(p))
			return nil
		})
		if err != nil { // a panic inside the harness itself (every API call is guarded separately)
			c.Infra(fmt.Sprintf("%s: harness panic: %v", name, err))
			return
		}
		c.Res.Evaluations += int64(st.orders) + st.runs
		c.Res.Transitions += st.calls
		c.Res.Validated += st.agreed
		c.Count("orders_built", int64(st.orders))
		c.Count("orders_accepted", int64(st.accepted))
		c.Count("orders_rejected", int64(st.rejected))
		c.Count("runs", st.runs)
		c.Count("programs/"+p.Container, 1)
		c.Count("tmpl_orders/"+p.Tmpl, int64(st.orders))
		c.Count("tmpl_runs/"+p.Tmpl, st.runs)
		c.Count("tmpl_programs/"+p.Tmpl, 1)
		c.Count("tmpl_ms/"+p.Tmpl, time.Since(t0).Milliseconds())
		m := newModel(p)
		if p.nontrivial(m) {
			c.Res.Nontrivial++
		}
		if len(fs) == 0 {
			c.Sample(map[string]any{"program": name, "orders": st.orders, "accepted": st.accepted, "runs": st.runs})
			return
		}
		sort.SliceStable(fs, func(i, j int) bool { return fs[i].Sig < fs[j].Sig })
		for _, f := range fs {
			c.Count("violating_programs/"+f.Sig, 1)
			if sigSeen[f.Sig] {
				continue // programs come simplest first: keep the first (smallest) of each class per worker
			}
			sigSeen[f.Sig] = true
			calls := p.OrderString(f.Order)
			c.Violate(harness.Violation{
				Scenario:  name,
				Signature: f.Sig,
				Case:      Case{Program: p, Order: f.Order, Mode: f.Mode, Choices: f.Choices, Calls: calls},
				Msg:       calls + " => " + f.Msg,
			})
		}
	})
	c.Finish()
}
