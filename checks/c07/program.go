package main

// Programs (construction sequences), the template families that enumerate them, and the enumeration of
// every order of the Add* calls.

import (
	"fmt"
	"strings"
)

const (
	START = "start"
	END   = "end"
)

// Node is a node of a program. Kind "L" = typed lambda, "P" = pass-through.
type Node struct {
	Name string `json:"name"`
	Kind string `json:"kind"`
	In   int    `json:"in"`
	Out  int    `json:"out"`
	Pre  int    `json:"pre"`  // type of the state pre-handler, -1 = none
	Post int    `json:"post"` // type of the state post-handler, -1 = none
	// Keyed: the node is a lambda [any > string] added with WithInputKey("k") and WithOutputKey("o"): towards the
	// graph it takes and returns map[string]any (In = Out = map in the model)
	Keyed bool `json:"keyed,omitempty"`
}

// Call is one Add* call. Op "N" = add node A; "E" = AddEdge(A, B); "B" = AddBranch(A, cond[Cond], Targets).
type Call struct {
	Op      string   `json:"op"`
	A       string   `json:"a"`
	B       string   `json:"b,omitempty"`
	Cond    int      `json:"cond,omitempty"`
	Targets []string `json:"targets,omitempty"`
}

// Stage is one Append* call of a chain program.
type Stage struct {
	Kind string  `json:"kind"` // "P", "L", "B"
	Node *Node   `json:"node,omitempty"`
	Cond int     `json:"cond,omitempty"`
	Arms []*Node `json:"arms,omitempty"`
}

// Program is one construction: a container, its input/output types and the multiset of calls. For
// Container "chain" the calls made are the Stages (in that order); Nodes/Calls then describe the graph the
// chain stands for (used by the reference model only).
type Program struct {
	Tmpl      string  `json:"tmpl"`
	Container string  `json:"container"` // "graph" (any-predecessor), "graphAll" (all-predecessor), "chain"
	GI        int     `json:"gi"`
	GO        int     `json:"go"`
	State     bool    `json:"state"`
	Nodes     []Node  `json:"nodes"`
	Calls     []Call  `json:"calls"`
	Stages    []Stage `json:"stages,omitempty"`
}

func (n Node) String() string {
	s := n.Name
	if n.Keyed {
		s += "[any>string,inputKey+outputKey]"
	} else if n.Kind == "L" {
		s += "[" + typeName[n.In] + ">" + typeName[n.Out] + "]"
	} else {
		s += "[pass]"
	}
	if n.Pre >= 0 {
		s += "pre:" + typeName[n.Pre]
	}
	if n.Post >= 0 {
		s += "post:" + typeName[n.Post]
	}
	return s
}

func (p *Program) node(name string) *Node {
	for i := range p.Nodes {
		if p.Nodes[i].Name == name {
			return &p.Nodes[i]
		}
	}
	return nil
}

func (p *Program) callString(c Call) string {
	switch c.Op {
	case "N":
		n := p.node(c.A)
		if n.Kind == "L" {
			return "AddLambdaNode(" + n.String() + ")"
		}
		return "AddPassthroughNode(" + n.String() + ")"
	case "E":
		return "AddEdge(" + c.A + "," + c.B + ")"
	}
	return "AddBranch(" + c.A + ",cond[" + typeName[c.Cond] + "]->{" + strings.Join(c.Targets, ",") + "})"
}

func (p *Program) stageString(s Stage) string {
	switch s.Kind {
	case "P":
		return "AppendPassthrough(" + s.Node.String() + ")"
	case "L":
		return "AppendLambda(" + s.Node.String() + ")"
	}
	var arms []string
	for _, a := range s.Arms {
		arms = append(arms, a.String())
	}
	return "AppendBranch(cond[" + typeName[s.Cond] + "]->{" + strings.Join(arms, ",") + "})"
}

func (p *Program) header() string {
	h := map[string]string{"graph": "NewGraph", "graphAll": "NewGraph/AllPredecessor", "chain": "NewChain"}[p.Container]
	s := fmt.Sprintf("%s[%s,%s]", h, typeName[p.GI], typeName[p.GO])
	if p.State {
		s += "+state"
	}
	return s
}

// OrderString renders the calls in the given order (indices into Calls); chains ignore order.
func (p *Program) OrderString(order []int) string {
	var parts []string
	if p.Container == "chain" {
		for _, s := range p.Stages {
			parts = append(parts, p.stageString(s))
		}
	} else {
		for _, i := range order {
			parts = append(parts, p.callString(p.Calls[i]))
		}
	}
	return p.header() + ": " + strings.Join(parts, "; ") + "; Compile"
}

// Name is the canonical name of the call multiset.
func (p *Program) Name() string {
	n := len(p.Calls)
	if p.Container == "chain" {
		n = len(p.Stages)
	}
	id := make([]int, len(p.Calls))
	for i := range id {
		id[i] = i
	}
	return fmt.Sprintf("%02d/%s/%s", n, p.Tmpl, p.OrderString(id))
}

func (p *Program) nCalls() int {
	if p.Container == "chain" {
		return len(p.Stages)
	}
	return len(p.Calls)
}

// nontrivial: at least one connection whose two declared types differ.
func (p *Program) nontrivial(m *model) bool {
	for _, c := range m.conns {
		if c.X != c.Y {
			return true
		}
	}
	return false
}

// ---------------------------------------------------------------------------------------------------
// orders

// forEachOrder enumerates every permutation of the calls in which a node is added before every call that
// mentions it (all linear extensions), in lexicographic order of call indices. f returns false to stop.
func (p *Program) forEachOrder(f func(order []int) bool) {
	n := len(p.Calls)
	if p.Container == "chain" {
		f(nil)
		return
	}
	// deps[i] = indices of the node-add calls that call i needs
	addIdx := map[string]int{}
	for i, c := range p.Calls {
		if c.Op == "N" {
			addIdx[c.A] = i
		}
	}
	deps := make([][]int, n)
	for i, c := range p.Calls {
		var names []string
		switch c.Op {
		case "E":
			names = []string{c.A, c.B}
		case "B":
			names = append([]string{c.A}, c.Targets...)
		}
		for _, nm := range names {
			if j, ok := addIdx[nm]; ok {
				deps[i] = append(deps[i], j)
			}
		}
	}
	used := make([]bool, n)
	order := make([]int, 0, n)
	stop := false
	var rec func()
	rec = func() {
		if stop {
			return
		}
		if len(order) == n {
			if !f(order) {
				stop = true
			}
			return
		}
		for i := 0; i < n; i++ {
			if used[i] {
				continue
			}
			ok := true
			for _, d := range deps[i] {
				if !used[d] {
					ok = false
					break
				}
			}
			if !ok {
				continue
			}
			used[i] = true
			order = append(order, i)
			rec()
			order = order[:len(order)-1]
			used[i] = false
			if stop {
				return
			}
		}
	}
	rec()
}

// ---------------------------------------------------------------------------------------------------
// stage programs -> graph form

func lam(name string, in, out int) *Node {
	return &Node{Name: name, Kind: "L", In: in, Out: out, Pre: -1, Post: -1}
}
func pass(name string) *Node { return &Node{Name: name, Kind: "P", Pre: -1, Post: -1} }
func keyed(name string) *Node {
	return &Node{Name: name, Kind: "L", In: tMap, Out: tMap, Pre: -1, Post: -1, Keyed: true}
}

func sP(n *Node) Stage                 { return Stage{Kind: "P", Node: n} }
func sL(n *Node) Stage                 { return Stage{Kind: "L", Node: n} }
func sB(cond int, arms ...*Node) Stage { return Stage{Kind: "B", Cond: cond, Arms: arms} }
func withPre(n *Node, t int) *Node     { n.Pre = t; return n }
func withPost(n *Node, t int) *Node    { n.Post = t; return n }
func passes(k int, first int) (st []Stage) { // k pass-through stages named p<first>..
	for i := 0; i < k; i++ {
		st = append(st, sP(pass(fmt.Sprintf("p%d", first+i))))
	}
	return
}

// fromStages builds the programs (graph in both trigger modes, and chain when asked) of a stage sequence.
// Graph call order (canonical): all node additions in stage order, then edges/branches in stage order.
func fromStages(tmpl string, gi, gO int, stages []Stage, chain bool) []*Program {
	var nodes []Node
	var adds, links []Call
	state := false
	prev := []string{START}
	for _, s := range stages {
		switch s.Kind {
		case "P", "L":
			nodes = append(nodes, *s.Node)
			adds = append(adds, Call{Op: "N", A: s.Node.Name})
			for _, pv := range prev {
				links = append(links, Call{Op: "E", A: pv, B: s.Node.Name})
			}
			prev = []string{s.Node.Name}
			if s.Node.Pre >= 0 || s.Node.Post >= 0 {
				state = true
			}
		case "B":
			if len(prev) != 1 {
				panic("template: branch after branch")
			}
			var tg []string
			for _, a := range s.Arms {
				nodes = append(nodes, *a)
				adds = append(adds, Call{Op: "N", A: a.Name})
				tg = append(tg, a.Name)
				if a.Pre >= 0 || a.Post >= 0 {
					state = true
				}
			}
			links = append(links, Call{Op: "B", A: prev[0], Cond: s.Cond, Targets: tg})
			prev = tg
		}
	}
	for _, pv := range prev {
		links = append(links, Call{Op: "E", A: pv, B: END})
	}
	calls := append(adds, links...)
	var out []*Program
	for _, cont := range []string{"graph", "graphAll", "chain"} {
		if cont == "chain" && (!chain || len(stages) == 0) {
			continue
		}
		pr := &Program{Tmpl: tmpl, Container: cont, GI: gi, GO: gO, State: state, Nodes: nodes, Calls: calls}
		if cont == "chain" {
			pr.Stages = stages
		}
		out = append(out, pr)
	}
	return out
}

// fromCalls builds graph-only programs (both trigger modes).
func fromCalls(tmpl string, gi, gO int, nodes []*Node, links []Call) []*Program {
	var ns []Node
	var calls []Call
	state := false
	for _, n := range nodes {
		ns = append(ns, *n)
		calls = append(calls, Call{Op: "N", A: n.Name})
		if n.Pre >= 0 || n.Post >= 0 {
			state = true
		}
	}
	calls = append(calls, links...)
	var out []*Program
	for _, cont := range []string{"graph", "graphAll"} {
		out = append(out, &Program{Tmpl: tmpl, Container: cont, GI: gi, GO: gO, State: state, Nodes: ns, Calls: calls})
	}
	return out
}

func edge(a, b string) Call { return Call{Op: "E", A: a, B: b} }
func branch(a string, cond int, targets ...string) Call {
	return Call{Op: "B", A: a, Cond: cond, Targets: targets}
}

// ---------------------------------------------------------------------------------------------------
// template families

// universe of a type parameter in a tier
func allTypes() []int { return []int{tString, tInt, tA, tPB, tI1, tI2, tAny, tMap, tNMap} }

// small universe: two concretes, one implementing struct, both interfaces' representatives
func fewTypes() []int { return []int{tString, tInt, tA, tI1, tAny} }

func cat(a []Stage, b ...Stage) []Stage { return append(append([]Stage{}, a...), b...) }

// enumerate yields every program of the tier, simplest first.
func enumerate(quick bool, yield func(p *Program)) {
	U := allTypes()
	emit := func(ps []*Program) {
		for _, p := range ps {
			yield(p)
		}
	}
	// T1  START(X) -> pass^k -> END(Y)
	for k := 0; k <= 2; k++ {
		for _, x := range U {
			for _, y := range U {
				emit(fromStages(fmt.Sprintf("lin-pass%d", k), x, y, passes(k, 1), true))
			}
		}
	}
	// T2  START(string) -> a[string>X] -> pass^k -> END(Y)          (typed upstream node, may carry dynamic values)
	for k := 0; k <= 2; k++ {
		for _, x := range U {
			for _, y := range U {
				emit(fromStages(fmt.Sprintf("src-lambda-pass%d", k), tString, y, cat([]Stage{sL(lam("a", tString, x))}, passes(k, 1)...), true))
			}
		}
	}
	// T3  START(X) -> pass^k -> b[Y>string] -> END(any)             (typed downstream node)
	for k := 0; k <= 2; k++ {
		for _, x := range U {
			for _, y := range U {
				emit(fromStages(fmt.Sprintf("pass%d-sink-lambda", k), x, tAny, cat(passes(k, 1), sL(lam("b", y, tString))), true))
			}
		}
	}
	// T4  START(string) -> a[string>X] -> pass^k -> b[Y>string] -> END(any)      (k = 2: nine calls, thorough only)
	for k := 0; k <= 2; k++ {
		if quick && k == 2 {
			continue
		}
		for _, x := range U {
			for _, y := range U {
				st := cat([]Stage{sL(lam("a", tString, x))}, passes(k, 1)...)
				st = cat(st, sL(lam("b", y, tString)))
				emit(fromStages(fmt.Sprintf("lambda-pass%d-lambda", k), tString, tAny, st, true))
			}
		}
	}
	// G3  START(X) -> pass^k -> branch cond[Y] -> {b[T>string], END}; b -> END(any)      (graph only: END as a branch target)
	for k := 0; k <= 2; k++ {
		for _, x := range U {
			for _, y := range U {
				for _, t := range U {
					if k == 2 && quick && !(t == x || t == y || t == tAny) {
						continue
					}
					var nodes []*Node
					var links []Call
					prev := START
					for i := 1; i <= k; i++ {
						nm := fmt.Sprintf("p%d", i)
						nodes = append(nodes, pass(nm))
						links = append(links, edge(prev, nm))
						prev = nm
					}
					nodes = append(nodes, lam("b", t, tString))
					links = append(links, branch(prev, y, "b", END), edge("b", END))
					emit(fromCalls(fmt.Sprintf("pass%d-branch-end", k), x, tAny, nodes, links))
				}
			}
		}
	}
	// T6  START(X) -> pass^k -> branch cond[Y] -> {b[T>string], p9 pass} -> END(any)    (branch arms: typed node and pass-through)
	for k := 0; k <= 1; k++ {
		for _, x := range U {
			for _, y := range U {
				for _, t := range U {
					if k == 1 && quick && !(t == x || t == y || t == tAny) {
						continue
					}
					st := cat(passes(k, 1), sB(y, lam("b", t, tString), pass("p9")))
					emit(fromStages(fmt.Sprintf("pass%d-branch-arms", k), x, tAny, st, true))
				}
			}
		}
	}
	// T7  START(string) -> a[string>X] -> branch cond[Y] -> {b[T>string], c[T>string] | END} -> END(any)       (branch on a typed node)
	for _, x := range U {
		for _, y := range U {
			for _, t := range U {
				// graph: targets {b, END} (five calls); chain: two typed arms
				emit(fromCalls("lambda-branch-end", tString, tAny, []*Node{lam("a", tString, x), lam("b", t, tString)},
					[]Call{edge(START, "a"), branch("a", y, "b", END), edge("b", END)}))
				st := []Stage{sL(lam("a", tString, x)), sB(y, lam("b", t, tString), lam("c", t, tString))}
				for _, p := range fromStages("lambda-branch", tString, tAny, st, true) {
					if p.Container == "chain" || !quick {
						yield(p)
					}
				}
			}
		}
	}
	// T7b START(string) -> a[string>X] -> p1 -> branch cond[Y] -> {b[T>string], END}; b -> END(any)       (graph only)
	for _, x := range U {
		for _, y := range U {
			for _, t := range U {
				if quick && !(t == x || t == y || t == tAny) {
					continue
				}
				emit(fromCalls("lambda-pass1-branch-end", tString, tAny, []*Node{lam("a", tString, x), pass("p1"), lam("b", t, tString)},
					[]Call{edge(START, "a"), edge("a", "p1"), branch("p1", y, "b", END), edge("b", END)}))
			}
		}
	}
	// T8  START(string) -> branch cond[string] -> {a[string>X1], b[string>X2]} -> p1 pass -> END(Y)   (fan-in on a pass-through)
	for _, x1 := range U {
		for _, x2 := range U {
			if x2 < x1 {
				continue // the two arms are interchangeable: (X1,X2) and (X2,X1) are the same program up to node names
			}
			for _, y := range U {
				st := []Stage{sB(tString, lam("a", tString, x1), lam("b", tString, x2)), sP(pass("p1"))}
				emit(fromStages("branch-fanin-pass", tString, y, st, true))
			}
		}
	}
	// T9  START(X) -> branch cond[Y] -> {p1 pass, p2 pass} -> b[T>string] -> END(any)    (pass-through branch targets)
	for _, x := range U {
		for _, y := range U {
			for _, t := range U {
				if quick && !(t == x || t == y || t == tAny) {
					continue
				}
				st := []Stage{sB(y, pass("p1"), pass("p2")), sL(lam("b", t, tString))}
				emit(fromStages("branch-pass-arms", x, tAny, st, true))
			}
		}
	}
	// T10 state handlers on a pass-through: START(X) -> p1[pre|post H] -> END(Y)
	for _, post := range []bool{false, true} {
		for _, x := range U {
			for _, y := range U {
				for _, h := range U {
					n := pass("p1")
					nm := "pass-prehandler"
					if post {
						withPost(n, h)
						nm = "pass-posthandler"
					} else {
						withPre(n, h)
					}
					emit(fromStages(nm, x, y, []Stage{sP(n)}, true))
				}
			}
		}
	}
	// T11 state handlers on a typed node: START(X) -> b[Y>Y pre|post H] -> END(Y)
	for _, post := range []bool{false, true} {
		for _, x := range U {
			for _, y := range U {
				for _, h := range U {
					n := lam("b", y, y)
					nm := "lambda-prehandler"
					if post {
						withPost(n, h)
						nm = "lambda-posthandler"
					} else {
						withPre(n, h)
					}
					emit(fromStages(nm, x, y, []Stage{sL(n)}, true))
				}
			}
		}
	}
	// T12 handler on a pass-through that feeds a branch: START(X) -> p1[pre any | post any] -> branch cond[Y] -> {b[any>string], END}
	for _, post := range []bool{false, true} {
		for _, x := range U {
			for _, y := range U {
				n := pass("p1")
				nm := "pass-prehandler-branch"
				if post {
					withPost(n, tAny)
					nm = "pass-posthandler-branch"
				} else {
					withPre(n, tAny)
				}
				emit(fromCalls(nm, x, tAny, []*Node{n, lam("b", tAny, tString)},
					[]Call{edge(START, "p1"), branch("p1", y, "b", END), edge("b", END)}))
			}
		}
	}
	// G1  fan-out from a pass-through: START(X) -> p1 -> {b[Y1>map], c[Y2>map]}; b -> END(map)   (c is a dead end: its output is dropped)
	for _, x := range U {
		if quick && (x == tPB || x == tI2 || x == tMap) {
			continue // quick: X over {string,int,A,I1,any}
		}
		for _, y1 := range U {
			for _, y2 := range U {
				emit(fromCalls("pass-fanout", x, tMap, []*Node{pass("p1"), lam("b", y1, tMap), lam("c", y2, tMap)},
					[]Call{edge(START, "p1"), edge("p1", "b"), edge("p1", "c"), edge("b", END)}))
			}
		}
	}
	// G2  two branches on one pass-through: START(X) -> p1; branch cond[Y1] -> {b,END}; branch cond[Y2] -> {b,END}; b[any>string] -> END(any)
	for _, x := range U {
		for _, y1 := range U {
			for _, y2 := range U {
				// any-predecessor mode only: with AllPredecessor END would wait for b and merge two non-map values
				emit(fromCalls("pass-two-branches", x, tAny, []*Node{pass("p1"), lam("b", tAny, tString)},
					[]Call{edge(START, "p1"), branch("p1", y1, "b", END), branch("p1", y2, "b", END), edge("b", END)})[:1])
			}
		}
	}
	// G4  a pass-through reached from START directly and through a detour: START(X) -> branch cond[X] -> {p1 pass, a[X>Y]};
	//     a -> p1; p1 -> b[T>string] -> END(any). Depending on the call order p1 is typed from START (graph input type,
	//     which differs from the graph's output type), from a's output or from b's input; the other edges are checked
	//     against that type, at build time or - where an interface type is involved - at run time.
	for _, x := range U {
		for _, y := range U {
			for _, t := range U {
				if quick && !(t == x || t == y || t == tAny) {
					continue
				}
				emit(fromCalls("start-and-detour-into-pass", x, tAny, []*Node{pass("p1"), lam("a", x, y), lam("b", t, tString)},
					[]Call{branch(START, x, "p1", "a"), edge("a", "p1"), edge("p1", "b"), edge("b", END)})[:1])
			}
		}
	}
	// G5  a node with an input key AND an output key (map towards the graph, any > string inside) next to an
	//     interface-typed detour, both into a pass-through: START(map) -> branch cond[map] -> {k keyed, x[map>Y]};
	//     k -> p1; x -> p1; p1 -> s[T>string] -> END(any)
	for _, y := range U {
		for _, t := range U {
			if quick && !((t == tMap || t == tAny) && (y == tAny || y == tMap || y == tString)) {
				continue
			}
			emit(fromCalls("keyed-and-detour-into-pass", tMap, tAny, []*Node{keyed("k"), pass("p1"), lam("x", tMap, y), lam("s", t, tString)},
				[]Call{branch(START, tMap, "k", "x"), edge("k", "p1"), edge("x", "p1"), edge("p1", "s"), edge("s", END)})[:1])
		}
	}
	// G6  a producer of declared type X (concrete, interface, the defined map type) directly, and through a pass-through,
	//     into a node with an input key AND an output key: START(string) -> k[string>X] (-> p1) -> n keyed -> s[T>string] -> END(any).
	//     The run-time check on an interface-typed edge into n is against map[string]any (what n takes from the graph),
	//     not against the type of the lambda inside it.
	for _, x := range U {
		for _, t := range U {
			if quick && !(t == tMap || t == tAny || t == tString) {
				continue
			}
			emit(fromCalls("into-keyed", tString, tAny, []*Node{lam("k", tString, x), keyed("n"), lam("s", t, tString)},
				[]Call{edge(START, "k"), edge("k", "n"), edge("n", "s"), edge("s", END)})[:1])
			if quick && t != tMap {
				continue
			}
			emit(fromCalls("pass-into-keyed", tString, tAny, []*Node{lam("k", tString, x), pass("p1"), keyed("n"), lam("s", t, tString)},
				[]Call{edge(START, "k"), edge("k", "p1"), edge("p1", "n"), edge("n", "s"), edge("s", END)})[:1])
		}
	}
	if quick {
		return
	}
	// thorough: the four-parameter family START(X) -> p1 -> b[Y>Z] -> p2 -> END(W), and the branch families at full width
	for _, x := range U {
		for _, y := range U {
			for _, z := range U {
				for _, w := range U {
					st := []Stage{sP(pass("p1")), sL(lam("b", y, z)), sP(pass("p2"))}
					emit(fromStages("pass-lambda-pass", x, w, st, true))
				}
			}
		}
	}
	// three typed nodes and two pass-throughs: START(string) -> a[string>X] -> p1 -> b[Y>Z] -> p2 -> c[W>string] -> END(any)
	F := fewTypes()
	for _, x := range F {
		for _, y := range F {
			for _, z := range F {
				for _, w := range F {
					st := []Stage{sL(lam("a", tString, x)), sP(pass("p1")), sL(lam("b", y, z)), sP(pass("p2")), sL(lam("c", w, tString))}
					for _, p := range fromStages("3lambda-2pass", tString, tAny, st, true) {
						if p.Container == "chain" { // graph orders of 11 calls are out of reach; the chain makes the same calls in stage order
							yield(p)
						}
					}
				}
			}
		}
	}
}
