package main

// Reference model: the connections of a program (pairs of declared types that a value crosses, seen through
// pass-through nodes) with their static class, and the expected result of a run for given environment
// choices (dynamic values of interface-typed positions, branch decisions).

import (
	"fmt"
	"sort"
)

// station is a typed position inside a node: a state pre-handler, the node body, a state post-handler.
// A value entering a station must fit In; the value leaving it is declared Out.
type station struct {
	Kind string // "pre", "body", "post"
	In   int
	Out  int
}

type mBranch struct {
	Cond    int
	Targets []string
	Idx     int // index of the call in Program.Calls
}

// conn is one connection: a value declared X (at From) reaches a position declared Y (at To), possibly
// through pass-through nodes.
type conn struct {
	X, Y     int
	From, To string
	Via      int      // number of pass-through nodes crossed
	Path     []string // the pass-through nodes crossed
	Class    int
}

func (c conn) String() string {
	return fmt.Sprintf("%s(%s) -> %s(%s) via %d pass-through: %s", c.From, typeName[c.X], c.To, typeName[c.Y], c.Via, className[c.Class])
}

type model struct {
	p        *Program
	stations map[string][]station
	succ     map[string][]string // data edges added with AddEdge
	branches map[string][]mBranch
	conns    []conn
	// concreteMismatch: connections whose two declared types are both concrete and unequal
	concreteMismatch []conn
}

func newModel(p *Program) *model {
	m := &model{p: p, stations: map[string][]station{}, succ: map[string][]string{}, branches: map[string][]mBranch{}}
	for _, n := range p.Nodes {
		var st []station
		if n.Pre >= 0 {
			st = append(st, station{"pre", n.Pre, n.Pre})
		}
		if n.Kind == "L" {
			st = append(st, station{"body", n.In, n.Out})
		}
		if n.Post >= 0 {
			st = append(st, station{"post", n.Post, n.Post})
		}
		m.stations[n.Name] = st
	}
	for i, c := range p.Calls {
		switch c.Op {
		case "E":
			m.succ[c.A] = append(m.succ[c.A], c.B)
		case "B":
			m.branches[c.A] = append(m.branches[c.A], mBranch{Cond: c.Cond, Targets: c.Targets, Idx: i})
		}
	}
	// connections
	var walk func(node string, st int, x int, from string, path []string, depth int)
	add := func(x, y int, from, to string, path []string) {
		c := conn{X: x, Y: y, From: from, To: to, Via: len(path), Path: append([]string(nil), path...), Class: assign(x, y)}
		m.conns = append(m.conns, c)
		if !isIface(x) && !isIface(y) && x != y {
			m.concreteMismatch = append(m.concreteMismatch, c)
		}
	}
	walk = func(node string, st int, x int, from string, path []string, depth int) {
		if depth > 12 {
			return
		}
		if node == END {
			add(x, p.GO, from, END, path)
			return
		}
		sts := m.stations[node]
		if st < len(sts) {
			add(x, sts[st].In, from, node+"."+sts[st].Kind, path)
			return
		}
		if node != START && len(sts) == 0 {
			path = append(append([]string(nil), path...), node)
		}
		for _, b := range m.branches[node] {
			add(x, b.Cond, from, fmt.Sprintf("branch(%s).cond", node), path)
			for _, t := range b.Targets {
				walk(t, 0, x, from, path, depth+1)
			}
		}
		for _, s := range m.succ[node] {
			walk(s, 0, x, from, path, depth+1)
		}
	}
	walk(START, 0, p.GI, START, nil, 0)
	for _, n := range p.Nodes {
		for i, s := range m.stations[n.Name] {
			walk(n.Name, i+1, s.Out, n.Name+"."+s.Kind, nil, 0)
		}
	}
	return m
}

// attached returns the declared types of every typed position directly attached to pass-through node q
// (outputs of its typed predecessors, inputs of its typed successors, conditions of the branches on it).
func (m *model) attached(q string) []int {
	p := m.p
	pure := func(n string) bool { return n != START && n != END && len(m.stations[n]) == 0 }
	outT := func(n string) int {
		if n == START {
			return p.GI
		}
		st := m.stations[n]
		return st[len(st)-1].Out
	}
	inT := func(n string) int {
		if n == END {
			return p.GO
		}
		return m.stations[n][0].In
	}
	var ts []int
	for _, c := range p.Calls {
		switch c.Op {
		case "E":
			if c.B == q && !pure(c.A) {
				ts = append(ts, outT(c.A))
			}
			if c.A == q && !pure(c.B) {
				ts = append(ts, inT(c.B))
			}
		case "B":
			if c.A == q {
				ts = append(ts, c.Cond)
			}
			for _, t := range c.Targets {
				if t == q && !pure(c.A) {
					ts = append(ts, outT(c.A))
				}
				if c.A == q && !pure(t) {
					ts = append(ts, inT(t))
				}
			}
		}
	}
	return ts
}

// widened: connection c (both ends concrete, unequal) crosses a pass-through that also has an interface-typed
// neighbour W with X assignable to W and W possibly assignable to Y: typing the pass-through as W hides the mismatch.
func (m *model) widened(c conn) bool {
	for _, q := range c.Path {
		for _, w := range m.attached(q) {
			if isIface(w) && assign(c.X, w) != never && assign(w, c.Y) != never {
				return true
			}
		}
	}
	return false
}

// narrowed: some possible connection X -> Y crosses a pass-through that has another typed neighbour W which
// refuses a value that fits both X and Y: typing the pass-through as W refuses an assignable value.
func (m *model) narrowed() bool {
	for _, c := range m.conns {
		if c.Class == never {
			continue
		}
		for _, q := range c.Path {
			for _, w := range m.attached(q) {
				for _, d := range fitting(c.X) {
					if fits(d, c.Y) && !fits(d, w) {
						return true
					}
				}
			}
		}
	}
	return false
}

// ---------------------------------------------------------------------------------------------------
// runs

// choice is one environment answer requested by the model while it simulates a run.
type choice struct {
	Key string `json:"key"` // "in", "out:<node>", "pre:<node>", "post:<node>", "br:<call index>"
	Dyn int    `json:"dyn"` // dynamic type chosen (dynNil = nil interface); handlers: -2 = handler returns its input
	Tgt string `json:"tgt,omitempty"`
}

const dynSame = -2

type expect struct {
	Kind     string // "ok", "error", "unjudged"
	Dyn      string // ok: dynamic type of the result
	Why      string // error: the connection at which the run-time check must fail; unjudged: reason
	FailFrom string // error: position that produced the value ("start", "<node>.body", "<node>.pre", "<node>.post")
	FailTo   string // error: position that must refuse it
	HasNil   bool
	// Ambiguous: the run is not judged at all (not even for panics)
	Ambiguous bool
}

// chooser drives a depth-first enumeration of all choice sequences.
type chooser struct {
	script []int // indices chosen so far (prefix to replay)
	pos    int
	arity  []int
	taken  []choice
}

func (c *chooser) pick(n int) int {
	i := 0
	if c.pos < len(c.script) {
		i = c.script[c.pos]
	} else {
		c.script = append(c.script, 0)
	}
	if c.pos < len(c.arity) {
		c.arity[c.pos] = n
	} else {
		c.arity = append(c.arity, n)
	}
	c.pos++
	return i
}

// next advances the script to the next sequence in depth-first order; false when exhausted.
func (c *chooser) next() bool {
	c.script = c.script[:c.pos]
	c.arity = c.arity[:c.pos]
	for len(c.script) > 0 {
		l := len(c.script) - 1
		if c.script[l]+1 < c.arity[l] {
			c.script[l]++
			c.pos = 0
			c.taken = nil
			return true
		}
		c.script = c.script[:l]
		c.arity = c.arity[:l]
	}
	return false
}

type token struct {
	v   int // dynamic type of the value
	src int // declared type of the position that produced it
	at  string
}

// simulate runs the model once; choices are requested from ch (withNil: nil is offered at interface positions).
func (m *model) simulate(ch *chooser, withNil bool) expect {
	p := m.p
	hasNil := false
	choose := func(key string, t int, handler bool) int {
		var opts []int
		if handler {
			opts = append(opts, dynSame)
			if isIface(t) {
				opts = append(opts, fitting(t)...)
			}
		} else {
			opts = append(opts, fitting(t)...)
		}
		if withNil && isIface(t) {
			opts = append(opts, dynNil)
		}
		i := ch.pick(len(opts))
		ch.taken = append(ch.taken, choice{Key: key, Dyn: opts[i]})
		if opts[i] == dynNil {
			hasNil = true
		}
		return opts[i]
	}
	// check: does token t pass a position declared y
	var failWhy, failFrom, failTo string
	unjudged := ""
	ambiguous := false
	check := func(t token, y int, to string) bool {
		if assign(t.src, y) == must {
			return true
		}
		if isIface(t.src) {
			if fits(t.v, y) {
				return true
			}
			failWhy = fmt.Sprintf("%s value declared %s at %s is not assignable to %s(%s)", typeName[t.v], typeName[t.src], t.at, to, typeName[y])
			failFrom, failTo = t.at, to
			return false
		}
		unjudged = fmt.Sprintf("statically mismatched connection %s(%s) -> %s(%s)", t.at, typeName[t.src], to, typeName[y])
		return false
	}
	active := map[string]token{START: {v: choose("in", p.GI, false), src: p.GI, at: START}}
	if hasNil {
		return expect{Kind: "unjudged", Why: "nil interface value", HasNil: true}
	}
	for step := 0; step < 12; step++ {
		next := map[string]token{}
		var endVals []token
		names := make([]string, 0, len(active))
		for n := range active {
			names = append(names, n)
		}
		sort.Strings(names)
		deliver := func(to string, t token) bool {
			if to == END {
				if !check(t, p.GO, END) {
					return false
				}
				endVals = append(endVals, t)
				return true
			}
			next[to] = t
			return true
		}
		runNode := func(n string) bool {
			t := active[n]
			for _, s := range m.stations[n] {
				if !check(t, s.In, n+"."+s.Kind) {
					return false
				}
				switch s.Kind {
				case "body":
					t = token{v: choose("out:"+n, s.Out, false), src: s.Out, at: n + ".body"}
				default:
					d := choose(s.Kind+":"+n, s.Out, true)
					if d == dynSame {
						d = t.v
					}
					if d != t.v && d != dynNil && p.node(n).Kind == "P" {
						// A handler on a pass-through that changes the dynamic type: the statement does not say whether the
						// value is checked before or after the handler. Judged only if the incoming value passes either way.
						for _, c := range m.conns {
							if c.From == n+"."+s.Kind && !fits(t.v, c.Y) {
								ambiguous = true
							}
						}
					}
					t = token{v: d, src: s.Out, at: n + "." + s.Kind}
				}
				if hasNil {
					return false
				}
			}
			for _, b := range m.branches[n] {
				if !check(t, b.Cond, fmt.Sprintf("branch(%s).cond", n)) {
					return false
				}
				i := ch.pick(len(b.Targets))
				ch.taken = append(ch.taken, choice{Key: fmt.Sprintf("br:%d", b.Idx), Tgt: b.Targets[i]})
				if !deliver(b.Targets[i], t) {
					return false
				}
			}
			for _, s := range m.succ[n] {
				if !deliver(s, t) {
					return false
				}
			}
			return true
		}
		for _, n := range names {
			if !runNode(n) {
				if hasNil {
					return expect{Kind: "unjudged", Why: "nil interface value", HasNil: true}
				}
				if ambiguous {
					return expect{Kind: "unjudged", Why: "a pass-through state handler replaced a value that its downstream refuses", Ambiguous: true}
				}
				if unjudged != "" {
					return expect{Kind: "unjudged", Why: unjudged}
				}
				return expect{Kind: "error", Why: failWhy, FailFrom: failFrom, FailTo: failTo}
			}
		}
		if ambiguous {
			return expect{Kind: "unjudged", Why: "a pass-through state handler replaced a value that its downstream refuses", Ambiguous: true}
		}
		if len(endVals) > 0 {
			return expect{Kind: "ok", Dyn: typeName[endVals[0].v]}
		}
		if len(next) == 0 {
			return expect{Kind: "unjudged", Why: "model: no active node"}
		}
		active = next
	}
	return expect{Kind: "unjudged", Why: "model: step bound"}
}
