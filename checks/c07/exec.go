package main

// Execution of a program on the real eino API: every Add*/Append*/Compile call and every run is made
// through the public API; a panic that unwinds out of any of them is caught per call so that the message can
// say which call let it escape.

import (
	"context"
	"fmt"
	"strings"

	"github.com/cloudwego/eino/compose"

	"verif/lib/harness"
)

// guarded runs one public-API call; a panic that escapes it is returned as *harness.PanicError.
func guarded(f func() error) (err error) {
	defer func() {
		if r := recover(); r != nil {
			err = &harness.PanicError{Val: firstLine(fmt.Sprint(r))}
		}
	}()
	return f()
}

// firstLine normalises an error / panic text: no stack trace, no node-path trailer, one line.
func firstLine(s string) string {
	if i := strings.Index(s, "\nstack:"); i >= 0 {
		s = s[:i]
	}
	if i := strings.Index(s, "\n------------------------"); i >= 0 {
		s = s[:i]
	}
	s = strings.Join(strings.Fields(s), " ")
	s = strings.TrimRight(s, ", ")
	if len(s) > 400 {
		s = s[:400]
	}
	return s
}

type buildResult struct {
	Accepted   bool
	RejectedBy string // first call that returned an error
	RejectMsg  string
	PanicBy    string // first call out of which a panic escaped
	PanicMsg   string
	Calls      int
	run        *runner
	cells      map[string]*cell
	p          *Program
}

func (p *Program) nodeOpts(n *Node, cells map[string]*cell) []compose.GraphAddNodeOpt {
	var opts []compose.GraphAddNodeOpt
	if n.Pre >= 0 {
		c := &cell{}
		cells["pre:"+n.Name] = c
		opts = append(opts, preTab[n.Pre](c))
	}
	if n.Post >= 0 {
		c := &cell{}
		cells["post:"+n.Name] = c
		opts = append(opts, postTab[n.Post](c))
	}
	if n.Keyed {
		opts = append(opts, compose.WithInputKey("k"), compose.WithOutputKey("o"))
	}
	return opts
}

func (p *Program) lambdaOf(n *Node, cells map[string]*cell) *compose.Lambda {
	c := &cell{}
	cells["out:"+n.Name] = c
	if n.Keyed {
		return lambdaTab[pair{tAny, tString}](c)
	}
	return lambdaTab[pair{n.In, n.Out}](c)
}

// build makes the calls of p in the given order, then Compile. It keeps calling after an error (as a user
// who ignores errors until Compile would), so that a panic out of any later call is seen too.
func build(ctx context.Context, p *Program, order []int) *buildResult {
	res := &buildResult{cells: map[string]*cell{}, p: p}
	note := func(what string, err error) {
		res.Calls++
		if err == nil {
			return
		}
		if pe, ok := err.(*harness.PanicError); ok {
			if res.PanicBy == "" {
				res.PanicBy, res.PanicMsg = what, pe.Val
			}
			return
		}
		if res.RejectedBy == "" {
			res.RejectedBy, res.RejectMsg = what, firstLine(err.Error())
		}
	}
	var b *built
	if p.Container == "chain" {
		b = chainTab[pair{p.GI, p.GO}](p.State)
		nb := 0
		for _, s := range p.Stages {
			s := s
			switch s.Kind {
			case "P":
				note(p.stageString(s), guarded(func() error { b.c.pass(p.nodeOpts(s.Node, res.cells)...); return nil }))
			case "L":
				note(p.stageString(s), guarded(func() error {
					b.c.lambda(p.lambdaOf(s.Node, res.cells), p.nodeOpts(s.Node, res.cells)...)
					return nil
				}))
			case "B":
				// the k-th branch stage is the k-th "B" call of the graph form
				idx, k := -1, 0
				for i, c := range p.Calls {
					if c.Op == "B" {
						if k == nb {
							idx = i
						}
						k++
					}
				}
				nb++
				ch := &cell{}
				res.cells[fmt.Sprintf("br:%d", idx)] = ch
				note(p.stageString(s), guarded(func() error {
					cb := cbranchTab[s.Cond](ch)
					for _, a := range s.Arms {
						if a.Kind == "L" {
							cb.AddLambda(a.Name, p.lambdaOf(a, res.cells), p.nodeOpts(a, res.cells)...)
						} else {
							cb.AddPassthrough(a.Name, p.nodeOpts(a, res.cells)...)
						}
					}
					b.c.branch(cb)
					return nil
				}))
			}
		}
	} else {
		b = graphTab[pair{p.GI, p.GO}](p.State)
		for _, i := range order {
			c := p.Calls[i]
			what := p.callString(c)
			switch c.Op {
			case "N":
				n := p.node(c.A)
				note(what, guarded(func() error {
					if n.Kind == "L" {
						return b.g.AddLambdaNode(n.Name, p.lambdaOf(n, res.cells), p.nodeOpts(n, res.cells)...)
					}
					return b.g.AddPassthroughNode(n.Name, p.nodeOpts(n, res.cells)...)
				}))
			case "E":
				note(what, guarded(func() error { return b.g.AddEdge(c.A, c.B) }))
			case "B":
				ch := &cell{}
				res.cells[fmt.Sprintf("br:%d", i)] = ch
				note(what, guarded(func() error {
					ends := map[string]bool{}
					for _, t := range c.Targets {
						ends[t] = true
					}
					return b.g.AddBranch(c.A, branchTab[c.Cond](ends, ch))
				}))
			}
		}
	}
	var copts []compose.GraphCompileOption
	if p.Container == "graphAll" {
		copts = append(copts, compose.WithNodeTriggerMode(compose.AllPredecessor))
	}
	note("Compile", guarded(func() error {
		r, err := b.compile(ctx, copts...)
		res.run = r
		return err
	}))
	res.Accepted = res.RejectedBy == "" && res.PanicBy == "" && res.run != nil
	return res
}

// observation of one run
type obs struct {
	Kind string // "ok", "error" (ordinary error), "panic-error" (panic recovered by the framework into an error), "panic" (escaped to the caller)
	Dyn  string
	Msg  string
}

func (o obs) String() string {
	switch o.Kind {
	case "ok":
		return "returned a " + o.Dyn + " value"
	case "error":
		return "returned the error: " + o.Msg
	case "panic-error":
		return "returned an error made from a recovered panic: " + o.Msg
	}
	return "PANICKED out of the call: " + o.Msg
}

func typeStyle(msg string) bool {
	for _, k := range []string{"runtime type check fail", "unexpected input type", "interface conversion", "cannot convert", "mismatch"} {
		if strings.Contains(msg, k) {
			return true
		}
	}
	return false
}

// apply installs the environment choices into the cells and returns the input value.
func (r *buildResult) apply(choices []choice) any {
	p := r.p
	for k, c := range r.cells {
		c.set, c.v, c.s = false, nil, ""
		switch {
		case strings.HasPrefix(k, "out:"):
			n := p.node(k[4:])
			c.v = value(fitting(n.Out)[0], n.Name)
			if n.Keyed {
				c.v = "s" // the inner lambda returns a string; the output key wraps it into a map
			}
		case strings.HasPrefix(k, "br:"):
			var i int
			fmt.Sscanf(k[3:], "%d", &i)
			c.s = p.Calls[i].Targets[0]
		}
	}
	in := value(fitting(p.GI)[0], "k")
	for _, ch := range choices {
		switch {
		case ch.Key == "in":
			in = value(ch.Dyn, "k")
		case strings.HasPrefix(ch.Key, "br:"):
			if c := r.cells[ch.Key]; c != nil {
				c.s = ch.Tgt
			}
		case strings.HasPrefix(ch.Key, "out:"):
			if c := r.cells[ch.Key]; c != nil && !p.node(ch.Key[4:]).Keyed {
				c.v = value(ch.Dyn, ch.Key[4:])
			}
		default: // pre:/post:
			if c := r.cells[ch.Key]; c != nil {
				if ch.Dyn == dynSame {
					c.set = false
				} else {
					c.set, c.v = true, value(ch.Dyn, "h")
				}
			}
		}
	}
	return in
}

func (r *buildResult) runOnce(ctx context.Context, mode string, choices []choice) obs {
	in := r.apply(choices)
	var out any
	err := guarded(func() error {
		var e error
		if mode == "Invoke" {
			out, e = r.run.invoke(ctx, in)
		} else {
			out, e = r.run.stream(ctx, in)
		}
		return e
	})
	if err == nil {
		return obs{Kind: "ok", Dyn: dynOf(out)}
	}
	if pe, ok := err.(*harness.PanicError); ok {
		return obs{Kind: "panic", Msg: pe.Val}
	}
	msg := err.Error()
	if strings.Contains(msg, "panic error:") || strings.Contains(msg, "\nstack:") {
		return obs{Kind: "panic-error", Msg: firstLine(msg)}
	}
	return obs{Kind: "error", Msg: firstLine(msg)}
}

func choicesString(cs []choice) string {
	var parts []string
	for _, c := range cs {
		switch {
		case c.Key == "in":
			parts = append(parts, "input="+dynName(c.Dyn))
		case strings.HasPrefix(c.Key, "br:"):
			parts = append(parts, "cond#"+c.Key[3:]+"->"+c.Tgt)
		case strings.HasPrefix(c.Key, "out:"):
			parts = append(parts, c.Key[4:]+" returns "+dynName(c.Dyn))
		default:
			if c.Dyn == dynSame {
				parts = append(parts, c.Key+" handler returns its input")
			} else {
				parts = append(parts, c.Key+" handler returns "+dynName(c.Dyn))
			}
		}
	}
	return strings.Join(parts, ", ")
}
