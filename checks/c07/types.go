package main

// Type universe of the check, the reference assignability relation, and the tables of typed constructor
// closures (eino's node / branch / handler / graph constructors are Go generics, so every member of the
// universe needs its own explicit instantiation).

import (
	"context"
	"errors"
	"io"

	"github.com/cloudwego/eino/compose"
)

// ---------------------------------------------------------------------------------------------------
// universe

type A struct{ X int }

func (A) M1() {}

type B struct{ X int }

func (*B) M1() {}
func (*B) M2() {}

// I1 is implemented by A and *B.
type I1 interface{ M1() }

// I2 is implemented by *B only; its method set contains I1's (so I2 -> I1 is a static "must").
type I2 interface {
	I1
	M2()
}

// NMap is a defined type whose underlying type is the unnamed map[string]any of the universe: the two are distinct
// concrete types (a map[string]any value reaching a position declared NMap fails its type assertion), although
// Go's assignability (reflect.Type.AssignableTo) relates them.
type NMap map[string]any

// St is the graph-local state used when state handlers are present.
type St struct{ N int }

const (
	tString = iota
	tInt
	tA
	tPB
	tI1
	tI2
	tAny
	tMap
	tNMap
	nTypes
)

var typeName = [nTypes]string{"string", "int", "A", "*B", "I1", "I2", "any", "map", "NMap"}

// dynamic values share the index of their concrete type; dynNil marks "nil interface value".
const dynNil = -1

var dynAll = []int{tString, tInt, tA, tPB, tMap, tNMap}

func isIface(t int) bool { return t == tI1 || t == tI2 || t == tAny }

// fits: may a value of dynamic type dyn be stored in a variable of declared type t.
func fits(dyn, t int) bool {
	switch t {
	case tAny:
		return true
	case tI1:
		return dyn == tA || dyn == tPB
	case tI2:
		return dyn == tPB
	}
	return dyn == t
}

func fitting(t int) []int {
	var r []int
	for _, d := range dynAll {
		if fits(d, t) {
			r = append(r, d)
		}
	}
	return r
}

const (
	never = iota
	may
	must
)

var className = [3]string{"never", "may", "must"}

// assign is the reference model of static assignability of a value declared `out` to a position declared `in`.
func assign(out, in int) int {
	if out == in {
		return must
	}
	if isIface(in) {
		if !isIface(out) {
			if fits(out, in) {
				return must
			}
			return never
		}
		// interface to interface: must iff every value of out fits in
		all := true
		for _, d := range fitting(out) {
			if !fits(d, in) {
				all = false
			}
		}
		if all {
			return must
		}
	}
	if isIface(out) {
		for _, d := range fitting(out) {
			if fits(d, in) {
				return may
			}
		}
	}
	return never
}

// value builds the canonical value of a dynamic type; tag distinguishes map values (so that maps merge).
func value(dyn int, tag string) any {
	switch dyn {
	case tString:
		return "s"
	case tInt:
		return 1
	case tA:
		return A{X: 1}
	case tPB:
		return &B{X: 1}
	case tMap:
		return map[string]any{tag: 1}
	case tNMap:
		return NMap{tag: 1}
	}
	return nil
}

func dynOf(v any) string {
	switch v.(type) {
	case nil:
		return "nil"
	case string:
		return "string"
	case int:
		return "int"
	case A:
		return "A"
	case *B:
		return "*B"
	case map[string]any:
		return "map"
	case NMap:
		return "NMap"
	}
	return "other"
}

func dynName(d int) string {
	if d == dynNil {
		return "nil"
	}
	return typeName[d]
}

// ---------------------------------------------------------------------------------------------------
// typed constructor tables

type pair [2]int

// cell is a mutable slot read by a node body / handler / condition at run time.
type cell struct {
	v   any  // lambda: the value to return (nil = nil interface); handler: override value
	set bool // handler: override active
	s   string
}

var (
	lambdaTab  = map[pair]func(out *cell) *compose.Lambda{}
	branchTab  = map[int]func(ends map[string]bool, choose *cell) *compose.GraphBranch{}
	cbranchTab = map[int]func(choose *cell) *compose.ChainBranch{}
	preTab     = map[int]func(ov *cell) compose.GraphAddNodeOpt{}
	postTab    = map[int]func(ov *cell) compose.GraphAddNodeOpt{}
	graphTab   = map[pair]func(state bool) *built{}
	chainTab   = map[pair]func(state bool) *built{}
)

func conv[T any](v any) T {
	var z T
	if v == nil {
		return z
	}
	return v.(T)
}

func regLambda[I, O any](i, o int) {
	lambdaTab[pair{i, o}] = func(out *cell) *compose.Lambda {
		return compose.InvokableLambda(func(ctx context.Context, in I) (O, error) {
			return conv[O](out.v), nil
		})
	}
}

func regType[T any](t int) {
	branchTab[t] = func(ends map[string]bool, choose *cell) *compose.GraphBranch {
		return compose.NewGraphBranch(func(ctx context.Context, in T) (string, error) { return choose.s, nil }, ends)
	}
	cbranchTab[t] = func(choose *cell) *compose.ChainBranch {
		return compose.NewChainBranch(func(ctx context.Context, in T) (string, error) { return choose.s, nil })
	}
	preTab[t] = func(ov *cell) compose.GraphAddNodeOpt {
		return compose.WithStatePreHandler(func(ctx context.Context, in T, s *St) (T, error) {
			if ov.set {
				return conv[T](ov.v), nil
			}
			return in, nil
		})
	}
	postTab[t] = func(ov *cell) compose.GraphAddNodeOpt {
		return compose.WithStatePostHandler(func(ctx context.Context, out T, s *St) (T, error) {
			if ov.set {
				return conv[T](ov.v), nil
			}
			return out, nil
		})
	}
	// every (T, *) pair of lambdas, graphs and chains
	regLambda[T, string](t, tString)
	regLambda[T, int](t, tInt)
	regLambda[T, A](t, tA)
	regLambda[T, *B](t, tPB)
	regLambda[T, I1](t, tI1)
	regLambda[T, I2](t, tI2)
	regLambda[T, any](t, tAny)
	regLambda[T, map[string]any](t, tMap)
	regLambda[T, NMap](t, tNMap)
	regContainers[T, string](t, tString)
	regContainers[T, int](t, tInt)
	regContainers[T, A](t, tA)
	regContainers[T, *B](t, tPB)
	regContainers[T, I1](t, tI1)
	regContainers[T, I2](t, tI2)
	regContainers[T, any](t, tAny)
	regContainers[T, map[string]any](t, tMap)
	regContainers[T, NMap](t, tNMap)
}

func init() {
	regType[string](tString)
	regType[int](tInt)
	regType[A](tA)
	regType[*B](tPB)
	regType[I1](tI1)
	regType[I2](tI2)
	regType[any](tAny)
	regType[map[string]any](tMap)
	regType[NMap](tNMap)
}

// graphAPI is the non-generic part of *compose.Graph[I,O] (methods promoted from the embedded graph).
type graphAPI interface {
	AddLambdaNode(key string, node *compose.Lambda, opts ...compose.GraphAddNodeOpt) error
	AddPassthroughNode(key string, opts ...compose.GraphAddNodeOpt) error
	AddEdge(startNode, endNode string) error
	AddBranch(startNode string, branch *compose.GraphBranch) error
}

// chainAPI hides the type parameters of *compose.Chain[I,O].
type chainAPI struct {
	lambda func(l *compose.Lambda, opts ...compose.GraphAddNodeOpt)
	pass   func(opts ...compose.GraphAddNodeOpt)
	branch func(b *compose.ChainBranch)
}

type runner struct {
	invoke func(ctx context.Context, in any) (any, error)
	stream func(ctx context.Context, in any) (any, error) // drains the stream; returns the single chunk (or a []any of chunks)
}

type built struct {
	g       graphAPI
	c       *chainAPI
	compile func(ctx context.Context, opts ...compose.GraphCompileOption) (*runner, error)
}

func genState(ctx context.Context) *St { return &St{} }

func mkRunner[I, O any](r compose.Runnable[I, O]) *runner {
	return &runner{
		invoke: func(ctx context.Context, in any) (any, error) {
			out, err := r.Invoke(ctx, conv[I](in))
			if err != nil {
				return nil, err
			}
			return out, nil
		},
		stream: func(ctx context.Context, in any) (any, error) {
			sr, err := r.Stream(ctx, conv[I](in))
			if err != nil {
				return nil, err
			}
			defer sr.Close()
			var chunks []any
			for {
				v, err := sr.Recv()
				if errors.Is(err, io.EOF) {
					break
				}
				if err != nil {
					return nil, err
				}
				chunks = append(chunks, v)
			}
			if len(chunks) == 1 {
				return chunks[0], nil
			}
			return chunks, nil
		},
	}
}

func regContainers[I, O any](i, o int) {
	graphTab[pair{i, o}] = func(state bool) *built {
		var opts []compose.NewGraphOption
		if state {
			opts = append(opts, compose.WithGenLocalState(genState))
		}
		g := compose.NewGraph[I, O](opts...)
		return &built{g: g, compile: func(ctx context.Context, copts ...compose.GraphCompileOption) (*runner, error) {
			r, err := g.Compile(ctx, copts...)
			if err != nil {
				return nil, err
			}
			return mkRunner(r), nil
		}}
	}
	chainTab[pair{i, o}] = func(state bool) *built {
		var opts []compose.NewGraphOption
		if state {
			opts = append(opts, compose.WithGenLocalState(genState))
		}
		c := compose.NewChain[I, O](opts...)
		return &built{
			c: &chainAPI{
				lambda: func(l *compose.Lambda, o ...compose.GraphAddNodeOpt) { c.AppendLambda(l, o...) },
				pass:   func(o ...compose.GraphAddNodeOpt) { c.AppendPassthrough(o...) },
				branch: func(b *compose.ChainBranch) { c.AppendBranch(b) },
			},
			compile: func(ctx context.Context, copts ...compose.GraphCompileOption) (*runner, error) {
				r, err := c.Compile(ctx, copts...)
				if err != nil {
					return nil, err
				}
				return mkRunner(r), nil
			},
		}
	}
}
