// C17 — the tools node answers every tool call, in call order, whatever the completion order (Engine S).
package main

import (
	"context"
	"errors"
	"fmt"
	"hash/fnv"
	"io"
	"os"
	"sort"
	"strings"

	"github.com/cloudwego/eino/components/tool"
	"github.com/cloudwego/eino/compose"
	"github.com/cloudwego/eino/schema"
	"github.com/cloudwego/eino/vsched"

	"verif/lib/harness"
)

// ---------------------------------------------------------------------------------------------------
// scenario description

// names a call may carry: the two registered tools and one name that is not registered.
const unknownName = "u"

var toolNames = []string{"t1", "t2"}

// kinds of a registered tool
const (
	kInv  = "inv"  // implements InvokableTool only
	kS1   = "s1"   // implements StreamableTool only, answers in one chunk
	kS2   = "s2"   // implements StreamableTool only, answers in two chunks
	kBoth = "both" // implements both (the streamable arm answers in two chunks)
	// streamable-only, two chunks sent by a producer goroutine of the tool's own through an unbuffered pipe AFTER
	// StreamableRun returned; the producer honours the context it was given: once that is cancelled it sends the
	// context's error instead of the next chunk (a tool stream outlives the call that opened it)
	kAsync = "sA"
)

// ways to fail
const (
	fOK    = "ok"
	fErr   = "err"   // the tool (or the unknown-tool handler) returns its error
	fPanic = "panic" // the tool (or the handler) panics
	fMid   = "mid"   // streamable tools only: the stream delivers its first chunk, then the tool's error
	fBoth  = "rderr" // streamable tools only: StreamableRun returns its error TOGETHER with a (complete) reader
)

type spec struct {
	name    string
	calls   []string          // tool name per call; call i has id "c<i>" and arguments "a<i>"
	kind    map[string]string // per registered tool
	fail    map[string]string // per registered tool and, with a handler, for the handler ("u")
	yield   map[string]int    // yields inside the body, per registered tool and handler
	handler bool              // UnknownToolsHandler configured
	mode    string            // invoke | stream
	host    string            // direct (ToolsNode.Invoke/Stream) | graph (single node of a compiled graph) | fanout | direct-list / graph-list
}

// listHost: the tools are given PER CALL (compose.WithToolList); the node itself is configured with decoys of the
// same names whose answers would be wrong.
func (sp *spec) listHost() bool { return strings.HasSuffix(sp.host, "-list") }

func callID(i int) string   { return fmt.Sprintf("c%d", i) }
func callArgs(i int) string { return fmt.Sprintf("a%d", i) }

// f is what the tool called `name` answers on `args`; the handler's answer is distinguishable from any tool's.
func f(name, args string) string {
	if strings.HasPrefix(name, unknownName) {
		return "H:" + name + "(" + args + ")"
	}
	if name == "t2" && args == callArgs(1) {
		return "" // a tool may answer with the empty string: that is an answer like any other
	}
	return name + "(" + args + ")"
}

// wireName is the tool name call i carries in the message: every unknown call has its own unknown name
// (u0, u1, ...), so that the handler's answer is a function of that call's name.
func wireName(calls []string, i int) string {
	if calls[i] == unknownName {
		return fmt.Sprintf("%s%d", unknownName, i)
	}
	return calls[i]
}

// the tools' errors WRAP io.EOF (as read errors of real sources do): an error is an error, whatever it wraps
var toolErr = map[string]error{
	"t1":        fmt.Errorf("t1-failed (%w)", io.EOF),
	"t2":        fmt.Errorf("t2-failed (%w)", io.EOF),
	unknownName: fmt.Errorf("handler-failed (%w)", io.EOF),
}

// ---------------------------------------------------------------------------------------------------
// recording tools (fresh per execution)

const noteTag = 17

type world struct {
	sp       *spec
	started  []int // call indexes in the order in which their bodies started
	finished []int // call indexes in the order in which their bodies finished (the completion order)
	arms     []string
}

func indexOfArgs(args string) int {
	var i int
	if _, err := fmt.Sscanf(args, "a%d", &i); err != nil {
		return -1
	}
	return i
}

// body is the common part of every arm: record start, take time, record completion, then fail or not.
func (w *world) body(name, arm, args string) error {
	idx := indexOfArgs(args)
	vsched.HLock() // the recordings are shared by the tool goroutines (no-op under the scheduler, a mutex in the race pass)
	vsched.Note(noteTag)
	w.started = append(w.started, idx)
	w.arms = append(w.arms, fmt.Sprintf("%s.%s(%s)", name, arm, args))
	vsched.Note(noteTag)
	vsched.HUnlock()
	for i := 0; i < w.sp.yield[name]; i++ {
		vsched.Yield()
	}
	vsched.HLock()
	vsched.Note(noteTag)
	w.finished = append(w.finished, idx)
	vsched.Note(noteTag)
	vsched.HUnlock()
	switch w.sp.fail[name] {
	case fErr:
		return toolErr[name]
	case fPanic:
		panic("tool-panic:" + name)
	}
	return nil
}

type core struct {
	w    *world
	name string
}

func (t *core) Info(ctx context.Context) (*schema.ToolInfo, error) {
	return &schema.ToolInfo{Name: t.name, Desc: t.name}, nil
}

func (t *core) invoke(args string) (string, error) {
	if err := t.w.body(t.name, "invoke", args); err != nil {
		return "", err
	}
	return f(t.name, args), nil
}

func (t *core) stream(args string) (*schema.StreamReader[string], error) {
	if err := t.w.body(t.name, "stream", args); err != nil {
		return nil, err
	}
	chunks := []string{t.name + "(", args + ")"}
	if f(t.name, args) == "" {
		chunks = []string{"", ""}
	}
	if t.w.sp.kind[t.name] == kS1 {
		chunks = []string{f(t.name, args)}
	}
	if t.w.sp.fail[t.name] == fMid {
		// first chunk, then the error, from a buffered pipe filled by the tool itself (no producer goroutine)
		sr, sw := schema.Pipe[string](2)
		sw.Send(chunks[0], nil)
		sw.Send("", toolErr[t.name])
		sw.Close()
		return sr, nil
	}
	if t.w.sp.fail[t.name] == fBoth {
		// a failed call is a failed call, whatever else it returns
		return schema.StreamReaderFromArray(chunks), toolErr[t.name]
	}
	return schema.StreamReaderFromArray(chunks), nil
}

// decoyTool: what the node is configured with when the real tools come per call. It must never run.
type decoyTool struct{ name string }

func (t *decoyTool) Info(ctx context.Context) (*schema.ToolInfo, error) {
	return &schema.ToolInfo{Name: t.name, Desc: t.name}, nil
}
func (t *decoyTool) InvokableRun(ctx context.Context, args string, opts ...tool.Option) (string, error) {
	return "DECOY:" + t.name + "(" + args + ")", nil
}

type invTool struct{ core }

func (t *invTool) InvokableRun(ctx context.Context, args string, opts ...tool.Option) (string, error) {
	return t.invoke(args)
}

type strTool struct{ core }

func (t *strTool) StreamableRun(ctx context.Context, args string, opts ...tool.Option) (*schema.StreamReader[string], error) {
	if t.w.sp.kind[t.name] == kAsync {
		if err := t.w.body(t.name, "stream", args); err != nil {
			return nil, err
		}
		sr, sw := schema.Pipe[string](0)
		name := t.name
		vsched.GoNamed("tool-producer:"+name, func() {
			defer sw.Close()
			chunks := []string{name + "(", args + ")"}
			if f(name, args) == "" {
				chunks = []string{"", ""}
			}
			for _, c := range chunks {
				if err := ctx.Err(); err != nil {
					sw.Send("", fmt.Errorf("tool %s: its context was cancelled while it was still answering: %w", name, err))
					return
				}
				if sw.Send(c, nil) {
					return
				}
			}
		})
		return sr, nil
	}
	return t.stream(args)
}

type bothTool struct{ core }

func (t *bothTool) InvokableRun(ctx context.Context, args string, opts ...tool.Option) (string, error) {
	return t.invoke(args)
}
func (t *bothTool) StreamableRun(ctx context.Context, args string, opts ...tool.Option) (*schema.StreamReader[string], error) {
	return t.stream(args)
}

func (w *world) tool(name string) tool.BaseTool {
	c := core{w: w, name: name}
	switch w.sp.kind[name] {
	case kS1, kS2, kAsync:
		return &strTool{c}
	case kBoth:
		return &bothTool{c}
	}
	return &invTool{c}
}

// ---------------------------------------------------------------------------------------------------
// one execution

type observation struct {
	returned    bool
	callerPanic string // direct host only: a panic that unwound to the caller of ToolsNode.Invoke/Stream
	setupErr    error
	err         error // error of Invoke / Stream / the first failing Recv
	errFromRecv bool
	msgs        []*schema.Message   // Invoke result or the position-wise concatenation of the chunks
	chunks      [][]*schema.Message // Stream only
	concatErr   error
	second      []*schema.Message // fanout host: the list the second consumer of the tools stream received
	secondSet   bool
}

func (sp *spec) message() *schema.Message {
	m := &schema.Message{Role: schema.Assistant}
	for i := range sp.calls {
		m.ToolCalls = append(m.ToolCalls, schema.ToolCall{ID: callID(i), Type: "function",
			Function: schema.FunctionCall{Name: wireName(sp.calls, i), Arguments: callArgs(i)}})
	}
	return m
}

func (sp *spec) build() (func(), func(x *vsched.Exec) (string, error)) {
	w := &world{sp: sp}
	ob := &observation{}
	main := func() {
		ctx := context.Background()
		conf := &compose.ToolsNodeConfig{}
		var callList []tool.BaseTool
		for _, n := range toolNames {
			if sp.listHost() {
				conf.Tools = append(conf.Tools, &decoyTool{n})
				callList = append(callList, w.tool(n))
			} else {
				conf.Tools = append(conf.Tools, w.tool(n))
			}
		}
		if sp.handler {
			conf.UnknownToolsHandler = func(ctx context.Context, name, input string) (string, error) {
				if err := w.body(unknownName, "handler:"+name, input); err != nil {
					return "", err
				}
				return f(name, input), nil
			}
		}
		tn, err := compose.NewToolNode(ctx, conf)
		if err != nil {
			ob.setupErr = err
			return
		}
		var invoke func() ([]*schema.Message, error)
		var stream func() (*schema.StreamReader[[]*schema.Message], error)
		msg := sp.message()
		if sp.host == "fanout" {
			// the streamed answers go to TWO value consumers, one superstep apart (the framework concatenates a copy of
			// the stream for each of them): both must see the list Invoke would give
			g := compose.NewGraph[*schema.Message, map[string]any]()
			if err := g.AddToolsNode("tools", tn); err != nil {
				ob.setupErr = err
				return
			}
			g.AddLambdaNode("first", compose.InvokableLambda(func(ctx context.Context, in []*schema.Message) (map[string]any, error) {
				ob.msgs = in
				return map[string]any{"first": len(in)}, nil
			}))
			g.AddPassthroughNode("pass")
			g.AddLambdaNode("second", compose.InvokableLambda(func(ctx context.Context, in []*schema.Message) (map[string]any, error) {
				ob.second, ob.secondSet = in, true
				return map[string]any{"second": len(in)}, nil
			}))
			g.AddEdge(compose.START, "tools")
			g.AddEdge("tools", "first")
			g.AddEdge("tools", "pass")
			g.AddEdge("pass", "second")
			g.AddEdge("first", compose.END)
			g.AddEdge("second", compose.END)
			r, err := g.Compile(ctx, compose.WithNodeTriggerMode(compose.AllPredecessor)) // END waits for both consumers
			if err != nil {
				ob.setupErr = err
				return
			}
			sr, err := r.Stream(ctx, msg)
			if err != nil {
				ob.err, ob.returned = err, true
				return
			}
			for {
				_, err := sr.Recv()
				if err == io.EOF {
					break
				}
				if err != nil {
					ob.err, ob.errFromRecv = err, true
					break
				}
			}
			sr.Close()
			ob.returned = true
			return
		}
		if sp.host == "graph" || sp.host == "graph-list" {
			var gopts []compose.Option
			if sp.listHost() {
				gopts = append(gopts, compose.WithToolsNodeOption(compose.WithToolList(callList...)))
			}
			g := compose.NewGraph[*schema.Message, []*schema.Message]()
			if err := g.AddToolsNode("tools", tn); err != nil {
				ob.setupErr = err
				return
			}
			g.AddEdge(compose.START, "tools")
			g.AddEdge("tools", compose.END)
			r, err := g.Compile(ctx)
			if err != nil {
				ob.setupErr = err
				return
			}
			invoke = func() ([]*schema.Message, error) { return r.Invoke(ctx, msg, gopts...) }
			stream = func() (*schema.StreamReader[[]*schema.Message], error) { return r.Stream(ctx, msg, gopts...) }
		} else {
			var topts []compose.ToolsNodeOption
			if sp.listHost() {
				topts = append(topts, compose.WithToolList(callList...))
			}
			invoke = func() ([]*schema.Message, error) { return tn.Invoke(ctx, msg, topts...) }
			stream = func() (*schema.StreamReader[[]*schema.Message], error) { return tn.Stream(ctx, msg, topts...) }
			// the caller of a bare ToolsNode sees a panic of the inline (first) tool as a panic; there is
			// no enclosing run. Record it instead of letting it end the harness thread.
			defer func() {
				if r := recover(); r != nil {
					ob.callerPanic = fmt.Sprint(r)
					ob.returned = true
				}
			}()
		}
		if sp.mode == "invoke" {
			ob.msgs, ob.err = invoke()
			ob.returned = true
			return
		}
		sr, err := stream()
		if err != nil {
			ob.err = err
			ob.returned = true
			return
		}
		for {
			c, err := sr.Recv()
			if err == io.EOF {
				break
			}
			if err != nil {
				ob.err, ob.errFromRecv = err, true
				break
			}
			ob.chunks = append(ob.chunks, c)
		}
		sr.Close()
		if ob.err == nil {
			ob.msgs, ob.concatErr = concatMessageLists(ob.chunks)
		}
		ob.returned = true
	}
	check := func(x *vsched.Exec) (string, error) {
		o, err := sp.judge(w, ob, x)
		if err == nil && ctx != nil {
			// evidence that completion orders really differ: executions per (number of calls, completion order)
			ctx.Count(fmt.Sprintf("executions/%d-calls/completion-order-%s", len(sp.calls), renderOrder(w.finished)), 1)
			ctx.Count(fmt.Sprintf("executions/%s/%s/%d-calls", sp.host, sp.mode, len(sp.calls)), 1)
		}
		return o, err
	}
	return main, check
}

// concatMessageLists is the position-wise concatenation of message lists with the semantics of
// schema.concatMessageArray: all lists have the same length, nil entries are holes, the non-nil entries
// of one position are concatenated with schema.ConcatMessages in arrival order.
func concatMessageLists(all [][]*schema.Message) ([]*schema.Message, error) {
	if len(all) == 0 {
		return nil, errors.New("the stream delivered no chunk")
	}
	n := len(all[0])
	out := make([]*schema.Message, n)
	for i := 0; i < n; i++ {
		var ms []*schema.Message
		for _, a := range all {
			if len(a) != n {
				return nil, fmt.Errorf("chunks of different lengths %d and %d", n, len(a))
			}
			if a[i] != nil {
				ms = append(ms, a[i])
			}
		}
		switch len(ms) {
		case 0:
		case 1:
			out[i] = ms[0]
		default:
			m, err := schema.ConcatMessages(ms)
			if err != nil {
				return nil, fmt.Errorf("position %d: %v", i, err)
			}
			out[i] = m
		}
	}
	return out, nil
}

func renderMsgs(ms []*schema.Message) string {
	var p []string
	for _, m := range ms {
		if m == nil {
			p = append(p, "<nil>")
			continue
		}
		p = append(p, fmt.Sprintf("%s/%s/%s", m.Role, m.ToolCallID, m.Content))
	}
	return "[" + strings.Join(p, " ") + "]"
}

func renderOrder(o []int) string {
	var p []string
	for _, i := range o {
		p = append(p, fmt.Sprint(i))
	}
	return strings.Join(p, "")
}

var ctx *harness.Ctx // for counters only

type violation struct {
	sig string
	msg string
}

func (v *violation) Error() string { return v.msg }

func bad(sig, format string, a ...any) error {
	return &violation{sig: sig, msg: fmt.Sprintf(format, a...)}
}

// judge is the oracle: exactly the statement of C17.
func (sp *spec) judge(w *world, ob *observation, x *vsched.Exec) (string, error) {
	order := "completion=" + renderOrder(w.finished)
	if x.ThreadPanic != "" {
		return "", bad("goroutine-crash", "a panic escaped a goroutine of the tools node (process crash): %s [%s]", firstLine(x.ThreadPanic), order)
	}
	if x.Deadlock {
		return "", bad("hang", "the call hangs: %v [%s]", x.Blocked, order)
	}
	if x.MainPanic != "" {
		return "", bad("panic-escaped-run", "a panic escaped to the caller of the graph run: %s [%s]", firstLine(x.MainPanic), order)
	}
	if len(x.Blocked) > 0 {
		return "", bad("leak", "goroutines left blocked after the call: %v [%s]", x.Blocked, order)
	}
	if ob.setupErr != nil {
		return "", bad("setup", "harness could not build the tools node / graph: %v", ob.setupErr)
	}
	if !ob.returned {
		return "", bad("hang", "the call did not return [%s]", order)
	}
	n := len(sp.calls)
	hasUnknown := false
	var failing, panicking []string // names of called tools (handler included) that fail in the arm used
	seen := map[string]bool{}
	for _, c := range sp.calls {
		if c == unknownName {
			hasUnknown = true
			if !sp.handler {
				continue
			}
		}
		if seen[c] {
			continue
		}
		seen[c] = true
		switch sp.effFail(c) {
		case fErr, fMid, fBoth:
			failing = append(failing, c)
		case fPanic:
			panicking = append(panicking, c)
		}
	}
	failed := ob.err != nil || ob.callerPanic != ""
	switch {
	case hasUnknown && !sp.handler:
		// an unknown tool name is an error unless a handler is configured
		if ob.callerPanic != "" {
			return "", bad("unexpected-panic", "unknown tool name without handler: ToolsNode.%s panicked instead of returning an error: %s", sp.mode, firstLine(ob.callerPanic))
		}
		if !failed {
			return "", bad("unknown-not-rejected", "call list %v names an unknown tool and no handler is configured, but the call returned %s", sp.calls, renderMsgs(ob.msgs))
		}
		return "unknown-rejected " + order, nil
	case len(failing)+len(panicking) > 0:
		if !failed {
			return "", bad("failure-swallowed", "tools %v fail / %v panic, but the call returned %s [%s]", failing, panicking, renderMsgs(ob.msgs), order)
		}
		if ob.callerPanic != "" {
			// only a bare ToolsNode (no enclosing run) and only a panicking tool can get here
			if len(panicking) == 0 || !strings.Contains(ob.callerPanic, "tool-panic:") {
				return "", bad("unexpected-panic", "ToolsNode.%s panicked with something that is not a tool's panic: %s [%s]", sp.mode, firstLine(ob.callerPanic), order)
			}
			return "panic-to-direct-caller " + order, nil
		}
		if len(panicking) > 0 {
			// the run failed with an error rather than crashing (crash / hang / leak excluded above); when
			// several tools fail, which failure is reported is not specified
			return "failed(panic or error) " + order, nil
		}
		for _, c := range failing {
			if errors.Is(ob.err, toolErr[c]) {
				return fmt.Sprintf("failed(%s) %s", c, order), nil
			}
		}
		return "", bad("wrong-error", "tools %v fail, but the error of the call is none of theirs (errors.Is): %s [%s]", failing, firstLine(ob.err.Error()), order)
	}
	// success expected
	if ob.callerPanic != "" {
		return "", bad("unexpected-panic", "no tool fails but ToolsNode.%s panicked: %s [%s]", sp.mode, firstLine(ob.callerPanic), order)
	}
	if ob.err != nil {
		return "", bad("unexpected-error", "no tool fails but the call failed: %s [%s]", firstLine(ob.err.Error()), order)
	}
	var want []string
	for i := range sp.calls {
		want = append(want, fmt.Sprintf("%s/%s/%s", schema.Tool, callID(i), f(wireName(sp.calls, i), callArgs(i))))
	}
	wantS := "[" + strings.Join(want, " ") + "]"
	if sp.mode == "stream" {
		if ob.concatErr != nil {
			return "", bad("stream-not-concatenable", "the streamed form does not concatenate: %v; chunks %s [%s]", ob.concatErr, renderChunks(ob.chunks), order)
		}
		if got := renderMsgs(ob.msgs); got != wantS {
			return "", bad("stream-"+classify(ob.msgs, sp, n), "the streamed form concatenates to %s, want %s; chunks %s [%s]", got, wantS, renderChunks(ob.chunks), order)
		}
	} else if got := renderMsgs(ob.msgs); got != wantS {
		return "", bad("invoke-"+classify(ob.msgs, sp, n), "Invoke returned %s, want %s [%s]", got, wantS, order)
	}
	if sp.host == "fanout" {
		if !ob.secondSet {
			return "", bad("fanout-second-consumer-not-run", "the second consumer of the tools node's stream never ran [%s]", order)
		}
		if got := renderMsgs(ob.second); got != wantS {
			return "", bad("fanout-second-"+classify(ob.second, sp, n), "the second consumer of the tools node's stream received %s, want %s (the first one received %s) [%s]", got, wantS, renderMsgs(ob.msgs), order)
		}
	}
	if len(w.finished) != n {
		// not demanded by the statement as such, but a success with a tool still running means the
		// answer was not produced by that call: cannot happen when the contents above are right.
		return "", bad("returned-early", "the call returned a full answer while only %d of %d tool bodies had finished [%s]", len(w.finished), n, order)
	}
	return "ok " + order, nil
}

// effFail is the configured failure of an actor ("" = none). A mid-stream error exists only for
// streamable-only tools, whose streamable arm serves Invoke (through concatenation) as well as Stream.
func (sp *spec) effFail(name string) string {
	if fl := sp.fail[name]; fl != "" {
		return fl
	}
	return fOK
}

func classify(ms []*schema.Message, sp *spec, n int) string {
	if len(ms) != n {
		return "wrong-count"
	}
	for i, m := range ms {
		if m == nil {
			return "missing-answer"
		}
		if m.ToolCallID != callID(i) {
			return "id-misplaced"
		}
	}
	for i, m := range ms {
		if m.Content != f(wireName(sp.calls, i), callArgs(i)) {
			return "wrong-content"
		}
	}
	return "wrong-message"
}

func renderChunks(cs [][]*schema.Message) string {
	var p []string
	for _, c := range cs {
		p = append(p, renderMsgs(c))
	}
	return strings.Join(p, "+")
}

func firstLine(s string) string {
	if i := strings.Index(s, "\n"); i >= 0 {
		s = s[:i]
	}
	if len(s) > 300 {
		s = s[:300]
	}
	return s
}

// ---------------------------------------------------------------------------------------------------
// enumeration

func callLists() [][]string {
	alpha := []string{"t1", "t2", unknownName}
	var out [][]string
	var rec func(cur []string, n int)
	rec = func(cur []string, n int) {
		if len(cur) == n {
			out = append(out, append([]string(nil), cur...))
			return
		}
		for _, a := range alpha {
			rec(append(cur, a), n)
		}
	}
	for n := 1; n <= 3; n++ {
		rec(nil, n)
	}
	return out
}

// assignments enumerates all maps keys -> values (keys in order, first key most significant).
func assignments(keys []string, values func(k string) []string) []map[string]string {
	out := []map[string]string{{}}
	for _, k := range keys {
		var next []map[string]string
		for _, m := range out {
			for _, v := range values(k) {
				c := map[string]string{}
				for a, b := range m {
					c[a] = b
				}
				c[k] = v
				next = append(next, c)
			}
		}
		out = next
	}
	return out
}

func renderMap(keys []string, m map[string]string) string {
	var p []string
	for _, k := range keys {
		if v, ok := m[k]; ok {
			p = append(p, k+"="+v)
		}
	}
	return strings.Join(p, ",")
}

// features of a scenario the menus are written in
type feat struct {
	n        int
	used     []string // registered tools that are called
	actors   []string // bodies that run: called tools and, if it is configured and an unknown name is called, the handler
	hasU     bool
	rejected bool // unknown name without handler: rejected before any tool runs
	nFail    int  // actors failing in any way
	nMid     int  // ... of which mid-stream
	merge    bool // a Stream call that gets as far as merging >= 2 per-call streams (forwarder goroutines, select)
	async    bool // some called tool answers from a producer goroutine of its own
	twoChunk bool // some called tool streams two chunks in this mode (merge cost grows with the chunk count)
	allYield bool
	noYield  bool
	kindPat  string // "inv", "s2", ... if uniform, else "t1kind,t2kind"
	uniform  bool
}

func features(sp *spec) feat {
	ft := feat{n: len(sp.calls)}
	for _, tn := range toolNames {
		for _, cl := range sp.calls {
			if cl == tn {
				ft.used = append(ft.used, tn)
				break
			}
		}
	}
	for _, cl := range sp.calls {
		if cl == unknownName {
			ft.hasU = true
		}
	}
	ft.actors = append(ft.actors, ft.used...)
	if ft.hasU && sp.handler {
		ft.actors = append(ft.actors, unknownName)
	}
	ft.rejected = ft.hasU && !sp.handler
	ft.allYield, ft.noYield = true, true
	hard := 0
	for _, a := range ft.actors {
		switch sp.fail[a] {
		case fErr, fPanic, fBoth:
			ft.nFail++
			hard++
		case fMid:
			ft.nFail++
			ft.nMid++
		}
		if sp.yield[a] > 0 {
			ft.noYield = false
		} else {
			ft.allYield = false
		}
	}
	ft.merge = sp.mode == "stream" && !ft.rejected && hard == 0 && ft.n >= 2
	var ks []string
	ft.uniform = true
	for _, u := range ft.used {
		ks = append(ks, sp.kind[u])
		if sp.kind[u] != sp.kind[ft.used[0]] {
			ft.uniform = false
		}
		if sp.kind[u] == kAsync {
			ft.async = true
		}
		if sp.mode == "stream" && (sp.kind[u] == kS2 || sp.kind[u] == kBoth || sp.kind[u] == kAsync) {
			ft.twoChunk = true
		}
	}
	switch {
	case len(ks) == 0:
		ft.kindPat = "-"
	case ft.uniform:
		ft.kindPat = ks[0]
	default:
		ft.kindPat = strings.Join(ks, ",")
	}
	return ft
}

func (ft feat) kindIn(pats ...string) bool {
	if len(ft.used) == 0 {
		return true
	}
	for _, p := range pats {
		if ft.kindPat == p {
			return true
		}
	}
	return false
}

var mainKindPatterns = []string{kInv, kS2, kBoth, kS1, kInv + "," + kS2, kS1 + "," + kBoth}

// pb2StreamLists are the three-call lists whose Stream merge is explored up to two preemptions in the quick tier.
var pb2StreamLists = map[string]bool{"t1+t2+t1": true, "u+t1+t2": true, "t2+t2+t2": true}

// menu decides whether the scenario belongs to the tier and with which preemption bounds.
// The cost of a scenario is dominated by the merge of the per-call streams (one forwarder goroutine per call,
// every arrival order of the chunks is an explored select choice): three merged streams are affordable only
// at small bounds, everything else is cheap.
func menu(sp *spec, quick bool) (bool, []int) {
	ft := features(sp)
	if ft.async {
		// tools with a producer of their own: success path of one- and two-call lists, bare node and inside a graph
		ok := !sp.handler && !ft.hasU && ft.nFail == 0 && ft.allYield && ft.n <= 2 && (sp.host == "direct" || sp.host == "graph") &&
			ft.kindIn(kAsync, kAsync+","+kInv, kInv+","+kAsync, kAsync+","+kS2)
		if quick {
			return ok, []int{0, 1}
		}
		return ok, []int{0, 1, 2}
	}
	if sp.listHost() {
		// tools given per call: two-call lists, success and one failing tool, no handler
		ok := !sp.handler && !ft.hasU && ft.n == 2 && ft.allYield && ft.nFail <= 1 && ft.nMid == 0 && ft.kindIn(kInv, kS2, kBoth)
		return ok, []int{0, 1}
	}
	if sp.host == "fanout" {
		// two consumers of the streamed answers: success path of two-call lists, Stream only
		ok := sp.mode == "stream" && !sp.handler && !ft.hasU && ft.nFail == 0 && ft.n == 2 && ft.noYield && ft.kindIn(kInv, kS2, kInv+","+kS2)
		return ok, []int{0, 1}
	}
	list := strings.Join(sp.calls, "+")
	full := []int{0, 1, 2}
	if !quick {
		full = []int{0, 1, 2, 3, -1}
	}
	// a handler that is configured but never needed: only the plain success path
	if sp.handler && !ft.hasU {
		if ft.nFail > 0 || !ft.allYield || !ft.kindIn(kInv, kS2) || (quick && ft.n > 2) {
			return false, nil
		}
	}
	if ft.merge && ft.n == 3 {
		if !ft.allYield || !ft.kindIn(mainKindPatterns...) || ft.nMid > 1 {
			return false, nil
		}
		single := !ft.twoChunk && ft.nMid == 0 // every merged stream carries one chunk
		if quick {
			switch {
			case single && ft.kindIn(kInv) && sp.host == "direct" && pb2StreamLists[list]:
				return true, []int{0, 1, 2}
			case single && ft.kindIn(kInv) && sp.host == "direct":
				return true, []int{0, 1}
			case single && ft.kindIn(kS1) && sp.host == "direct":
				return true, []int{0}
			case single && ft.kindIn(kInv) && pb2StreamLists[list]:
				return true, []int{0, 1}
			case single && ft.kindIn(kInv):
				return true, []int{0}
			case ft.kindIn(kS2) && sp.host == "direct":
				return true, []int{0}
			case ft.kindIn(kS2) && ft.nMid == 0 && pb2StreamLists[list]:
				return true, []int{0}
			}
			return false, nil
		}
		switch {
		case single:
			return true, []int{0, 1, 2}
		case ft.kindIn(kS2, kInv+","+kS2):
			return true, []int{0, 1}
		}
		return true, []int{0}
	}
	if !quick {
		if ft.merge || ft.nMid > 0 {
			// two merged streams, or tools that fill a pipe (channel operations inside the body):
			// unbounded is out of reach
			return true, []int{0, 1, 2, 3}
		}
		return true, full
	}
	// ---- quick tier, cheap scenarios (Invoke; Stream of <= 2 calls; Stream calls that fail before the merge)
	if ft.rejected {
		return ft.allYield && ft.kindIn(kInv, kS2), full
	}
	switch {
	case ft.nFail == 0 && ft.allYield && ft.kindIn(mainKindPatterns...):
		return true, full // every call list, success path
	case ft.nFail == 0 && ft.allYield && (ft.n <= 2 || sp.mode == "invoke"):
		return true, full // every kind assignment
	case ft.nFail > 0 && ft.allYield && (ft.kindIn(kInv, kS2) || (ft.kindIn(kBoth) && ft.n <= 2)):
		return true, full // every subset of failing tools
	case sp.mode == "invoke" && ft.kindIn(kInv) && ft.nFail <= 1:
		return true, full // every yield assignment
	case sp.mode == "stream" && ft.n <= 2 && ft.kindIn(kInv, kS2) && ft.nFail == 0:
		return true, full // every yield assignment, merged streams
	}
	return false, nil
}

func main() {
	c := harness.Init("C17")
	ctx = c
	quick := c.Quick()
	c.Res.Rule = "scenario = call list (length 1-3 over {t1,t2,unknown name}, repeats with different arguments, unique ids) x kind of every called tool (invokable-only, streamable-only 1 or 2 chunks, both, streamable-only with a producer goroutine of its own that honours its context) x failure of every called tool and of the handler (none, error, panic, mid-stream error, an error returned together with a reader) x UnknownToolsHandler present/absent x Invoke/Stream x bare ToolsNode / single node of a compiled graph x yields in tool bodies (0/1 per tool); every interleaving of the calling goroutine, the tool goroutines and (Stream) the merge forwarders within the preemption bound, both map orders for the in-graph variants; distinct/non-trivial = distinct scheduling signatures of scenarios with >= 2 of them; the outcome string carries the completion order of the tool bodies"
	c.Res.Assumptions = []string{
		"sequential consistency at synchronisation granularity; tool bodies are atomic between their explicit yields, framework code between two synchronisation operations is atomic",
		"streamable tools answer from arrays / a pre-filled buffered pipe (no producer goroutine of their own), so a goroutine left blocked can only be the framework's; the one exception is the kind sA, whose producer goroutine (named tool-producer:<tool>) sends through an unbuffered pipe after StreamableRun returned and reports a cancelled context as a stream error",
		"a bare ToolsNode has no enclosing run: a panic of the inline (first) tool reaching its direct caller as a panic is accepted there; inside a graph it must be a run error",
		"when several tools fail, which failure is reported is not specified: any of them is accepted",
		"happens-before state caching is used for Stream scenarios only (stream code is channel-synchronised; task slots are disjoint and read after WaitGroup.Wait; the harness recordings are ordered with vsched.Note); Invoke scenarios are explored without it",
		harness.RacePassAssumption,
	}
	c.Res.Explanation = "stateless exhaustive exploration of real ToolsNode.Invoke/Stream calls (bare and inside a compiled graph) with recording tools; oracle per execution = the statement: N tool messages, the i-th with the i-th call id and f(name_i,args_i); the streamed chunks concatenate position-wise (concatMessageArray semantics) to the same list; a failing tool fails the call with an error that errors.Is its error; a panicking tool gives a run error, no crashed goroutine, no hang, nothing left blocked; an unknown name is an error, or with a handler the handler's answer at that index. " + harness.RacePassExplanation
	if quick {
		c.Res.Notes = append(c.Res.Notes,
			"quick menu (union): (a) every call list x six kind patterns, no failure, all tools yield; (b) every kind assignment for <= 2 calls and for Invoke of 3 calls; (c) every subset of failing tools/handler (error, panic, mid-stream error) with uniform kinds inv / s2 (and both for <= 2 calls); (d) every yield assignment for Invoke with invokable tools and <= 1 failure and for Stream of <= 2 calls; (e) a configured but unneeded handler for <= 2 calls; each x Invoke/Stream x bare node/graph. The thorough tier runs the full product (except: Stream of 3 calls reaching the merge only with all tools yielding, the six kind patterns and <= 1 mid-stream error; an unneeded handler only on the plain success path)",
			"quick bounds: {0,1,2} for every Invoke scenario, every Stream scenario with <= 2 calls and every Stream scenario that fails before the merge; Stream of 3 calls that reaches the merge (all tools yield, uniform kinds only): invokable-only tools on the bare node {0,1} (three lists {0,1,2}), inside a graph {0} (three lists {0,1}); streamable-only tools (one or two chunks, at most one mid-stream error) {0}, two-chunk tools inside a graph for three lists only")
	} else {
		c.Res.Notes = append(c.Res.Notes, "thorough menu: the full product, except that Stream of 3 calls reaching the merge is run only with all tools yielding, six kind patterns and <= 1 mid-stream error, and a configured but unneeded handler only on the plain success path",
			"thorough bounds: {0,1,2,3,unbounded} for every Invoke scenario, every Stream scenario of one call and every Stream scenario that fails before the merge; Stream of 2 calls that reaches the merge and every scenario with a mid-stream error {0,1,2,3}; Stream of 3 calls that reaches the merge (all tools yield, six kind patterns): single-chunk tools {0,1,2}, two-chunk streamable-only tools or a mid-stream error {0,1}, tools implementing both interfaces {0}")
	}

	rp := c.StartRacePass("./checks/c17") // worker 0 only: native -race build of this package, free runs of the scenario bodies
	all := append(append([]string(nil), toolNames...), unknownName)
	var entries []entry
	for _, calls := range callLists() {
		base := features(&spec{calls: calls})
		for _, handler := range []bool{false, true} {
			actors := append([]string(nil), base.used...)
			if base.hasU && handler {
				actors = append(actors, unknownName)
			}
			kinds := assignments(base.used, func(string) []string { return []string{kInv, kS2, kBoth, kS1, kAsync} })
			for _, kind := range kinds {
				fails := assignments(actors, func(k string) []string {
					if base.hasU && !handler {
						return []string{fOK} // rejected before any tool runs: failures are irrelevant
					}
					if k != unknownName && kind[k] == kS2 {
						return []string{fOK, fErr, fPanic, fMid, fBoth}
					}
					return []string{fOK, fErr, fPanic}
				})
				for _, fail := range fails {
					yields := assignments(actors, func(string) []string { return []string{"1", "0"} })
					for _, ym := range yields {
						for _, mode := range []string{"invoke", "stream"} {
							for _, host := range []string{"direct", "graph", "fanout", "direct-list", "graph-list"} {
								sp := &spec{calls: calls, kind: kind, fail: fail, handler: handler, mode: mode, host: host, yield: map[string]int{}}
								for k, v := range ym {
									if v == "1" {
										sp.yield[k] = 1
									}
								}
								ok, bounds := menu(sp, quick)
								if !ok {
									continue
								}
								h := "nohandler"
								if handler {
									h = "handler"
								}
								sp.name = fmt.Sprintf("calls[%s]/%s/%s/%s/kind[%s]/fail[%s]/yield[%s]", strings.Join(calls, "+"), host, mode, h,
									renderMap(all, kind), renderMap(all, fail), renderMap(all, ym))
								sc := harness.Scenario{Name: sp.name, Bounds: bounds, MaxExecs: 3_000_000, New: sp.build,
									OneOrder: host == "direct" || host == "direct-list", // the bare ToolsNode iterates no map; graph runs do
									HBCache:  mode == "stream" && os.Getenv("VERIF_C17_NOHB") == "",
									Signature: func(err error) string {
										var v *violation
										if errors.As(err, &v) {
											return v.sig
										}
										return "other"
									}}
								entries = append(entries, entry{sp: sp, sc: sc, key: nameHash(sp.name)})
							}
						}
					}
				}
			}
		}
	}
	// Workers take scenarios round-robin. Mode and host are the innermost loops (period 4), so with 8 or 16
	// workers the plain enumeration order would hand all in-graph Stream scenarios (the expensive ones) to
	// the same few workers. Keep "fewer calls first" and spread the rest by a hash of the name.
	sort.SliceStable(entries, func(i, j int) bool {
		a, b := entries[i], entries[j]
		if len(a.sp.calls) != len(b.sp.calls) {
			return len(a.sp.calls) < len(b.sp.calls)
		}
		if a.key != b.key {
			return a.key < b.key
		}
		return a.sp.name < b.sp.name
	})
	for _, e := range entries {
		if c.Replay != "" {
			c.ReplayScenario(e.sc)
			continue
		}
		if !c.Mine(e.sp.name) {
			continue
		}
		c.Count("scenarios_"+e.sp.mode+"_"+e.sp.host, 1)
		c.Sample(map[string]any{"scenario": e.sp.name, "bounds": e.sc.Bounds})
		c.Add(e.sc)
	}
	c.ExploreAll()
	rp.Collect()
	c.Finish()
}

type entry struct {
	sp  *spec
	sc  harness.Scenario
	key uint64
}

func nameHash(s string) uint64 {
	h := fnv.New64a()
	h.Write([]byte(s))
	return h.Sum64()
}
