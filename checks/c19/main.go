// C19 — a finished streaming run leaves no blocked producer or goroutine behind (Engine S).
package main

import (
	"context"
	"fmt"
	ucb "github.com/cloudwego/eino/utils/callbacks"
	"io"
	"sort"
	"strings"

	"github.com/cloudwego/eino/callbacks"
	"github.com/cloudwego/eino/compose"
	"github.com/cloudwego/eino/schema"
	"github.com/cloudwego/eino/vsched"

	"verif/lib/gprog"
	"verif/lib/harness"
)

type Val = gprog.Val

// node kinds: how a node produces its output stream and consumes its input
//
//	S  streamable: the framework concatenates the input; a producer thread sends 2 chunks through a Pipe
//	T  transformable: a producer thread drains the input stream, closes it, then sends 2 chunks
//	Tp transformable that reads only the first input chunk, closes the input, then sends 2 chunks
//	I  invokable: value in, value out (the framework drains / boxes)
type spec struct {
	name    string
	prog    *gprog.Prog
	kinds   map[string]string // node path -> kind
	script  gprog.Script
	caller  string // all | one | none   (how much of the output stream the caller reads before Close)
	call    string // stream | transform
	closers bool   // a per-call callback handler that closes every stream copy it is given at once
	helper  bool   // a per-call handler made with utils/callbacks.HandlerHelper from a built handler that has NO stream function
	sbranch bool   // stream branches reading one chunk
	cap     int    // pipe capacity of producers
	chunks  int    // chunks every producer sends (more than all buffers on its way when "long")
	short   string // node whose producer sends ONE chunk only (the merged sources of a fan-in end at different times)

	compiled [2]compose.Runnable[Val, Val]
	cerr     [2]error
}

type world struct {
	started  map[string]int
	finished map[string]int
}

func (sp *spec) producer(w *world, path, key string, in *schema.StreamReader[Val], inVal Val, prefixOnly bool) *schema.StreamReader[Val] {
	sr, sw := schema.Pipe[Val](sp.cap)
	vsched.HLock() // the counters are shared by node goroutines and producers (no-op under the scheduler, a mutex in the race pass)
	w.started[path]++
	vsched.Note(100)
	vsched.HUnlock()
	vsched.GoNamed("prod:"+path, func() {
		acc := Val{}
		for k, v := range inVal {
			acc[k] = v
		}
		if in != nil {
			for {
				c, err := in.Recv()
				if err == io.EOF {
					break
				}
				if err != nil {
					break
				}
				for k, v := range c {
					acc[k] = v
				}
				if prefixOnly {
					break
				}
			}
			in.Close()
		}
		chunks := []Val{{key + "#0": "c0"}, gprog.NodeFn(key, Val{"n": fmt.Sprint(len(acc))})}
		for i := 2; i < sp.chunks; i++ {
			chunks = append(chunks, Val{fmt.Sprintf("%s#%d", key, i): "c"})
		}
		if path == sp.short {
			chunks = chunks[:1]
		}
		for _, c := range chunks {
			if sw.Send(c, nil) {
				break // told that every reader is gone
			}
		}
		sw.Close()
		vsched.HLock()
		w.finished[path]++
		vsched.Note(100)
		vsched.HUnlock()
	})
	return sr
}

func (sp *spec) lambdaFor(w *world) func(path string, n *gprog.Node) *compose.Lambda {
	return func(path string, n *gprog.Node) *compose.Lambda {
		key := n.Key
		switch sp.kinds[path] {
		case "S":
			return compose.StreamableLambda(func(ctx context.Context, in Val) (*schema.StreamReader[Val], error) {
				return sp.producer(w, path, key, nil, in, false), nil
			})
		case "T":
			return compose.TransformableLambda(func(ctx context.Context, in *schema.StreamReader[Val]) (*schema.StreamReader[Val], error) {
				return sp.producer(w, path, key, in, nil, false), nil
			})
		case "Tp":
			return compose.TransformableLambda(func(ctx context.Context, in *schema.StreamReader[Val]) (*schema.StreamReader[Val], error) {
				return sp.producer(w, path, key, in, nil, true), nil
			})
		}
		return compose.InvokableLambda(func(ctx context.Context, in Val) (Val, error) {
			return gprog.NodeFn(key, Val{"n": fmt.Sprint(len(in))}), nil
		})
	}
}

func (sp *spec) runnable(w *world) (compose.Runnable[Val, Val], error) {
	// compiled per execution: the lambdas close over the per-execution world
	bo := &gprog.BuildOpts{Lambda: sp.lambdaFor(w), StreamBranch: sp.sbranch}
	return gprog.Compile(context.Background(), sp.prog, bo)
}

type closer struct{}

func (closer) OnStart(ctx context.Context, i *callbacks.RunInfo, in callbacks.CallbackInput) context.Context {
	return ctx
}
func (closer) OnEnd(ctx context.Context, i *callbacks.RunInfo, out callbacks.CallbackOutput) context.Context {
	return ctx
}
func (closer) OnError(ctx context.Context, i *callbacks.RunInfo, err error) context.Context {
	return ctx
}
func (closer) OnStartWithStreamInput(ctx context.Context, i *callbacks.RunInfo, in *schema.StreamReader[callbacks.CallbackInput]) context.Context {
	in.Close()
	return ctx
}
func (closer) OnEndWithStreamOutput(ctx context.Context, i *callbacks.RunInfo, out *schema.StreamReader[callbacks.CallbackOutput]) context.Context {
	out.Close()
	return ctx
}

// precondition of the statement: every produced value has a consumer (decided on the reference model).
func (sp *spec) everyValueConsumed() (bool, string) {
	o := (&gprog.Model{Script: sp.script}).Run(sp.prog, Val{"in": "x"})
	if o.Err != "" {
		return false, "model run fails: " + o.Err
	}
	return consumed(sp.prog, sp.script)
}

// consumed re-interprets the program structurally: which nodes execute, and whether each executed node's
// output reaches at least one executed node or END (and START's output likewise).
func consumed(p *gprog.Prog, script gprog.Script) (bool, string) {
	// executed set from the model log (lambda nodes) — sub-graphs and pass-throughs are handled by running the
	// model on a copy in which every node is a lambda of the same key
	flat := *p
	flat.Nodes = nil
	for _, n := range p.Nodes {
		flat.Nodes = append(flat.Nodes, gprog.Node{Key: n.Key, Kind: gprog.KLambda})
	}
	m := &gprog.Model{Script: script}
	o := m.Run(&flat, Val{"in": "x"})
	if o.Err != "" {
		return false, "model run fails: " + o.Err
	}
	ran := map[string]bool{gprog.START: true}
	lastStep := map[string]int{}
	for si, st := range o.Steps {
		for _, e := range st {
			ran[e.Path] = true
			lastStep[e.Path] = si
		}
	}
	// decisions: which branch targets were selected per source
	sel := map[string]map[string]bool{}
	di := 0
	for _, d := range o.Decisions {
		// key format path#idx@occ
		src := d.Key[:strings.Index(d.Key, "#")]
		bi := 0
		for i := range p.Branches {
			b := &p.Branches[i]
			if b.From != src {
				continue
			}
			idx := strings.TrimSuffix(strings.SplitN(d.Key, "#", 2)[1], d.Key[strings.Index(d.Key, "@"):])
			if fmt.Sprint(bi) == idx {
				if sel[src] == nil {
					sel[src] = map[string]bool{}
				}
				if b.Multi {
					any := false
					for ti, t := range b.Targets {
						if d.Ans&(1<<ti) != 0 {
							sel[src][t] = true
							any = true
						}
					}
					if !any {
						return false, "a multi-branch selects nothing"
					}
				} else {
					a := d.Ans
					if a >= len(b.Targets) {
						a = 0
					}
					sel[src][b.Targets[a]] = true
				}
			}
			bi++
		}
		di++
	}
	ranOrEnd := func(t string) bool { return t == gprog.END || ran[t] }
	for src := range ran {
		has := false
		for _, e := range p.Edges {
			if e.From == src && !e.NoData {
				if !ranOrEnd(e.To) {
					return false, fmt.Sprintf("%s's output is sent to %s which never runs", src, e.To)
				}
				has = true
			}
		}
		for _, b := range p.Branches {
			if b.From == src {
				for t := range sel[src] {
					if contains(b.Targets, t) {
						if !ranOrEnd(t) {
							return false, fmt.Sprintf("%s's output is routed to %s which never runs", src, t)
						}
						has = true
					}
				}
			}
		}
		if !has && src != gprog.START {
			return false, fmt.Sprintf("%s's output has no consumer", src)
		}
	}
	if p.Mode == gprog.MPregel {
		// END must be reached in a step where nothing else is scheduled: every node of the last step feeds END only
		if len(o.Steps) > 0 {
			last := o.Steps[len(o.Steps)-1]
			for _, e := range last {
				for _, ed := range p.Edges {
					if ed.From == e.Path && ed.To != gprog.END {
						return false, fmt.Sprintf("END is reached while %s is still scheduled", ed.To)
					}
				}
				for t := range sel[e.Path] {
					if t != gprog.END {
						return false, fmt.Sprintf("END is reached while %s is still scheduled", t)
					}
				}
			}
		}
	}
	return true, ""
}

func contains(xs []string, x string) bool {
	for _, y := range xs {
		if x == y {
			return true
		}
	}
	return false
}

func (sp *spec) build() (func(), func(x *vsched.Exec) (string, error)) {
	w := &world{started: map[string]int{}, finished: map[string]int{}}
	var runErr error
	got := 0
	callerDone := false
	main := func() {
		r, err := sp.runnable(w)
		if err != nil {
			runErr = fmt.Errorf("compile: %w", err)
			return
		}
		rec := gprog.NewRun(sp.script)
		ctx := gprog.WithRun(context.Background(), rec)
		var opts []compose.Option
		if sp.closers {
			opts = append(opts, compose.WithCallbacks(closer{}))
		}
		if sp.helper {
			// the handler only wants OnEnd of non-stream runs: for stream events it is not needed, nobody must be left
			// holding a stream copy on its behalf
			h := callbacks.NewHandlerBuilder().OnEndFn(func(ctx context.Context, i *callbacks.RunInfo, out callbacks.CallbackOutput) context.Context {
				return ctx
			}).Build()
			opts = append(opts, compose.WithCallbacks(ucb.NewHandlerHelper().Graph(h).Lambda(h).Chain(h).Handler()))
		}
		var sr *schema.StreamReader[Val]
		if sp.call == "transform" {
			in := sp.producer(w, "caller-input", "in", nil, Val{"in": "x"}, false)
			sr, err = r.Transform(ctx, in, opts...)
		} else {
			sr, err = r.Stream(ctx, Val{"in": "x"}, opts...)
		}
		if err != nil {
			runErr = err
			callerDone = true
			return
		}
		switch sp.caller {
		case "all":
			for {
				_, e := sr.Recv()
				if e == io.EOF {
					break
				}
				if e != nil {
					runErr = e
					break
				}
				got++
			}
		case "one":
			if _, e := sr.Recv(); e == nil {
				got++
			}
		case "few":
			for i := 0; i < 3; i++ {
				if _, e := sr.Recv(); e != nil {
					break
				}
				got++
			}
		}
		sr.Close()
		callerDone = true
	}
	check := func(x *vsched.Exec) (string, error) {
		if x.MainPanic != "" || x.ThreadPanic != "" {
			return "", fmt.Errorf("panic: %s%s", x.MainPanic, x.ThreadPanic)
		}
		if x.Deadlock {
			return "", fmt.Errorf("the run hangs: %v", x.Blocked)
		}
		if runErr != nil {
			return "", fmt.Errorf("run failed: %v", runErr)
		}
		if !callerDone {
			return "", fmt.Errorf("caller did not finish")
		}
		if len(x.Blocked) > 0 {
			return "", fmt.Errorf("after the run completed and the caller closed its stream, goroutines stay blocked forever: %v", x.Blocked)
		}
		var ps []string
		for p, n := range w.started {
			if w.finished[p] != n {
				return "", fmt.Errorf("producer of %s started %d time(s) but finished %d", p, n, w.finished[p])
			}
			ps = append(ps, p)
		}
		sort.Strings(ps)
		return fmt.Sprintf("producers=%v got=%d", ps, got), nil
	}
	return main, check
}

func L(keys ...string) []gprog.Node {
	var ns []gprog.Node
	for _, k := range keys {
		ns = append(ns, gprog.Node{Key: k, Kind: gprog.KLambda})
	}
	return ns
}

func E(pairs ...string) []gprog.Edge {
	var es []gprog.Edge
	for _, p := range pairs {
		ft := strings.Split(p, ">")
		es = append(es, gprog.Edge{From: ft[0], To: ft[1]})
	}
	return es
}

func shapes() map[string]*gprog.Prog {
	subLin := func(mode string) *gprog.Prog {
		return &gprog.Prog{Mode: mode, Nodes: L("x", "y"), Edges: E("start>x", "x>y", "y>end")}
	}
	return map[string]*gprog.Prog{
		"dag-lin2":        {Mode: gprog.MDag, Nodes: L("a", "b"), Edges: E("start>a", "a>b", "b>end")},
		"pregel-lin2":     {Mode: gprog.MPregel, Nodes: L("a", "b"), Edges: E("start>a", "a>b", "b>end")},
		"dag-fan":         {Mode: gprog.MDag, Nodes: L("a", "b"), Edges: E("start>a", "start>b", "a>end", "b>end")},
		"pregel-fan":      {Mode: gprog.MPregel, Nodes: L("a", "b"), Edges: E("start>a", "start>b", "a>end", "b>end")},
		"wf-fan":          {Mode: gprog.MWorkflow, Nodes: L("a", "b"), Edges: E("start>a", "start>b", "a>end", "b>end")},
		"dag-copyjoin":    {Mode: gprog.MDag, Nodes: L("a", "b", "c"), Edges: E("start>a", "a>b", "a>c", "b>end", "c>end")},
		"wf-copyjoin":     {Mode: gprog.MWorkflow, Nodes: L("a", "b", "c"), Edges: E("start>a", "a>b", "a>c", "b>end", "c>end")},
		"dag-branch":      {Mode: gprog.MDag, Nodes: L("a", "b", "c"), Edges: E("start>a", "b>end", "c>end"), Branches: []gprog.Branch{{From: "a", Targets: []string{"b", "c"}}}},
		"pregel-branch":   {Mode: gprog.MPregel, Nodes: L("a", "b"), Edges: E("start>a", "b>end"), Branches: []gprog.Branch{{From: "a", Targets: []string{"b", "end"}}}},
		"dag-edge+branch": {Mode: gprog.MDag, Nodes: L("a", "b", "c"), Edges: E("start>a", "a>c", "b>end", "c>end"), Branches: []gprog.Branch{{From: "a", Targets: []string{"b", "end"}}}},
		// Workflow branches carry control only: the branch's copy of a's stream goes to a target that takes its data elsewhere
		"wf-branch-nodata": {Mode: gprog.MWorkflow, Nodes: L("a", "b"), Edges: []gprog.Edge{{From: "start", To: "a"}, {From: "start", To: "b", NoControl: true}, {From: "b", To: "end"}, {From: "a", To: "end", NoControl: true}}, Branches: []gprog.Branch{{From: "a", Targets: []string{"b", "end"}}}},
		// ... or takes no data at all (its input is empty)
		"wf-branch-noinput": {Mode: gprog.MWorkflow, Nodes: L("a", "b"), Edges: []gprog.Edge{{From: "start", To: "a"}, {From: "b", To: "end"}, {From: "a", To: "end", NoControl: true}}, Branches: []gprog.Branch{{From: "a", Targets: []string{"b", "end"}}}},
		// ... or also takes a's data through a data-only input
		"wf-branch-data": {Mode: gprog.MWorkflow, Nodes: L("a", "b"), Edges: []gprog.Edge{{From: "start", To: "a"}, {From: "a", To: "b", NoControl: true}, {From: "b", To: "end"}, {From: "a", To: "end", NoControl: true}}, Branches: []gprog.Branch{{From: "a", Targets: []string{"b", "end"}}}},
		"dag-pass":       {Mode: gprog.MDag, Nodes: []gprog.Node{{Key: "p", Kind: gprog.KPass}, {Key: "a", Kind: gprog.KLambda}}, Edges: E("start>p", "p>a", "a>end")},
		"dag-sub":        {Mode: gprog.MDag, Nodes: []gprog.Node{{Key: "s", Kind: gprog.KSub, Sub: subLin(gprog.MDag)}, {Key: "a", Kind: gprog.KLambda}}, Edges: E("start>s", "s>a", "a>end")},
		"pregel-sub":     {Mode: gprog.MPregel, Nodes: []gprog.Node{{Key: "s", Kind: gprog.KSub, Sub: subLin(gprog.MPregel)}}, Edges: E("start>s", "s>end")},
	}
}

func lambdaPaths(p *gprog.Prog, prefix string, out *[]string) {
	for _, n := range p.Nodes {
		np := n.Key
		if prefix != "" {
			np = prefix + "/" + n.Key
		}
		switch n.Kind {
		case gprog.KSub:
			lambdaPaths(n.Sub, np, out)
		case gprog.KPass:
		default:
			*out = append(*out, np)
		}
	}
}

var heavy = map[string]bool{"pregel-fan": true, "dag-fan": true, "wf-fan": true, "dag-copyjoin": true, "dag-edge+branch": true, "wf-copyjoin": true}

func main() {
	c := harness.Init("C19")
	c.Res.Rule = "scenario = acyclic all-predecessor / Workflow shape or Pregel shape that reaches END with nothing else scheduled (linear, fan-in at END, fan-out copy + join, branch with a skipped target, edge + branch from one node, pass-through, nested graph) x assignment of real streaming producers to nodes (streamable / transformable draining its input / transformable reading only a prefix / invokable; each producer is a thread sending 2 chunks through a Pipe of capacity 0 or 1) x branch outcomes x stream branches reading one chunk x how much the caller reads (all / one chunk / nothing) before Close x Stream / Transform (streamed input with its own producer) x a callback handler that closes its stream copies at once; histories outside the statement's precondition (a produced value without consumer, decided on the reference model) are run but not judged; every interleaving within the preemption bound; distinct/non-trivial = distinct scheduling signatures of scenarios with >= 2 of them"
	c.Res.Assumptions = []string{
		"harness obligations: every producer stops when Send reports closed and closes its writer; every transformable node closes its input; stream branches close their input; the caller always closes the output stream",
		"happens-before state caching is on: stream and task-manager code is synchronised through channels, mutexes, Once and atomics (shared harness counters are ordered with vsched.Note)",
		harness.RacePassAssumption,
	}
	c.Res.Explanation = "stateless exhaustive exploration of real streaming runs with producer threads; oracle at quiescence after the caller closed its stream: no managed thread is blocked (exact, from the scheduler's thread table), every started producer finished (it was told 'closed' or sent everything), no deadlock, no panic. " + harness.RacePassExplanation
	quick := c.Quick()
	rp := c.StartRacePass("./checks/c19") // worker 0 only: native -race build of this package, free runs of the scenario bodies
	sh := shapes()
	bounds := []int{0, 1, 2}
	if !quick {
		bounds = []int{0, 1, 2, 3}
	}
	for _, sn := range harness.SortedKeys(sh) {
		p := sh[sn]
		if quick && sn == "wf-copyjoin" {
			continue // 8 threads (eager start + field-mapping forwarders): thorough tier only
		}
		var paths []string
		lambdaPaths(p, "", &paths)
		sort.Strings(paths)
		// kind assignments: uniform S / T, one prefix-reader or one invokable at each position among T / S
		type ka struct {
			tag string
			m   map[string]string
		}
		var kas []ka
		uni := func(k string) map[string]string {
			m := map[string]string{}
			for _, pa := range paths {
				m[pa] = k
			}
			return m
		}
		kas = append(kas, ka{"allS", uni("S")}, ka{"allT", uni("T")}, ka{"allTp", uni("Tp")})
		for _, pa := range paths {
			m := uni("T")
			m[pa] = "Tp"
			kas = append(kas, ka{"Tp@" + pa, m})
			m2 := uni("S")
			m2[pa] = "I"
			kas = append(kas, ka{"I@" + pa, m2})
			if !quick {
				m3 := uni("T")
				m3[pa] = "S"
				kas = append(kas, ka{"S@" + pa + "+T", m3})
			}
		}
		// branch outcomes
		scripts := []gprog.Script{{}}
		if len(p.Branches) > 0 {
			scripts = nil
			gprog.AllScripts(p, Val{"in": "x"}, 16, nil, func(s gprog.Script, o *gprog.Outcome) bool {
				scripts = append(scripts, s)
				return true
			})
		}
		for _, k := range kas {
			for si, script := range scripts {
				for _, caller := range []string{"all", "one", "none"} {
					for _, variant := range []string{"plain", "closers", "sbranch", "transform", "cap0", "long", "unequal", "helper"} {
						if variant == "helper" && !((sn == "dag-lin2" || sn == "pregel-lin2" || sn == "dag-fan") && caller == "one" && (k.tag == "allS" || k.tag == "allT")) {
							continue
						}
						if variant == "unequal" && !((sn == "dag-fan" || sn == "pregel-fan" || sn == "wf-fan") && caller == "one") {
							continue // fan-in of two streams: one source ends after one chunk, the other is long; the caller reads a few chunks
						}
						if variant == "long" && caller == "all" {
							continue // long producers matter when the caller stops early: they must be told 'closed'
						}
						if variant == "sbranch" && len(p.Branches) == 0 {
							continue
						}
						if quick && variant != "plain" && !(k.tag == "allT" || k.tag == "allS" || (k.tag == "allTp" && variant == "long")) {
							continue
						}
						if quick && variant == "cap0" && caller != "one" {
							continue
						}
						if quick && heavy[sn] {
							// >= 6 threads: a lean menu in the quick tier (the full one runs in thorough)
							if !(k.tag == "allT" || k.tag == "allS" || (k.tag == "allTp" && variant == "long")) || (caller == "none" && variant != "long") || !(variant == "plain" || variant == "closers" || variant == "long" || variant == "unequal" || variant == "helper") {
								continue
							}
							// handlers that close their copies add a copy + forwarder per node: only the two fan shapes, one caller
							if variant == "closers" && !((sn == "dag-fan" || sn == "pregel-fan") && caller == "one") {
								continue
							}
						}
						sp := &spec{prog: p, kinds: k.m, script: script, caller: caller, call: "stream", cap: 1, chunks: 2}
						switch variant {
						case "closers":
							sp.closers = true
						case "sbranch":
							sp.sbranch = true
						case "transform":
							sp.call = "transform"
						case "cap0":
							sp.cap = 0
						case "long":
							// nobody drains: prefix-reading stream branches, more chunks than all buffers on the way
							sp.chunks = 9
							sp.sbranch = len(p.Branches) > 0
						case "helper":
							sp.helper = true
							sp.chunks = 9
						case "unequal":
							sp.chunks = 9
							sp.short = "a"
							sp.caller = "few"
						}
						sp.name = fmt.Sprintf("%s/%s/script%d/caller-%s/%s", sn, k.tag, si, caller, variant)
						ok, why := sp.everyValueConsumed()
						if !ok {
							c.Count("histories_outside_precondition", 1)
							_ = why
							continue
						}
						b := bounds
						if heavy[sn] {
							b = bounds[:len(bounds)-1] // >= 6 threads: one bound less
						}
						if p.Mode == gprog.MWorkflow || sn == "dag-copyjoin" || sn == "dag-edge+branch" || (heavy[sn] && variant == "closers") {
							b = bounds[:len(bounds)-2] // 7+ threads: two bounds less
						}
						if (variant == "long" || variant == "unequal" || variant == "helper") && len(b) > 2 {
							b = b[:2] // long executions: bounds 0 and 1
						}
						sc := harness.Scenario{Name: sp.name, Bounds: b, MaxExecs: 400_000, HBCache: true, New: sp.build}
						if c.Replay != "" {
							c.ReplayScenario(sc)
							continue
						}
						if !c.Mine(sp.name) {
							continue
						}
						c.Sample(map[string]any{"scenario": sp.name, "program": p.String(), "kinds": k.m, "bounds": bounds})
						c.Add(sc)
					}
				}
			}
		}
	}
	c.ExploreAll()
	rp.Collect()
	c.Finish()
}
