package main

// Reference model: the unfolding of a script, written from the statement of C18.

import (
	"fmt"
	"sort"
	"strings"

	"github.com/cloudwego/eino/schema"
)

type Config struct {
	Tools       int  `json:"tools"`        // 1: {t1}; 2: {t1,t2}
	RD          bool `json:"rd"`           // ToolReturnDirectly = {t2}
	Handler     bool `json:"handler"`      // UnknownToolsHandler configured
	MaxStep     int  `json:"max_step"`     // 0 = default
	Modifier    bool `json:"modifier"`     // MessageModifier prepending a system message
	StreamTools bool `json:"stream_tools"` // tools are streamable-only (two chunks) instead of invokable-only
	Deprecated  bool `json:"deprecated"`   // scripted model given as AgentConfig.Model instead of ToolCallingModel
}

func b2i(b bool) int {
	if b {
		return 1
	}
	return 0
}

func (c Config) String() string {
	return fmt.Sprintf("ts%d.rd%d.h%d.ms%d.mod%d.st%d.dep%d", c.Tools, b2i(c.RD), b2i(c.Handler), c.MaxStep, b2i(c.Modifier), b2i(c.StreamTools), b2i(c.Deprecated))
}

// flowKey is the part of the configuration the unfolding depends on.
func (c Config) flowKey() string {
	return fmt.Sprintf("ts%d.rd%d.h%d.ms%d", c.Tools, b2i(c.RD), b2i(c.Handler), c.MaxStep)
}

func (c Config) known(name string) bool { return name == "t1" || (name == "t2" && c.Tools == 2) }

// returnsDirectly: the call is to an existing tool marked return-directly.
func (c Config) returnsDirectly(name string) bool { return c.RD && name == "t2" && c.Tools == 2 }

// defaultModelCallCap: with MaxStep 0 the documented default is "12 steps in pregel (node num + 10)"; the
// graph has 2 or 3 nodes, model and tools are separate steps, so whatever the exact default is no more
// than ceil(13/2) = 7 model calls fit.
const defaultModelCallCap = 7

// the original messages of every run
func originalMessages() []*schema.Message {
	return []*schema.Message{schema.SystemMessage("sys0"), schema.UserMessage("question")}
}

const (
	outFinal    = "final"         // first assistant message without tool calls
	outRD       = "return-direct" // result of a tool marked return-directly
	outUnknown  = "unknown-tool"  // a call to an unknown tool without handler: the run fails
	outLimit    = "step-limit"    // the step limit strikes first
	outBoundary = "rd-or-limit"   // statement and AgentConfig doc do not settle it (see Notes): either
)

type Expect struct {
	Inputs   [][]string // expected input of the k-th model call (history only; the modifier's system message is added by the comparison)
	ExecSets [][]string // per turn k (index k-1): the calls of that turn as execution texts, sorted
	ExecMode []string   // per turn: exact | subset
	Outcome  string
	Results  []string // acceptable rendered results (final: 1; return-direct: one per return-directly call of the turn)
	States   []string // model unfolding states (for the statistic)
}

func toolMsg(c Config, name, args, id string) *schema.Message {
	if c.known(name) {
		return schema.ToolMessage(toolResult(name, args), id)
	}
	return schema.ToolMessage(unknownResult(name, args), id)
}

func execOf(c Config, name, args string) string {
	if c.known(name) {
		return execText(name, args)
	}
	return execText("unknown:"+name, args)
}

// stepAllowed: MaxStep counts pregel steps, the model and the tools are separate steps: the k-th model
// call is step 2k-1, the tools of turn k are step 2k.
func stepAllowed(c Config, step int) bool { return c.MaxStep == 0 || step <= c.MaxStep }

// unfold runs the reference model.
func unfold(c Config, s *Script) *Expect {
	e := &Expect{}
	hist := renderAll(originalMessages())
	for k := 1; ; k++ {
		if !stepAllowed(c, 2*k-1) || (c.MaxStep == 0 && k > defaultModelCallCap) {
			e.Outcome = outLimit
			return e
		}
		e.Inputs = append(e.Inputs, append([]string(nil), hist...))
		e.States = append(e.States, c.flowKey()+"|"+strings.Join(hist, ";"))
		t := s.turn(k)
		asst := turnMessage(t, k)
		if len(t.Calls) == 0 {
			e.Outcome = outFinal
			e.Results = []string{render(asst)}
			return e
		}
		var set []string
		for _, tc := range asst.ToolCalls {
			set = append(set, execOf(c, tc.Function.Name, tc.Function.Arguments))
		}
		sort.Strings(set)
		e.ExecSets = append(e.ExecSets, set)
		e.ExecMode = append(e.ExecMode, "subset")
		if !stepAllowed(c, 2*k) {
			e.Outcome = outLimit
			return e
		}
		hist = append(hist, render(asst))
		unknown := false
		var results, rd []string
		for _, tc := range asst.ToolCalls {
			if !c.known(tc.Function.Name) && !c.Handler {
				unknown = true
			}
			r := render(toolMsg(c, tc.Function.Name, tc.Function.Arguments, tc.ID))
			results = append(results, r)
			if c.returnsDirectly(tc.Function.Name) {
				rd = append(rd, r)
			}
		}
		if unknown {
			e.Outcome = outUnknown
			return e
		}
		if len(rd) > 0 {
			e.Results = rd
			e.Outcome = outRD
			if !stepAllowed(c, 2*k+1) {
				// the implementation needs one more graph step to hand the tool result out; AgentConfig
				// documents MaxStep as pregel steps without saying that; the statement is silent
				e.Outcome = outBoundary
			}
			return e
		}
		if c.MaxStep > 0 || k < defaultModelCallCap-1 {
			// with the default limit the last turns may or may not fit (12 or 13 steps): only "subset" there
			e.ExecMode[k-1] = "exact"
		}
		hist = append(hist, results...)
	}
}

// ---------------------------------------------------------------------------------------------------
// observation and comparison

type Obs struct {
	Mode        string // generate | stream
	ModelInputs [][]string
	Execs       [][]string // per turn
	Class       string     // ok | limit | error
	Result      string     // rendered answer (ok)
	Err         string
	Chunks      int
}

func (o *Obs) answer() string {
	if o.Class == "ok" {
		return "answer " + o.Result
	}
	if o.Class == "limit" {
		return "the step-limit error"
	}
	return "an error that is not the step-limit error (" + firstLine(o.Err) + ")"
}

func firstLine(s string) string {
	if i := strings.Index(s, "goroutine "); i >= 0 { // a recovered panic carries a stack: not deterministic text
		s = s[:i]
	}
	s = strings.TrimSpace(s)
	s = strings.ReplaceAll(s, "\n", " / ")
	if len(s) > 300 {
		s = s[:300] + "..."
	}
	return s
}

// verr is a judged difference; Sig is the class used for known-finding matching.
type verr struct{ Sig, Msg string }

func (v *verr) Error() string { return v.Msg }

func listDiff(exp, got []string) string {
	n := len(exp)
	if len(got) < n {
		n = len(got)
	}
	for i := 0; i < n; i++ {
		if exp[i] != got[i] {
			return fmt.Sprintf("position %d: expected %s, saw %s (expected %d messages %v, saw %d messages %v)", i, exp[i], got[i], len(exp), exp, len(got), got)
		}
	}
	return fmt.Sprintf("expected %d messages %v, saw %d messages %v", len(exp), exp, len(got), got)
}

func eqList(a, b []string) bool {
	if len(a) != len(b) {
		return false
	}
	for i := range a {
		if a[i] != b[i] {
			return false
		}
	}
	return true
}

// subsetOf: multiset inclusion of sorted lists.
func subsetOf(sub, sup []string) bool {
	j := 0
	for _, x := range sub {
		for j < len(sup) && sup[j] < x {
			j++
		}
		if j >= len(sup) || sup[j] != x {
			return false
		}
		j++
	}
	return true
}

// judge compares one run with the unfolding.
func judge(c Config, e *Expect, o *Obs) *verr {
	// 1. every model call saw the expected history
	for k, in := range o.ModelInputs {
		if k >= len(e.Inputs) {
			return &verr{"extra-model-call", fmt.Sprintf("the model was called %d times, the unfolding of the script allows %d calls (outcome %s); input of the extra call: %v", len(o.ModelInputs), len(e.Inputs), e.Outcome, in)}
		}
		exp := e.Inputs[k]
		if c.Modifier {
			exp = append([]string{render(schema.SystemMessage(persona))}, exp...)
		}
		if !eqList(exp, in) {
			return &verr{"model-input", fmt.Sprintf("model call %d did not see the original messages + earlier assistant messages + their tool results: %s", k+1, listDiff(exp, in))}
		}
	}
	// 2. tools ran for the turns that asked for them, once each
	for k := 0; k < len(o.Execs); k++ {
		got := o.Execs[k]
		if k == 0 || k > len(e.ExecSets) {
			if len(got) > 0 {
				return &verr{"tool-exec", fmt.Sprintf("tools ran after model call %d although no tool call was pending: %v", k, got)}
			}
			continue
		}
		switch e.ExecMode[k-1] {
		case "exact":
			if !eqList(e.ExecSets[k-1], got) {
				return &verr{"tool-exec", fmt.Sprintf("tools run for turn %d: expected %v, saw %v", k, e.ExecSets[k-1], got)}
			}
		default:
			if !subsetOf(got, e.ExecSets[k-1]) {
				return &verr{"tool-exec", fmt.Sprintf("tools run for turn %d: expected a subset of %v, saw %v", k, e.ExecSets[k-1], got)}
			}
		}
	}
	// 3. the answer
	switch e.Outcome {
	case outFinal, outRD:
		if o.Class != "ok" {
			sig := "error-instead-of-answer"
			if o.Class == "limit" {
				sig = "step-limit-too-early"
			}
			return &verr{sig, fmt.Sprintf("expected the answer %v (%s), got %s", e.Results, e.Outcome, o.answer())}
		}
		if len(o.ModelInputs) != len(e.Inputs) {
			return &verr{"model-call-count", fmt.Sprintf("the model was called %d times, the unfolding needs %d calls", len(o.ModelInputs), len(e.Inputs))}
		}
		ok := false
		for _, r := range e.Results {
			if r == o.Result {
				ok = true
			}
		}
		if !ok {
			sig := "wrong-final-answer"
			if e.Outcome == outRD {
				sig = "wrong-return-directly-answer"
			}
			return &verr{sig, fmt.Sprintf("expected the answer %v (%s), got %s", e.Results, e.Outcome, o.Result)}
		}
	case outUnknown:
		if o.Class == "ok" {
			return &verr{"answer-instead-of-error", fmt.Sprintf("a call to an unknown tool (no handler) must fail the run, got %s", o.answer())}
		}
		if o.Class == "limit" {
			return &verr{"step-limit-too-early", "a call to an unknown tool (no handler) inside the step limit: expected the tool error, got the step-limit error"}
		}
		if len(o.ModelInputs) != len(e.Inputs) {
			return &verr{"model-call-count", fmt.Sprintf("the run failed after %d model calls, the unknown tool is called in turn %d (%s)", len(o.ModelInputs), len(e.Inputs), firstLine(o.Err))}
		}
	case outLimit:
		if o.Class == "ok" {
			return &verr{"answer-instead-of-step-limit", fmt.Sprintf("the step limit (MaxStep %d) is reached before any answer: expected the step-limit error, got %s", c.MaxStep, o.answer())}
		}
		if o.Class != "limit" {
			return &verr{"other-error-instead-of-step-limit", fmt.Sprintf("the step limit (MaxStep %d) is reached first: expected the step-limit error, got %s", c.MaxStep, o.answer())}
		}
	case outBoundary:
		if o.Class == "error" {
			return &verr{"other-error-instead-of-step-limit", fmt.Sprintf("expected the return-directly answer %v or the step-limit error, got %s", e.Results, o.answer())}
		}
		if o.Class == "ok" {
			ok := false
			for _, r := range e.Results {
				if r == o.Result {
					ok = true
				}
			}
			if !ok {
				return &verr{"wrong-return-directly-answer", fmt.Sprintf("expected the answer %v or the step-limit error, got %s", e.Results, o.Result)}
			}
		}
	}
	return nil
}
