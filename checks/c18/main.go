// C18 — the ReAct agent alternates model and tools faithfully and stops (Engine R).
//
// Every model script within the bound is unfolded by a reference model written from the statement and run on
// the real agent (react.NewAgent, Agent.Generate, Agent.Stream) with a scripted chat model and recording tools.
package main

import (
	"context"
	"encoding/json"
	"errors"
	"fmt"
	"io"
	"os"
	"strings"
	"time"

	"github.com/cloudwego/eino/components/tool"
	"github.com/cloudwego/eino/compose"
	"github.com/cloudwego/eino/flow/agent/react"
	"github.com/cloudwego/eino/schema"

	"verif/lib/harness"
)

type Case struct {
	Cfg    Config `json:"cfg"`
	Script Script `json:"script"`
	// Level of the Stream runs: 2 = six uniform patterns + custom checker + every chunking of the last scripted
	// turn; 1 = six uniform patterns + custom checker; 0 = uniform patterns 0, 4, 5 only.
	Level int `json:"level"`
}

func (cs *Case) String() string { return cs.Cfg.String() + "/" + cs.Script.String() }

// ---------------------------------------------------------------------------------------------------
// running one case on the real agent

func newAgent(c Config, custom bool) (*react.Agent, error) {
	mk := func(name string) tool.BaseTool {
		if c.StreamTools {
			return streamableTool{baseTool{name}}
		}
		return invokableTool{baseTool{name}}
	}
	tools := []tool.BaseTool{mk("t1")}
	if c.Tools == 2 {
		tools = append(tools, mk("t2"))
	}
	ac := &react.AgentConfig{
		ToolsConfig: compose.ToolsNodeConfig{Tools: tools},
		MaxStep:     c.MaxStep,
	}
	if c.Deprecated {
		ac.Model = &deprecatedModel{}
	} else {
		ac.ToolCallingModel = &scriptedModel{}
	}
	if c.Handler {
		ac.ToolsConfig.UnknownToolsHandler = unknownHandler
	}
	if c.RD {
		ac.ToolReturnDirectly = map[string]struct{}{"t2": {}}
	}
	if c.Modifier {
		ac.MessageModifier = prependPersona
	}
	if custom {
		ac.StreamToolCallChecker = wholeStreamChecker
	}
	return react.NewAgent(context.Background(), ac)
}

func isStepLimit(err error) bool {
	// errors.Is is the documented way; the message test keeps C18 independent of whether the graph-run
	// error wrapper can be unwrapped (that is property C13's business)
	return errors.Is(err, compose.ErrExceedMaxSteps) || strings.Contains(err.Error(), compose.ErrExceedMaxSteps.Error())
}

func classify(o *Obs, err error) {
	o.Err = err.Error()
	if isStepLimit(err) {
		o.Class = "limit"
	} else {
		o.Class = "error"
	}
}

func finishObs(o *Obs, rs *runState) {
	rs.mu.Lock()
	defer rs.mu.Unlock()
	o.ModelInputs = rs.modelInputs
	// Execs[k] = tools that ran after the k-th model call and before the next one (k = 0: before any call)
	for k := 0; k <= len(rs.modelInputs); k++ {
		o.Execs = append(o.Execs, rs.execsOfTurn(k))
	}
}

func runGenerate(a *react.Agent, s *Script) *Obs {
	rs := &runState{script: s}
	ctx := context.WithValue(context.Background(), recKey{}, rs)
	o := &Obs{Mode: "generate"}
	msg, err := a.Generate(ctx, originalMessages())
	if err != nil {
		classify(o, err)
	} else {
		o.Class, o.Result = "ok", render(msg)
	}
	finishObs(o, rs)
	return o
}

func runStream(a *react.Agent, s *Script, chunking func(k int, t Turn) []int) *Obs {
	rs := &runState{script: s, chunking: chunking}
	ctx := context.WithValue(context.Background(), recKey{}, rs)
	o := &Obs{Mode: "stream"}
	sr, err := a.Stream(ctx, originalMessages())
	if err != nil {
		classify(o, err)
		finishObs(o, rs)
		return o
	}
	var chunks []*schema.Message
	for {
		m, rerr := sr.Recv()
		if rerr == io.EOF {
			break
		}
		if rerr != nil {
			err = rerr
			break
		}
		chunks = append(chunks, m)
	}
	sr.Close()
	o.Chunks = len(chunks)
	switch {
	case err != nil:
		classify(o, err)
	case len(chunks) == 0:
		o.Class, o.Result = "ok", "<stream without chunks>"
	default:
		msg, cerr := schema.ConcatMessages(chunks)
		if cerr != nil {
			o.Class, o.Result = "ok", "<chunks of the answer do not concatenate: "+firstLine(cerr.Error())+"; chunks "+strings.Join(renderAll(chunks), " ")+">"
		} else {
			o.Class, o.Result = "ok", render(msg)
		}
	}
	finishObs(o, rs)
	return o
}

// streamRun is one Stream execution of a case: which chunking every model answer gets.
type streamRun struct {
	name     string
	custom   bool // needs the custom checker (some chunk sequence breaks the default checker's contract)
	chunking func(k int, t Turn) []int
}

// streamRuns lists the Stream executions of a case, without duplicates.
func streamRuns(cs *Case, e *Expect) []streamRun {
	s := &cs.Script
	calls := len(e.Inputs)
	var out []streamRun
	seen := map[string]bool{}
	add := func(label string, forceCustom bool, f func(k int, t Turn) []int) {
		var key strings.Builder
		custom := forceCustom
		for k := 1; k <= calls; k++ {
			t := s.turn(k)
			v := f(k, t)
			key.WriteString(vecString(v) + "/")
			if !keepsContract(t, v) {
				custom = true
			}
		}
		if custom {
			key.WriteString("custom")
		}
		if seen[key.String()] {
			return
		}
		seen[key.String()] = true
		out = append(out, streamRun{name: label + " chunking " + key.String(), custom: custom, chunking: f})
	}
	for j := 0; j < nPatterns; j++ {
		j := j
		if cs.Level == 0 && (j == 1 || j == 2 || j == 3) {
			continue
		}
		add(fmt.Sprintf("uniform-pattern-%d", j), false, func(_ int, t Turn) []int { return pattern(j, t) })
	}
	if cs.Level >= 1 {
		add("custom-checker", true, func(_ int, t Turn) []int { return pattern(0, t) })
	}
	if cs.Level >= 2 && len(s.Turns) > 0 {
		n := len(s.Turns)
		last := s.Turns[n-1]
		for _, v := range allChunkings(last) {
			v := v
			add("last-turn", false, func(k int, t Turn) []int {
				if k == n || (k > n && s.Loop) {
					return v
				}
				return pattern(0, t)
			})
		}
	}
	return out
}

type caseStats struct {
	runs, custom int
	transitions  int64
	outcome      string
	states       []string
}

// runCase executes every run of the case; the first judged difference is returned.
func runCase(cs *Case, st *caseStats) error {
	e := unfold(cs.Cfg, &cs.Script)
	st.outcome = e.Outcome
	st.states = e.States
	agents := map[bool]*react.Agent{}
	get := func(custom bool) (*react.Agent, error) {
		if a := agents[custom]; a != nil {
			return a, nil
		}
		a, err := newAgent(cs.Cfg, custom)
		if err != nil {
			return nil, &verr{"new-agent", "react.NewAgent failed on a valid configuration: " + firstLine(err.Error())}
		}
		agents[custom] = a
		return a, nil
	}
	count := func(o *Obs) {
		st.runs++
		st.transitions += int64(len(o.ModelInputs))
		for _, x := range o.Execs {
			st.transitions += int64(len(x))
		}
	}
	a, err := get(false)
	if err != nil {
		return err
	}
	g := runGenerate(a, &cs.Script)
	count(g)
	if v := judge(cs.Cfg, e, g); v != nil {
		v.Msg = "Generate: " + v.Msg
		return v
	}
	for _, r := range streamRuns(cs, e) {
		a, err := get(r.custom)
		if err != nil {
			return err
		}
		o := runStream(a, &cs.Script, r.chunking)
		count(o)
		if r.custom {
			st.custom++
		}
		if v := judge(cs.Cfg, e, o); v != nil {
			v.Msg = "Stream (" + r.name + "): " + v.Msg
			return v
		}
		if o.Class != g.Class || o.Result != g.Result {
			return &verr{"generate-vs-stream", fmt.Sprintf("Generate and Stream (%s) disagree: Generate gave %s, Stream gave %s", r.name, g.answer(), o.answer())}
		}
	}
	return nil
}

// ---------------------------------------------------------------------------------------------------
// enumeration

func turnAlphabet() []Turn {
	var out []Turn
	names := []string{"t1", "t2", "unk"}
	var lists [][]string
	lists = append(lists, nil)
	for _, a := range names {
		lists = append(lists, []string{a})
	}
	for _, a := range names {
		for _, b := range names {
			lists = append(lists, []string{a, b})
		}
	}
	for _, l := range lists {
		for _, c := range []bool{false, true} {
			out = append(out, Turn{Content: c, Calls: l})
		}
	}
	return out
}

// continues: after turn k (a turn the model was asked for) the unfolding asks the model again.
func continues(c Config, t Turn, k int) bool {
	if len(t.Calls) == 0 {
		return false
	}
	for _, n := range t.Calls {
		if !c.known(n) && !c.Handler {
			return false
		}
		if c.returnsDirectly(n) {
			return false
		}
	}
	return stepAllowed(c, 2*k) && stepAllowed(c, 2*k+1)
}

// canonical: with the tool set {t1} and no return-directly set, "t2" and "unk" are both just unknown names;
// only the scripts that say "unk" are kept.
func canonicalTurn(c Config, t Turn) bool {
	if c.Tools == 1 && !c.RD {
		for _, n := range t.Calls {
			if n == "t2" {
				return false
			}
		}
	}
	return true
}

// configs lists the configurations run with scripts of n turns (maxTurns = script bound of the tier).
// Deepest level only: the unknown-tool handler is combined with (no modifier, invokable tools) only.
func configs(n, maxTurns int) []Config {
	var out []Config
	bools := []bool{false, true}
	for _, ms := range []int{0, 2, 3, 4} {
		if n >= 1 && ms > 0 && 2*n-1 > ms {
			continue // the n-th model call is never made
		}
		for _, ts := range []int{1, 2} {
			for _, rd := range bools {
				for _, h := range bools {
					if ts == 1 && rd && h {
						continue // "t2" is marked return-directly but is no tool: the statement does not cover it
					}
					for _, mod := range bools {
						for _, st := range bools {
							for _, dep := range bools {
								if dep && n > 1 {
									continue
								}
								if n == maxTurns && h && (mod || st) {
									continue
								}
								out = append(out, Config{Tools: ts, RD: rd, Handler: h, MaxStep: ms, Modifier: mod, StreamTools: st, Deprecated: dep})
							}
						}
					}
				}
			}
		}
	}
	return out
}

// scripts calls yield for every script of exactly n turns whose every turn is reached under c.
func scripts(c Config, n int, loops bool, alphabet []Turn, yield func(Script) bool) {
	var rec func(prefix []Turn) bool
	rec = func(prefix []Turn) bool {
		k := len(prefix) + 1
		if len(prefix) == n {
			s := Script{Turns: append([]Turn(nil), prefix...)}
			if !yield(s) {
				return false
			}
			if loops && n > 0 && continues(c, prefix[n-1], n) {
				s.Loop = true
				return yield(s)
			}
			return true
		}
		for _, t := range alphabet {
			if !canonicalTurn(c, t) {
				continue
			}
			if k < n && !continues(c, t, k) {
				continue
			}
			if !rec(append(prefix, t)) {
				return false
			}
		}
		return true
	}
	rec(nil)
}

func main() {
	c := harness.Init("C18")
	maxTurns, fullCH := 3, 2
	if !c.Quick() {
		maxTurns, fullCH = 4, 3
	}
	c.Res.Rule = fmt.Sprintf("a case is a (configuration, model script) pair. Configuration = tool set {t1}|{t1,t2} x return-directly set {}|{t2} x unknown-tool handler x MaxStep 0|2|3|4 x MessageModifier x invokable-only|streamable-only tools (x ToolCallingModel|deprecated Model for scripts of <=1 turn; for scripts of exactly %[1]d turns the handler is combined with (no modifier, invokable tools) only). Script = n <= %[1]d assistant turns, each with text or not and 0-2 tool calls over {t1,t2,unk}, every turn reached under the configuration (scripts are the paths of the reference model, so nothing follows a final, failing or return-directly turn), optionally (n < %[1]d) repeating its last turn for ever. Cases are distinct as canonical (configuration, script) strings (with tool set {t1} and no return-directly set only 'unk' names an unknown tool). Runs per case: Generate once; Stream under the uniform chunking patterns 0-5 and once with the custom checker (n = %[1]d and looping scripts: patterns 0,4,5 only); and under every chunking into <=3 chunks of the last scripted turn when n < %[2]d and the configuration has (no modifier, invokable tools) or (modifier, streamable tools), or n = %[2]d with no modifier, invokable tools and MaxStep 0 (content-before-tool-call chunkings only with the custom whole-stream checker; not for the deprecated-Model configurations). Non-trivial = the script contains at least one tool call.", maxTurns, fullCH)
	c.Res.Assumptions = []string{
		"the scripted model gives unique non-empty tool-call ids, tool-call chunks carry Index, every chunk carries the assistant role",
		"streamable tools emit two chunks; zero-chunk tool streams are outside the alphabet",
		"the step-limit error is recognised by errors.Is(err, compose.ErrExceedMaxSteps) or by its message (unwrappability is C13's subject)",
		"chunkings of different turns are combined only through the uniform patterns and 'all chunkings of the last scripted turn' (scripts are prefix closed, so every turn position meets every chunking); the full cross product is not run",
	}
	c.Res.Explanation = "Reference model = unfolding of the script: model call k sees original messages + every earlier assistant message + its tool results in call order with the call ids (after the modifier's system message if configured); answer = first assistant message without tool calls, or the result of the return-directly tool; an unknown tool without handler fails the run; MaxStep counts graph steps (model and tools are separate steps) and the step-limit error is demanded when the unfolding needs more; every Stream run must give the same answer as Generate (chunks concatenated with schema.ConcatMessages). The scripted model records a deep copy of its input at call time, tools record (name, arguments) with the index of the preceding model call."
	c.Res.Notes = []string{
		"several return-directly calls in one turn: the statement does not say which result is returned; any of them is accepted (Generate and Stream must still agree)",
		"a return-directly turn whose tools fit in MaxStep but whose hand-out needs one more graph step (MaxStep = 2k): statement and AgentConfig doc are silent; the answer or the step-limit error is accepted",
		"which other tools of a return-directly turn run, and whether tools run in a turn that fails on an unknown tool, is not judged (only: nothing runs that was not called, nothing runs twice)",
		"on step-limit paths only 'no more model calls than MaxStep allows, each with the right input' is demanded, not the exact number of calls; with MaxStep 0 the cap is 7 model calls (default documented as 12 = node num + 10)",
		"tool set {t1} with return-directly {t2} and an unknown-tool handler is not enumerated (a name that is no tool marked return-directly is outside the statement)",
	}

	if v := c.LoadReplay(); v != nil {
		var cs Case
		b, _ := json.Marshal(v.Case)
		if err := json.Unmarshal(b, &cs); err != nil {
			fmt.Println("bad replay case:", err)
			os.Exit(2)
		}
		err := c.Guard(v.Scenario, cs, 120*time.Second, func() error {
			if e := runCase(&cs, &caseStats{}); e != nil {
				return e
			}
			return nil
		})
		c.ReplayExit(v.Scenario, err)
	}

	alphabet := turnAlphabet()
	dry := os.Getenv("C18_DRY") != "" // development aid: count cases and runs without executing them
	stop := false
	for n := 0; n <= maxTurns && !stop; n++ {
		for _, cfg := range configs(n, maxTurns) {
			if stop {
				break
			}
			level := 1
			switch {
			case n == maxTurns:
				level = 0
			case cfg.Deprecated:
			case (n < fullCH && cfg.Modifier == cfg.StreamTools) || (n == fullCH && !cfg.Modifier && !cfg.StreamTools && cfg.MaxStep == 0):
				level = 2
			}
			scripts(cfg, n, n < maxTurns, alphabet, func(s Script) bool {
				cs := &Case{Cfg: cfg, Script: s, Level: level}
				if s.Loop {
					cs.Level = 0 // every model answer is the same turn again: the chunkings of that turn are run on the script without the loop
				}
				name := cs.String()
				if !c.Mine(name) {
					return true
				}
				if c.TimeUp() {
					stop = true
					return false
				}
				if dry {
					e := unfold(cs.Cfg, &cs.Script)
					c.Count(fmt.Sprintf("dry_cases_%d", n), 1)
					c.Count(fmt.Sprintf("dry_runs_%d", n), int64(1+len(streamRuns(cs, e))))
					return true
				}
				c.Journal(name, cs)
				st := &caseStats{}
				err := c.Guard(name, cs, 120*time.Second, func() error {
					if e := runCase(cs, st); e != nil {
						return e
					}
					return nil
				})
				c.Res.Evaluations += int64(st.runs)
				c.Res.Transitions += st.transitions
				c.Count("stream_runs_with_custom_checker", int64(st.custom))
				c.Count(fmt.Sprintf("cases_with_%d_turns", n), 1)
				c.StateStr("case|" + name)
				for _, s := range st.states {
					c.StateStr(s)
				}
				if s.hasToolCall() {
					c.Res.Nontrivial++
				}
				c.Outcome(st.outcome)
				if err != nil {
					sig := "panic"
					var v *verr
					if errors.As(err, &v) {
						sig = v.Sig
					}
					c.Violate(harness.Violation{Scenario: name, Signature: sig, Case: cs, Msg: err.Error()})
					if c.TooManyViolations() {
						stop = true
						return false
					}
					return true
				}
				c.Res.Validated += int64(st.runs)
				if len(s.Turns) >= 2 && s.hasToolCall() {
					c.Sample(cs)
				}
				return true
			})
		}
	}
	c.Finish()
}
