package main

// Scripted chat model, recording tools, message modifier and stream tool-call checker used to drive the real
// ReAct agent. Everything a run observes goes into a *runState that travels in the context passed to
// Agent.Generate / Agent.Stream, so an agent can be reused for several runs of one case.

import (
	"context"
	"fmt"
	"io"
	"sort"
	"strings"
	"sync"

	"github.com/cloudwego/eino/components/model"
	"github.com/cloudwego/eino/components/tool"
	"github.com/cloudwego/eino/schema"
)

type recKey struct{}

// exec is one observed tool execution.
type exec struct {
	AfterCall int // number of model calls made when the tool ran (= index of the turn that requested it)
	Text      string
}

type runState struct {
	script *Script
	// chunking of the k-th model answer in Stream mode (nil / missing: one chunk)
	chunking func(k int, t Turn) []int

	mu          sync.Mutex
	modelInputs [][]string // rendered deep copy of the input of the k-th model call, taken at call time
	execs       []exec
	foreign     []string // anything that should never happen (tool called without a call id ...)
}

func recFrom(ctx context.Context) *runState {
	rs, _ := ctx.Value(recKey{}).(*runState)
	if rs == nil {
		panic("c18 harness: run state missing from the context handed to a component")
	}
	return rs
}

// cloneMsg is the deep copy taken at call time.
func cloneMsg(m *schema.Message) *schema.Message {
	if m == nil {
		return nil
	}
	c := *m
	if m.ToolCalls != nil {
		c.ToolCalls = make([]schema.ToolCall, len(m.ToolCalls))
		copy(c.ToolCalls, m.ToolCalls)
	}
	return &c
}

// render is the canonical text of the fields the property talks about: role, content, the tool calls
// (id, name, arguments, in order) and the tool call id a tool result carries.
func render(m *schema.Message) string {
	if m == nil {
		return "<nil message>"
	}
	var sb strings.Builder
	sb.WriteString(string(m.Role))
	sb.WriteString("{")
	sb.WriteString(m.Content)
	sb.WriteString("}")
	if m.ToolCallID != "" {
		sb.WriteString("@" + m.ToolCallID)
	}
	for _, tc := range m.ToolCalls {
		fmt.Fprintf(&sb, "[%s %s %s]", tc.ID, tc.Function.Name, tc.Function.Arguments)
	}
	return sb.String()
}

func renderAll(ms []*schema.Message) []string {
	out := make([]string, len(ms))
	for i, m := range ms {
		out[i] = render(m)
	}
	return out
}

func (rs *runState) recordModelCall(in []*schema.Message) int {
	cp := make([]*schema.Message, len(in))
	for i, m := range in {
		cp[i] = cloneMsg(m)
	}
	r := renderAll(cp)
	rs.mu.Lock()
	defer rs.mu.Unlock()
	rs.modelInputs = append(rs.modelInputs, r)
	return len(rs.modelInputs)
}

func (rs *runState) recordExec(text string) {
	rs.mu.Lock()
	defer rs.mu.Unlock()
	rs.execs = append(rs.execs, exec{AfterCall: len(rs.modelInputs), Text: text})
}

// execsOfTurn returns the sorted executions observed between model call k and k+1 (tools of one turn run
// in parallel goroutines: their relative order is not part of the property).
func (rs *runState) execsOfTurn(k int) []string {
	var out []string
	for _, e := range rs.execs {
		if e.AfterCall == k {
			out = append(out, e.Text)
		}
	}
	sort.Strings(out)
	return out
}

// ---------------------------------------------------------------------------------------------------
// the scripted model

type scriptedModel struct{ bound int }

func (m *scriptedModel) Generate(ctx context.Context, in []*schema.Message, _ ...model.Option) (*schema.Message, error) {
	rs := recFrom(ctx)
	k := rs.recordModelCall(in)
	return turnMessage(rs.script.turn(k), k), nil
}

func (m *scriptedModel) Stream(ctx context.Context, in []*schema.Message, _ ...model.Option) (*schema.StreamReader[*schema.Message], error) {
	rs := recFrom(ctx)
	k := rs.recordModelCall(in)
	t := rs.script.turn(k)
	var vec []int
	if rs.chunking != nil {
		vec = rs.chunking(k, t)
	}
	return schema.StreamReaderFromArray(turnChunks(t, k, vec)), nil
}

// WithTools makes it a model.ToolCallingChatModel.
func (m *scriptedModel) WithTools(tools []*schema.ToolInfo) (model.ToolCallingChatModel, error) {
	return &scriptedModel{bound: len(tools)}, nil
}

// deprecatedModel is the same script behind the deprecated model.ChatModel interface (BindTools).
type deprecatedModel struct{ scriptedModel }

func (m *deprecatedModel) BindTools(tools []*schema.ToolInfo) error { m.bound = len(tools); return nil }

// ---------------------------------------------------------------------------------------------------
// tools

// toolResult: what a tool answers. Tool t2 answers with the EMPTY string on the second call of a turn and on
// every call of the second turn: an empty answer is an answer like any other (it must reach the model, or
// be returned when t2 is return-directly), identically under Generate and Stream.
func toolResult(name, args string) string {
	if name == "t2" && (strings.HasSuffix(args, `"i":1}`) || strings.HasPrefix(args, `{"k":1,`)) {
		return ""
	}
	return "R(" + name + "," + args + ")"
}
func unknownResult(name, args string) string { return "U(" + name + "," + args + ")" }

type baseTool struct{ name string }

func (t baseTool) Info(context.Context) (*schema.ToolInfo, error) {
	return &schema.ToolInfo{Name: t.name, Desc: "recording tool " + t.name}, nil
}

func (t baseTool) record(ctx context.Context, args string) {
	recFrom(ctx).recordExec(execText(t.name, args))
}

func execText(name, args string) string { return name + " " + args }

type invokableTool struct{ baseTool }

func (t invokableTool) InvokableRun(ctx context.Context, args string, _ ...tool.Option) (string, error) {
	t.record(ctx, args)
	return toolResult(t.name, args), nil
}

// streamableTool answers in two chunks.
type streamableTool struct{ baseTool }

func (t streamableTool) StreamableRun(ctx context.Context, args string, _ ...tool.Option) (*schema.StreamReader[string], error) {
	t.record(ctx, args)
	if toolResult(t.name, args) == "" {
		return schema.StreamReaderFromArray([]string{"", ""}), nil
	}
	return schema.StreamReaderFromArray([]string{"R(" + t.name + ",", args + ")"}), nil
}

func unknownHandler(ctx context.Context, name, args string) (string, error) {
	recFrom(ctx).recordExec(execText("unknown:"+name, args))
	return unknownResult(name, args), nil
}

// ---------------------------------------------------------------------------------------------------
// modifier and custom checker

const persona = "persona"

func prependPersona(_ context.Context, in []*schema.Message) []*schema.Message {
	out := make([]*schema.Message, 0, len(in)+1)
	out = append(out, schema.SystemMessage(persona))
	return append(out, in...)
}

// wholeStreamChecker is the custom StreamToolCallChecker: it reads the whole model output, answers whether
// any chunk carries a tool call, and closes the stream (as AgentConfig requires).
func wholeStreamChecker(_ context.Context, sr *schema.StreamReader[*schema.Message]) (bool, error) {
	defer sr.Close()
	has := false
	for {
		m, err := sr.Recv()
		if err == io.EOF {
			return has, nil
		}
		if err != nil {
			return false, err
		}
		if len(m.ToolCalls) > 0 {
			has = true
		}
	}
}
