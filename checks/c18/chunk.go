package main

// Script alphabet and the streaming of one assistant turn.
//
// A turn has an optional text content and 0..2 tool calls. For streaming it is cut into atoms:
//   - a turn with tool calls: one content atom (if it has content) and two atoms per tool call: the head
//     (index, id, type, name, first half of the arguments) and the tail (index, second half of the arguments);
//   - a final turn (no tool calls): two content atoms (if it has content).
// A chunking is an assignment of every atom to one of the slots 1..3, monotone inside a tool call (head not
// after tail) and inside the content. The stream consists of the slots 1..max used slot; a slot nothing was
// assigned to is sent as an empty chunk (role only), so leading empty chunks are part of the enumeration.

import (
	"fmt"
	"strings"

	"github.com/cloudwego/eino/schema"
)

type Turn struct {
	Content bool     `json:"content"`
	Calls   []string `json:"calls"` // tool names: t1 | t2 | unk
}

func (t Turn) String() string {
	c := ""
	if t.Content {
		c = "c"
	}
	return "[" + c + ":" + strings.Join(t.Calls, ",") + "]"
}

type Script struct {
	Turns []Turn `json:"turns"`
	// Loop: when the script is exhausted the model repeats the last scripted turn for ever (fresh call ids)
	// instead of giving the plain final answer.
	Loop bool `json:"loop,omitempty"`
}

func (s *Script) String() string {
	var sb strings.Builder
	for _, t := range s.Turns {
		sb.WriteString(t.String())
	}
	if len(s.Turns) == 0 {
		sb.WriteString("[]")
	}
	if s.Loop {
		sb.WriteString("+loop")
	}
	return sb.String()
}

// exhausted is the plain final answer given once the script is used up.
var exhausted = Turn{Content: true}

func (s *Script) scripted(k int) bool { return k <= len(s.Turns) }

// turn is the model's k-th answer (k from 1).
func (s *Script) turn(k int) Turn {
	if k <= len(s.Turns) {
		return s.Turns[k-1]
	}
	if s.Loop && len(s.Turns) > 0 {
		return s.Turns[len(s.Turns)-1]
	}
	return exhausted
}

func (s *Script) hasToolCall() bool {
	for _, t := range s.Turns {
		if len(t.Calls) > 0 {
			return true
		}
	}
	return false
}

// --- concrete texts (all functions of the turn number k and the call position i: ids are unique) ---------

func contentAtoms(t Turn, k int) (string, string) {
	if !t.Content {
		return "", ""
	}
	return fmt.Sprintf("T%d", k), "x"
}

func callID(k, i int) string { return fmt.Sprintf("k%di%d", k, i) }

func argAtoms(k, i int) (string, string) {
	return fmt.Sprintf(`{"k":%d,`, k), fmt.Sprintf(`"i":%d}`, i)
}

func fullCall(name string, k, i int) schema.ToolCall {
	a, b := argAtoms(k, i)
	idx := i
	return schema.ToolCall{Index: &idx, ID: callID(k, i), Type: "function", Function: schema.FunctionCall{Name: name, Arguments: a + b}}
}

// turnMessage is the complete k-th assistant message (what Generate returns, what the chunks concatenate to).
func turnMessage(t Turn, k int) *schema.Message {
	a, b := contentAtoms(t, k)
	m := &schema.Message{Role: schema.Assistant, Content: a + b}
	for i, name := range t.Calls {
		m.ToolCalls = append(m.ToolCalls, fullCall(name, k, i))
	}
	return m
}

// --- chunkings ---------------------------------------------------------------------------------------

// atoms returns the number of atoms of a turn; the vector layout is
//
//	final turn with content:  [contentA, contentB]
//	final turn, no content:   [n]  (n = number of empty chunks, 1..3)
//	tool turn:                [content]? then (head_i, tail_i) for each call
func vecLen(t Turn) int {
	if len(t.Calls) == 0 {
		if t.Content {
			return 2
		}
		return 1
	}
	n := 2 * len(t.Calls)
	if t.Content {
		n++
	}
	return n
}

// allChunkings enumerates every chunking vector of the turn (slots 1..3).
func allChunkings(t Turn) [][]int {
	pairs := [][2]int{{1, 1}, {1, 2}, {1, 3}, {2, 2}, {2, 3}, {3, 3}}
	var out [][]int
	if len(t.Calls) == 0 {
		if !t.Content {
			return [][]int{{1}, {2}, {3}}
		}
		for _, p := range pairs {
			out = append(out, []int{p[0], p[1]})
		}
		return out
	}
	var rec func(i int, cur []int)
	rec = func(i int, cur []int) {
		if i == len(t.Calls) {
			out = append(out, append([]int(nil), cur...))
			return
		}
		for _, p := range pairs {
			rec(i+1, append(cur, p[0], p[1]))
		}
	}
	if t.Content {
		for c := 1; c <= 3; c++ {
			rec(0, []int{c})
		}
	} else {
		rec(0, nil)
	}
	return out
}

// turnChunks builds the stream of the k-th answer under the chunking vector vec (nil: one chunk).
func turnChunks(t Turn, k int, vec []int) []*schema.Message {
	if vec == nil {
		return []*schema.Message{turnMessage(t, k)}
	}
	if len(vec) != vecLen(t) {
		panic(fmt.Sprintf("c18 harness: chunking %v does not fit turn %v", vec, t))
	}
	ca, cb := contentAtoms(t, k)
	if len(t.Calls) == 0 {
		if !t.Content {
			out := make([]*schema.Message, vec[0])
			for i := range out {
				out[i] = &schema.Message{Role: schema.Assistant}
			}
			return out
		}
		n := vec[1]
		out := make([]*schema.Message, n)
		for i := range out {
			out[i] = &schema.Message{Role: schema.Assistant}
		}
		out[vec[0]-1].Content += ca
		out[vec[1]-1].Content += cb
		return out
	}
	n := 0
	for _, s := range vec {
		if s > n {
			n = s
		}
	}
	out := make([]*schema.Message, n)
	for i := range out {
		out[i] = &schema.Message{Role: schema.Assistant}
	}
	p := 0
	if t.Content {
		out[vec[0]-1].Content = ca + cb
		p = 1
	}
	for i, name := range t.Calls {
		h, tl := vec[p+2*i], vec[p+2*i+1]
		a, b := argAtoms(k, i)
		if h == tl {
			out[h-1].ToolCalls = append(out[h-1].ToolCalls, fullCall(name, k, i))
			continue
		}
		head := fullCall(name, k, i)
		head.Function.Arguments = a
		out[h-1].ToolCalls = append(out[h-1].ToolCalls, head)
		idx := i
		out[tl-1].ToolCalls = append(out[tl-1].ToolCalls, schema.ToolCall{Index: &idx, Function: schema.FunctionCall{Arguments: b}})
	}
	return out
}

// keepsContract: the documented contract of the default StreamToolCallChecker ("checks if the first chunk
// contains tool calls", skipping empty chunks at the front): when the turn calls tools, the first non-empty
// chunk carries a tool call.
func keepsContract(t Turn, vec []int) bool {
	if len(t.Calls) == 0 || vec == nil || !t.Content {
		return true
	}
	// first non-empty chunk = the lower of the content slot and the first head slot
	for i := range t.Calls {
		if vec[1+2*i] <= vec[0] {
			return true
		}
	}
	return false
}

// pattern returns the j-th uniform chunking pattern for a turn (used for every turn of a run at once, so
// that non-trivial chunkings of different turns also meet). Pattern 5 puts the content first: it breaks
// the default checker's contract and is only run with the custom checker.
const nPatterns = 6

func pattern(j int, t Turn) []int {
	final := len(t.Calls) == 0
	if final && !t.Content {
		return []int{[]int{1, 2, 1, 3, 2, 3}[j]}
	}
	if final {
		return [][]int{{1, 1}, {2, 2}, {1, 2}, {1, 3}, {2, 3}, {3, 3}}[j]
	}
	var vec []int
	content := []int{1, 2, 2, 3, 3, 1}[j]
	if t.Content {
		vec = append(vec, content)
	}
	for i := range t.Calls {
		var h, tl int
		switch j {
		case 0:
			h, tl = 1, 1
		case 1:
			h, tl = 2, 2
		case 2, 3:
			h, tl = 1, 2
		case 4: // call after call
			h, tl = i+1, i+1
		case 5:
			h, tl = 2, 3
		}
		vec = append(vec, h, tl)
	}
	return vec
}

func vecString(v []int) string {
	if v == nil {
		return "-"
	}
	var sb strings.Builder
	for _, x := range v {
		sb.WriteByte(byte('0' + x))
	}
	return sb.String()
}
