// C10 — callback handlers fire exactly once per execution unit, paired, for the right node (Engine S).
package main

import (
	"context"
	"errors"
	"fmt"
	"github.com/cloudwego/eino/components/retriever"
	rutils "github.com/cloudwego/eino/flow/retriever/utils"
	"io"
	"sort"
	"strings"

	"github.com/cloudwego/eino/callbacks"
	"github.com/cloudwego/eino/components/tool"
	"github.com/cloudwego/eino/compose"
	"github.com/cloudwego/eino/schema"
	"github.com/cloudwego/eino/vsched"

	"verif/lib/gprog"
	"verif/lib/harness"
)

type event struct {
	h       string // handler name
	kind    string // start | end | error
	unit    string // RunInfo.Name
	payload string
}

type world struct {
	events []event
	hb     *callbacks.HandlerBuilder
}

// add records an event. Handlers run on the goroutines of the units they observe, so the list is shared:
// HLock is a no-op under the scheduler (a body is atomic between scheduling points) and a mutex in the race pass.
func (w *world) add(e event) {
	vsched.HLock()
	w.events = append(w.events, e)
	vsched.HUnlock()
}

func readStream[T any](w *world, name, streamMode string, sr *schema.StreamReader[T], kind string, unit string) {
	// the copy belongs to the handler: whatever it does with it must not disturb the flow
	switch streamMode {
	case "close":
		sr.Close()
		w.add(event{name, kind, unit, "<closed>"})
		return
	case "read1":
		v, err := sr.Recv()
		sr.Close()
		p := "<eof>"
		if err == nil {
			p = render(v)
		} else if err != io.EOF {
			p = "<err>"
		}
		w.add(event{name, kind, unit, "first:" + p})
		return
	}
	var vals []any
	bad := ""
	for {
		v, err := sr.Recv()
		if err == io.EOF {
			break
		}
		if err != nil {
			bad = "<err:" + err.Error() + ">"
			break
		}
		vals = append(vals, any(v))
	}
	sr.Close()
	w.add(event{name, kind, unit, "stream:" + bad + concatRendered(vals)})
}

// concatRendered concatenates the chunks a handler drained from its copy (chunk boundaries are not the
// unit's business): map chunks are united, message-list chunks concatenated position-wise.
func concatRendered(vals []any) string {
	if len(vals) == 0 {
		return "<empty>"
	}
	switch vals[0].(type) {
	case map[string]any:
		out := gprog.Val{}
		for _, v := range vals {
			m, ok := v.(map[string]any)
			if !ok {
				return "<mixed chunk types>"
			}
			for k, x := range m {
				if _, dup := out[k]; dup {
					return "<duplicate key " + k + ">"
				}
				out[k] = x
			}
		}
		return gprog.Canon(out)
	case []*schema.Message:
		var all [][]*schema.Message
		for _, v := range vals {
			m, ok := v.([]*schema.Message)
			if !ok {
				return "<mixed chunk types>"
			}
			all = append(all, m)
		}
		m, err := concatArrays(all)
		if err != nil {
			return "<concat error: " + err.Error() + ">"
		}
		return render(m)
	case *schema.Message:
		var ms []*schema.Message
		for _, v := range vals {
			ms = append(ms, v.(*schema.Message))
		}
		m, err := schema.ConcatMessages(ms)
		if err != nil {
			return "<concat error>"
		}
		return render(m)
	case string:
		var sb strings.Builder
		for _, v := range vals {
			sb.WriteString(v.(string))
		}
		return sb.String()
	}
	var p []string
	for _, v := range vals {
		p = append(p, render(v))
	}
	return strings.Join(p, "+")
}

// recording handler; raw=true: a plain struct (no TimingChecker); otherwise built with HandlerBuilder.
func (w *world) handler(name string, raw bool, streamMode string) callbacks.Handler {
	onStart := func(ctx context.Context, info *callbacks.RunInfo, in callbacks.CallbackInput) context.Context {
		w.add(event{name, "start", info.Name, render(in)})
		return ctx
	}
	onEnd := func(ctx context.Context, info *callbacks.RunInfo, out callbacks.CallbackOutput) context.Context {
		w.add(event{name, "end", info.Name, render(out)})
		return ctx
	}
	onErr := func(ctx context.Context, info *callbacks.RunInfo, err error) context.Context {
		w.add(event{name, "error", info.Name, "err"})
		return ctx
	}
	onStartS := func(ctx context.Context, info *callbacks.RunInfo, in *schema.StreamReader[callbacks.CallbackInput]) context.Context {
		readStream(w, name, streamMode, in, "start", info.Name)
		return ctx
	}
	onEndS := func(ctx context.Context, info *callbacks.RunInfo, out *schema.StreamReader[callbacks.CallbackOutput]) context.Context {
		readStream(w, name, streamMode, out, "end", info.Name)
		return ctx
	}
	if raw {
		return &rawHandler{onStart, onEnd, onErr, onStartS, onEndS}
	}
	// all built handlers of one execution come from ONE builder that is re-used (Build hands out a snapshot: a
	// handler built earlier keeps its own functions)
	if w.hb == nil {
		w.hb = callbacks.NewHandlerBuilder()
	}
	return w.hb.OnStartFn(onStart).OnEndFn(onEnd).OnErrorFn(onErr).
		OnStartWithStreamInputFn(onStartS).OnEndWithStreamOutputFn(onEndS).Build()
}

type rawHandler struct {
	s  func(context.Context, *callbacks.RunInfo, callbacks.CallbackInput) context.Context
	e  func(context.Context, *callbacks.RunInfo, callbacks.CallbackOutput) context.Context
	er func(context.Context, *callbacks.RunInfo, error) context.Context
	ss func(context.Context, *callbacks.RunInfo, *schema.StreamReader[callbacks.CallbackInput]) context.Context
	es func(context.Context, *callbacks.RunInfo, *schema.StreamReader[callbacks.CallbackOutput]) context.Context
}

func (r *rawHandler) OnStart(ctx context.Context, i *callbacks.RunInfo, in callbacks.CallbackInput) context.Context {
	return r.s(ctx, i, in)
}
func (r *rawHandler) OnEnd(ctx context.Context, i *callbacks.RunInfo, out callbacks.CallbackOutput) context.Context {
	return r.e(ctx, i, out)
}
func (r *rawHandler) OnError(ctx context.Context, i *callbacks.RunInfo, err error) context.Context {
	return r.er(ctx, i, err)
}
func (r *rawHandler) OnStartWithStreamInput(ctx context.Context, i *callbacks.RunInfo, in *schema.StreamReader[callbacks.CallbackInput]) context.Context {
	return r.ss(ctx, i, in)
}
func (r *rawHandler) OnEndWithStreamOutput(ctx context.Context, i *callbacks.RunInfo, out *schema.StreamReader[callbacks.CallbackOutput]) context.Context {
	return r.es(ctx, i, out)
}

func render(v any) string {
	switch x := v.(type) {
	case map[string]any:
		return gprog.Canon(x)
	case string:
		return x
	case *schema.Message:
		if x == nil {
			return "msg<nil>"
		}
		return fmt.Sprintf("msg(%s,%s,calls=%d)", x.Role, x.Content, len(x.ToolCalls))
	case []*schema.Message:
		var p []string
		for _, m := range x {
			p = append(p, render(m))
		}
		return "[" + strings.Join(p, ",") + "]"
	}
	return fmt.Sprintf("%v", v)
}

// ---------------------------------------------------------------------------------------------------

type spec struct {
	name      string
	shape     string // fan2 | fan3 | nested | tools
	undes     int    // number of undesignated per-call handlers
	separate  bool   // passed as separate options (true) or as one option (false)
	global    bool   // one global handler
	desig     string // "" | "leaves" (one handler per parallel leaf) | "sub" (handler designated to the sub-graph node) | "path" (to an inner node by path)
	raw       bool
	call      string // invoke | stream
	streamMod string // drain | close | read1
	yields    bool
}

var input = gprog.Val{"in": "x"}

func lam(key string, yield bool) *compose.Lambda {
	return compose.InvokableLambda(func(ctx context.Context, in gprog.Val) (gprog.Val, error) {
		if yield {
			vsched.Yield()
		}
		return gprog.NodeFn(key, in), nil
	})
}

type recTool struct {
	name  string
	yield bool
}

func (t *recTool) Info(ctx context.Context) (*schema.ToolInfo, error) {
	return &schema.ToolInfo{Name: t.name, Desc: t.name}, nil
}
func (t *recTool) InvokableRun(ctx context.Context, args string, opts ...tool.Option) (string, error) {
	if t.yield {
		vsched.Yield()
	}
	return t.name + "(" + args + ")", nil
}

// fakeRetriever is a sub-component run by flow/retriever/utils.ConcurrentRetrieveWithCallback.
type fakeRetriever struct {
	typ    string
	yield  bool
	panics bool
}

func (f *fakeRetriever) GetType() string { return f.typ }
func (f *fakeRetriever) Retrieve(ctx context.Context, query string, opts ...retriever.Option) ([]*schema.Document, error) {
	if f.yield {
		vsched.Yield()
	}
	if f.panics {
		panic("retriever-panic")
	}
	return []*schema.Document{}, nil
}

// unit describes an execution unit and the (start payload, end payload) it must report.
type unit struct {
	name       string
	start, end string
	fails      bool // the unit ends with an error (or interrupt): its end-type event is OnError
	inSub      bool // inside the sub-graph node "s"
	isSub      bool
	leaf       string
}

func (sp *spec) build() (func(), func(x *vsched.Exec) (string, error)) {
	w := &world{}
	var runErr error
	var result string
	var units []unit
	applicable := map[string]func(u unit) bool{}
	main := func() {
		ctx := context.Background()
		if sp.global {
			callbacks.InitCallbackHandlers([]callbacks.Handler{w.handler("G", sp.raw, sp.streamMod)})
			applicable["G"] = func(u unit) bool { return true }
		} else {
			callbacks.InitCallbackHandlers(nil)
		}
		var opts []compose.Option
		var hs []callbacks.Handler
		for i := 0; i < sp.undes; i++ {
			n := fmt.Sprintf("U%d", i)
			hs = append(hs, w.handler(n, sp.raw, sp.streamMod))
			applicable[n] = func(u unit) bool { return true }
		}
		if sp.separate {
			for _, h := range hs {
				opts = append(opts, compose.WithCallbacks(h))
			}
		} else if len(hs) > 0 {
			opts = append(opts, compose.WithCallbacks(hs...))
		}
		designate := func(hname string, key string, pred func(u unit) bool) {
			opts = append(opts, compose.WithCallbacks(w.handler(hname, sp.raw, sp.streamMod)).DesignateNode(key))
			applicable[hname] = pred
		}
		in := gprog.Canon(input)
		switch sp.shape {
		case "fan2", "fan3":
			keys := []string{"a", "b"}
			if sp.shape == "fan3" {
				keys = append(keys, "c")
			}
			g := compose.NewGraph[gprog.Val, gprog.Val]()
			res := gprog.Val{}
			for _, k := range keys {
				g.AddLambdaNode(k, lam(k, sp.yields), compose.WithNodeName(k))
				g.AddEdge(compose.START, k)
				g.AddEdge(k, compose.END)
				out := gprog.NodeFn(k, input)
				units = append(units, unit{name: k, start: in, end: gprog.Canon(out), leaf: k})
				res[k] = out[k]
			}
			units = append(units, unit{name: "G0", start: in, end: gprog.Canon(res)})
			if sp.desig == "leaves" {
				for _, k := range keys {
					k := k
					designate("D"+k, k, func(u unit) bool { return u.name == k })
				}
			}
			r, err := g.Compile(ctx, compose.WithGraphName("G0"))
			if err != nil {
				runErr = err
				return
			}
			result, runErr = exec(ctx, r, sp.call, opts)
		case "sharedlambda":
			// ONE *compose.Lambda value added as two nodes (under different keys, names and output keys): each
			// execution unit still has its own run info
			l := compose.InvokableLambda(func(ctx context.Context, in gprog.Val) (gprog.Val, error) {
				if sp.yields {
					vsched.Yield()
				}
				return gprog.Val{"v": gprog.Canon(in)}, nil
			})
			g := compose.NewGraph[gprog.Val, gprog.Val]()
			g.AddLambdaNode("a", l, compose.WithNodeName("a"))
			g.AddLambdaNode("b", l, compose.WithNodeName("b"))
			g.AddEdge(compose.START, "a")
			g.AddEdge("a", "b")
			g.AddEdge("b", compose.END)
			outA := gprog.Val{"v": in}
			outB := gprog.Val{"v": gprog.Canon(outA)}
			units = append(units, unit{name: "a", start: in, end: gprog.Canon(outA), leaf: "a"})
			units = append(units, unit{name: "b", start: gprog.Canon(outA), end: gprog.Canon(outB), leaf: "b"})
			units = append(units, unit{name: "G0", start: in, end: gprog.Canon(outB)})
			if sp.desig == "leaves" {
				designate("Da", "a", func(u unit) bool { return u.name == "a" })
				designate("Db", "b", func(u unit) bool { return u.name == "b" })
			}
			r, err := g.Compile(ctx, compose.WithGraphName("G0"))
			if err != nil {
				runErr = err
				return
			}
			result, runErr = exec(ctx, r, sp.call, opts)
		case "interrupt":
			// node a asks to be interrupted (and re-run later): its execution and the graph's end with an error-type event
			g := compose.NewGraph[gprog.Val, gprog.Val]()
			g.AddLambdaNode("a", compose.InvokableLambda(func(ctx context.Context, in gprog.Val) (gprog.Val, error) {
				if sp.yields {
					vsched.Yield()
				}
				return nil, compose.InterruptAndRerun
			}), compose.WithNodeName("a"))
			g.AddLambdaNode("b", lam("b", sp.yields), compose.WithNodeName("b"))
			for _, k := range []string{"a", "b"} {
				g.AddEdge(compose.START, k)
				g.AddEdge(k, compose.END)
			}
			units = append(units, unit{name: "a", start: in, fails: true, leaf: "a"})
			units = append(units, unit{name: "b", start: in, end: gprog.Canon(gprog.NodeFn("b", input)), leaf: "b"})
			units = append(units, unit{name: "G0", start: in, fails: true})
			if sp.desig == "leaves" {
				designate("Da", "a", func(u unit) bool { return u.name == "a" })
				designate("Db", "b", func(u unit) bool { return u.name == "b" })
			}
			r, err := g.Compile(ctx, compose.WithGraphName("G0"))
			if err != nil {
				runErr = err
				return
			}
			_, e := exec(ctx, r, sp.call, opts)
			if _, isInt := compose.ExtractInterruptInfo(e); !isInt {
				runErr = fmt.Errorf("expected an interrupt, got %v", e)
			}
			result = "<interrupted>"
		case "retrievers":
			// a flow helper that runs sub-components concurrently with their own callbacks (flow/retriever/utils): two
			// sub-retrievers inside node rt, one of them panics. Each is an execution unit: one start, one end-type event,
			// under its own run info; the enclosing node gets exactly its own pair
			g := compose.NewGraph[gprog.Val, gprog.Val]()
			g.AddLambdaNode("rt", compose.InvokableLambda(func(ctx context.Context, in gprog.Val) (gprog.Val, error) {
				tasks := []*rutils.RetrieveTask{
					{Name: "good", Retriever: &fakeRetriever{typ: "Good", yield: sp.yields}, Query: "q1"},
					{Name: "bad", Retriever: &fakeRetriever{typ: "Bad", yield: sp.yields, panics: true}, Query: "q2"},
				}
				rutils.ConcurrentRetrieveWithCallback(ctx, tasks)
				return gprog.NodeFn("rt", in), nil
			}), compose.WithNodeName("rt"))
			g.AddEdge(compose.START, "rt")
			g.AddEdge("rt", compose.END)
			out := gprog.NodeFn("rt", input)
			units = append(units, unit{name: "rt", start: in, end: gprog.Canon(out), leaf: "rt"})
			units = append(units, unit{name: "GoodRetriever", start: "q1", end: "[]", leaf: "GoodRetriever"})
			units = append(units, unit{name: "BadRetriever", start: "q2", fails: true, leaf: "BadRetriever"})
			units = append(units, unit{name: "G0", start: in, end: gprog.Canon(out)})
			if sp.desig == "leaves" {
				// a handler designated to the node applies to the node and (context inheritance) the units inside it
				designate("Drt", "rt", func(u unit) bool { return u.name == "rt" || u.name == "GoodRetriever" || u.name == "BadRetriever" })
			}
			r, err := g.Compile(ctx, compose.WithGraphName("G0"))
			if err != nil {
				runErr = err
				return
			}
			result, runErr = exec(ctx, r, sp.call, opts)
		case "start-end", "before-first", "start-branch-fails":
			// runs that leave the run loop inside their FIRST step: START wired to END, an interrupt before the only
			// node, a failing branch on START. The graph is a unit like any other: one start, one end-type event
			g := compose.NewGraph[gprog.Val, gprog.Val]()
			var copts []compose.GraphCompileOption
			gu := unit{name: "G0", start: in}
			switch sp.shape {
			case "start-end":
				g.AddEdge(compose.START, compose.END)
				gu.end = in
			case "before-first":
				g.AddLambdaNode("a", lam("a", sp.yields), compose.WithNodeName("a"))
				g.AddEdge(compose.START, "a")
				g.AddEdge("a", compose.END)
				copts = append(copts, compose.WithInterruptBeforeNodes([]string{"a"}))
				gu.fails = true
			case "start-branch-fails":
				g.AddLambdaNode("a", lam("a", sp.yields), compose.WithNodeName("a"))
				g.AddBranch(compose.START, compose.NewGraphBranch(func(ctx context.Context, in gprog.Val) (string, error) {
					return "", errors.New("branch-condition-failed")
				}, map[string]bool{"a": true, compose.END: true}))
				g.AddEdge("a", compose.END)
				gu.fails = true
			}
			units = append(units, gu)
			if sp.desig == "leaves" {
				designate("Da", "a", func(u unit) bool { return u.name == "a" })
			}
			r, err := g.Compile(ctx, append(copts, compose.WithGraphName("G0"))...)
			if err != nil {
				runErr = err
				return
			}
			res, e := exec(ctx, r, sp.call, opts)
			switch {
			case !gu.fails:
				result, runErr = res, e
			case e == nil:
				runErr = fmt.Errorf("expected the run to end with an error or interrupt, got the result %s", res)
			default:
				result = "<" + sp.shape + ">"
			}
		case "nested":
			sub := compose.NewGraph[gprog.Val, gprog.Val]()
			sres := gprog.Val{}
			for _, k := range []string{"x", "y"} {
				sub.AddLambdaNode(k, lam(k, sp.yields), compose.WithNodeName(k))
				sub.AddEdge(compose.START, k)
				sub.AddEdge(k, compose.END)
				out := gprog.NodeFn(k, input)
				units = append(units, unit{name: k, start: in, end: gprog.Canon(out), inSub: true, leaf: k})
				sres[k] = out[k]
			}
			g := compose.NewGraph[gprog.Val, gprog.Val]()
			g.AddLambdaNode("a", lam("a", sp.yields), compose.WithNodeName("a"))
			g.AddGraphNode("s", sub, compose.WithNodeName("s"))
			for _, k := range []string{"a", "s"} {
				g.AddEdge(compose.START, k)
				g.AddEdge(k, compose.END)
			}
			aout := gprog.NodeFn("a", input)
			units = append(units, unit{name: "a", start: in, end: gprog.Canon(aout), leaf: "a"})
			units = append(units, unit{name: "s", start: in, end: gprog.Canon(sres), isSub: true})
			res := gprog.Val{"a": aout["a"]}
			for k, v := range sres {
				res[k] = v
			}
			units = append(units, unit{name: "G0", start: in, end: gprog.Canon(res)})
			switch sp.desig {
			case "leaves":
				designate("Da", "a", func(u unit) bool { return u.name == "a" })
			case "sub":
				designate("Da", "a", func(u unit) bool { return u.name == "a" })
				// designated to a graph node: that node and (context inheritance) the units inside it; never siblings
				designate("Ds", "s", func(u unit) bool { return u.isSub || u.inSub })
			case "path":
				opts = append(opts, compose.WithCallbacks(w.handler("Px", sp.raw, sp.streamMod)).DesignateNodeWithPath(compose.NewNodePath("s", "x")))
				applicable["Px"] = func(u unit) bool { return u.name == "x" }
				designate("Da", "a", func(u unit) bool { return u.name == "a" })
			}
			r, err := g.Compile(ctx, compose.WithGraphName("G0"))
			if err != nil {
				runErr = err
				return
			}
			result, runErr = exec(ctx, r, sp.call, opts)
		case "tools", "tools-unknown":
			cfg := &compose.ToolsNodeConfig{Tools: []tool.BaseTool{&recTool{"t1", sp.yields}, &recTool{"t2", sp.yields}}}
			if sp.shape == "tools-unknown" {
				cfg.UnknownToolsHandler = func(ctx context.Context, name, in string) (string, error) {
					return "handled(" + name + "," + in + ")", nil
				}
			}
			tn, err := compose.NewToolNode(ctx, cfg)
			if err != nil {
				runErr = err
				return
			}
			g := compose.NewGraph[*schema.Message, []*schema.Message]()
			g.AddToolsNode("tools", tn, compose.WithNodeName("tools"))
			g.AddEdge(compose.START, "tools")
			g.AddEdge("tools", compose.END)
			msg := &schema.Message{Role: schema.Assistant, ToolCalls: []schema.ToolCall{
				{ID: "c1", Function: schema.FunctionCall{Name: "t1", Arguments: "A"}},
				{ID: "c2", Function: schema.FunctionCall{Name: "t2", Arguments: "B"}},
			}}
			units = append(units, unit{name: "t1", start: "A", end: "t1(A)", leaf: "t1"})
			units = append(units, unit{name: "t2", start: "B", end: "t2(B)", leaf: "t2"})
			outMsgs := "[msg(tool,t1(A),calls=0),msg(tool,t2(B),calls=0)]"
			if sp.shape == "tools-unknown" {
				// a call answered by the unknown-tool handler is a tool call like the others
				// two calls (t1 and the unknown one): keeps the thread count of the plain tools shape
				msg.ToolCalls = []schema.ToolCall{msg.ToolCalls[0], {ID: "c3", Function: schema.FunctionCall{Name: "ghost", Arguments: "C"}}}
				units = []unit{{name: "t1", start: "A", end: "t1(A)", leaf: "t1"}, {name: "ghost", start: "C", end: "handled(ghost,C)", leaf: "ghost"}}
				outMsgs = "[msg(tool,t1(A),calls=0),msg(tool,handled(ghost,C),calls=0)]"
			}
			units = append(units, unit{name: "tools", start: render(msg), end: outMsgs})
			units = append(units, unit{name: "G0", start: render(msg), end: outMsgs})
			if sp.desig == "leaves" {
				// a handler designated to the tools node applies to the node and (context inheritance) its tool calls
				designate("Dt", "tools", func(u unit) bool { return u.name == "tools" || u.name == "t1" || u.name == "t2" || u.name == "ghost" })
			}
			r, err := g.Compile(ctx, compose.WithGraphName("G0"))
			if err != nil {
				runErr = err
				return
			}
			if sp.call == "stream" {
				sr, e := r.Stream(ctx, msg, opts...)
				if e != nil {
					runErr = e
					return
				}
				var all [][]*schema.Message
				for {
					c, e := sr.Recv()
					if e == io.EOF {
						break
					}
					if e != nil {
						runErr = e
						break
					}
					all = append(all, c)
				}
				sr.Close()
				if runErr == nil {
					m, e := concatArrays(all)
					runErr = e
					result = render(m)
				}
			} else {
				m, e := r.Invoke(ctx, msg, opts...)
				runErr = e
				result = render(m)
			}
		}
	}
	check := func(x *vsched.Exec) (string, error) {
		callbacks.InitCallbackHandlers(nil)
		if x.Deadlock {
			return "", fmt.Errorf("the run hangs: %v", x.Blocked)
		}
		if x.MainPanic != "" || x.ThreadPanic != "" {
			return "", fmt.Errorf("panic: %s%s", x.MainPanic, x.ThreadPanic)
		}
		if len(x.Blocked) > 0 {
			return "", fmt.Errorf("goroutines left blocked: %v", x.Blocked)
		}
		if runErr != nil {
			return "", fmt.Errorf("run failed: %v", runErr)
		}
		// the flow result must not depend on what handlers do with their stream copies
		var g0 unit
		for _, u := range units {
			if u.name == "G0" {
				g0 = u
			}
		}
		if result != g0.end && !g0.fails {
			return "", fmt.Errorf("flow result disturbed: got %s want %s", result, g0.end)
		}
		hnames := make([]string, 0, len(applicable))
		for h := range applicable {
			hnames = append(hnames, h)
		}
		sort.Strings(hnames)
		known := map[string]bool{}
		for _, u := range units {
			known[u.name] = true
		}
		for _, ev := range w.events {
			if !known[ev.unit] {
				return "", fmt.Errorf("handler %s got a %s event for an unknown unit %q", ev.h, ev.kind, ev.unit)
			}
		}
		for _, h := range hnames {
			for _, u := range units {
				var starts, ends []event
				for _, ev := range w.events {
					if ev.h == h && ev.unit == u.name {
						if ev.kind == "start" {
							starts = append(starts, ev)
						} else {
							ends = append(ends, ev)
						}
					}
				}
				if !applicable[h](u) {
					if len(starts)+len(ends) > 0 {
						return "", fmt.Errorf("handler %s does not apply to unit %s but received %d start / %d end event(s): %v", h, u.name, len(starts), len(ends), append(starts, ends...))
					}
					continue
				}
				if len(starts) != 1 || len(ends) != 1 {
					return "", fmt.Errorf("handler %s applies to unit %s and must see exactly one start and one end event, saw %d start / %d end (all events of the handler: %v)", h, u.name, len(starts), len(ends), eventsOf(w.events, h))
				}
				if u.fails {
					if ends[0].kind != "error" {
						return "", fmt.Errorf("handler %s: unit %s ended with an error/interrupt but the handler got a %s event", h, u.name, ends[0].kind)
					}
					if !payloadOK(starts[0].payload, u.start, sp.streamMod) {
						return "", fmt.Errorf("handler %s: start payload of unit %s is %s, the unit consumed %s", h, u.name, starts[0].payload, u.start)
					}
					continue
				}
				if ends[0].kind != "end" {
					return "", fmt.Errorf("handler %s got an error event for unit %s of a successful run", h, u.name)
				}
				if !payloadOK(starts[0].payload, u.start, sp.streamMod) {
					return "", fmt.Errorf("handler %s: start payload of unit %s is %s, the unit consumed %s", h, u.name, starts[0].payload, u.start)
				}
				if !payloadOK(ends[0].payload, u.end, sp.streamMod) {
					return "", fmt.Errorf("handler %s: end payload of unit %s is %s, the unit produced %s", h, u.name, ends[0].payload, u.end)
				}
			}
		}
		return fmt.Sprintf("%d events", len(w.events)), nil
	}
	return main, check
}

func concatArrays(all [][]*schema.Message) ([]*schema.Message, error) {
	n := 0
	for _, a := range all {
		if len(a) > n {
			n = len(a)
		}
	}
	out := make([]*schema.Message, n)
	for i := 0; i < n; i++ {
		var ms []*schema.Message
		for _, a := range all {
			if i < len(a) && a[i] != nil {
				ms = append(ms, a[i])
			}
		}
		if len(ms) == 0 {
			continue
		}
		m, err := schema.ConcatMessages(ms)
		if err != nil {
			return nil, err
		}
		out[i] = m
	}
	return out, nil
}

func eventsOf(evs []event, h string) []event {
	var out []event
	for _, e := range evs {
		if e.h == h {
			out = append(out, e)
		}
	}
	return out
}

// payloadOK compares a recorded payload with the unit's value. Stream payloads are compared after
// concatenation of map chunks (a drained stream of map chunks renders as "stream:c1+c2"; the chunk
// boundaries are not the unit's business, so the union of the chunks is compared).
func payloadOK(got, want, mode string) bool {
	if got == want || got == "<closed>" || want == "*" {
		return true
	}
	if strings.HasPrefix(got, "stream:") {
		return strings.TrimPrefix(got, "stream:") == want
	}
	if strings.HasPrefix(got, "first:") {
		// the handler read one chunk and closed: the chunk must be a part of what the unit consumed/produced
		p := strings.TrimPrefix(got, "first:")
		if p == want || p == "<eof>" {
			return true
		}
		if strings.HasPrefix(p, "{") {
			return strings.Contains(want, strings.Trim(p, "{}"))
		}
		if strings.HasPrefix(p, "[") {
			for _, m := range splitTop(strings.TrimSuffix(strings.TrimPrefix(p, "["), "]")) {
				if m != "msg<nil>" && !strings.Contains(want, m) {
					return false
				}
			}
			return true
		}
		return strings.Contains(want, p)
	}
	return false
}

// splitTop splits a comma-separated rendering at top level (parentheses nest).
func splitTop(s string) []string {
	var out []string
	depth, start := 0, 0
	for i, r := range s {
		switch r {
		case '(', '{', '[':
			depth++
		case ')', '}', ']':
			depth--
		case ',':
			if depth == 0 {
				out = append(out, s[start:i])
				start = i + 1
			}
		}
	}
	return append(out, s[start:])
}

func exec(ctx context.Context, r compose.Runnable[gprog.Val, gprog.Val], call string, opts []compose.Option) (string, error) {
	if call == "stream" {
		sr, err := r.Stream(ctx, input, opts...)
		if err != nil {
			return "", err
		}
		v, err, _ := gprog.Drain(sr)
		return gprog.Canon(v), err
	}
	v, err := r.Invoke(ctx, input, opts...)
	return gprog.Canon(v), err
}

func main() {
	c := harness.Init("C10")
	c.Res.Rule = "scenario = graph shape (2 or 3 parallel lambdas, nested graph next to a lambda, tools node with two tool calls) x way of supplying handlers (global; 0-3 undesignated per-call handlers as ONE option or as SEPARATE options — the slice capacities differ; handlers designated to leaf nodes, to a sub-graph node, to an inner node by path, to the tools node) x handler kind (HandlerBuilder with timing checker / raw struct) x Invoke/Stream x what handlers do with stream payloads (drain, close at once, read one then close) x yields in node bodies; every interleaving of the executor goroutines, tool-call goroutines and the run loop within the preemption bound, both map orders; distinct/non-trivial = distinct scheduling signatures of scenarios with >= 2 of them"
	c.Res.Assumptions = []string{
		"sequential consistency at synchronisation granularity; node bodies are atomic between their explicit yields, framework code between two synchronisation operations is atomic",
		"no happens-before state caching here: the shared mutable state this property is about (handler slices) is plain memory",
		"a handler designated to a graph node or a tools node is allowed to fire for the units inside it (context inheritance, by design); 'only there' is demanded for leaf nodes and never for siblings or the parent",
		harness.RacePassAssumption,
	}
	c.Res.Explanation = "stateless exhaustive exploration of real graph runs with recording handlers; oracle per execution from the applicability relation: for every (handler, unit) applicable => exactly one start-type and one end-type event carrying that unit's name and the payload the unit consumed / produced, not applicable => no event; the flow result is unaffected by what handlers do with their stream copies; no hang, nothing left blocked. " + harness.RacePassExplanation
	quick := c.Quick()
	rp := c.StartRacePass("./checks/c10") // worker 0 only: native -race build of this package, free runs of the scenario bodies
	bounds := []int{0, 1, 2}
	if !quick {
		bounds = []int{0, 1, 2, 3}
	}
	shapes := []string{"fan2", "nested", "tools", "interrupt", "tools-unknown", "sharedlambda", "start-end", "before-first", "start-branch-fails", "retrievers", "fan3"}
	for _, shape := range shapes {
		desigs := []string{"", "leaves"}
		if shape == "nested" {
			desigs = []string{"", "leaves", "sub", "path"}
		}
		for _, desig := range desigs {
			for undes := 0; undes <= 3; undes++ {
				for _, separate := range []bool{false, true} {
					if undes < 2 && separate {
						continue
					}
					for _, global := range []bool{false, true} {
						if undes == 0 && desig == "" && !global {
							continue
						}
						for _, call := range []string{"invoke", "stream"} {
							mods := []string{"drain"}
							if call == "stream" {
								mods = []string{"drain", "close", "read1"}
							}
							for _, mod := range mods {
								for _, raw := range []bool{false, true} {
									// reduce: raw handlers and non-drain modes only in the richest configurations
									if raw && !(undes == 3 && separate) && !(undes == 1 && desig != "") {
										continue
									}
									if mod != "drain" && !(undes >= 2) && !(desig != "" && undes == 1) {
										continue
									}
									firstStep := shape == "start-end" || shape == "before-first" || shape == "start-branch-fails"
									if firstStep && desig != "" && shape == "start-end" {
										continue // no node to designate
									}
									if quick && (shape == "tools-unknown" || shape == "sharedlambda" || shape == "retrievers" || firstStep) && !(undes <= 1 && !raw && mod == "drain") {
										continue
									}
									if quick && shape == "fan3" && !(undes == 3 && separate && desig == "leaves") {
										continue
									}
									if quick && global && undes == 3 {
										continue
									}
									sp := &spec{shape: shape, undes: undes, separate: separate, global: global, desig: desig, raw: raw, call: call, streamMod: mod, yields: true}
									sp.name = fmt.Sprintf("%s/undes%d-sep%v-glob%v-desig[%s]-raw%v/%s/%s", shape, undes, separate, global, desig, raw, call, mod)
									sc := harness.Scenario{Name: sp.name, Bounds: bounds, MaxExecs: 1_000_000, New: sp.build,
										Signature: func(err error) string { return sigOf(sp, err) }}
									if c.Replay != "" {
										c.ReplayScenario(sc)
										continue
									}
									if !c.Mine(sp.name) {
										continue
									}
									c.Sample(map[string]any{"scenario": sp.name, "bounds": bounds})
									c.Add(sc)
								}
							}
						}
					}
				}
			}
		}
	}
	c.ExploreAll()
	rp.Collect()
	c.Finish()
}

func sigOf(sp *spec, err error) string {
	s := err.Error()
	switch {
	case strings.Contains(s, "does not apply to unit"):
		return "handler-fired-for-wrong-unit"
	case strings.Contains(s, "exactly one start and one end"):
		return "event-count"
	case strings.Contains(s, "unknown unit"):
		return "unknown-unit"
	case strings.Contains(s, "payload"):
		return "payload-mismatch"
	case strings.Contains(s, "flow result disturbed"):
		return "flow-disturbed"
	case strings.Contains(s, "hangs"), strings.Contains(s, "blocked"):
		return "hang-or-leak"
	case strings.Contains(s, "panic"):
		return "panic"
	}
	return "other"
}
