// C10 — callback handlers fire exactly once per execution unit, paired, for the right node (Engine S).
package main

import (
	"context"
	"errors"
	"fmt"
	"github.com/cloudwego/eino/components/retriever"
	rutils "github.com/cloudwego/eino/flow/retriever/utils"
	"io"
	"sort"
	"strings"

	"github.com/cloudwego/eino/callbacks"
	"github.com/cloudwego/eino/components/tool"
	"github.com/cloudwego/eino/compose"
	"github.com/cloudwego/eino/schema"
	ucb "github.com/cloudwego/eino/utils/callbacks"
	"github.com/cloudwego/eino/vsched"

	"verif/lib/gprog"
	"verif/lib/harness"
)

type event struct {
	h       string // handler name
	kind    string // start | end | error
	unit    string // RunInfo.Name
	payload string
	comp    string // RunInfo.Component
	stream  bool   // delivered through the stream variant of the timing
}

func (e event) String() string {
	k := e.kind
	if e.stream {
		k += "S"
	}
	return fmt.Sprintf("{%s %s %s/%s %s}", e.h, k, e.unit, e.comp, e.payload)
}

type world struct {
	events []event
	hb     *callbacks.HandlerBuilder
	// function sets of the sub-handlers of the helper handler (utils/callbacks.NewHandlerHelper): name -> timings
	// (start end error startS endS) the sub-handler has a function for. Handlers not listed here have all five.
	hfns  map[string]map[string]bool
	hcomp map[string]string // sub-handler name -> component type it is registered for
}

// add records an event. Handlers run on the goroutines of the units they observe, so the list is shared:
// HLock is a no-op under the scheduler (a body is atomic between scheduling points) and a mutex in the race pass.
func (w *world) add(e event) {
	vsched.HLock()
	w.events = append(w.events, e)
	vsched.HUnlock()
}

func (w *world) rec(h, kind string, info *callbacks.RunInfo, payload string, stream bool) {
	w.add(event{h: h, kind: kind, unit: info.Name, payload: payload, comp: string(info.Component), stream: stream})
}

func readStream[T any](w *world, name, streamMode string, sr *schema.StreamReader[T], kind string, info *callbacks.RunInfo) {
	// the copy belongs to the handler: whatever it does with it must not disturb the flow
	switch streamMode {
	case "close":
		sr.Close()
		w.rec(name, kind, info, "<closed>", true)
		return
	case "read1":
		v, err := sr.Recv()
		sr.Close()
		p := "<eof>"
		if err == nil {
			p = render(v)
		} else if err != io.EOF {
			p = "<err>"
		}
		w.rec(name, kind, info, "first:"+p, true)
		return
	}
	var vals []any
	bad := ""
	for {
		v, err := sr.Recv()
		if err == io.EOF {
			break
		}
		if err != nil {
			bad = "<err:" + err.Error() + ">"
			break
		}
		vals = append(vals, any(v))
	}
	sr.Close()
	w.rec(name, kind, info, "stream:"+bad+concatRendered(vals), true)
}

// concatRendered concatenates the chunks a handler drained from its copy (chunk boundaries are not the
// unit's business): map chunks are united, message-list chunks concatenated position-wise.
func concatRendered(vals []any) string {
	if len(vals) == 0 {
		return "<empty>"
	}
	switch vals[0].(type) {
	case map[string]any:
		out := gprog.Val{}
		for _, v := range vals {
			m, ok := v.(map[string]any)
			if !ok {
				return "<mixed chunk types>"
			}
			for k, x := range m {
				if prev, dup := out[k]; dup {
					// chunks of a keyed sub-graph: {k: {x: ..}} then {k: {y: ..}}: one level of nesting is merged key-wise
					pm, ok1 := prev.(map[string]any)
					xm, ok2 := x.(map[string]any)
					if !ok1 || !ok2 {
						return "<duplicate key " + k + ">"
					}
					nm := map[string]any{}
					for kk, vv := range pm {
						nm[kk] = vv
					}
					for kk, vv := range xm {
						if _, dup2 := nm[kk]; dup2 {
							return "<duplicate key " + k + "/" + kk + ">"
						}
						nm[kk] = vv
					}
					out[k] = nm
					continue
				}
				out[k] = x
			}
		}
		return gprog.Canon(out)
	case []*schema.Message:
		var all [][]*schema.Message
		for _, v := range vals {
			m, ok := v.([]*schema.Message)
			if !ok {
				return "<mixed chunk types>"
			}
			all = append(all, m)
		}
		m, err := concatArrays(all)
		if err != nil {
			return "<concat error: " + err.Error() + ">"
		}
		return render(m)
	case *schema.Message:
		var ms []*schema.Message
		for _, v := range vals {
			ms = append(ms, v.(*schema.Message))
		}
		m, err := schema.ConcatMessages(ms)
		if err != nil {
			return "<concat error>"
		}
		return render(m)
	case string:
		var sb strings.Builder
		for _, v := range vals {
			sb.WriteString(v.(string))
		}
		return sb.String()
	case *tool.CallbackOutput:
		// the typed chunks of a streaming tool's answer (helper handler): the responses concatenate
		var sb strings.Builder
		for _, v := range vals {
			o, ok := v.(*tool.CallbackOutput)
			if !ok || o == nil {
				return "<nil typed chunk>"
			}
			sb.WriteString(o.Response)
		}
		return sb.String()
	}
	var p []string
	for _, v := range vals {
		p = append(p, render(v))
	}
	return strings.Join(p, "+")
}

// recording handler; raw=true: a plain struct (no TimingChecker); otherwise built with HandlerBuilder.
func (w *world) handler(name string, raw bool, streamMode string) callbacks.Handler {
	onStart := func(ctx context.Context, info *callbacks.RunInfo, in callbacks.CallbackInput) context.Context {
		w.rec(name, "start", info, render(in), false)
		return ctx
	}
	onEnd := func(ctx context.Context, info *callbacks.RunInfo, out callbacks.CallbackOutput) context.Context {
		w.rec(name, "end", info, render(out), false)
		return ctx
	}
	onErr := func(ctx context.Context, info *callbacks.RunInfo, err error) context.Context {
		w.rec(name, "error", info, "err", false)
		return ctx
	}
	onStartS := func(ctx context.Context, info *callbacks.RunInfo, in *schema.StreamReader[callbacks.CallbackInput]) context.Context {
		readStream(w, name, streamMode, in, "start", info)
		return ctx
	}
	onEndS := func(ctx context.Context, info *callbacks.RunInfo, out *schema.StreamReader[callbacks.CallbackOutput]) context.Context {
		readStream(w, name, streamMode, out, "end", info)
		return ctx
	}
	if raw {
		return &rawHandler{onStart, onEnd, onErr, onStartS, onEndS}
	}
	// all built handlers of one execution come from ONE builder that is re-used (Build hands out a snapshot: a
	// handler built earlier keeps its own functions)
	if w.hb == nil {
		w.hb = callbacks.NewHandlerBuilder()
	}
	return w.hb.OnStartFn(onStart).OnEndFn(onEnd).OnErrorFn(onErr).
		OnStartWithStreamInputFn(onStartS).OnEndWithStreamOutputFn(onEndS).Build()
}

// ---------------------------------------------------------------------------------------------------
// helper handler: utils/callbacks.NewHandlerHelper() builds ONE callbacks.Handler out of typed per-component
// sub-handlers and dispatches every event by the component type of the unit. Every sub-handler records under its
// own name; a sub-handler has a function only for the timings of its function set.

var helperComps = []string{"Tool", "ToolsNode", "Lambda", "Graph", "Retriever"}

var helperNames = map[string]string{"Tool": "H.tool", "ToolsNode": "H.toolsnode", "Lambda": "H.lambda", "Graph": "H.graph", "Retriever": "H.retriever"}

// variant -> component -> timings the sub-handler has a function for ("-": no sub-handler registered for the component).
// full: every function the sub-handler's type offers (the typed handlers have no stream-input function at all);
// pa / pb: complementary partial sets (pa: the Graph handler is a built handler without stream functions, the Tool
// handler has OnEnd only; pb: the Graph handler has ONLY stream functions, no ToolsNode / Retriever handler at all).
var helperSets = map[string]map[string]string{
	"full": {"Tool": "start end endS error", "ToolsNode": "start end endS error", "Lambda": "start end error startS endS", "Graph": "start end error startS endS", "Retriever": "start end error"},
	"pa":   {"Tool": "end", "ToolsNode": "start end", "Lambda": "end", "Graph": "start end error", "Retriever": "error"},
	"pb":   {"Tool": "start endS error", "ToolsNode": "-", "Lambda": "start error", "Graph": "startS endS", "Retriever": "-"},
}

// generic builds a callbacks.Handler that has exactly the functions of fns; raw (only with all five): a plain struct.
func (w *world) generic(name string, fns map[string]bool, raw bool, streamMode string) callbacks.Handler {
	onStart := func(ctx context.Context, info *callbacks.RunInfo, in callbacks.CallbackInput) context.Context {
		w.rec(name, "start", info, render(in), false)
		return ctx
	}
	onEnd := func(ctx context.Context, info *callbacks.RunInfo, out callbacks.CallbackOutput) context.Context {
		w.rec(name, "end", info, render(out), false)
		return ctx
	}
	onErr := func(ctx context.Context, info *callbacks.RunInfo, err error) context.Context {
		w.rec(name, "error", info, "err", false)
		return ctx
	}
	onStartS := func(ctx context.Context, info *callbacks.RunInfo, in *schema.StreamReader[callbacks.CallbackInput]) context.Context {
		readStream(w, name, streamMode, in, "start", info)
		return ctx
	}
	onEndS := func(ctx context.Context, info *callbacks.RunInfo, out *schema.StreamReader[callbacks.CallbackOutput]) context.Context {
		readStream(w, name, streamMode, out, "end", info)
		return ctx
	}
	if raw && len(fns) == 5 {
		return &rawHandler{onStart, onEnd, onErr, onStartS, onEndS}
	}
	hb := callbacks.NewHandlerBuilder() // its own builder: the absent functions must stay absent
	if fns["start"] {
		hb.OnStartFn(onStart)
	}
	if fns["end"] {
		hb.OnEndFn(onEnd)
	}
	if fns["error"] {
		hb.OnErrorFn(onErr)
	}
	if fns["startS"] {
		hb.OnStartWithStreamInputFn(onStartS)
	}
	if fns["endS"] {
		hb.OnEndWithStreamOutputFn(onEndS)
	}
	return hb.Build()
}

func (w *world) helper(variant string, raw bool, streamMode string) callbacks.Handler {
	w.hfns = map[string]map[string]bool{}
	w.hcomp = map[string]string{}
	sets := map[string]map[string]bool{}
	for _, comp := range helperComps {
		spec := helperSets[variant][comp]
		if spec == "-" {
			continue
		}
		fns := map[string]bool{}
		for _, t := range strings.Fields(spec) {
			fns[t] = true
		}
		sets[comp] = fns
		w.hfns[helperNames[comp]] = fns
		w.hcomp[helperNames[comp]] = comp
	}
	hh := ucb.NewHandlerHelper()
	onErr := func(name string) func(ctx context.Context, info *callbacks.RunInfo, err error) context.Context {
		return func(ctx context.Context, info *callbacks.RunInfo, err error) context.Context {
			w.rec(name, "error", info, "err", false)
			return ctx
		}
	}
	if fns := sets["Tool"]; fns != nil {
		n := helperNames["Tool"]
		h := &ucb.ToolCallbackHandler{}
		if fns["start"] {
			h.OnStart = func(ctx context.Context, info *callbacks.RunInfo, in *tool.CallbackInput) context.Context {
				w.rec(n, "start", info, render(in), false)
				return ctx
			}
		}
		if fns["end"] {
			h.OnEnd = func(ctx context.Context, info *callbacks.RunInfo, out *tool.CallbackOutput) context.Context {
				w.rec(n, "end", info, render(out), false)
				return ctx
			}
		}
		if fns["endS"] {
			h.OnEndWithStreamOutput = func(ctx context.Context, info *callbacks.RunInfo, out *schema.StreamReader[*tool.CallbackOutput]) context.Context {
				readStream(w, n, streamMode, out, "end", info)
				return ctx
			}
		}
		if fns["error"] {
			h.OnError = onErr(n)
		}
		hh.Tool(h)
	}
	if fns := sets["ToolsNode"]; fns != nil {
		n := helperNames["ToolsNode"]
		h := &ucb.ToolsNodeCallbackHandlers{}
		if fns["start"] {
			h.OnStart = func(ctx context.Context, info *callbacks.RunInfo, in *schema.Message) context.Context {
				w.rec(n, "start", info, render(in), false)
				return ctx
			}
		}
		if fns["end"] {
			h.OnEnd = func(ctx context.Context, info *callbacks.RunInfo, out []*schema.Message) context.Context {
				w.rec(n, "end", info, render(out), false)
				return ctx
			}
		}
		if fns["endS"] {
			h.OnEndWithStreamOutput = func(ctx context.Context, info *callbacks.RunInfo, out *schema.StreamReader[[]*schema.Message]) context.Context {
				readStream(w, n, streamMode, out, "end", info)
				return ctx
			}
		}
		if fns["error"] {
			h.OnError = onErr(n)
		}
		hh.ToolsNode(h)
	}
	if fns := sets["Retriever"]; fns != nil {
		n := helperNames["Retriever"]
		h := &ucb.RetrieverCallbackHandler{}
		if fns["start"] {
			h.OnStart = func(ctx context.Context, info *callbacks.RunInfo, in *retriever.CallbackInput) context.Context {
				w.rec(n, "start", info, render(in), false)
				return ctx
			}
		}
		if fns["end"] {
			h.OnEnd = func(ctx context.Context, info *callbacks.RunInfo, out *retriever.CallbackOutput) context.Context {
				w.rec(n, "end", info, render(out), false)
				return ctx
			}
		}
		if fns["error"] {
			h.OnError = onErr(n)
		}
		hh.Retriever(h)
	}
	if fns := sets["Lambda"]; fns != nil {
		hh.Lambda(w.generic(helperNames["Lambda"], fns, raw, streamMode))
	}
	if fns := sets["Graph"]; fns != nil {
		hh.Graph(w.generic(helperNames["Graph"], fns, raw, streamMode))
	}
	return hh.Handler()
}

type rawHandler struct {
	s  func(context.Context, *callbacks.RunInfo, callbacks.CallbackInput) context.Context
	e  func(context.Context, *callbacks.RunInfo, callbacks.CallbackOutput) context.Context
	er func(context.Context, *callbacks.RunInfo, error) context.Context
	ss func(context.Context, *callbacks.RunInfo, *schema.StreamReader[callbacks.CallbackInput]) context.Context
	es func(context.Context, *callbacks.RunInfo, *schema.StreamReader[callbacks.CallbackOutput]) context.Context
}

func (r *rawHandler) OnStart(ctx context.Context, i *callbacks.RunInfo, in callbacks.CallbackInput) context.Context {
	return r.s(ctx, i, in)
}
func (r *rawHandler) OnEnd(ctx context.Context, i *callbacks.RunInfo, out callbacks.CallbackOutput) context.Context {
	return r.e(ctx, i, out)
}
func (r *rawHandler) OnError(ctx context.Context, i *callbacks.RunInfo, err error) context.Context {
	return r.er(ctx, i, err)
}
func (r *rawHandler) OnStartWithStreamInput(ctx context.Context, i *callbacks.RunInfo, in *schema.StreamReader[callbacks.CallbackInput]) context.Context {
	return r.ss(ctx, i, in)
}
func (r *rawHandler) OnEndWithStreamOutput(ctx context.Context, i *callbacks.RunInfo, out *schema.StreamReader[callbacks.CallbackOutput]) context.Context {
	return r.es(ctx, i, out)
}

func render(v any) string {
	switch x := v.(type) {
	case map[string]any:
		return gprog.Canon(x)
	case string:
		return x
	case *schema.Message:
		if x == nil {
			return "msg<nil>"
		}
		return fmt.Sprintf("msg(%s,%s,calls=%d)", x.Role, x.Content, len(x.ToolCalls))
	case []*schema.Message:
		var p []string
		for _, m := range x {
			p = append(p, render(m))
		}
		return "[" + strings.Join(p, ",") + "]"
	case *tool.CallbackInput:
		if x == nil {
			return "<nil typed payload>"
		}
		return x.ArgumentsInJSON
	case *tool.CallbackOutput:
		if x == nil {
			return "<nil typed payload>"
		}
		return x.Response
	case *retriever.CallbackInput:
		if x == nil {
			return "<nil typed payload>"
		}
		return x.Query
	case *retriever.CallbackOutput:
		if x == nil {
			return "<nil typed payload>"
		}
		return fmt.Sprintf("%v", x.Docs)
	}
	return fmt.Sprintf("%v", v)
}

// ---------------------------------------------------------------------------------------------------

type spec struct {
	name      string
	shape     string // fan2 | fan3 | nested | tools | tools-unknown | tools-fail | tools-stream | interrupt | sharedlambda | retrievers | start-end | before-first | start-branch-fails
	undes     int    // number of undesignated per-call handlers
	separate  bool   // passed as separate options (true) or as one option (false)
	global    bool   // one global handler
	desig     string // "" | "leaves" (one handler per parallel leaf) | "sub" (handler designated to the sub-graph node) | "path" (to an inner node by path) | "paths" (one option designated to three paths on two levels, deep first)
	raw       bool
	call      string // invoke | stream
	streamMod string // drain | close | read1
	yields    bool
	helper    string // "" | call (one extra per-call option) | global | node (designated to a node): where the helper handler is passed
	hvariant  string // full | pa | pb: function sets of the helper's sub-handlers (helperSets)
}

// timings names the timing through which a unit's start and its end-type event are delivered in this run (the
// documented rule: a unit whose own interface consumes / produces a stream reports through the stream timing; a
// graph called with Stream runs as a stream-to-stream unit, so do its sub-graphs; an invokable lambda / tool and a
// retriever exchange plain values; the tools node consumes a message and, in a streamed run, produces a stream).
// Only the helper's sub-handlers need it: a sub-handler without a function for a timing must not be called for it.
func (sp *spec) timings(u unit) (string, string) {
	st, en := "start", "end"
	switch u.comp {
	case "Graph":
		if sp.call == "stream" {
			st, en = "startS", "endS"
		}
	case "ToolsNode":
		if sp.call == "stream" {
			en = "endS"
		}
	case "Tool":
		if u.streamTool {
			en = "endS"
		}
	}
	if u.fails {
		en = "error"
	}
	return st, en
}

var input = gprog.Val{"in": "x"}

func lam(key string, yield bool) *compose.Lambda {
	return compose.InvokableLambda(func(ctx context.Context, in gprog.Val) (gprog.Val, error) {
		if yield {
			vsched.Yield()
		}
		return gprog.NodeFn(key, in), nil
	})
}

type recTool struct {
	name  string
	yield bool
	fails bool
}

func (t *recTool) Info(ctx context.Context) (*schema.ToolInfo, error) {
	return &schema.ToolInfo{Name: t.name, Desc: t.name}, nil
}
func (t *recTool) InvokableRun(ctx context.Context, args string, opts ...tool.Option) (string, error) {
	if t.yield {
		vsched.Yield()
	}
	if t.fails {
		return "", errors.New("tool-failed")
	}
	return t.name + "(" + args + ")", nil
}

// recSTool is a tool that only streams its answer (two chunks): its end is reported through the stream timing in
// Invoke and in Stream.
type recSTool struct {
	name  string
	yield bool
}

func (t *recSTool) Info(ctx context.Context) (*schema.ToolInfo, error) {
	return &schema.ToolInfo{Name: t.name, Desc: t.name}, nil
}
func (t *recSTool) StreamableRun(ctx context.Context, args string, opts ...tool.Option) (*schema.StreamReader[string], error) {
	if t.yield {
		vsched.Yield()
	}
	return schema.StreamReaderFromArray([]string{t.name + "(", args + ")"}), nil
}

// fakeRetriever is a sub-component run by flow/retriever/utils.ConcurrentRetrieveWithCallback.
type fakeRetriever struct {
	typ    string
	yield  bool
	panics bool
}

func (f *fakeRetriever) GetType() string { return f.typ }
func (f *fakeRetriever) Retrieve(ctx context.Context, query string, opts ...retriever.Option) ([]*schema.Document, error) {
	if f.yield {
		vsched.Yield()
	}
	if f.panics {
		panic("retriever-panic")
	}
	return []*schema.Document{}, nil
}

// unit describes an execution unit and the (start payload, end payload) it must report.
type unit struct {
	name       string
	start, end string
	fails      bool // the unit ends with an error (or interrupt): its end-type event is OnError
	inSub      bool // inside the sub-graph node "s"
	isSub      bool
	leaf       string
	comp       string // component type of the unit's run info: Graph | Lambda | Tool | ToolsNode | Retriever
	streamTool bool   // a tool that streams its answer
}

func (sp *spec) build() (func(), func(x *vsched.Exec) (string, error)) {
	w := &world{}
	var runErr error
	var result string
	var units []unit
	applicable := map[string]func(u unit) bool{}
	main := func() {
		ctx := context.Background()
		// the helper handler: ONE handler; each of its sub-handlers applies to the units of its component type within
		// the scope the whole handler applies to
		var hh callbacks.Handler
		hscope := func(u unit) bool { return true }
		if sp.helper != "" {
			hh = w.helper(sp.hvariant, sp.raw, sp.streamMod)
			if sp.helper == "node" {
				hscope = func(u unit) bool { return false } // until designated below
			}
			for name, comp := range w.hcomp {
				comp := comp
				applicable[name] = func(u unit) bool { return hscope(u) && u.comp == comp }
			}
		}
		var globals []callbacks.Handler
		if sp.global {
			globals = append(globals, w.handler("G", sp.raw, sp.streamMod))
			applicable["G"] = func(u unit) bool { return true }
		}
		if sp.helper == "global" {
			globals = append(globals, hh)
		}
		callbacks.InitCallbackHandlers(globals)
		var opts []compose.Option
		var hs []callbacks.Handler
		for i := 0; i < sp.undes; i++ {
			n := fmt.Sprintf("U%d", i)
			hs = append(hs, w.handler(n, sp.raw, sp.streamMod))
			applicable[n] = func(u unit) bool { return true }
		}
		if sp.separate {
			for _, h := range hs {
				opts = append(opts, compose.WithCallbacks(h))
			}
		} else if len(hs) > 0 {
			opts = append(opts, compose.WithCallbacks(hs...))
		}
		if sp.helper == "call" {
			opts = append(opts, compose.WithCallbacks(hh))
		}
		designate := func(hname string, key string, pred func(u unit) bool) {
			opts = append(opts, compose.WithCallbacks(w.handler(hname, sp.raw, sp.streamMod)).DesignateNode(key))
			applicable[hname] = pred
		}
		// helper handler designated to one node: it applies to that node and to what runs inside it
		designateHelper := func(key string, pred func(u unit) bool) {
			if sp.helper == "node" {
				opts = append(opts, compose.WithCallbacks(hh).DesignateNode(key))
				hscope = pred
			}
		}
		in := gprog.Canon(input)
		switch sp.shape {
		case "fan2", "fan3":
			keys := []string{"a", "b"}
			if sp.shape == "fan3" {
				keys = append(keys, "c")
			}
			g := compose.NewGraph[gprog.Val, gprog.Val]()
			res := gprog.Val{}
			for _, k := range keys {
				g.AddLambdaNode(k, lam(k, sp.yields), compose.WithNodeName(k))
				g.AddEdge(compose.START, k)
				g.AddEdge(k, compose.END)
				out := gprog.NodeFn(k, input)
				units = append(units, unit{name: k, start: in, end: gprog.Canon(out), leaf: k, comp: "Lambda"})
				res[k] = out[k]
			}
			units = append(units, unit{name: "G0", start: in, end: gprog.Canon(res), comp: "Graph"})
			if sp.desig == "leaves" {
				for _, k := range keys {
					k := k
					designate("D"+k, k, func(u unit) bool { return u.name == k })
				}
			}
			designateHelper("a", func(u unit) bool { return u.name == "a" })
			r, err := g.Compile(ctx, compose.WithGraphName("G0"))
			if err != nil {
				runErr = err
				return
			}
			result, runErr = exec(ctx, r, sp.call, opts)
		case "sharedlambda":
			// ONE *compose.Lambda value added as two nodes (under different keys, names and output keys): each
			// execution unit still has its own run info
			l := compose.InvokableLambda(func(ctx context.Context, in gprog.Val) (gprog.Val, error) {
				if sp.yields {
					vsched.Yield()
				}
				return gprog.Val{"v": gprog.Canon(in)}, nil
			})
			g := compose.NewGraph[gprog.Val, gprog.Val]()
			g.AddLambdaNode("a", l, compose.WithNodeName("a"))
			g.AddLambdaNode("b", l, compose.WithNodeName("b"))
			g.AddEdge(compose.START, "a")
			g.AddEdge("a", "b")
			g.AddEdge("b", compose.END)
			outA := gprog.Val{"v": in}
			outB := gprog.Val{"v": gprog.Canon(outA)}
			units = append(units, unit{name: "a", start: in, end: gprog.Canon(outA), leaf: "a", comp: "Lambda"})
			units = append(units, unit{name: "b", start: gprog.Canon(outA), end: gprog.Canon(outB), leaf: "b", comp: "Lambda"})
			units = append(units, unit{name: "G0", start: in, end: gprog.Canon(outB), comp: "Graph"})
			if sp.desig == "leaves" {
				designate("Da", "a", func(u unit) bool { return u.name == "a" })
				designate("Db", "b", func(u unit) bool { return u.name == "b" })
			}
			designateHelper("b", func(u unit) bool { return u.name == "b" })
			r, err := g.Compile(ctx, compose.WithGraphName("G0"))
			if err != nil {
				runErr = err
				return
			}
			result, runErr = exec(ctx, r, sp.call, opts)
		case "interrupt":
			// node a asks to be interrupted (and re-run later): its execution and the graph's end with an error-type event
			g := compose.NewGraph[gprog.Val, gprog.Val]()
			g.AddLambdaNode("a", compose.InvokableLambda(func(ctx context.Context, in gprog.Val) (gprog.Val, error) {
				if sp.yields {
					vsched.Yield()
				}
				return nil, compose.InterruptAndRerun
			}), compose.WithNodeName("a"))
			g.AddLambdaNode("b", lam("b", sp.yields), compose.WithNodeName("b"))
			for _, k := range []string{"a", "b"} {
				g.AddEdge(compose.START, k)
				g.AddEdge(k, compose.END)
			}
			units = append(units, unit{name: "a", start: in, fails: true, leaf: "a", comp: "Lambda"})
			units = append(units, unit{name: "b", start: in, end: gprog.Canon(gprog.NodeFn("b", input)), leaf: "b", comp: "Lambda"})
			units = append(units, unit{name: "G0", start: in, fails: true, comp: "Graph"})
			if sp.desig == "leaves" {
				designate("Da", "a", func(u unit) bool { return u.name == "a" })
				designate("Db", "b", func(u unit) bool { return u.name == "b" })
			}
			designateHelper("a", func(u unit) bool { return u.name == "a" })
			r, err := g.Compile(ctx, compose.WithGraphName("G0"))
			if err != nil {
				runErr = err
				return
			}
			_, e := exec(ctx, r, sp.call, opts)
			if _, isInt := compose.ExtractInterruptInfo(e); !isInt {
				runErr = fmt.Errorf("expected an interrupt, got %v", e)
			}
			result = "<interrupted>"
		case "retrievers":
			// a flow helper that runs sub-components concurrently with their own callbacks (flow/retriever/utils): two
			// sub-retrievers inside node rt, one of them panics. Each is an execution unit: one start, one end-type event,
			// under its own run info; the enclosing node gets exactly its own pair
			g := compose.NewGraph[gprog.Val, gprog.Val]()
			g.AddLambdaNode("rt", compose.InvokableLambda(func(ctx context.Context, in gprog.Val) (gprog.Val, error) {
				tasks := []*rutils.RetrieveTask{
					{Name: "good", Retriever: &fakeRetriever{typ: "Good", yield: sp.yields}, Query: "q1"},
					{Name: "bad", Retriever: &fakeRetriever{typ: "Bad", yield: sp.yields, panics: true}, Query: "q2"},
				}
				rutils.ConcurrentRetrieveWithCallback(ctx, tasks)
				return gprog.NodeFn("rt", in), nil
			}), compose.WithNodeName("rt"))
			g.AddEdge(compose.START, "rt")
			g.AddEdge("rt", compose.END)
			out := gprog.NodeFn("rt", input)
			units = append(units, unit{name: "rt", start: in, end: gprog.Canon(out), leaf: "rt", comp: "Lambda"})
			units = append(units, unit{name: "GoodRetriever", start: "q1", end: "[]", leaf: "GoodRetriever", comp: "Retriever"})
			units = append(units, unit{name: "BadRetriever", start: "q2", fails: true, leaf: "BadRetriever", comp: "Retriever"})
			units = append(units, unit{name: "G0", start: in, end: gprog.Canon(out), comp: "Graph"})
			inRt := func(u unit) bool { return u.name == "rt" || u.name == "GoodRetriever" || u.name == "BadRetriever" }
			if sp.desig == "leaves" {
				// a handler designated to the node applies to the node and (context inheritance) the units inside it
				designate("Drt", "rt", inRt)
			}
			designateHelper("rt", inRt)
			r, err := g.Compile(ctx, compose.WithGraphName("G0"))
			if err != nil {
				runErr = err
				return
			}
			result, runErr = exec(ctx, r, sp.call, opts)
		case "start-end", "before-first", "start-branch-fails":
			// runs that leave the run loop inside their FIRST step: START wired to END, an interrupt before the only
			// node, a failing branch on START. The graph is a unit like any other: one start, one end-type event
			g := compose.NewGraph[gprog.Val, gprog.Val]()
			var copts []compose.GraphCompileOption
			gu := unit{name: "G0", start: in, comp: "Graph"}
			switch sp.shape {
			case "start-end":
				g.AddEdge(compose.START, compose.END)
				gu.end = in
			case "before-first":
				g.AddLambdaNode("a", lam("a", sp.yields), compose.WithNodeName("a"))
				g.AddEdge(compose.START, "a")
				g.AddEdge("a", compose.END)
				copts = append(copts, compose.WithInterruptBeforeNodes([]string{"a"}))
				gu.fails = true
			case "start-branch-fails":
				g.AddLambdaNode("a", lam("a", sp.yields), compose.WithNodeName("a"))
				g.AddBranch(compose.START, compose.NewGraphBranch(func(ctx context.Context, in gprog.Val) (string, error) {
					return "", errors.New("branch-condition-failed")
				}, map[string]bool{"a": true, compose.END: true}))
				g.AddEdge("a", compose.END)
				gu.fails = true
			}
			units = append(units, gu)
			if sp.desig == "leaves" {
				designate("Da", "a", func(u unit) bool { return u.name == "a" })
			}
			designateHelper("a", func(u unit) bool { return u.name == "a" }) // node a never runs
			r, err := g.Compile(ctx, append(copts, compose.WithGraphName("G0"))...)
			if err != nil {
				runErr = err
				return
			}
			res, e := exec(ctx, r, sp.call, opts)
			switch {
			case !gu.fails:
				result, runErr = res, e
			case e == nil:
				runErr = fmt.Errorf("expected the run to end with an error or interrupt, got the result %s", res)
			default:
				result = "<" + sp.shape + ">"
			}
		case "nested", "nested-keyed":
			// nested-keyed: the sub-graph node is added with an output key, so it runs behind a wrapper of its own
			keyed := sp.shape == "nested-keyed"
			sub := compose.NewGraph[gprog.Val, gprog.Val]()
			sres := gprog.Val{}
			for _, k := range []string{"x", "y"} {
				sub.AddLambdaNode(k, lam(k, sp.yields), compose.WithNodeName(k))
				sub.AddEdge(compose.START, k)
				sub.AddEdge(k, compose.END)
				out := gprog.NodeFn(k, input)
				units = append(units, unit{name: k, start: in, end: gprog.Canon(out), inSub: true, leaf: k, comp: "Lambda"})
				sres[k] = out[k]
			}
			g := compose.NewGraph[gprog.Val, gprog.Val]()
			g.AddLambdaNode("a", lam("a", sp.yields), compose.WithNodeName("a"))
			if keyed {
				g.AddGraphNode("s", sub, compose.WithNodeName("s"), compose.WithOutputKey("k"))
			} else {
				g.AddGraphNode("s", sub, compose.WithNodeName("s"))
			}
			for _, k := range []string{"a", "s"} {
				g.AddEdge(compose.START, k)
				g.AddEdge(k, compose.END)
			}
			aout := gprog.NodeFn("a", input)
			units = append(units, unit{name: "a", start: in, end: gprog.Canon(aout), leaf: "a", comp: "Lambda"})
			units = append(units, unit{name: "s", start: in, end: gprog.Canon(sres), isSub: true, comp: "Graph"})
			res := gprog.Val{"a": aout["a"]}
			if keyed {
				res["k"] = map[string]any(sres)
			} else {
				for k, v := range sres {
					res[k] = v
				}
			}
			units = append(units, unit{name: "G0", start: in, end: gprog.Canon(res), comp: "Graph"})
			designateHelper("s", func(u unit) bool { return u.isSub || u.inSub })
			switch sp.desig {
			case "leaves":
				designate("Da", "a", func(u unit) bool { return u.name == "a" })
			case "sub":
				designate("Da", "a", func(u unit) bool { return u.name == "a" })
				// designated to a graph node: that node and (context inheritance) the units inside it; never siblings
				designate("Ds", "s", func(u unit) bool { return u.isSub || u.inSub })
			case "path":
				opts = append(opts, compose.WithCallbacks(w.handler("Px", sp.raw, sp.streamMod)).DesignateNodeWithPath(compose.NewNodePath("s", "x")))
				applicable["Px"] = func(u unit) bool { return u.name == "x" }
				designate("Da", "a", func(u unit) bool { return u.name == "a" })
			case "paths":
				// ONE option designated to several paths, the deeper one first, then a top-level node, then a deeper one again
				opts = append(opts, compose.WithCallbacks(w.handler("Pm", sp.raw, sp.streamMod)).DesignateNodeWithPath(
					compose.NewNodePath("s", "x"), compose.NewNodePath("a"), compose.NewNodePath("s", "y")))
				applicable["Pm"] = func(u unit) bool { return u.name == "x" || u.name == "a" || u.name == "y" }
			}
			r, err := g.Compile(ctx, compose.WithGraphName("G0"))
			if err != nil {
				runErr = err
				return
			}
			result, runErr = exec(ctx, r, sp.call, opts)
		case "tools", "tools-unknown", "tools-fail", "tools-stream":
			// tools-fail: tool t2 answers with an error: its call, the tools node and the graph end with an error event
			// (t1 runs in parallel and ends normally); tools-stream: t2 only streams its answer
			var t2 tool.BaseTool = &recTool{name: "t2", yield: sp.yields, fails: sp.shape == "tools-fail"}
			if sp.shape == "tools-stream" {
				t2 = &recSTool{name: "t2", yield: sp.yields}
			}
			cfg := &compose.ToolsNodeConfig{Tools: []tool.BaseTool{&recTool{name: "t1", yield: sp.yields}, t2}}
			if sp.shape == "tools-unknown" {
				cfg.UnknownToolsHandler = func(ctx context.Context, name, in string) (string, error) {
					return "handled(" + name + "," + in + ")", nil
				}
			}
			tn, err := compose.NewToolNode(ctx, cfg)
			if err != nil {
				runErr = err
				return
			}
			g := compose.NewGraph[*schema.Message, []*schema.Message]()
			g.AddToolsNode("tools", tn, compose.WithNodeName("tools"))
			g.AddEdge(compose.START, "tools")
			g.AddEdge("tools", compose.END)
			msg := &schema.Message{Role: schema.Assistant, ToolCalls: []schema.ToolCall{
				{ID: "c1", Function: schema.FunctionCall{Name: "t1", Arguments: "A"}},
				{ID: "c2", Function: schema.FunctionCall{Name: "t2", Arguments: "B"}},
			}}
			toolsFail := sp.shape == "tools-fail"
			units = append(units, unit{name: "t1", start: "A", end: "t1(A)", leaf: "t1", comp: "Tool"})
			units = append(units, unit{name: "t2", start: "B", end: "t2(B)", leaf: "t2", comp: "Tool", fails: toolsFail, streamTool: sp.shape == "tools-stream"})
			outMsgs := "[msg(tool,t1(A),calls=0),msg(tool,t2(B),calls=0)]"
			if sp.shape == "tools-unknown" {
				// a call answered by the unknown-tool handler is a tool call like the others
				// two calls (t1 and the unknown one): keeps the thread count of the plain tools shape
				msg.ToolCalls = []schema.ToolCall{msg.ToolCalls[0], {ID: "c3", Function: schema.FunctionCall{Name: "ghost", Arguments: "C"}}}
				units = []unit{{name: "t1", start: "A", end: "t1(A)", leaf: "t1", comp: "Tool"}, {name: "ghost", start: "C", end: "handled(ghost,C)", leaf: "ghost", comp: "Tool"}}
				outMsgs = "[msg(tool,t1(A),calls=0),msg(tool,handled(ghost,C),calls=0)]"
			}
			units = append(units, unit{name: "tools", start: render(msg), end: outMsgs, comp: "ToolsNode", fails: toolsFail})
			units = append(units, unit{name: "G0", start: render(msg), end: outMsgs, comp: "Graph", fails: toolsFail})
			inTools := func(u unit) bool { return u.name == "tools" || u.name == "t1" || u.name == "t2" || u.name == "ghost" }
			if sp.desig == "leaves" {
				// a handler designated to the tools node applies to the node and (context inheritance) its tool calls
				designate("Dt", "tools", inTools)
			}
			designateHelper("tools", inTools)
			r, err := g.Compile(ctx, compose.WithGraphName("G0"))
			if err != nil {
				runErr = err
				return
			}
			if sp.call == "stream" {
				sr, e := r.Stream(ctx, msg, opts...)
				if e != nil {
					runErr = e
					if !toolsFail {
						return
					}
				} else {
					var all [][]*schema.Message
					for {
						c, e := sr.Recv()
						if e == io.EOF {
							break
						}
						if e != nil {
							runErr = e
							break
						}
						all = append(all, c)
					}
					sr.Close()
					if runErr == nil {
						m, e := concatArrays(all)
						runErr = e
						result = render(m)
					}
				}
			} else {
				m, e := r.Invoke(ctx, msg, opts...)
				runErr = e
				result = render(m)
			}
			if toolsFail {
				if runErr == nil {
					runErr = fmt.Errorf("expected the run to end with the tool's error, got the result %s", result)
				} else if !strings.Contains(runErr.Error(), "tool-failed") {
					runErr = fmt.Errorf("expected the run to end with the tool's error, got %v", runErr)
				} else {
					runErr, result = nil, "<tools-fail>"
				}
			}
		}
	}
	check := func(x *vsched.Exec) (string, error) {
		callbacks.InitCallbackHandlers(nil)
		if x.Deadlock {
			return "", fmt.Errorf("the run hangs: %v", x.Blocked)
		}
		if x.MainPanic != "" || x.ThreadPanic != "" {
			return "", fmt.Errorf("panic: %s%s", x.MainPanic, x.ThreadPanic)
		}
		if len(x.Blocked) > 0 {
			return "", fmt.Errorf("goroutines left blocked: %v", x.Blocked)
		}
		if runErr != nil {
			return "", fmt.Errorf("run failed: %v", runErr)
		}
		// the flow result must not depend on what handlers do with their stream copies
		var g0 unit
		for _, u := range units {
			if u.name == "G0" {
				g0 = u
			}
		}
		if result != g0.end && !g0.fails {
			return "", fmt.Errorf("flow result disturbed: got %s want %s", result, g0.end)
		}
		hnames := make([]string, 0, len(applicable))
		for h := range applicable {
			hnames = append(hnames, h)
		}
		sort.Strings(hnames)
		known := map[string]bool{}
		for _, u := range units {
			known[u.name] = true
		}
		for _, ev := range w.events {
			if !known[ev.unit] {
				return "", fmt.Errorf("handler %s got a %s event for an unknown unit %q", ev.h, ev.kind, ev.unit)
			}
		}
		for _, h := range hnames {
			for _, u := range units {
				var starts, ends []event
				for _, ev := range w.events {
					if ev.h == h && ev.unit == u.name {
						if ev.kind == "start" {
							starts = append(starts, ev)
						} else {
							ends = append(ends, ev)
						}
					}
				}
				if !applicable[h](u) {
					if len(starts)+len(ends) > 0 && w.hfns[h] != nil {
						return "", fmt.Errorf("helper sub-handler %s (registered for component %s) does not apply to unit %s (%s) but received %d start / %d end event(s): %v", h, w.hcomp[h], u.name, u.comp, len(starts), len(ends), append(starts, ends...))
					}
					if len(starts)+len(ends) > 0 {
						return "", fmt.Errorf("handler %s does not apply to unit %s but received %d start / %d end event(s): %v", h, u.name, len(starts), len(ends), append(starts, ends...))
					}
					continue
				}
				// a sub-handler of the helper handler has functions for some timings only: it must be called exactly
				// for those (handlers outside the helper have all five: one start, one end-type event)
				wantS, wantE := 1, 1
				st, en := sp.timings(u)
				fns := w.hfns[h]
				if fns != nil {
					if !fns[st] {
						wantS = 0
					}
					if !fns[en] {
						wantE = 0
					}
				}
				if len(starts) != wantS || len(ends) != wantE {
					if fns == nil {
						return "", fmt.Errorf("handler %s applies to unit %s and must see exactly one start and one end event, saw %d start / %d end (all events of the handler: %v)", h, u.name, len(starts), len(ends), eventsOf(w.events, h))
					}
					return "", fmt.Errorf("helper sub-handler %s (functions: %s) applies to unit %s (%s; timings %s / %s) and must see exactly %d start and %d end-type event(s), saw %d start / %d end (all events of the handler: %v)", h, fnList(fns), u.name, u.comp, st, en, wantS, wantE, len(starts), len(ends), eventsOf(w.events, h))
				}
				pre := "handler " + h
				if fns != nil {
					pre = "helper sub-handler " + h
				}
				for _, ev := range append(append([]event{}, starts...), ends...) {
					if ev.comp != u.comp {
						return "", fmt.Errorf("%s: the %s event of unit %s came with the run info of a %s, the unit is a %s", pre, ev.kind, u.name, ev.comp, u.comp)
					}
				}
				if wantE == 1 {
					if u.fails && ends[0].kind != "error" {
						return "", fmt.Errorf("%s: unit %s ended with an error/interrupt but the handler got a %s event", pre, u.name, ends[0].kind)
					}
					if !u.fails && ends[0].kind != "end" {
						return "", fmt.Errorf("%s got an error event for unit %s of a successful run", pre, u.name)
					}
				}
				if wantS == 1 && !payloadOK(starts[0].payload, u.start, sp.streamMod) {
					return "", fmt.Errorf("%s: start payload of unit %s is %s, the unit consumed %s", pre, u.name, starts[0].payload, u.start)
				}
				if wantE == 1 && !u.fails && !payloadOK(ends[0].payload, u.end, sp.streamMod) {
					return "", fmt.Errorf("%s: end payload of unit %s is %s, the unit produced %s", pre, u.name, ends[0].payload, u.end)
				}
			}
		}
		return fmt.Sprintf("%d events", len(w.events)), nil
	}
	return main, check
}

func concatArrays(all [][]*schema.Message) ([]*schema.Message, error) {
	n := 0
	for _, a := range all {
		if len(a) > n {
			n = len(a)
		}
	}
	out := make([]*schema.Message, n)
	for i := 0; i < n; i++ {
		var ms []*schema.Message
		for _, a := range all {
			if i < len(a) && a[i] != nil {
				ms = append(ms, a[i])
			}
		}
		if len(ms) == 0 {
			continue
		}
		m, err := schema.ConcatMessages(ms)
		if err != nil {
			return nil, err
		}
		out[i] = m
	}
	return out, nil
}

func fnList(fns map[string]bool) string {
	var l []string
	for _, t := range []string{"start", "end", "error", "startS", "endS"} {
		if fns[t] {
			l = append(l, t)
		}
	}
	return strings.Join(l, ",")
}

func eventsOf(evs []event, h string) []event {
	var out []event
	for _, e := range evs {
		if e.h == h {
			out = append(out, e)
		}
	}
	return out
}

// payloadOK compares a recorded payload with the unit's value. Stream payloads are compared after
// concatenation of map chunks (a drained stream of map chunks renders as "stream:c1+c2"; the chunk
// boundaries are not the unit's business, so the union of the chunks is compared).
func payloadOK(got, want, mode string) bool {
	if got == want || got == "<closed>" || want == "*" {
		return true
	}
	if strings.HasPrefix(got, "stream:") {
		return strings.TrimPrefix(got, "stream:") == want
	}
	if strings.HasPrefix(got, "first:") {
		// the handler read one chunk and closed: the chunk must be a part of what the unit consumed/produced
		p := strings.TrimPrefix(got, "first:")
		if p == want || p == "<eof>" {
			return true
		}
		if strings.HasPrefix(p, "{") {
			body := strings.TrimSuffix(strings.TrimPrefix(p, "{"), "}")
			if i := strings.Index(body, "={"); i > 0 && strings.HasSuffix(body, "}") && !strings.ContainsAny(body[:i], ",({") {
				// a chunk of a keyed sub-graph: {k={y=..}} is a part of {..,k={x=..,y=..}}: the key, and below it the entry
				return strings.Contains(want, body[:i+2]) && strings.Contains(want, strings.TrimSuffix(body[i+2:], "}"))
			}
			return strings.Contains(want, strings.Trim(p, "{}"))
		}
		if strings.HasPrefix(p, "[") {
			for _, m := range splitTop(strings.TrimSuffix(strings.TrimPrefix(p, "["), "]")) {
				if m == "msg<nil>" || strings.Contains(want, m) {
					continue
				}
				// a chunk of a message whose content is itself streamed (a tool that streams its answer): the chunk
				// carries a part of the content, under the same role and tool-call count
				i := strings.LastIndex(m, ",calls=")
				if i < 0 || !strings.Contains(want, m[:i]) || !strings.Contains(want, m[i:]) {
					return false
				}
			}
			return true
		}
		return strings.Contains(want, p)
	}
	return false
}

// splitTop splits a comma-separated rendering at top level (parentheses nest).
func splitTop(s string) []string {
	var out []string
	depth, start := 0, 0
	for i, r := range s {
		switch r {
		case '(', '{', '[':
			depth++
		case ')', '}', ']':
			depth--
		case ',':
			if depth == 0 {
				out = append(out, s[start:i])
				start = i + 1
			}
		}
	}
	return append(out, s[start:])
}

func exec(ctx context.Context, r compose.Runnable[gprog.Val, gprog.Val], call string, opts []compose.Option) (string, error) {
	if call == "stream" {
		sr, err := r.Stream(ctx, input, opts...)
		if err != nil {
			return "", err
		}
		v, err, _ := gprog.Drain(sr)
		return gprog.Canon(v), err
	}
	v, err := r.Invoke(ctx, input, opts...)
	return gprog.Canon(v), err
}

func main() {
	c := harness.Init("C10")
	c.Res.Rule = "scenario = graph shape (2 or 3 parallel lambdas, nested graph next to a lambda (also added with an output key), tools node with two tool calls) x way of supplying handlers (global; 0-3 undesignated per-call handlers as ONE option or as SEPARATE options — the slice capacities differ; handlers designated to leaf nodes, to a sub-graph node, to an inner node by path, to the tools node) x handler kind (HandlerBuilder with timing checker / raw struct) x Invoke/Stream x what handlers do with stream payloads (drain, close at once, read one then close) x yields in node bodies x helper handler (none; ONE handler built with utils/callbacks.NewHandlerHelper out of typed Tool / ToolsNode / Retriever sub-handlers and Lambda / Graph sub-handlers, passed as one more per-call option, as a global handler, or designated to a node; sub-handler function sets full / pa / pb, the partial ones complementary: Tool with OnEnd only, a built Graph handler without stream functions, a Graph handler with ONLY stream functions, components without a sub-handler; extra shapes: a tool that fails, a tool that streams its answer); every interleaving of the executor goroutines, tool-call goroutines and the run loop within the preemption bound, both map orders; distinct/non-trivial = distinct scheduling signatures of scenarios with >= 2 of them"
	c.Res.Assumptions = []string{
		"sequential consistency at synchronisation granularity; node bodies are atomic between their explicit yields, framework code between two synchronisation operations is atomic",
		"no happens-before state caching here: the shared mutable state this property is about (handler slices) is plain memory",
		"a handler designated to a graph node or a tools node is allowed to fire for the units inside it (context inheritance, by design); 'only there' is demanded for leaf nodes and never for siblings or the parent",
		"helper scenarios are explored up to preemption bound 2 in both tiers (the dispatch inside the helper handler is sequential code); a stream copy that a handler neither reads nor closes blocks nobody in these shapes (copies pull from their source on demand) and is therefore not observable by the leak verdict",
		harness.RacePassAssumption,
	}
	c.Res.Explanation = "stateless exhaustive exploration of real graph runs with recording handlers; oracle per execution from the applicability relation: for every (handler, unit) applicable => exactly one start-type and one end-type event carrying that unit's name and the payload the unit consumed / produced, not applicable => no event; the flow result is unaffected by what handlers do with their stream copies; no hang, nothing left blocked. Every event must also carry the component type of its unit in the run info. A sub-handler of the helper handler applies to the units of its component type inside the scope of the whole helper handler (everywhere / the designated node and what runs inside it): it must see exactly the events of those units for whose timing it has a function (start, end, error, stream start, stream end; the timing of a unit follows from the interface it runs through: graphs called with Stream report stream start / stream end, the tools node a plain start and in a streamed run a stream end, a streaming tool a stream end, everything else plain values), typed payloads rendered field-wise (tool arguments / response, retriever query / documents, the tools node's message list), never an event of a unit of another component type, and the run, its result and the leak / deadlock verdicts must be those of a run without it. " + harness.RacePassExplanation
	quick := c.Quick()
	rp := c.StartRacePass("./checks/c10") // worker 0 only: native -race build of this package, free runs of the scenario bodies
	bounds := []int{0, 1, 2}
	if !quick {
		bounds = []int{0, 1, 2, 3}
	}
	shapes := []string{"fan2", "nested", "tools", "interrupt", "tools-unknown", "sharedlambda", "start-end", "before-first", "start-branch-fails", "retrievers", "fan3", "tools-fail", "tools-stream", "nested-keyed"}
	type hmode struct{ where, variant string }
	hmodes := []hmode{{}}
	for _, where := range []string{"call", "global", "node"} {
		for _, variant := range []string{"full", "pa", "pb"} {
			hmodes = append(hmodes, hmode{where, variant})
		}
	}
	for _, shape := range shapes {
		desigs := []string{"", "leaves"}
		if shape == "nested" {
			desigs = []string{"", "leaves", "sub", "path", "paths"}
		}
		if shape == "nested-keyed" {
			desigs = []string{"sub", "path"}
		}
		for _, desig := range desigs {
			for undes := 0; undes <= 3; undes++ {
				for _, separate := range []bool{false, true} {
					if undes < 2 && separate {
						continue
					}
					for _, global := range []bool{false, true} {
						for _, call := range []string{"invoke", "stream"} {
							mods := []string{"drain"}
							if call == "stream" {
								mods = []string{"drain", "close", "read1"}
							}
							for _, mod := range mods {
								for _, raw := range []bool{false, true} {
									for _, hm := range hmodes {
										helper := hm.where != ""
										if undes == 0 && desig == "" && !global && !helper {
											continue
										}
										// reduce: raw handlers and non-drain modes only in the richest configurations
										if raw && !(undes == 3 && separate) && !(undes == 1 && desig != "") {
											continue
										}
										if mod != "drain" && !(undes >= 2) && !(desig != "" && undes == 1) && !helper {
											continue
										}
										firstStep := shape == "start-end" || shape == "before-first" || shape == "start-branch-fails"
										if firstStep && desig != "" && shape == "start-end" {
											continue // no node to designate
										}
										if helper && hm.where == "node" && shape == "start-end" {
											continue // no node to designate
										}
										if helper && raw && hm.variant != "full" {
											continue // the partial sub-handlers are built handlers in any case
										}
										small := shape == "tools-unknown" || shape == "sharedlambda" || shape == "retrievers" || firstStep || shape == "tools-fail" || shape == "tools-stream" || shape == "nested-keyed"
										if quick && small && !(undes <= 1 && !raw && (mod == "drain" || helper)) {
											continue
										}
										if quick && shape == "fan3" && !(undes == 3 && separate && desig == "leaves") {
											continue
										}
										if quick && global && undes == 3 {
											continue
										}
										// quick, helper handler: alone, or (per-call) next to one undesignated handler; no other
										// designated / global handlers; the stream copies drained or closed at once
										if quick && helper && !(desig == "" && !global && !raw && (undes == 0 || undes == 1 && hm.where == "call") &&
											mod != "read1" && shape != "sharedlambda") {
											continue
										}
										// the costly tool shapes whose dispatch differs from the plain tools shape in one tool call only
										if quick && helper && shape == "tools-unknown" && !(hm.where == "call" && undes == 0) {
											continue
										}
										if quick && helper && shape == "tools-stream" && !(undes == 0 && (hm.where == "call" || hm.where == "node" && hm.variant == "full")) {
											continue
										}
										if helper && shape == "fan3" {
											continue // the dispatch by component type does not depend on the number of parallel leaves (fan2)
										}
										// thorough, helper handler: next to 0, 1 or 3 separately passed undesignated handlers; the global
										// and raw handlers of the other dimensions only with the per-call helper; designated handlers with
										// the per-call and the designated helper
										if !quick && helper && !((undes <= 1 || undes == 3 && separate) && (!global || hm.where == "call") &&
											(!raw || hm.where == "call") && (desig == "" || hm.where != "global")) {
											continue
										}
										sp := &spec{shape: shape, undes: undes, separate: separate, global: global, desig: desig, raw: raw, call: call, streamMod: mod, yields: true,
											helper: hm.where, hvariant: hm.variant}
										sp.name = fmt.Sprintf("%s/undes%d-sep%v-glob%v-desig[%s]-raw%v/%s/%s", shape, undes, separate, global, desig, raw, call, mod)
										if helper {
											sp.name += fmt.Sprintf("/helper-%s-%s", hm.where, hm.variant)
										}
										scBounds := bounds
										if helper {
											scBounds = []int{0, 1, 2} // the helper's dispatch is sequential code: bound 2 in both tiers
										}
										sc := harness.Scenario{Name: sp.name, Bounds: scBounds, MaxExecs: 1_000_000, New: sp.build,
											Signature: func(err error) string { return sigOf(sp, err) }}
										if c.Replay != "" {
											c.ReplayScenario(sc)
											continue
										}
										if !c.Mine(sp.name) {
											continue
										}
										c.Sample(map[string]any{"scenario": sp.name, "bounds": scBounds})
										c.Add(sc)
									}
								}
							}
						}
					}
				}
			}
		}
	}
	c.ExploreAll()
	rp.Collect()
	c.Finish()
}

func sigOf(sp *spec, err error) string {
	s := err.Error()
	if strings.Contains(s, "helper sub-handler") {
		// a failure of the dispatch inside the helper handler is a class of its own
		switch {
		case strings.Contains(s, "does not apply to unit"):
			return "helper-dispatched-to-wrong-sub-handler"
		case strings.Contains(s, "must see exactly"):
			return "helper-event-count"
		case strings.Contains(s, "run info of a"):
			return "helper-run-info"
		case strings.Contains(s, "payload"):
			return "helper-payload-mismatch"
		}
		return "helper-other"
	}
	switch {
	case strings.Contains(s, "run info of a"):
		return "run-info-component"
	case strings.Contains(s, "does not apply to unit"):
		return "handler-fired-for-wrong-unit"
	case strings.Contains(s, "exactly one start and one end"):
		return "event-count"
	case strings.Contains(s, "unknown unit"):
		return "unknown-unit"
	case strings.Contains(s, "payload"):
		return "payload-mismatch"
	case strings.Contains(s, "flow result disturbed"):
		return "flow-disturbed"
	case strings.Contains(s, "hangs"), strings.Contains(s, "blocked"):
		return "hang-or-leak"
	case strings.Contains(s, "panic"):
		return "panic"
	}
	return "other"
}
