// C06 (Engine S part): interrupt/resume histories of eager Workflows under the controlled scheduler.
package main

import "verif/lib/intr"

func main() { intr.MainS("C06") }
