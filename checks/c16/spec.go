package main

import (
	"fmt"
	"sort"
	"strings"
)

// ---------------------------------------------------------------------------------------------------
// Graph menu: a tiny spec language.
//
//	graph := B '[' node { ' ' node } ']'        B: G = compose.Graph, C = compose.Chain, F = compose.Workflow
//	node  := key ':' ( kind | graph )
//	kind  := X  lambda with option type optX            ([]*Message -> []*Message, invokable)
//	         Y  lambda with option type optY            ([]*Message -> []*Message, transformable)
//	         P  plain lambda, no option type            ([]*Message -> []*Message)
//	         W  plain lambda, no option type            ([]*Message -> *Message)
//	         U  plain lambda, no option type            (*Message   -> []*Message)
//	         M  fake chat model                         ([]*Message -> *Message)
//	         T  tools node with one recording tool      (*Message   -> []*Message)
//	         Z  passthrough node
//	         K  passthrough node with WithOutputKey("k")   ([]*Message -> map)      J  with WithInputKey("k") (map -> []*Message)
//	         O  like X, added with WithOutputKey("k")      ([]*Message -> map)      I  like X, with WithInputKey("k") (map -> []*Message)
//
// A sub-graph node is added with an output key when its builder letter is preceded by 'o' (g:oG[...]: []*Message -> map)
// and with an input key when preceded by 'i' (map -> []*Message): keyed nodes run behind a wrapper of their own.
//
// Nodes of one graph run in sequence (START -> n0 -> n1 ... -> END). Every (sub-)graph maps []*Message to
// []*Message. Node keys are given explicitly so that the same key can be reused at several levels.

type Node struct {
	Key   string
	Kind  string // X Y P W U M T Z K J O I or G (sub-graph)
	Keyed byte   // sub-graph nodes: 'o' = added with WithOutputKey("k"), 'i' = with WithInputKey("k"), 0 = plain
	Sub   *Graph
	Path  []string // full path from the top graph
	ID    string   // Path joined by "/"; also used as node name (RunInfo.Name)
	Idx   int      // index in Tree.All
	Up    *Node    // enclosing graph node (nil at top level)
}

type Graph struct {
	Builder byte // 'G' 'C' 'F'
	Nodes   []*Node
}

type Tree struct {
	Spec  string
	Root  *Graph
	All   []*Node // pre-order
	ByID  map[string]*Node
	Depth int
}

const topName = "TOP"

func (g *Graph) find(key string) *Node {
	for _, n := range g.Nodes {
		if n.Key == key {
			return n
		}
	}
	return nil
}

func (n *Node) isGraph() bool { return n.Sub != nil }

// inSubtree reports whether m is n or lies inside the sub-graph n.
func (n *Node) covers(m *Node) bool {
	for x := m; x != nil; x = x.Up {
		if x == n {
			return true
		}
	}
	return false
}

type parser struct {
	s string
	i int
}

func (p *parser) fail(msg string) { panic(fmt.Sprintf("spec %q at %d: %s", p.s, p.i, msg)) }

func (p *parser) graph() *Graph {
	if p.i >= len(p.s) || !strings.ContainsRune("GCF", rune(p.s[p.i])) {
		p.fail("graph builder letter expected")
	}
	g := &Graph{Builder: p.s[p.i]}
	p.i++
	if p.i >= len(p.s) || p.s[p.i] != '[' {
		p.fail("[ expected")
	}
	p.i++
	for {
		g.Nodes = append(g.Nodes, p.node())
		if p.i >= len(p.s) {
			p.fail("unterminated graph")
		}
		if p.s[p.i] == ']' {
			p.i++
			return g
		}
		if p.s[p.i] != ' ' {
			p.fail("space expected")
		}
		p.i++
	}
}

func (p *parser) node() *Node {
	j := strings.IndexByte(p.s[p.i:], ':')
	if j <= 0 {
		p.fail("key: expected")
	}
	n := &Node{Key: p.s[p.i : p.i+j]}
	p.i += j + 1
	if p.i+2 < len(p.s) && p.s[p.i+2] == '[' && (p.s[p.i] == 'o' || p.s[p.i] == 'i') {
		n.Keyed = p.s[p.i]
		p.i++
	}
	if p.i+1 < len(p.s) && p.s[p.i+1] == '[' {
		n.Kind = "G"
		n.Sub = p.graph()
		return n
	}
	n.Kind = string(p.s[p.i])
	if !strings.Contains("XYPWUMTZKJOI", n.Kind) {
		p.fail("unknown kind")
	}
	p.i++
	return n
}

// value types flowing between nodes: "L" = []*Message, "S" = *Message
func kindIO(k string) (in, out string) {
	switch k {
	case "M", "W":
		return "L", "S"
	case "T", "U":
		return "S", "L"
	case "Z":
		return "", ""
	case "K", "O": // node with an output key: wraps its output into a map
		return "L", "D"
	case "J", "I": // node with an input key: takes its input out of the map again
		return "D", "L"
	}
	return "L", "L"
}

func parseTree(spec string) *Tree {
	p := &parser{s: spec}
	t := &Tree{Spec: spec, Root: p.graph(), ByID: map[string]*Node{}}
	if p.i != len(spec) {
		p.fail("trailing text")
	}
	var walk func(g *Graph, up *Node, prefix []string, depth int)
	walk = func(g *Graph, up *Node, prefix []string, depth int) {
		if depth > t.Depth {
			t.Depth = depth
		}
		cur := "L"
		seen := map[string]bool{}
		for _, n := range g.Nodes {
			if seen[n.Key] {
				panic("spec " + spec + ": duplicate key " + n.Key)
			}
			seen[n.Key] = true
			n.Up = up
			n.Path = append(append([]string{}, prefix...), n.Key)
			n.ID = strings.Join(n.Path, "/")
			n.Idx = len(t.All)
			t.All = append(t.All, n)
			t.ByID[n.ID] = n
			in, out := kindIO(n.Kind)
			switch n.Keyed {
			case 'o':
				in, out = "L", "D"
			case 'i':
				in, out = "D", "L"
			}
			if in != "" {
				if in != cur {
					panic(fmt.Sprintf("spec %s: node %s expects %s but gets %s", spec, n.ID, in, cur))
				}
				cur = out
			}
			if n.Sub != nil {
				walk(n.Sub, n, n.Path, depth+1)
			}
		}
		if cur != "L" {
			panic("spec " + spec + ": a graph must end with []*Message")
		}
	}
	walk(t.Root, nil, nil, 1)
	return t
}

// ---------------------------------------------------------------------------------------------------
// Option menu

// Atom is one call option: a component option of type X/Y/M/T or a callbacks option (CB), undesignated
// (no paths) or designated to one or several node paths.
type Atom struct {
	T     string     `json:"t"`
	Paths [][]string `json:"paths,omitempty"`
	// Sibling: the option is DERIVED: a base option is designated to all but the last path, this option is the base
	// plus the last path, and afterwards a sibling option is derived from the same base with the path Sibling
	// (and thrown away). Option values are values: deriving a sibling must not change this option.
	Sibling []string `json:"sibling,omitempty"`
}

func (a Atom) String() string {
	if len(a.Paths) == 0 {
		return a.T
	}
	ps := make([]string, len(a.Paths))
	for i, p := range a.Paths {
		ps[i] = strings.Join(p, "/")
	}
	if a.Sibling != nil {
		return a.T + "@" + strings.Join(ps, ",") + "+sibling@" + strings.Join(a.Sibling, "/")
	}
	return a.T + "@" + strings.Join(ps, ",")
}

// class is the coarse shape used in signatures.
func (a Atom) class() string {
	switch {
	case len(a.Paths) == 0:
		return a.T + ":undesignated"
	case len(a.Paths) > 1:
		return a.T + ":multi"
	case len(a.Paths[0]) == 1:
		return a.T + ":key"
	}
	return a.T + ":path"
}

var optTypes = []string{"X", "Y", "M", "T", "CB"}

// accepts: a leaf of kind k takes component options of type t.
// isPass: pass-through nodes, plain (Z) or keyed (K: WithOutputKey, J: WithInputKey).
func isPass(kind string) bool { return kind == "Z" || kind == "K" || kind == "J" }

func accepts(kind, t string) bool {
	if kind == "O" || kind == "I" { // keyed lambdas take optX like X
		kind = "X"
	}
	return kind == t && strings.Contains("XYMT", kind)
}

type Menu struct {
	Atoms   []Atom
	Valid   [][]string // valid designation targets (every node at every depth)
	Invalid [][]string
}

// buildMenu enumerates the atomic options for a tree, simplest first. It is written against the tree only
// (which paths exist), not against the routing model.
func buildMenu(t *Tree, quick bool) *Menu {
	m := &Menu{}
	// key universe: every key used anywhere, plus one that is used nowhere
	keys := map[string]bool{"zz": true}
	for _, n := range t.All {
		keys[n.Key] = true
	}
	var universe []string
	for k := range keys {
		universe = append(universe, k)
	}
	sort.Strings(universe)

	// valid targets in order of depth, then pre-order
	for d := 1; d <= t.Depth; d++ {
		for _, n := range t.All {
			if len(n.Path) == d {
				m.Valid = append(m.Valid, n.Path)
			}
		}
	}
	// invalid targets:
	//  - at the top graph and below every graph node: every key of the universe that is not a node there
	//    (covers: unknown key, a key that exists only at another nesting level - e.g. designating an inner
	//    node by key only from the top-level call -, a key of a sibling sub-graph)
	//  - below every non-graph node: the first key of the top graph (thorough: also its own key)
	addUnknown := func(prefix []string, g *Graph) {
		for _, k := range universe {
			if g.find(k) == nil {
				m.Invalid = append(m.Invalid, append(append([]string{}, prefix...), k))
			}
		}
	}
	addUnknown(nil, t.Root)
	for _, n := range t.All {
		if n.isGraph() {
			addUnknown(n.Path, n.Sub)
		}
	}
	for _, n := range t.All {
		if !n.isGraph() {
			m.Invalid = append(m.Invalid, append(append([]string{}, n.Path...), t.Root.Nodes[0].Key))
			if !quick {
				m.Invalid = append(m.Invalid, append(append([]string{}, n.Path...), n.Key))
			}
		}
	}
	m.Invalid = dedupPaths(m.Invalid)

	for _, ty := range optTypes {
		m.Atoms = append(m.Atoms, Atom{T: ty})
	}
	for _, p := range m.Valid {
		for _, ty := range optTypes {
			m.Atoms = append(m.Atoms, Atom{T: ty, Paths: [][]string{p}})
		}
	}
	// paths that resolve to no node: whether they are an error cannot depend on the option's type, so the
	// quick tier uses one option type per constructor (WithLambdaOption, withComponentOption, WithCallbacks)
	invTypes := optTypes
	if quick {
		invTypes = []string{"X", "T", "CB"}
	}
	for _, p := range m.Invalid {
		for _, ty := range invTypes {
			m.Atoms = append(m.Atoms, Atom{T: ty, Paths: [][]string{p}})
		}
	}
	// several paths at once: all ordered pairs of targets that can take the option (a leaf of the
	// option's type, any graph node; for callbacks every node), plus one pair (first such target, unknown
	// node) per type
	for _, ty := range optTypes {
		var acc [][]string
		for _, p := range m.Valid {
			n := t.ByID[strings.Join(p, "/")]
			if ty == "CB" || n.isGraph() || accepts(n.Kind, ty) {
				acc = append(acc, p)
			}
		}
		for i := 0; i < len(acc); i++ {
			for j := i + 1; j < len(acc); j++ {
				// both orders: the path list of one option is scanned in order (a shallow path before a nested one
				// and the other way round are different scans)
				m.Atoms = append(m.Atoms, Atom{T: ty, Paths: [][]string{acc[i], acc[j]}})
				m.Atoms = append(m.Atoms, Atom{T: ty, Paths: [][]string{acc[j], acc[i]}})
			}
		}
		// derived options: a base with three paths (a slice grown by append: spare capacity), this option = base +
		// a fourth leaf, and a sibling = base + a fifth leaf derived afterwards (leaves only: a handler designated
		// to a graph node may fire anywhere inside it)
		var leaves [][]string
		for _, p := range acc {
			if !t.ByID[strings.Join(p, "/")].isGraph() {
				leaves = append(leaves, p)
			}
		}
		if len(leaves) >= 2 {
			// the same from an undesignated base: this option = base + one leaf, sibling = base + another leaf
			m.Atoms = append(m.Atoms, Atom{T: ty, Paths: [][]string{leaves[0]}, Sibling: leaves[1]})
		}
		if len(leaves) >= 5 {
			m.Atoms = append(m.Atoms, Atom{T: ty, Paths: [][]string{leaves[0], leaves[1], leaves[2], leaves[3]}, Sibling: leaves[4]})
		}
		if len(acc) > 0 {
			m.Atoms = append(m.Atoms, Atom{T: ty, Paths: [][]string{acc[0], {"zz"}}})
			m.Atoms = append(m.Atoms, Atom{T: ty, Paths: [][]string{{"zz"}, acc[0]}})
		}
	}
	return m
}

func dedupPaths(ps [][]string) [][]string {
	seen := map[string]bool{}
	var out [][]string
	for _, p := range ps {
		k := strings.Join(p, "/")
		if !seen[k] {
			seen[k] = true
			out = append(out, p)
		}
	}
	return out
}

// ---------------------------------------------------------------------------------------------------
// graph menus per tier

var quickSpecs = []string{
	"G[a:X b:Y c:P]",                   // flat, lambdas of two option types and a plain one
	"G[a:M b:T c:X]",                   // flat, chat model + tools node + lambda
	"G[a:X g:G[a:X b:Y]]",              // same key at two levels
	"G[a:X g:G[b:X] b:Y]",              // inner key b also exists at top with another type; a only at top
	"G[g:G[a:X b:M c:U] h:G[a:Y b:X]]", // sibling sub-graphs sharing keys with different kinds
	"G[a:W b:T g:C[a:M b:T]]",          // chain nested in graph, components at both levels under same keys
	"C[a:X g:C[a:X b:Y]]",              // chain in chain
	"F[a:X g:F[a:Y b:M c:T]]",          // workflow in workflow
	"G[a:X p:Z g:G[p:Z a:X]]",          // passthrough nodes (non-graph nodes without an option type)
	"G[a:X k:K j:J b:Y]",               // keyed passthrough nodes (output key / input key): passthroughs like any other
	"G[a:O b:I c:Y]",                   // lambdas added with an output key / an input key take options like any other
	"G[g:oG[a:X b:Y] h:iG[a:Y b:X]]",   // sub-graph nodes added with an output key / an input key
	"C[a:O g:iC[a:X b:M c:T]]",         // the same in chains, components below the keyed sub-chain
}

var thoroughSpecs = []string{
	"G[a:X g:G[a:X g:G[a:X b:M c:T]]]",       // the same keys a, g at three levels
	"G[g:G[g:G[a:X] a:Y] h:G[g:G[a:Y] a:X]]", // prefixes g/g and h/g lead to different kinds under the same keys
	"C[a:X g:F[a:Y g:G[a:X b:Y]]]",           // chain > workflow > graph
	"F[a:W b:T g:G[a:X h:C[a:M b:T c:X]]]",   // workflow > graph > chain with components
	"G[a:X g:G[p:Z g:G[p:Z a:X]]]",           // passthrough at depth 2 and 3
}

func specsFor(quick bool) []string {
	if quick {
		return quickSpecs
	}
	return append(append([]string{}, quickSpecs...), thoroughSpecs...)
}
