package main

import (
	"context"
	"fmt"
	"io"
	"sync"

	"github.com/cloudwego/eino/callbacks"
	"github.com/cloudwego/eino/components/model"
	"github.com/cloudwego/eino/components/tool"
	"github.com/cloudwego/eino/compose"
	"github.com/cloudwego/eino/schema"
)

// ---------------------------------------------------------------------------------------------------
// The real thing: graphs built through the public API, instrumented components.

type L = []*schema.Message
type S = *schema.Message

// two lambda option types of the same kind and the same underlying type (only type identity tells them apart)
type optX struct{ Tag string }
type optY struct{ Tag string }

// implementation specific option structs of the fake chat model / the recording tool
type modelOpts struct{ tags []string }
type toolOpts struct{ tags []string }

const toolName = "rec"

func fixedMsg() S {
	return &schema.Message{Role: schema.Assistant, Content: "m",
		ToolCalls: []schema.ToolCall{{ID: "1", Function: schema.FunctionCall{Name: toolName, Arguments: "{}"}}}}
}

type cbEvent struct {
	Name      string
	Component string
}

// callRec is what one call (Invoke or Stream) made observable.
type callRec struct {
	mu    sync.Mutex
	execs map[int][][]string   // node index -> one entry per execution: payload tags received
	cbs   map[string][]cbEvent // handler tag -> where it fired (OnStart / OnStartWithStreamInput)
}

func newCallRec() *callRec { return &callRec{execs: map[int][][]string{}, cbs: map[string][]cbEvent{}} }

// Instance is one compiled runnable plus the recorder its components write to.
type Instance struct {
	tree *Tree
	run  compose.Runnable[L, L]
	mu   sync.Mutex
	cur  *callRec
	// epoch counts the cases run on this instance; it is part of every payload tag so that something
	// left behind by an earlier case can never be mistaken for an option of the current call
	epoch int
}

func (in *Instance) rec() *callRec {
	in.mu.Lock()
	defer in.mu.Unlock()
	return in.cur
}

func (in *Instance) received(idx int, tags []string) {
	r := in.rec()
	if r == nil {
		return
	}
	r.mu.Lock()
	r.execs[idx] = append(r.execs[idx], append([]string{}, tags...))
	r.mu.Unlock()
}

func (in *Instance) fired(tag string, info *callbacks.RunInfo) {
	r := in.rec()
	if r == nil {
		return
	}
	ev := cbEvent{}
	if info != nil {
		ev = cbEvent{Name: info.Name, Component: string(info.Component)}
	}
	r.mu.Lock()
	r.cbs[tag] = append(r.cbs[tag], ev)
	r.mu.Unlock()
}

type fakeModel struct {
	in  *Instance
	idx int
}

func (m *fakeModel) note(opts []model.Option) {
	o := model.GetImplSpecificOptions(&modelOpts{}, opts...)
	m.in.received(m.idx, o.tags)
}
func (m *fakeModel) Generate(ctx context.Context, input []*schema.Message, opts ...model.Option) (*schema.Message, error) {
	m.note(opts)
	return fixedMsg(), nil
}
func (m *fakeModel) Stream(ctx context.Context, input []*schema.Message, opts ...model.Option) (*schema.StreamReader[*schema.Message], error) {
	m.note(opts)
	return schema.StreamReaderFromArray([]*schema.Message{fixedMsg()}), nil
}
func (m *fakeModel) BindTools(tools []*schema.ToolInfo) error { return nil }

type recTool struct {
	in  *Instance
	idx int
}

func (t *recTool) Info(ctx context.Context) (*schema.ToolInfo, error) {
	return &schema.ToolInfo{Name: toolName, Desc: "records its options"}, nil
}
func (t *recTool) InvokableRun(ctx context.Context, args string, opts ...tool.Option) (string, error) {
	o := tool.GetImplSpecificOptions(&toolOpts{}, opts...)
	t.in.received(t.idx, o.tags)
	return "ok", nil
}

// builder abstracts Graph / Chain / Workflow construction of a sequential pipeline.
type builder interface {
	lambda(key string, l *compose.Lambda, o ...compose.GraphAddNodeOpt)
	model(key string, m model.BaseChatModel, o ...compose.GraphAddNodeOpt)
	tools(key string, t *compose.ToolsNode, o ...compose.GraphAddNodeOpt)
	pass(key string, o ...compose.GraphAddNodeOpt)
	graph(key string, g compose.AnyGraph, o ...compose.GraphAddNodeOpt)
	finish() error
	any() compose.AnyGraph
	compile(ctx context.Context, o ...compose.GraphCompileOption) (compose.Runnable[L, L], error)
}

type gBuilder struct {
	g    *compose.Graph[L, L]
	keys []string
	err  error
}

func (b *gBuilder) note(key string, err error) {
	b.keys = append(b.keys, key)
	if err != nil && b.err == nil {
		b.err = err
	}
}
func (b *gBuilder) lambda(k string, l *compose.Lambda, o ...compose.GraphAddNodeOpt) {
	b.note(k, b.g.AddLambdaNode(k, l, o...))
}
func (b *gBuilder) model(k string, m model.BaseChatModel, o ...compose.GraphAddNodeOpt) {
	b.note(k, b.g.AddChatModelNode(k, m, o...))
}
func (b *gBuilder) tools(k string, t *compose.ToolsNode, o ...compose.GraphAddNodeOpt) {
	b.note(k, b.g.AddToolsNode(k, t, o...))
}
func (b *gBuilder) pass(k string, o ...compose.GraphAddNodeOpt) {
	b.note(k, b.g.AddPassthroughNode(k, o...))
}
func (b *gBuilder) graph(k string, g compose.AnyGraph, o ...compose.GraphAddNodeOpt) {
	b.note(k, b.g.AddGraphNode(k, g, o...))
}
func (b *gBuilder) finish() error {
	if b.err != nil {
		return b.err
	}
	prev := compose.START
	for _, k := range append(append([]string{}, b.keys...), compose.END) {
		if err := b.g.AddEdge(prev, k); err != nil {
			return err
		}
		prev = k
	}
	return nil
}
func (b *gBuilder) any() compose.AnyGraph { return b.g }
func (b *gBuilder) compile(ctx context.Context, o ...compose.GraphCompileOption) (compose.Runnable[L, L], error) {
	return b.g.Compile(ctx, o...)
}

type cBuilder struct{ c *compose.Chain[L, L] }

func withKey(k string, o []compose.GraphAddNodeOpt) []compose.GraphAddNodeOpt {
	return append([]compose.GraphAddNodeOpt{compose.WithNodeKey(k)}, o...)
}
func (b *cBuilder) lambda(k string, l *compose.Lambda, o ...compose.GraphAddNodeOpt) {
	b.c.AppendLambda(l, withKey(k, o)...)
}
func (b *cBuilder) model(k string, m model.BaseChatModel, o ...compose.GraphAddNodeOpt) {
	b.c.AppendChatModel(m, withKey(k, o)...)
}
func (b *cBuilder) tools(k string, t *compose.ToolsNode, o ...compose.GraphAddNodeOpt) {
	b.c.AppendToolsNode(t, withKey(k, o)...)
}
func (b *cBuilder) pass(k string, o ...compose.GraphAddNodeOpt) {
	b.c.AppendPassthrough(withKey(k, o)...)
}
func (b *cBuilder) graph(k string, g compose.AnyGraph, o ...compose.GraphAddNodeOpt) {
	b.c.AppendGraph(g, withKey(k, o)...)
}
func (b *cBuilder) finish() error         { return nil }
func (b *cBuilder) any() compose.AnyGraph { return b.c }
func (b *cBuilder) compile(ctx context.Context, o ...compose.GraphCompileOption) (compose.Runnable[L, L], error) {
	return b.c.Compile(ctx, o...)
}

type fBuilder struct {
	w    *compose.Workflow[L, L]
	prev string
}

func (b *fBuilder) link(k string, n *compose.WorkflowNode) { n.AddInput(b.prev); b.prev = k }
func (b *fBuilder) lambda(k string, l *compose.Lambda, o ...compose.GraphAddNodeOpt) {
	b.link(k, b.w.AddLambdaNode(k, l, o...))
}
func (b *fBuilder) model(k string, m model.BaseChatModel, o ...compose.GraphAddNodeOpt) {
	b.link(k, b.w.AddChatModelNode(k, m, o...))
}
func (b *fBuilder) tools(k string, t *compose.ToolsNode, o ...compose.GraphAddNodeOpt) {
	b.link(k, b.w.AddToolsNode(k, t, o...))
}
func (b *fBuilder) pass(k string, o ...compose.GraphAddNodeOpt) {
	b.link(k, b.w.AddPassthroughNode(k, o...))
}
func (b *fBuilder) graph(k string, g compose.AnyGraph, o ...compose.GraphAddNodeOpt) {
	b.link(k, b.w.AddGraphNode(k, g, o...))
}
func (b *fBuilder) finish() error         { b.w.End().AddInput(b.prev); return nil }
func (b *fBuilder) any() compose.AnyGraph { return b.w }
func (b *fBuilder) compile(ctx context.Context, o ...compose.GraphCompileOption) (compose.Runnable[L, L], error) {
	return b.w.Compile(ctx, o...)
}

func newBuilder(kind byte) builder {
	switch kind {
	case 'C':
		return &cBuilder{c: compose.NewChain[L, L]()}
	case 'F':
		return &fBuilder{w: compose.NewWorkflow[L, L](), prev: compose.START}
	}
	return &gBuilder{g: compose.NewGraph[L, L]()}
}

func tagsX(os []optX) []string {
	out := make([]string, len(os))
	for i, o := range os {
		out[i] = o.Tag
	}
	return out
}
func tagsY(os []optY) []string {
	out := make([]string, len(os))
	for i, o := range os {
		out[i] = o.Tag
	}
	return out
}

func (in *Instance) build(ctx context.Context, g *Graph) (builder, error) {
	b := newBuilder(g.Builder)
	for _, n := range g.Nodes {
		idx := n.Idx
		name := compose.WithNodeName(n.ID)
		switch n.Kind {
		case "X":
			b.lambda(n.Key, compose.InvokableLambdaWithOption(func(ctx context.Context, v L, opts ...optX) (L, error) {
				in.received(idx, tagsX(opts))
				return v, nil
			}), name)
		case "O", "I":
			keyOpt := compose.WithOutputKey("k")
			if n.Kind == "I" {
				keyOpt = compose.WithInputKey("k")
			}
			b.lambda(n.Key, compose.InvokableLambdaWithOption(func(ctx context.Context, v L, opts ...optX) (L, error) {
				in.received(idx, tagsX(opts))
				return v, nil
			}), name, keyOpt)
		case "Y":
			b.lambda(n.Key, compose.TransformableLambdaWithOption(func(ctx context.Context, v *schema.StreamReader[L], opts ...optY) (*schema.StreamReader[L], error) {
				in.received(idx, tagsY(opts))
				return v, nil
			}), name)
		case "P":
			b.lambda(n.Key, compose.InvokableLambda(func(ctx context.Context, v L) (L, error) {
				in.received(idx, nil)
				return v, nil
			}), name)
		case "W":
			b.lambda(n.Key, compose.InvokableLambda(func(ctx context.Context, v L) (S, error) {
				in.received(idx, nil)
				return fixedMsg(), nil
			}), name)
		case "U":
			b.lambda(n.Key, compose.InvokableLambda(func(ctx context.Context, v S) (L, error) {
				in.received(idx, nil)
				return L{fixedMsg()}, nil
			}), name)
		case "M":
			b.model(n.Key, &fakeModel{in: in, idx: idx}, name)
		case "T":
			tn, err := compose.NewToolNode(ctx, &compose.ToolsNodeConfig{Tools: []tool.BaseTool{&recTool{in: in, idx: idx}}})
			if err != nil {
				return nil, err
			}
			b.tools(n.Key, tn, name)
		case "Z":
			b.pass(n.Key, name)
		case "K":
			b.pass(n.Key, name, compose.WithOutputKey("k"))
		case "J":
			b.pass(n.Key, name, compose.WithInputKey("k"))
		case "G":
			sb, err := in.build(ctx, n.Sub)
			if err != nil {
				return nil, err
			}
			switch n.Keyed {
			case 'o':
				b.graph(n.Key, sb.any(), name, compose.WithOutputKey("k"))
			case 'i':
				b.graph(n.Key, sb.any(), name, compose.WithInputKey("k"))
			default:
				b.graph(n.Key, sb.any(), name)
			}
		}
	}
	if err := b.finish(); err != nil {
		return nil, err
	}
	return b, nil
}

func newInstance(t *Tree) (*Instance, error) {
	ctx := context.Background()
	in := &Instance{tree: t}
	b, err := in.build(ctx, t.Root)
	if err != nil {
		return nil, fmt.Errorf("build %s: %w", t.Spec, err)
	}
	in.run, err = b.compile(ctx, compose.WithGraphName(topName))
	if err != nil {
		return nil, fmt.Errorf("compile %s: %w", t.Spec, err)
	}
	return in, nil
}

// makeOptions turns atoms into real compose.Option values; option i of call c carries the payload tag
// "e<case number on this instance>.c<c>o<i>" (component options) or is a fresh handler reporting under that tag (callbacks).
func (in *Instance) makeOptions(call int, set []Atom) ([]compose.Option, []string) {
	opts := make([]compose.Option, len(set))
	tags := make([]string, len(set))
	for i, a := range set {
		tag := fmt.Sprintf("e%d.c%do%d", in.epoch, call, i)
		tags[i] = tag
		var o compose.Option
		switch a.T {
		case "X":
			o = compose.WithLambdaOption(optX{Tag: tag})
		case "Y":
			o = compose.WithLambdaOption(optY{Tag: tag})
		case "M":
			o = compose.WithChatModelOption(model.WrapImplSpecificOptFn(func(m *modelOpts) { m.tags = append(m.tags, tag) }))
		case "T":
			o = compose.WithToolsNodeOption(compose.WithToolOption(tool.WrapImplSpecificOptFn(func(m *toolOpts) { m.tags = append(m.tags, tag) })))
		case "CB":
			h := callbacks.NewHandlerBuilder().
				OnStartFn(func(ctx context.Context, info *callbacks.RunInfo, _ callbacks.CallbackInput) context.Context {
					in.fired(tag, info)
					return ctx
				}).
				OnStartWithStreamInputFn(func(ctx context.Context, info *callbacks.RunInfo, sr *schema.StreamReader[callbacks.CallbackInput]) context.Context {
					sr.Close()
					in.fired(tag, info)
					return ctx
				}).Build()
			o = compose.WithCallbacks(h)
		default:
			panic("unknown option type " + a.T)
		}
		switch {
		case a.Sibling != nil:
			np := func(p []string) *compose.NodePath { return compose.NewNodePath(p...) }
			base := o
			for _, p := range a.Paths[:len(a.Paths)-1] {
				base = base.DesignateNodeWithPath(np(p))
			}
			o = base.DesignateNodeWithPath(np(a.Paths[len(a.Paths)-1]))
			_ = base.DesignateNodeWithPath(np(a.Sibling))
		case len(a.Paths) == 1 && len(a.Paths[0]) == 1:
			o = o.DesignateNode(a.Paths[0][0]) // designated by key
		case len(a.Paths) > 0:
			ps := make([]*compose.NodePath, len(a.Paths))
			for j, p := range a.Paths {
				ps[j] = compose.NewNodePath(p...)
			}
			o = o.DesignateNodeWithPath(ps...)
		}
		opts[i] = o
	}
	return opts, tags
}

// call runs the compiled runnable once and returns what was observed.
func (in *Instance) call(stream bool, opts []compose.Option) (*callRec, error) {
	rec := newCallRec()
	in.mu.Lock()
	in.cur = rec
	in.mu.Unlock()
	defer func() {
		in.mu.Lock()
		in.cur = nil
		in.mu.Unlock()
	}()
	ctx := context.Background()
	input := L{fixedMsg()}
	if !stream {
		_, err := in.run.Invoke(ctx, input, opts...)
		return rec, err
	}
	sr, err := in.run.Stream(ctx, input, opts...)
	if err != nil {
		return rec, err
	}
	defer sr.Close()
	for {
		_, err := sr.Recv()
		if err == io.EOF {
			return rec, nil
		}
		if err != nil {
			return rec, err
		}
	}
}
