// C16 — call options reach exactly the nodes they address (Engine R: reference routing model, every case
// executed on the real compose runtime through the public API).
package main

import (
	"encoding/json"
	"fmt"
	"sort"
	"strings"
	"time"

	"verif/lib/harness"
)

// Case is one self-contained enumerated case (also the replay format).
type Case struct {
	Graph  string `json:"graph"`
	Family string `json:"family"` // set: Invoke(Set) then Stream(same option values) | pair: Invoke(Set) then Stream(Set2)
	Set    []Atom `json:"set"`
	Set2   []Atom `json:"set2,omitempty"`
	Prev   *Case  `json:"prev,omitempty"` // only for a leak between two cases on one shared runnable
}

func setString(s []Atom) string {
	ps := make([]string, len(s))
	for i, a := range s {
		ps[i] = a.String()
	}
	return "{" + strings.Join(ps, " ") + "}"
}

func (c Case) String() string {
	s := fmt.Sprintf("%s %s%d %s", c.Graph, c.Family, len(c.Set), setString(c.Set))
	if c.Family == "pair" {
		s += " then " + setString(c.Set2)
	}
	if c.Prev != nil {
		s = "after [" + c.Prev.String() + "] " + s
	}
	return s
}

// Fail is an oracle verdict with its class.
type Fail struct {
	Sig string
	Msg string
}

func (f *Fail) Error() string { return f.Msg }

type stats struct {
	calls     int64
	nodeExecs int64
	agreed    int64
	outcome   string
}

// judge compares one call with the model. tags[i] is the payload tag of set[i]; foreign lists tag prefixes
// that belong to another call (must not be seen at all).
func judge(t *Tree, set []Atom, routes []*Route, tags []string, rec *callRec, err error, where string, st *stats) *Fail {
	st.calls++
	for _, ex := range rec.execs {
		st.nodeExecs += int64(len(ex))
	}
	why := invalidWhy(routes)
	if why != "" {
		st.outcome = "error:" + why
		if err == nil {
			return &Fail{Sig: "invalid-accepted:" + why, Msg: fmt.Sprintf("%s: the option set contains an invalid designation (%s) but the call returned no error", where, why)}
		}
		st.agreed++
		return nil
	}
	if err != nil {
		return &Fail{Sig: "valid-rejected:" + errClass(err.Error()), Msg: fmt.Sprintf("%s: every option is validly addressed but the call failed: %s", where, firstLines(err.Error()))}
	}
	known := map[string]int{}
	for i, tg := range tags {
		known[tg] = i
	}
	// no leakage: nothing observed in this call may carry a tag of another call
	for _, n := range t.All {
		for _, ex := range rec.execs[n.Idx] {
			for _, tg := range ex {
				if _, ok := known[tg]; !ok {
					return &Fail{Sig: "leak-between-calls", Msg: fmt.Sprintf("%s: node %s received payload %s which belongs to another call", where, n.ID, bare(tg))}
				}
			}
		}
	}
	for _, tg := range sortedKeys(rec.cbs) {
		if _, ok := known[tg]; !ok {
			return &Fail{Sig: "leak-between-calls", Msg: fmt.Sprintf("%s: handler %s of another call fired in this call", where, bare(tg))}
		}
	}
	// component options, per node
	delivered := 0
	for _, n := range t.All {
		if n.isGraph() || isPass(n.Kind) {
			continue
		}
		ex := rec.execs[n.Idx]
		if len(ex) != 1 {
			return &Fail{Sig: "node-execution-count", Msg: fmt.Sprintf("%s: node %s ran %d times in a sequential pipeline", where, n.ID, len(ex))}
		}
		got := map[string]int{}
		for _, tg := range ex[0] {
			got[tg]++
		}
		for i, a := range set {
			if a.T == "CB" {
				continue
			}
			want := routes[i].Reach[n.Idx]
			g := got[tags[i]]
			delivered += g
			if g < want[0] {
				return &Fail{Sig: "missing:" + a.class() + "@" + n.Kind, Msg: fmt.Sprintf("%s: option %s must reach node %s (kind %s) %d time(s), it arrived %d time(s)", where, a, n.ID, n.Kind, want[0], g)}
			}
			if g > want[1] {
				return &Fail{Sig: "extra:" + a.class() + "@" + n.Kind, Msg: fmt.Sprintf("%s: option %s must reach node %s (kind %s) at most %d time(s), it arrived %d time(s)", where, a, n.ID, n.Kind, want[1], g)}
			}
		}
	}
	// callbacks
	fired := 0
	for i, a := range set {
		if a.T != "CB" {
			continue
		}
		r := routes[i]
		seen := map[int]bool{}
		top, toolSeen := false, false
		for _, ev := range rec.cbs[tags[i]] {
			fired++
			switch {
			case ev.Component == "Tool" && ev.Name == toolName:
				toolSeen = true
			case ev.Name == topName:
				top = true
			default:
				n, ok := t.ByID[ev.Name]
				if !ok {
					return &Fail{Sig: "cb-unknown-place", Msg: fmt.Sprintf("%s: handler of %s fired for an unknown run info name %q (%s)", where, a, ev.Name, ev.Component)}
				}
				seen[n.Idx] = true
			}
		}
		for _, n := range t.All {
			if r.Must[n.Idx] && !seen[n.Idx] {
				return &Fail{Sig: "cb-missing:" + a.class() + "@" + n.Kind, Msg: fmt.Sprintf("%s: callbacks option %s did not fire for node %s", where, a, n.ID)}
			}
			if seen[n.Idx] && !r.May[n.Idx] {
				return &Fail{Sig: "cb-elsewhere:" + a.class() + "@" + n.Kind, Msg: fmt.Sprintf("%s: callbacks option %s fired for node %s which it does not address", where, a, n.ID)}
			}
		}
		if r.MustTop && !top {
			return &Fail{Sig: "cb-missing:" + a.class() + "@top", Msg: fmt.Sprintf("%s: callbacks option %s did not fire for the top graph", where, a)}
		}
		if top && !r.MayTop {
			return &Fail{Sig: "cb-elsewhere:" + a.class() + "@top", Msg: fmt.Sprintf("%s: callbacks option %s fired for the top graph which it does not address", where, a)}
		}
		if toolSeen && !r.MayTool {
			return &Fail{Sig: "cb-elsewhere:" + a.class() + "@tool", Msg: fmt.Sprintf("%s: callbacks option %s fired for a tool run although it addresses no tools node", where, a)}
		}
	}
	st.outcome = fmt.Sprintf("ok:delivered=%d,fired=%d", delivered, fired)
	st.agreed++
	return nil
}

// errClass maps the text of an unexpected error to a narrow class for the signature.
func errClass(s string) string {
	for _, c := range [][2]string{
		{"designated an unknown node", "unknown-node"},
		{"unexpected component option type", "option-type-at-node"},
		{"is different from which the designated node", "designated-type-mismatch"},
		{"cannot designate sub path of a component", "sub-path-of-component"},
		{"designated an empty path", "empty-path"},
	} {
		if strings.Contains(s, c[0]) {
			return c[1]
		}
	}
	return "other"
}

// bare strips the per-instance case counter from a payload tag (messages must not depend on it).
func bare(tag string) string {
	if i := strings.IndexByte(tag, '.'); i >= 0 {
		return tag[i+1:]
	}
	return tag
}

func firstLines(s string) string {
	s = strings.ReplaceAll(s, "\n", " | ")
	if len(s) > 300 {
		s = s[:300]
	}
	return s
}

func sortedKeys[V any](m map[string]V) []string {
	ks := make([]string, 0, len(m))
	for k := range m {
		ks = append(ks, k)
	}
	sort.Strings(ks)
	return ks
}

type graphCtx struct {
	tree   *Tree
	menu   *Menu
	routes []*Route // per menu atom
	byAtom map[string]*Route
	shared *Instance
	prev   *Case // the case that ran last on the shared instance
}

var graphs = map[string]*graphCtx{}
var quickTier = true

func getGraph(spec string) *graphCtx {
	if g, ok := graphs[spec]; ok {
		return g
	}
	t := parseTree(spec)
	g := &graphCtx{tree: t, menu: buildMenu(t, quickTier), byAtom: map[string]*Route{}}
	for _, a := range g.menu.Atoms {
		r := route(t, a)
		g.routes = append(g.routes, r)
		g.byAtom[a.String()] = r
	}
	graphs[spec] = g
	return g
}

func (g *graphCtx) routesOf(set []Atom) []*Route {
	rs := make([]*Route, len(set))
	for i, a := range set {
		r, ok := g.byAtom[a.String()]
		if !ok {
			r = route(g.tree, a)
		}
		rs[i] = r
	}
	return rs
}

// runOn executes one case on the given instance.
func runOn(in *Instance, g *graphCtx, cs *Case, st *stats) *Fail {
	t := g.tree
	in.epoch++
	r1 := g.routesOf(cs.Set)
	o1, t1 := in.makeOptions(1, cs.Set)
	rec, err := in.call(false, o1)
	if f := judge(t, cs.Set, r1, t1, rec, err, "call 1 (Invoke)", st); f != nil {
		return f
	}
	if cs.Family == "set" {
		// the caller reuses the very same option values for a second call, now streaming
		rec, err = in.call(true, o1)
		return judge(t, cs.Set, r1, t1, rec, err, "call 2 (Stream, same option values)", st)
	}
	r2 := g.routesOf(cs.Set2)
	o2, t2 := in.makeOptions(2, cs.Set2)
	rec, err = in.call(true, o2)
	return judge(t, cs.Set2, r2, t2, rec, err, "call 2 (Stream, other option set)", st)
}

// runFresh compiles a new runnable and runs the case (and the case before it, if recorded) on it.
func runFresh(cs *Case) error {
	g := getGraph(cs.Graph)
	in, err := newInstance(g.tree)
	if err != nil {
		return &Fail{Sig: "harness-build", Msg: err.Error()}
	}
	st := &stats{}
	if cs.Prev != nil {
		if f := safeRun(in, g, cs.Prev, st); f != nil {
			return f
		}
	}
	if f := safeRun(in, g, cs, st); f != nil {
		if cs.Prev != nil {
			f.Sig = "leak-between-cases:" + f.Sig
		}
		return f
	}
	return nil
}

func nontrivialSet(rs []*Route) bool {
	for _, r := range rs {
		if r.AnyDesign || r.Invalid != "" {
			return true
		}
	}
	return false
}

func main() {
	c := harness.Init("C16")
	c.Res.Rule = "a case is (graph of the menu, multiset of <=3 call options of the option menu) executed as Invoke and then Stream with the same option values, " +
		"or (graph, ordered pair of single options) executed as two consecutive calls; distinct = distinct canonical (graph, option set[, second set]) strings; " +
		"non-trivial = option sets with at least one designated or invalid option"
	c.Res.Assumptions = []string{
		"nodes of a graph run in sequence (routing does not depend on topology: extractOption works on the node map), so no two nodes run concurrently and handler slices are never raced (that is C10's subject)",
		"one Option value carries options of one type (compose.WithLambdaOption(x, y) with mixed types is API misuse, utils.go says 'assume that types of options are the same')",
		"an Option value cannot carry both callbacks and component options through the public API (fields are unexported, no combinator), so that mix is exercised as two Option values in one call",
	}
	c.Res.Explanation = "Graph menu: sequential pipelines of nesting depth <=2 (quick) / <=3 (thorough) built with Graph, Chain and Workflow from lambdas with option types optX / optY, plain lambdas, " +
		"a fake chat model, a tools node with a recording tool, passthrough nodes and nested graphs, node keys reused across levels. Option menu per graph: for each of the 5 option types (lambda X, lambda Y, chat model, " +
		"tools node, callbacks) the undesignated option, the option designated to every node path at every depth (length-1 paths via DesignateNode), to every unknown key at every graph level " +
		"(includes inner keys designated by key only and keys of sibling sub-graphs), to paths below every non-graph node, to all ordered pairs of accepting targets and to (accepting target, unknown node) in both orders; " +
		"in the quick tier the paths that resolve to no node carry three of the five option types (lambda X, tools node, callbacks = the three Option constructors) and one path below each non-graph node, the thorough tier all five and two. " +
		"All multisets of <=3 menu options are enumerated. Oracle from the statement: the call errors iff the model calls a designation invalid; per node the multiset of received payload tags equals the model's; " +
		"designated handlers fire at their node and nowhere outside it (inside a designated graph node / tools node they may fire); nothing of another call is ever observed."
	c.Res.Notes = []string{
		"statement silent -> not judged: the order in which a node receives several options; how often an option arrives at a node that the same option addresses through two of its paths (once or twice accepted); " +
			"an Option with an empty NodePath; an Option with zero component options; mixed option types inside one Option value",
		"undesignated lambda options: extractOption filters them by reflect type identity of the first option against the node's option type, exactly like other component options, so clause 1 is applied with 'component type' = the node's option type (optX lambdas vs optY lambdas vs plain lambdas)",
		"an option designated to a graph node is modelled as an undesignated option of that sub-graph (doc of DesignateNodeWithPath: 'make the option take effect in the subgraph by specifying the key of the subgraph'): judged inside by clause 1, outside strictly (nothing)",
		"undesignated callbacks are required to fire for the top graph and every node except passthrough (doc of WithCallbacks: 'for all components in a single call'); a handler designated to a graph node or a tools node may also fire inside it (context inheritance, confirmed by design), never for a sibling, ancestor or the top graph; for a leaf 'only there' is strict",
		"tool runs inside tools nodes all report RunInfo.Name 'rec'; a handler firing for a tool run is accepted iff the handler addresses some tools node directly or through an enclosing graph (which tools node cannot be told)",
		"passthrough nodes are non-graph nodes without an option type: the statement's error clauses (path below a non-graph node, wrong type) are applied to them under their own signatures (*-passthrough)",
		"cases run on one compiled runnable per graph and worker, so consecutive cases also test call-to-call isolation; a failing case is re-run on a freshly compiled runnable and, if it only fails after its predecessor, reported together with it",
	}

	quickTier = c.Quick()
	if v := c.LoadReplay(); v != nil {
		b, _ := json.Marshal(v.Case)
		var cs Case
		if err := json.Unmarshal(b, &cs); err != nil {
			fmt.Println("bad replay case:", err)
			c.ReplayExit(v.Scenario, nil)
		}
		err := c.Guard(v.Scenario, cs, 120*time.Second, func() error { return runFresh(&cs) })
		c.ReplayExit(v.Scenario, err)
	}

	reported := map[string]bool{}
	stop := false

	// exec runs one case on the shared runnable of its graph and confirms a failure on a fresh one.
	var current *Case
	// block runs a batch of cases under the hang watchdog (a hang is reported with the case that was running)
	block := func(name string, f func()) {
		if err := c.Guard(name, &current, 120*time.Second, func() error { f(); return nil }); err != nil {
			c.Infra("harness panic in " + name + ": " + err.Error())
			stop = true
		}
	}
	exec := func(g *graphCtx, cs *Case, state string, nontrivial bool) {
		if g.shared == nil {
			in, err := newInstance(g.tree)
			if err != nil {
				c.Infra(err.Error())
				stop = true
				return
			}
			g.shared = in
		}
		st := &stats{}
		current = cs
		fail := safeRun(g.shared, g, cs, st)
		c.Res.Evaluations += st.calls
		c.Res.Transitions += st.nodeExecs
		c.Res.Validated += st.agreed
		c.StateStr(state)
		if nontrivial {
			c.Res.Nontrivial++
		}
		if st.outcome != "" {
			c.Outcome(st.outcome)
		}
		prev := g.prev
		g.prev = cs
		if fail == nil {
			c.Sample(cs)
			return
		}
		if reported[fail.Sig] {
			c.Count("violations_of_an_already_reported_signature", 1)
			return
		}
		// attribute: does it fail on its own?
		rep := *cs
		if e2 := guarded(c, &rep); e2 == nil {
			if prev != nil {
				rep.Prev = prev
				if e3 := guarded(c, &rep); e3 != nil {
					fail = asFail(e3)
				} else {
					fail = &Fail{Sig: "leak-unattributed", Msg: "fails on a long-lived runnable only, not after its direct predecessor: " + fail.Msg}
				}
			} else {
				fail = &Fail{Sig: "leak-unattributed", Msg: "fails on the shared runnable only: " + fail.Msg}
			}
		} else {
			fail = asFail(e2)
		}
		if reported[fail.Sig] {
			c.Count("violations_of_an_already_reported_signature", 1)
			return
		}
		reported[fail.Sig] = true
		c.Violate(harness.Violation{Scenario: rep.String(), Signature: fail.Sig, Case: rep, Msg: fail.Msg})
		if c.TooManyViolations() {
			stop = true
			c.Res.Capped, c.Res.CapReason = true, "stopped after too many distinct violation classes"
		}
	}

	runSets := func(g *graphCtx, name string, sets [][]int) {
		atoms := g.menu.Atoms
		block(name, func() {
			for _, ix := range sets {
				cs := &Case{Graph: g.tree.Spec, Family: "set", Set: make([]Atom, len(ix))}
				nt := false
				for p, x := range ix {
					cs.Set[p] = atoms[x]
					if g.routes[x].AnyDesign || g.routes[x].Invalid != "" {
						nt = true
					}
				}
				exec(g, cs, g.tree.Spec+"|"+setString(cs.Set), nt)
				if stop {
					break
				}
			}
		})
	}
	// mine: one shard unit = one block of cases; returns false when the block is not ours or time is up
	mine := func(name string) bool {
		if !c.Mine(name) {
			return false
		}
		if c.TimeUp() {
			stop = true
			return false
		}
		return true
	}
	// simplest first, over all graphs: single options, pairs of calls, sets of two, sets of three
	for _, phase := range []string{"set1", "pair", "set2", "set3"} {
		for _, spec := range specsFor(c.Quick()) {
			g := getGraph(spec)
			atoms := g.menu.Atoms
			n := len(atoms)
			if c.Worker == 0 && phase == "set1" {
				c.Count("menu_atoms:"+spec, int64(n))
			}
			for i := 0; i < n && !stop; i++ {
				switch phase {
				case "set1":
					if name := fmt.Sprintf("%s set1 %d", spec, i); mine(name) {
						sets := [][]int{{i}}
						if i == 0 {
							sets = [][]int{{}, {i}}
						}
						runSets(g, name, sets)
					}
				case "pair": // two consecutive calls with different single options
					if name := fmt.Sprintf("%s pair %d", spec, i); mine(name) {
						block(name, func() {
							for j := 0; j < n && !stop; j++ {
								if i == j {
									continue
								}
								cs := &Case{Graph: spec, Family: "pair", Set: []Atom{atoms[i]}, Set2: []Atom{atoms[j]}}
								nt := nontrivialSet([]*Route{g.routes[i], g.routes[j]})
								exec(g, cs, spec+"|"+setString(cs.Set)+">"+setString(cs.Set2), nt)
							}
						})
					}
				case "set2":
					if name := fmt.Sprintf("%s set2 %d", spec, i); mine(name) {
						var sets [][]int
						for j := i; j < n; j++ {
							sets = append(sets, []int{i, j})
						}
						runSets(g, name, sets)
					}
				case "set3":
					for j := i; j < n && !stop; j++ {
						if name := fmt.Sprintf("%s set3 %d %d", spec, i, j); mine(name) {
							var sets [][]int
							for k := j; k < n; k++ {
								sets = append(sets, []int{i, j, k})
							}
							runSets(g, name, sets)
						}
					}
				}
			}
			if stop {
				break
			}
		}
		if stop {
			break
		}
	}
	c.Finish()
}

// safeRun is runOn with a panic that unwinds to the caller of the public API turned into a verdict.
func safeRun(in *Instance, g *graphCtx, cs *Case, st *stats) (f *Fail) {
	defer func() {
		if r := recover(); r != nil {
			f = &Fail{Sig: "panic-to-caller", Msg: "the call panicked: " + firstLines(fmt.Sprint(r))}
		}
	}()
	return runOn(in, g, cs, st)
}

func asFail(err error) *Fail {
	if f, ok := err.(*Fail); ok {
		return f
	}
	if pe, ok := err.(*harness.PanicError); ok {
		return &Fail{Sig: "panic-to-caller", Msg: "the call panicked: " + firstLines(pe.Val)}
	}
	return &Fail{Sig: "harness", Msg: err.Error()}
}

func guarded(c *harness.Ctx, cs *Case) error {
	return c.Guard(cs.String(), cs, 120*time.Second, func() error { return runFresh(cs) })
}
