package main

import (
	"sort"
	"strings"
)

// ---------------------------------------------------------------------------------------------------
// Reference model: a routing function over the node tree, written from the statement of C16.
//
//  1. an undesignated component option reaches every node of that component type in the graph and in
//     nested graphs and no node of another type;
//  2. an option designated to a node or node path reaches only that node; if the node is a (sub-)graph the
//     option is an undesignated option of that graph (rule 1 inside it, nothing outside it);
//  3. designating an unknown node, a path below a non-graph node, or an option of the wrong type is an error;
//  4. callbacks designated to a node apply only there (a designated graph node: that node, possibly the
//     nodes inside it, never a sibling, an ancestor or the top graph).

// Route is the model's verdict for one atom.
type Route struct {
	Invalid string // "" or the reason: unknown-node | below-non-graph | below-passthrough | wrong-type | wrong-type-passthrough
	// component options: per node index, how often the payload arrives (min..max)
	Reach map[int][2]int
	// callbacks: nodes where the handler has to fire, nodes where it may fire
	Must      map[int]bool
	May       map[int]bool
	MustTop   bool // has to fire for the top graph itself
	MayTop    bool
	MayTool   bool // may fire for a tool run inside a tools node
	AnyDesign bool
}

func resolve(t *Tree, path []string) (*Node, string) {
	cur := t.Root
	for i, k := range path {
		n := cur.find(k)
		if n == nil {
			return nil, "unknown-node"
		}
		if i == len(path)-1 {
			return n, ""
		}
		if !n.isGraph() {
			if isPass(n.Kind) {
				return nil, "below-passthrough"
			}
			return nil, "below-non-graph"
		}
		cur = n.Sub
	}
	return nil, "unknown-node"
}

func hasCallbacks(n *Node) bool { return !isPass(n.Kind) } // a passthrough runs no component, no callbacks demanded

func route(t *Tree, a Atom) *Route {
	r := &Route{Reach: map[int][2]int{}, Must: map[int]bool{}, May: map[int]bool{}, AnyDesign: len(a.Paths) > 0}
	bump := func(n *Node, overlap bool) {
		c := r.Reach[n.Idx]
		if overlap && c[1] > 0 {
			// the same option addresses this node through two of its paths: the statement does not say
			// whether it then arrives once or twice
			c[1]++
		} else {
			c[0]++
			c[1]++
		}
		r.Reach[n.Idx] = c
	}
	if len(a.Paths) == 0 {
		if a.T == "CB" {
			r.MustTop, r.MayTop, r.MayTool = true, true, true
			for _, n := range t.All {
				r.May[n.Idx] = true
				if hasCallbacks(n) {
					r.Must[n.Idx] = true
				}
			}
			return r
		}
		for _, n := range t.All {
			if accepts(n.Kind, a.T) {
				bump(n, false)
			}
		}
		return r
	}
	for _, p := range a.Paths {
		n, why := resolve(t, p)
		if why != "" {
			r.Invalid = why
			return r
		}
		if a.T == "CB" {
			if hasCallbacks(n) {
				r.Must[n.Idx] = true
			}
			for _, m := range t.All {
				if n.covers(m) {
					r.May[m.Idx] = true
					if m.Kind == "T" {
						r.MayTool = true
					}
				}
			}
			continue
		}
		if n.isGraph() {
			for _, m := range t.All {
				if m != n && n.covers(m) && accepts(m.Kind, a.T) {
					bump(m, true)
				}
			}
			continue
		}
		if !accepts(n.Kind, a.T) {
			if isPass(n.Kind) {
				r.Invalid = "wrong-type-passthrough"
			} else {
				r.Invalid = "wrong-type"
			}
			return r
		}
		bump(n, true)
	}
	return r
}

// invalidWhy merges the reasons of a set: "" when every option is valid.
func invalidWhy(rs []*Route) string {
	seen := map[string]bool{}
	for _, r := range rs {
		if r.Invalid != "" {
			seen[r.Invalid] = true
		}
	}
	if len(seen) == 0 {
		return ""
	}
	var ws []string
	for w := range seen {
		ws = append(ws, w)
	}
	sort.Strings(ws)
	return strings.Join(ws, "+")
}
