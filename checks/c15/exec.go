package main

import (
	"context"
	"fmt"
	"io"
	"os"
	"reflect"
	"runtime/debug"
	"sync"

	"github.com/cloudwego/eino/compose"
	"github.com/cloudwego/eino/schema"

	"verif/lib/harness"
)

// ---------------------------------------------------------------------------------------------------
// Building and running a program on the real implementation (public API only).

// runEnv is the per-run state the node bodies read and write.
type runEnv struct {
	gens [2]func() any // fresh output of predecessor slot s
	// what the predecessors handed out (references kept to detect later modification)
	handed [2][]any
	// what the successor was handed
	called  int
	input   reflect.Value // deep-copied snapshot (stream: merged chunks)
	chunks  int
	mergeOK bool
	mu      sync.Mutex
}

// obs is the observation of one run.
type obs struct {
	Err     error
	Panic   string
	Called  int
	Input   reflect.Value
	MergeOK bool
	PredMod string // non-empty: which predecessor output differs from its deep copy after the run
}

type compiled interface {
	run(stream bool, gens [2]func() any, srcTypes []string) obs
}

type instance interface {
	build(p *Program, decl []Call) (compiled, error, string)
}

var registry = map[string]instance{}

type inst[A, B, I any] struct{}

type comp[A, B, I any] struct {
	r     compose.Runnable[A, any]
	shape string
}

func reg3[A, B, I any](a, b, i string) { registry[a+"|"+b+"|"+i] = inst[A, B, I]{} }
func reg2[A, B any](a, b string) {
	reg3[A, B, T](a, b, "T")
	reg3[A, B, *T](a, b, "PT")
	reg3[A, B, map[string]any](a, b, "MSA")
	reg3[A, B, map[string]string](a, b, "MSS")
	reg3[A, B, any](a, b, "ANY")
	reg3[A, B, SM](a, b, "SM")
}
func reg1[A any](a string) {
	reg2[A, T](a, "T")
	reg2[A, *T](a, "PT")
	reg2[A, map[string]any](a, "MSA")
	reg2[A, map[string]string](a, "MSS")
	reg2[A, any](a, "ANY")
	reg2[A, SM](a, "SM")
}

func init() {
	reg1[T]("T")
	reg1[*T]("PT")
	reg1[map[string]any]("MSA")
	reg1[map[string]string]("MSS")
	reg1[any]("ANY")
	reg1[SM]("SM")
}

func instanceFor(p *Program) instance {
	a := p.Src[0]
	b := a
	if len(p.Src) > 1 {
		b = p.Src[1]
	}
	return registry[a+"|"+b+"|"+p.Dst]
}

// catch runs f and returns a panic that unwound to this caller.
func catch(f func()) (pv string) {
	defer func() {
		if r := recover(); r != nil {
			pv = fmt.Sprint(r)
			if os.Getenv("C15_DEBUG") != "" {
				fmt.Printf("PANIC %v\n%s\n", r, debug.Stack())
			}
		}
	}()
	f()
	return ""
}

type envKey struct{}

// envOf: the per-run record travels in the context, so a node body still running after its run has
// returned (the framework does not wait for parallel nodes when one fails) can never write into a later run.
func envOf(ctx context.Context) *runEnv { return ctx.Value(envKey{}).(*runEnv) }

func predLambda[In, Out any](slot int, outType string) *compose.Lambda {
	inv := func(ctx context.Context, _ In, _ ...any) (Out, error) {
		e := envOf(ctx)
		v := e.gens[slot]()
		e.mu.Lock()
		e.handed[slot] = append(e.handed[slot], v)
		e.mu.Unlock()
		return v.(Out), nil
	}
	str := func(ctx context.Context, _ In, _ ...any) (*schema.StreamReader[Out], error) {
		e := envOf(ctx)
		v := e.gens[slot]()
		var cs []Out
		e.mu.Lock()
		for _, c := range chunkValue(v, outType) {
			e.handed[slot] = append(e.handed[slot], c)
			cs = append(cs, c.(Out))
		}
		e.mu.Unlock()
		return schema.StreamReaderFromArray(cs), nil
	}
	l, err := compose.AnyLambda[In, Out, any](inv, str, nil, nil)
	if err != nil {
		panic(err)
	}
	return l
}

func succLambda[I any]() *compose.Lambda {
	inv := func(ctx context.Context, in I, _ ...any) (any, error) {
		e := envOf(ctx)
		e.mu.Lock()
		defer e.mu.Unlock()
		e.called++
		e.chunks = 1
		e.input = deepCopy(reflect.ValueOf(&in).Elem())
		return "done", nil
	}
	col := func(ctx context.Context, sr *schema.StreamReader[I], _ ...any) (any, error) {
		e := envOf(ctx)
		defer sr.Close()
		var acc reflect.Value
		chunks, mergeOK := 0, true
		var rerr error
		for {
			c, err := sr.Recv()
			if err == io.EOF {
				break
			}
			if err != nil {
				rerr = err
				break
			}
			chunks++
			cv := deepCopy(reflect.ValueOf(&c).Elem())
			if chunks == 1 {
				acc = cv
				continue
			}
			var ok bool
			acc, ok = mergeChunks(acc, cv)
			mergeOK = mergeOK && ok
		}
		e.mu.Lock()
		defer e.mu.Unlock()
		e.called++
		e.chunks, e.input = chunks, acc
		e.mergeOK = e.mergeOK && mergeOK
		if rerr != nil {
			return nil, rerr
		}
		return "done", nil
	}
	l, err := compose.AnyLambda[I, any, any](inv, nil, col, nil)
	if err != nil {
		panic(err)
	}
	return l
}

func mappingOf(it Item) *compose.FieldMapping {
	switch {
	case it.From == nil && it.To == nil:
		return nil
	case it.From == nil:
		if len(it.To) == 1 {
			return compose.ToField(it.To[0])
		}
		return compose.ToFieldPath(compose.FieldPath(it.To))
	case it.To == nil:
		if len(it.From) == 1 {
			return compose.FromField(it.From[0])
		}
		return compose.FromFieldPath(compose.FieldPath(it.From))
	default:
		if len(it.From) == 1 && len(it.To) == 1 {
			return compose.MapFields(it.From[0], it.To[0])
		}
		return compose.MapFieldPaths(compose.FieldPath(it.From), compose.FieldPath(it.To))
	}
}

// build declares the workflow in the given order and compiles it. The third result is a panic out of the
// declaration or Compile calls.
func (inst[A, B, I]) build(p *Program, decl []Call) (c compiled, cerr error, pv string) {
	var r compose.Runnable[A, any]
	pv = catch(func() {
		wf := compose.NewWorkflow[A, any]()
		key := []string{compose.START, ""}
		switch p.Shape {
		case "S":
		case "L":
			wf.AddLambdaNode("L0", predLambda[A, A](0, p.Src[0])).AddInput(compose.START)
			key[0] = "L0"
		case "SL", "SLi":
			wf.AddLambdaNode("L1", predLambda[A, B](1, p.Src[1])).AddInput(compose.START)
			key[1] = "L1"
		case "LL":
			wf.AddLambdaNode("L0", predLambda[A, A](0, p.Src[0])).AddInput(compose.START)
			wf.AddLambdaNode("L1", predLambda[A, B](1, p.Src[1])).AddInput(compose.START)
			key[0], key[1] = "L0", "L1"
		}
		s := wf.AddLambdaNode("S", succLambda[I]())
		for _, call := range decl {
			if call.Static {
				it := p.Items[call.Items[0]]
				tp, _ := walkType(rootTypes[p.Dst], it.To, sideTarget)
				s.SetStaticValue(compose.FieldPath(it.To), staticValueFor(tp.Leaf)())
				continue
			}
			var ms []*compose.FieldMapping
			for _, i := range call.Items {
				if m := mappingOf(p.Items[i]); m != nil {
					ms = append(ms, m)
				}
			}
			if p.Shape == "SLi" && call.Slot == 0 {
				s.AddInputWithOptions(key[call.Slot], ms, compose.WithNoDirectDependency())
				continue
			}
			s.AddInput(key[call.Slot], ms...)
		}
		wf.End().AddInput("S")
		r, cerr = wf.Compile(context.Background())
	})
	if pv != "" || cerr != nil {
		return nil, cerr, pv
	}
	return &comp[A, B, I]{r: r, shape: p.Shape}, nil, ""
}

func (c *comp[A, B, I]) run(stream bool, gens [2]func() any, srcTypes []string) (o obs) {
	e := &runEnv{gens: gens, mergeOK: true}
	// START's value: predecessor slot 0 when START is a predecessor, otherwise only the trigger
	startVal := gens[0]()
	startIsPred := c.shape == "S" || c.shape == "SL" || c.shape == "SLi"
	ctx := context.WithValue(context.Background(), envKey{}, e)
	o.Panic = catch(func() {
		if !stream {
			if startIsPred {
				e.handed[0] = append(e.handed[0], startVal)
			}
			_, o.Err = c.r.Invoke(ctx, startVal.(A))
			return
		}
		var cs []A
		startType := srcTypes[0]
		if !startIsPred {
			startType = "ANY" // START only triggers the lambdas here: one chunk
		}
		for _, ch := range chunkValue(startVal, startType) {
			if startIsPred {
				e.handed[0] = append(e.handed[0], ch)
			}
			cs = append(cs, ch.(A))
		}
		out, err := c.r.Transform(ctx, schema.StreamReaderFromArray(cs))
		if err != nil {
			o.Err = err
			return
		}
		defer out.Close()
		for {
			_, err := out.Recv()
			if err == io.EOF {
				return
			}
			if err != nil {
				o.Err = err
				return
			}
		}
	})
	e.mu.Lock()
	defer e.mu.Unlock()
	o.Called, o.Input, o.MergeOK = e.called, e.input, e.mergeOK
	// predecessor outputs must be what they were when handed out
	for s := 0; s < 2; s++ {
		if len(e.handed[s]) == 0 {
			continue
		}
		fresh := gens[s]()
		var want []any
		if len(e.handed[s]) == 1 && !stream {
			want = []any{fresh}
		} else {
			want = chunkValue(fresh, srcTypes[s])
		}
		if len(want) != len(e.handed[s]) {
			// a predecessor ran more than once: cannot happen in these shapes
			o.PredMod = fmt.Sprintf("p%d handed out %d values, expected %d", s, len(e.handed[s]), len(want))
			continue
		}
		for i := range want {
			if !reflect.DeepEqual(want[i], e.handed[s][i]) {
				o.PredMod = fmt.Sprintf("p%d output is now %s, was %s", s, renderAny(e.handed[s][i]), renderAny(want[i]))
			}
		}
	}
	return o
}

var _ = harness.SortedKeys[int]
