package main

import (
	"fmt"
	"reflect"
	"sort"
	"strconv"
	"strings"
)

// ---------------------------------------------------------------------------------------------------
// Reference model: generic path get / set on value trees, written against the property text only.

// pathInfo is one path of a type together with what is statically known about it.
type pathInfo struct {
	Path   []string
	Leaf   reflect.Type // static type at the end of the path (any when the path runs through an interface)
	ViaAny bool         // an intermediate step (not the leaf) has interface type
	Chain  string       // kinds along the path, e.g. struct>ptr>string (used for signatures)
}

const (
	sideSource = 0
	sideTarget = 1
)

func kindName(t reflect.Type) string {
	switch t.Kind() {
	case reflect.Interface:
		return "any"
	case reflect.Ptr:
		return "ptr"
	case reflect.Map:
		switch t.Elem().Kind() {
		case reflect.Interface:
			return "msa"
		case reflect.Struct:
			return "map-of-struct"
		case reflect.Ptr:
			return "map-of-ptr"
		}
		return "mss"
	default:
		return t.Kind().String()
	}
}

// enumPaths lists the whole-value path (empty) and every path of length <= maxLen, shortest first.
// Map keys come from {k, j}. Below an interface: a target expands it to map[string]any (keys k, j);
// a source is only known at run time, the steps tried are the map key k and the struct field S.
func enumPaths(root reflect.Type, maxLen int, side int) []pathInfo {
	out := []pathInfo{{Path: nil, Leaf: root, Chain: kindName(root)}}
	frontier := []pathInfo{out[0]}
	for l := 1; l <= maxLen; l++ {
		var next []pathInfo
		for _, p := range frontier {
			t := p.Leaf
			via := p.ViaAny
			if t.Kind() == reflect.Ptr && t.Elem().Kind() == reflect.Struct {
				t = t.Elem()
			}
			add := func(seg string, lt reflect.Type, v bool) {
				if !keepPath(root, append(append([]string{}, p.Path...), seg)) {
					return
				}
				np := pathInfo{Path: append(append([]string{}, p.Path...), seg), Leaf: lt, ViaAny: v, Chain: p.Chain + ">" + kindName(lt)}
				next = append(next, np)
			}
			switch t.Kind() {
			case reflect.Struct:
				for i := 0; i < t.NumField(); i++ {
					add(t.Field(i).Name, t.Field(i).Type, via)
				}
			case reflect.Map:
				add("k", t.Elem(), via)
				add("j", t.Elem(), via)
			case reflect.Interface:
				if side == sideTarget {
					add("k", anyType, true)
					add("j", anyType, true)
				} else {
					add("k", anyType, true)
					add("S", anyType, true)
				}
			}
		}
		out = append(out, next...)
		frontier = next
	}
	return out
}

func pathStr(p []string) string {
	if len(p) == 0 {
		return "*"
	}
	return strings.Join(p, ".")
}

func pathsOverlap(a, b []string) bool {
	n := len(a)
	if len(b) < n {
		n = len(b)
	}
	for i := 0; i < n; i++ {
		if a[i] != b[i] {
			return false
		}
	}
	return true // equal, or one is a prefix of the other (the empty path is a prefix of everything)
}

// get statuses
const (
	gOK     = iota
	gAbsent // a map key on the path is absent: the statement does not say what must happen
	gNilPtr // a statically typed pointer on the path is nil: ditto
	gDynBad // the dynamic value behind an interface cannot be walked: a run-time checked mapping must fail
)

// mget walks path from v (dynamic value of the predecessor output). It returns the value found (invalid
// reflect.Value = untyped nil) and whether the walk passed through an interface value.
func mget(v any, path []string) (res reflect.Value, status int) {
	cur := reflect.ValueOf(v)
	behindAny := false
	for _, seg := range path {
		for {
			if !cur.IsValid() {
				return reflect.Value{}, gDynBad // untyped nil behind an interface
			}
			if cur.Kind() == reflect.Interface {
				behindAny = true
				if cur.IsNil() {
					return reflect.Value{}, gDynBad
				}
				cur = cur.Elem()
				continue
			}
			if cur.Kind() == reflect.Ptr {
				if cur.IsNil() {
					if behindAny {
						return reflect.Value{}, gDynBad
					}
					return reflect.Value{}, gNilPtr
				}
				cur = cur.Elem()
				continue
			}
			break
		}
		switch cur.Kind() {
		case reflect.Struct:
			f := cur.FieldByName(seg)
			if !f.IsValid() || !f.CanInterface() {
				return reflect.Value{}, gDynBad
			}
			cur = f
		case reflect.Map:
			if cur.Type().Key() != strType {
				return reflect.Value{}, gDynBad
			}
			e := cur.MapIndex(reflect.ValueOf(seg))
			if !e.IsValid() {
				return reflect.Value{}, gAbsent
			}
			cur = e
		default:
			return reflect.Value{}, gDynBad
		}
	}
	for cur.IsValid() && cur.Kind() == reflect.Interface {
		if cur.IsNil() {
			return reflect.Value{}, gOK
		}
		cur = cur.Elem()
	}
	return cur, gOK
}

// set statuses
const (
	sOK       = iota
	sMismatch // value not assignable to the target leaf type
	sConflict // the walk met a value put there by another mapping (only possible for overlapping sets)
)

func nillable(t reflect.Type) bool {
	switch t.Kind() {
	case reflect.Map, reflect.Ptr, reflect.Interface, reflect.Slice:
		return true
	}
	return false
}

// mset stores val (invalid = untyped nil) at path below root (addressable, of the successor's input type),
// creating nil pointers, nil maps and empty interface holes (as map[string]any) on the way.
func mset(root reflect.Value, path []string, val reflect.Value) int {
	assign := func(dst reflect.Value, lt reflect.Type, store func(reflect.Value)) int {
		if !val.IsValid() {
			if !nillable(lt) {
				return sMismatch
			}
			store(reflect.Zero(lt))
			return sOK
		}
		if !val.Type().AssignableTo(lt) {
			return sMismatch
		}
		store(val)
		return sOK
	}
	if len(path) == 0 {
		return assign(root, root.Type(), func(v reflect.Value) { root.Set(v) })
	}
	cur := root
	for i, seg := range path {
		last := i == len(path)-1
		// open the container
		if cur.Kind() == reflect.Interface {
			if cur.IsNil() {
				cur.Set(reflect.ValueOf(map[string]any{}))
			}
			m, ok := cur.Interface().(map[string]any)
			if !ok {
				return sConflict
			}
			cur = reflect.ValueOf(m)
		}
		if cur.Kind() == reflect.Ptr {
			if cur.IsNil() {
				cur.Set(reflect.New(cur.Type().Elem()))
			}
			cur = cur.Elem()
		}
		switch cur.Kind() {
		case reflect.Struct:
			f := cur.FieldByName(seg)
			if !f.IsValid() {
				return sMismatch
			}
			if last {
				return assign(f, f.Type(), func(v reflect.Value) { f.Set(v) })
			}
			cur = f
		case reflect.Map:
			if cur.IsNil() {
				cur.Set(reflect.MakeMap(cur.Type()))
			}
			key := reflect.ValueOf(seg)
			if last {
				m := cur
				return assign(m, m.Type().Elem(), func(v reflect.Value) { m.SetMapIndex(key, v) })
			}
			switch cur.Type().Elem().Kind() {
			case reflect.Struct:
				// a struct value inside a map is not addressable: copy the entry (or start from zero), store
				// below the copy, write the copy back
				tmp := reflect.New(cur.Type().Elem()).Elem()
				if e := cur.MapIndex(key); e.IsValid() {
					tmp.Set(e)
				}
				st := mset(tmp, path[i+1:], val)
				cur.SetMapIndex(key, tmp)
				return st
			case reflect.Ptr:
				e := cur.MapIndex(key)
				if !e.IsValid() || e.IsNil() {
					e = reflect.New(cur.Type().Elem().Elem())
					cur.SetMapIndex(key, e)
				}
				cur = e
				continue
			case reflect.Interface:
			default:
				return sMismatch
			}
			e := cur.MapIndex(key)
			if !e.IsValid() || e.IsNil() {
				child := map[string]any{}
				cur.SetMapIndex(key, reflect.ValueOf(child))
				cur = reflect.ValueOf(child)
			} else {
				child, ok := e.Interface().(map[string]any)
				if !ok {
					return sConflict
				}
				cur = reflect.ValueOf(child)
			}
		default:
			return sMismatch
		}
	}
	return sOK
}

// mapEntryClass: the first step of a path that enters a map whose values are structs or struct pointers.
// kind is "struct" / "pointer" ("" if there is none), entry the path up to and including the map key,
// below the number of steps after the entry.
func mapEntryClass(root reflect.Type, path []string) (kind string, entry []string, below int) {
	t := root
	for i, seg := range path {
		if t.Kind() == reflect.Ptr && t.Elem().Kind() == reflect.Struct {
			t = t.Elem()
		}
		switch t.Kind() {
		case reflect.Struct:
			f, ok := t.FieldByName(seg)
			if !ok {
				return "", nil, 0
			}
			t = f.Type
		case reflect.Map:
			e := t.Elem()
			if e.Kind() == reflect.Struct || (e.Kind() == reflect.Ptr && e.Elem().Kind() == reflect.Struct) {
				kind = "struct"
				if e.Kind() == reflect.Ptr {
					kind = "pointer"
				}
				return kind, path[:i+1], len(path) - i - 1
			}
			t = e
		default:
			return "", nil, 0
		}
	}
	return "", nil, 0
}

// peek reads the value at a target path of an observed / model successor input (ok=false: not there).
func peek(root any, path []string) (reflect.Value, bool) {
	v, st := mget(root, path)
	return v, st == gOK
}

// newRoot returns an addressable zero value of the successor's input type.
func newRoot(t reflect.Type) reflect.Value { return reflect.New(t).Elem() }

// ---------------------------------------------------------------------------------------------------
// value utilities: deep copy, structural equality, chunk merge, rendering

// maxDepth bounds every recursive walk: an accepted overlapping set can make the implementation build a
// cyclic value (a predecessor's map ends up containing itself).
const maxDepth = 24

func deepCopy(v reflect.Value) reflect.Value { return deepCopyD(v, 0) }

func deepCopyD(v reflect.Value, d int) reflect.Value {
	if !v.IsValid() {
		return v
	}
	if d > maxDepth {
		return reflect.Zero(v.Type())
	}
	switch v.Kind() {
	case reflect.Interface:
		n := reflect.New(v.Type()).Elem()
		if !v.IsNil() {
			n.Set(deepCopyD(v.Elem(), d+1))
		}
		return n
	case reflect.Ptr:
		if v.IsNil() {
			return reflect.Zero(v.Type())
		}
		n := reflect.New(v.Type().Elem())
		n.Elem().Set(deepCopyD(v.Elem(), d+1))
		return n
	case reflect.Map:
		if v.IsNil() {
			return reflect.Zero(v.Type())
		}
		n := reflect.MakeMapWithSize(v.Type(), v.Len())
		it := v.MapRange()
		for it.Next() {
			n.SetMapIndex(it.Key(), deepCopyD(it.Value(), d+1))
		}
		return n
	case reflect.Struct:
		n := reflect.New(v.Type()).Elem()
		for i := 0; i < v.NumField(); i++ {
			n.Field(i).Set(deepCopyD(v.Field(i), d+1))
		}
		return n
	default:
		n := reflect.New(v.Type()).Elem()
		n.Set(v)
		return n
	}
}

func deepCopyAny(v any) any {
	if v == nil {
		return nil
	}
	return deepCopy(reflect.ValueOf(v)).Interface()
}

func unwrap(v reflect.Value) reflect.Value {
	for v.IsValid() && v.Kind() == reflect.Interface {
		if v.IsNil() {
			return reflect.Value{}
		}
		v = v.Elem()
	}
	return v
}

// equalMod is structural equality that does not tell a nil map from an empty map (the statement says
// "zero-valued", an instantiated empty container on a mapped path holds nothing either).
func equalMod(a, b reflect.Value) bool { return equalModD(a, b, 0) }

func equalModD(a, b reflect.Value, d int) bool {
	if d > maxDepth {
		return false
	}
	a, b = unwrap(a), unwrap(b)
	if !a.IsValid() || !b.IsValid() {
		return a.IsValid() == b.IsValid()
	}
	if a.Type() != b.Type() {
		return false
	}
	switch a.Kind() {
	case reflect.Ptr:
		if a.IsNil() || b.IsNil() {
			return a.IsNil() == b.IsNil()
		}
		return equalModD(a.Elem(), b.Elem(), d+1)
	case reflect.Map:
		if a.Len() != b.Len() {
			return false
		}
		it := a.MapRange()
		for it.Next() {
			bv := b.MapIndex(it.Key())
			if !bv.IsValid() || !equalModD(it.Value(), bv, d+1) {
				return false
			}
		}
		return true
	case reflect.Struct:
		for i := 0; i < a.NumField(); i++ {
			if !equalModD(a.Field(i), b.Field(i), d+1) {
				return false
			}
		}
		return true
	default:
		return a.Interface() == b.Interface()
	}
}

// rootEqual compares a successor input with the model's: at the root a nil pointer / nil interface and
// an instantiated but empty value are both "everything zero".
func rootEqual(obs, model reflect.Value) bool {
	o, m := unwrap(obs), unwrap(model)
	empty := func(v reflect.Value) bool {
		if !v.IsValid() {
			return true
		}
		switch v.Kind() {
		case reflect.Ptr:
			return v.IsNil() || v.Elem().IsZero()
		case reflect.Map:
			return v.Len() == 0
		}
		return false
	}
	if empty(o) && empty(m) {
		if o.IsValid() && m.IsValid() && o.Type() != m.Type() {
			return false
		}
		return true
	}
	return equalMod(o, m)
}

// mergeChunks folds the chunks a streaming successor received into one value: containers are united
// recursively, a leaf delivered by exactly one chunk is taken. ok=false: two chunks deliver different
// non-zero leaves for one place.
func mergeChunks(a, b reflect.Value) (reflect.Value, bool) { return mergeChunksD(a, b, 0) }

func mergeChunksD(a, b reflect.Value, d int) (reflect.Value, bool) {
	a, b = unwrap(a), unwrap(b)
	if d > maxDepth {
		return a, false
	}
	if !a.IsValid() {
		return b, true
	}
	if !b.IsValid() {
		return a, true
	}
	if a.Type() != b.Type() {
		return a, false
	}
	switch a.Kind() {
	case reflect.Ptr:
		if a.IsNil() {
			return b, true
		}
		if b.IsNil() {
			return a, true
		}
		m, ok := mergeChunksD(a.Elem(), b.Elem(), d+1)
		n := reflect.New(a.Type().Elem())
		n.Elem().Set(m)
		return n, ok
	case reflect.Map:
		if a.IsNil() {
			return b, true
		}
		if b.IsNil() {
			return a, true
		}
		n := reflect.MakeMap(a.Type())
		ok := true
		it := a.MapRange()
		for it.Next() {
			n.SetMapIndex(it.Key(), it.Value())
		}
		it = b.MapRange()
		for it.Next() {
			if av := a.MapIndex(it.Key()); av.IsValid() {
				m, o := mergeChunksD(av, it.Value(), d+1)
				ok = ok && o
				if !m.IsValid() {
					n.SetMapIndex(it.Key(), reflect.Zero(a.Type().Elem()))
				} else {
					n.SetMapIndex(it.Key(), m)
				}
			} else {
				n.SetMapIndex(it.Key(), it.Value())
			}
		}
		return n, ok
	case reflect.Struct:
		n := reflect.New(a.Type()).Elem()
		ok := true
		for i := 0; i < a.NumField(); i++ {
			m, o := mergeChunksD(a.Field(i), b.Field(i), d+1)
			ok = ok && o
			if m.IsValid() {
				n.Field(i).Set(m)
			}
		}
		return n, ok
	default:
		if a.IsZero() {
			return b, true
		}
		if b.IsZero() {
			return a, true
		}
		return a, a.Interface() == b.Interface()
	}
}

// render prints a value deterministically (sorted keys, no addresses).
func render(v reflect.Value) string { return renderD(v, 0) }

func renderD(v reflect.Value, d int) string {
	if !v.IsValid() {
		return "nil"
	}
	if d > 8 {
		return "<deeper>"
	}
	switch v.Kind() {
	case reflect.Interface:
		if v.IsNil() {
			return "nil"
		}
		return renderD(v.Elem(), d+1)
	case reflect.Ptr:
		if v.IsNil() {
			return "nil(" + v.Type().String() + ")"
		}
		return "&" + renderD(v.Elem(), d+1)
	case reflect.Map:
		if v.IsNil() {
			return "nil(" + typeShort(v.Type()) + ")"
		}
		keys := v.MapKeys()
		sort.Slice(keys, func(i, j int) bool { return fmt.Sprint(keys[i].Interface()) < fmt.Sprint(keys[j].Interface()) })
		var sb strings.Builder
		sb.WriteString(typeShort(v.Type()) + "{")
		for i, k := range keys {
			if i > 0 {
				sb.WriteString(" ")
			}
			sb.WriteString(fmt.Sprint(k.Interface()) + ":" + renderD(v.MapIndex(k), d+1))
		}
		sb.WriteString("}")
		return sb.String()
	case reflect.Struct:
		var sb strings.Builder
		sb.WriteString(v.Type().Name() + "{")
		first := true
		for i := 0; i < v.NumField(); i++ {
			if v.Field(i).IsZero() {
				continue
			}
			if !first {
				sb.WriteString(" ")
			}
			first = false
			sb.WriteString(v.Type().Field(i).Name + ":" + renderD(v.Field(i), d+1))
		}
		sb.WriteString("}")
		return sb.String()
	case reflect.String:
		return strconv.Quote(v.String())
	default:
		return fmt.Sprint(v.Interface())
	}
}

func renderAny(v any) string { return render(reflect.ValueOf(v)) }

func typeShort(t reflect.Type) string {
	switch t {
	case rootTypes["MSA"]:
		return "msa"
	case rootTypes["MSS"]:
		return "mss"
	}
	return strings.ReplaceAll(t.String(), "main.", "")
}
