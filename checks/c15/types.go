package main

import (
	"reflect"
	"sort"
)

// ---------------------------------------------------------------------------------------------------
// The type universe. T has one field of every kind the path walker distinguishes.

type Inner struct {
	S string
	N int
	M map[string]any
}

type T struct {
	S  string
	N  int
	In Inner
	P  *Inner
	M  map[string]any
	X  any
	PS *string
}

// Mid nests a struct value and a struct pointer below a map entry.
type Mid struct {
	In Inner
	P  *Inner
	PM *Mid2 // a pointer field of a struct-valued map entry with one more struct level below it
}

// Mid2 gives the chain MM.k.PM.Q.S: map entry (struct) -> pointer field -> struct field -> leaf.
type Mid2 struct {
	Q Inner
}

// SM: maps whose values are structs, struct pointers, structs holding structs. Paths into it are walked to
// length 4 so that a field of a struct inside a map entry (MM.k.In.S) is reachable, and along the one chain
// MM.k.PM.Q.S to length 5 (see keepPath).
type SM struct {
	MI map[string]Inner
	MP map[string]*Inner
	MM map[string]Mid
}

var (
	anyType = reflect.TypeOf((*any)(nil)).Elem()
	strType = reflect.TypeOf("")
)

// root type names, in enumeration order (simplest interplay first)
var rootNames = []string{"T", "PT", "MSA", "MSS", "ANY"}

// allRoots adds the struct-valued-map family; it takes part in the single mappings and in its own sets.
var allRoots = []string{"T", "PT", "MSA", "MSS", "ANY", "SM"}

const smLen = 5 // 4 everywhere, 5 only along MM.k.PM.Q.S (keepPath)

// keepPath thins the walk of SM: the field PM is only followed below MM.k and only to PM.Q.S, and nothing
// else reaches length 5. This keeps the family small: the chain exists to put a pointer field of a struct
// entry above one more struct level, once.
func keepPath(root reflect.Type, path []string) bool {
	if root != rootTypes["SM"] {
		return true
	}
	pm := -1
	for i, s := range path {
		if s == "PM" {
			pm = i
		}
	}
	if pm < 0 {
		return len(path) <= 4
	}
	want := []string{"MM", "k", "PM", "Q", "S"}
	if len(path) > len(want) {
		return false
	}
	for i, s := range path {
		if s != want[i] {
			return false
		}
	}
	return true
}

// lenFor: how deep paths of a root type are walked.
func lenFor(typ string, maxLen int) int {
	if typ == "SM" && maxLen < smLen {
		return smLen
	}
	return maxLen
}

var rootTypes = map[string]reflect.Type{
	"T":   reflect.TypeOf(T{}),
	"PT":  reflect.TypeOf(&T{}),
	"MSA": reflect.TypeOf(map[string]any{}),
	"MSS": reflect.TypeOf(map[string]string{}),
	"ANY": anyType,
	"SM":  reflect.TypeOf(SM{}),
}

func sp(s string) *string { return &s }

// ---------------------------------------------------------------------------------------------------
// Value alphabets: named generators; every call returns a fresh, unshared value tree.

type valGen struct {
	Name string
	Gen  func() any
}

func tFull() T {
	return T{
		S:  "s1",
		N:  7,
		In: Inner{S: "is", N: 3, M: map[string]any{"k": "imk", "j": "imj"}},
		P:  &Inner{S: "ps", N: 5, M: map[string]any{"k": "pmk", "j": "pmj"}},
		M:  map[string]any{"k": "mk", "j": "mj"},
		X:  map[string]any{"k": "xk", "j": "xj"},
		PS: sp("pstr"),
	}
}

func tVals() []struct {
	n string
	f func() T
} {
	return []struct {
		n string
		f func() T
	}{
		{"full", tFull},
		{"zero", func() T { return T{} }},
		// X is a struct pointer behind any; M.k has a wrong leaf type for string targets; M.j absent
		{"dynA", func() T {
			t := tFull()
			t.X = &Inner{S: "xs", N: 11, M: map[string]any{"k": "xmk"}}
			t.M = map[string]any{"k": 5}
			return t
		}},
		// X is not a container; M.k is an untyped nil; M.j is a nested map
		{"dynB", func() T {
			t := tFull()
			t.X = "str"
			t.M = map[string]any{"k": nil, "j": map[string]any{"k": "mjk", "j": "mjj"}}
			return t
		}},
		// typed nil pointer behind any; struct pointer / struct value behind map values
		{"dynC", func() T {
			t := tFull()
			t.X = (*Inner)(nil)
			t.M = map[string]any{"k": &Inner{S: "mks", N: 1}, "j": Inner{S: "mjs", N: 2}}
			return t
		}},
		// other map types behind any; nil value behind an intermediate any
		{"dynD", func() T {
			t := tFull()
			t.X = map[string]string{"k": "xsk"}
			t.M = map[string]any{"k": map[string]any{"k": nil}, "j": map[int]string{1: "a"}}
			return t
		}},
		// nil intermediate pointer / nil leaf pointers with everything else present
		{"nilP", func() T {
			t := tFull()
			t.P = nil
			t.PS = nil
			t.X = map[string]any{"k": nil, "S": "xS"}
			return t
		}},
	}
}

var valuesOf = map[string][]valGen{}

func init() {
	for _, tv := range tVals() {
		f := tv.f
		valuesOf["T"] = append(valuesOf["T"], valGen{tv.n, func() any { return f() }})
		valuesOf["PT"] = append(valuesOf["PT"], valGen{tv.n, func() any { v := f(); return &v }})
	}
	valuesOf["PT"] = append(valuesOf["PT"], valGen{"nil", func() any { return (*T)(nil) }})
	valuesOf["MSA"] = []valGen{
		{"full", func() any { return map[string]any{"k": "mk", "j": "mj"} }},
		{"nok", func() any { return map[string]any{"j": "mj"} }},
		{"nest", func() any {
			return map[string]any{"k": map[string]any{"k": "kk", "j": "kj"}, "j": &Inner{S: "js", N: 2, M: map[string]any{"k": "jmk"}}}
		}},
		{"badA", func() any { return map[string]any{"k": 5, "j": nil} }},
		{"badB", func() any { return map[string]any{"k": "str", "j": (*Inner)(nil)} }},
		{"badC", func() any { return map[string]any{"k": map[string]any{"k": nil}, "j": map[int]string{1: "a"}} }},
		{"typed", func() any {
			return map[string]any{"k": Inner{S: "ks", N: 4}, "j": map[string]string{"k": "jk"}}
		}},
		{"nil", func() any { return map[string]any(nil) }},
	}
	valuesOf["MSS"] = []valGen{
		{"full", func() any { return map[string]string{"k": "a", "j": "b"} }},
		{"nok", func() any { return map[string]string{"j": "b"} }},
		{"nil", func() any { return map[string]string(nil) }},
	}
	valuesOf["ANY"] = []valGen{
		{"str", func() any { return "hello" }},
		{"msa", func() any { return map[string]any{"k": "ak", "j": "aj"} }},
		{"pt", func() any { v := tFull(); return &v }},
		{"t", func() any { return tFull() }},
		{"mss", func() any { return map[string]string{"k": "a", "j": "b"} }},
		{"int", func() any { return 5 }},
	}
}

func smFull() SM {
	return SM{
		MI: map[string]Inner{"k": {S: "iks", N: 1, M: map[string]any{"k": "ikm", "j": "ijm"}}, "j": {S: "ijs", N: 2}},
		MP: map[string]*Inner{"k": {S: "pks", N: 3, M: map[string]any{"k": "pkm"}}, "j": {S: "pjs", N: 4}},
		MM: map[string]Mid{"k": {In: Inner{S: "mkis", N: 5, M: map[string]any{"k": "mkim"}}, P: &Inner{S: "mkps", N: 6}, PM: &Mid2{Q: Inner{S: "mkqs", N: 8}}}, "j": {In: Inner{S: "mjis", N: 7}}},
	}
}

func init() {
	valuesOf["SM"] = []valGen{
		{"full", func() any { return smFull() }},
		// key k absent everywhere
		{"nok", func() any {
			v := smFull()
			delete(v.MI, "k")
			delete(v.MP, "k")
			delete(v.MM, "k")
			return v
		}},
		{"zero", func() any { return SM{} }},
		// nil pointer entries, nil pointer inside a struct entry, wrong leaf type behind any inside an entry
		{"nilE", func() any {
			v := smFull()
			v.MP["k"] = nil
			v.MM["k"] = Mid{In: Inner{S: "mkis"}}
			v.MI["k"] = Inner{S: "iks", M: map[string]any{"k": 5}}
			return v
		}},
	}
}

func findVal(typ, name string) (valGen, bool) {
	for _, v := range valuesOf[typ] {
		if v.Name == name {
			return v, true
		}
	}
	return valGen{}, false
}

// staticValueFor returns the constant used with SetStaticValue for a target leaf of type g (nil: none).
func staticValueFor(g reflect.Type) func() any {
	switch g {
	case strType:
		return func() any { return "st" }
	case reflect.TypeOf(0):
		return func() any { return 42 }
	case reflect.TypeOf(Inner{}):
		return func() any { return Inner{S: "sti", N: 1} }
	case reflect.TypeOf(&Inner{}):
		return func() any { return &Inner{S: "stp", N: 2} }
	case reflect.TypeOf(map[string]any{}):
		return func() any { return map[string]any{"k": "stm"} }
	case anyType:
		return func() any { return "sta" }
	case reflect.TypeOf((*string)(nil)):
		return func() any { return sp("stps") }
	}
	return nil
}

// chunkValue splits a predecessor output into the chunks of its stream form: values of static map type are
// delivered one key per chunk (sorted keys), every other type as a single chunk.
func chunkValue(v any, staticType string) []any {
	if staticType == "ANY" {
		return []any{v} // chunks of interface type cannot be concatenated without a user-registered function
	}
	switch m := v.(type) {
	case map[string]any:
		if len(m) < 2 {
			return []any{v}
		}
		if containsNil(reflect.ValueOf(v), 0) {
			return []any{v} // concatenating map chunks that hold nil values is property C14's business
		}
		keys := make([]string, 0, len(m))
		for k := range m {
			keys = append(keys, k)
		}
		sort.Strings(keys)
		var out []any
		for _, k := range keys {
			out = append(out, map[string]any{k: m[k]})
		}
		return out
	case map[string]string:
		if len(m) < 2 {
			return []any{v}
		}
		keys := make([]string, 0, len(m))
		for k := range m {
			keys = append(keys, k)
		}
		sort.Strings(keys)
		var out []any
		for _, k := range keys {
			out = append(out, map[string]string{k: m[k]})
		}
		return out
	}
	return []any{v}
}

// containsNil: an untyped nil somewhere inside a map value tree.
func containsNil(v reflect.Value, d int) bool {
	if d > maxDepth {
		return false
	}
	switch v.Kind() {
	case reflect.Invalid:
		return true
	case reflect.Interface:
		if v.IsNil() {
			return true
		}
		return containsNil(v.Elem(), d+1)
	case reflect.Map:
		it := v.MapRange()
		for it.Next() {
			if containsNil(it.Value(), d+1) {
				return true
			}
		}
	}
	return false
}
