// C15 — Workflow field mappings move exactly the mapped values; overlapping targets are rejected (Engine R).
//
// Every canonical (types, mapping set) program of the bounded universe is declared through the public
// Workflow API in every declaration order, compiled, and - when accepted - run through Invoke and through
// Transform with piecewise input; the successor's recorded input is compared with an independent
// reflect-based path get/set model.
package main

import (
	"encoding/json"
	"fmt"
	"os"
	"reflect"
	"regexp"
	"runtime"
	"runtime/debug"
	"runtime/pprof"
	"sort"
	"strings"
	"time"

	"verif/lib/harness"
)

// Case is what a violation carries for -replay.
type Case struct {
	Prog   *Program `json:"prog"`
	Decl   []Call   `json:"decl,omitempty"` // nil: the whole program (all orders, all values)
	Vals   []string `json:"vals,omitempty"`
	Stream bool     `json:"stream,omitempty"`
	Sig    string   `json:"sig,omitempty"`
}

type finding struct {
	Sig  string
	Msg  string
	Case Case
}

type stats struct {
	compiles, runs, validated, apiCalls int64
	outcomes                            map[string]int64
	counters                            map[string]int64
}

func newStats() *stats { return &stats{outcomes: map[string]int64{}, counters: map[string]int64{}} }

const maxCompileTries = 12 // only used when the outcome of Compile can depend on map iteration (>= 2 static values on overlapping targets); a coin-flip acceptance is missed in all orders with probability < 2^-24

func countStatics(p *Program) int {
	n := 0
	for _, it := range p.Items {
		if it.Src == slotStatic {
			n++
		}
	}
	return n
}

// compileDecl compiles one declaration order. When Compile may be nondeterministic (>= 2 static values
// on overlapping targets) it is repeated until it accepts, at most maxCompileTries times.
func compileDecl(p *Program, decl []Call, retry bool, st *stats) (c compiled, err error, pv string) {
	in := instanceFor(p)
	tries := 1
	if retry {
		tries = maxCompileTries
	}
	for i := 0; i < tries; i++ {
		c, err, pv = in.build(p, decl)
		st.compiles++
		st.apiCalls += int64(len(decl)) + 3
		if pv != "" || err == nil {
			return
		}
	}
	return
}

func gensFor(p *Program, vals []string) (g [2]func() any) {
	for s, typ := range p.Src {
		v, ok := findVal(typ, vals[s])
		if !ok {
			panic("unknown value " + typ + "/" + vals[s])
		}
		g[s] = v.Gen
	}
	return g
}

// expectation of the model for one (program, values)
type expectation struct {
	mustErr bool   // a run-time checked mapping meets a value it cannot move: an error, never a panic
	mayErr  bool   // a source path meets an absent key / nil pointer: the statement is silent; error or leave it out
	why     string // which item causes mustErr / mayErr
	model   reflect.Value
	bug     string       // inconsistency of the enumeration itself
	nilItem map[int]bool // mappings that move an untyped nil
	causes  int          // number of mappings that cannot be moved as they are; >= 2: which one the run trips over first is not determined
}

func expect(p *Program, gens [2]func() any) expectation {
	var ex expectation
	root := newRoot(rootTypes[p.Dst])
	var orig [2]any
	for s := range p.Src {
		orig[s] = gens[s]()
	}
	for i, it := range p.Items {
		inf := p.info(i)
		var val reflect.Value
		if it.Src == slotStatic {
			val = reflect.ValueOf(staticValueFor(inf.ToLeaf)())
		} else {
			v, st := mget(orig[it.Src], it.From)
			switch st {
			case gDynBad:
				ex.causes++
				if !inf.RtChecked && !(len(it.From) == 0) {
					ex.bug = "model: dynamic failure on a statically typed path: " + it.String()
				}
				ex.mustErr = true
				if ex.why == "" || !strings.HasPrefix(ex.why, "must") {
					ex.why = "must fail: " + it.String() + " cannot be walked in " + renderAny(orig[it.Src])
				}
				continue
			case gAbsent, gNilPtr:
				ex.causes++
				ex.mayErr = true
				if ex.why == "" {
					ex.why = "unspecified: " + it.String() + " meets an absent key / nil pointer in " + renderAny(orig[it.Src])
				}
				continue
			}
			val = v
			if !v.IsValid() {
				if ex.nilItem == nil {
					ex.nilItem = map[int]bool{}
				}
				ex.nilItem[i] = true
			}
		}
		switch mset(root, it.To, val) {
		case sMismatch:
			ex.causes++
			if it.Src == slotStatic || !inf.RtChecked {
				ex.bug = "model: statically typed item not assignable: " + it.String()
			}
			ex.mustErr = true
			if ex.why == "" || !strings.HasPrefix(ex.why, "must") {
				ex.why = "must fail: " + it.String() + " delivers " + render(val) + " which is not assignable to " + typeShort(inf.ToLeaf)
			}
		case sConflict:
			ex.bug = "model: conflict in a non-overlapping set: " + it.String()
		}
	}
	ex.model = root
	if p.Dst == "ANY" && !unwrap(root).IsValid() && !ex.mustErr {
		// the successor would be handed a nil interface: nil interfaces between nodes are a separate, known behaviour
		ex.mayErr = true
		if ex.why == "" {
			ex.why = "unspecified: the successor input would be a nil interface"
		}
	}
	return ex
}

var (
	reAddr  = regexp.MustCompile(`0x[0-9a-f]+`)
	reSpace = regexp.MustCompile(`\s+`)
)

// normMsg makes an error / panic text usable in a deterministic message and signature: first line, no
// addresses, bounded length.
func normMsg(s string) string {
	if i := strings.Index(s, "stack:"); i >= 0 {
		s = s[:i]
	}
	if i := strings.Index(s, "goroutine "); i >= 0 {
		s = s[:i]
	}
	s = strings.ReplaceAll(s, "------------------------", "")
	s = reAddr.ReplaceAllString(s, "0x?")
	s = reSpace.ReplaceAllString(strings.TrimSpace(s), " ")
	if len(s) > 300 {
		s = s[:300]
	}
	return s
}

// errClass is a short class of an error / panic text for signatures: the innermost message without specifics.
func errClass(s string) string {
	s = normMsg(s)
	for _, pre := range []string{"reflect: call of ", "reflect: "} {
		if i := strings.Index(s, pre); i >= 0 {
			s = s[i+len(pre):]
			break
		}
	}
	if strings.HasPrefix(s, "[") {
		if i := strings.Index(s, "] "); i >= 0 {
			s = s[i+2:]
		}
	}
	if i := strings.LastIndex(s, "fail: "); i >= 0 {
		s = s[i+6:]
	}
	s = strings.TrimPrefix(s, "panic error: ")
	if strings.HasPrefix(s, "runtime check failed for mapping") {
		s = "runtime check failed for mapping"
	}
	cut := func(sep string, min int) {
		if i := strings.Index(s, sep); i > min {
			s = s[:i]
		}
	}
	cut(" node path", 0)
	if !strings.HasPrefix(s, "interface conversion") {
		cut(", ", 8)
		cut(". ", 8)
		cut("=", 8)
		cut(": ", 12)
	}
	s = strings.Map(func(r rune) rune {
		switch {
		case r >= 'a' && r <= 'z', r >= 'A' && r <= 'Z', r >= '0' && r <= '9':
			return r
		case r == ' ' || r == '-' || r == '_' || r == '.':
			return '-'
		}
		return -1
	}, s)
	for strings.Contains(s, "--") {
		s = strings.ReplaceAll(s, "--", "-")
	}
	if len(s) > 70 {
		s = s[:70]
	}
	return strings.Trim(s, "-")
}

func modeName(stream bool) string {
	if stream {
		return "stream"
	}
	return "invoke"
}

// checkRuns runs one accepted declaration order n times in one paradigm and judges every run.
func checkRuns(p *Program, decl []Call, c compiled, vals []string, stream bool, n int, st *stats) []finding {
	gens := gensFor(p, vals)
	ex := expect(p, gens)
	mk := func(sig, msg string) finding {
		return finding{Sig: sig, Case: Case{Prog: p, Decl: decl, Vals: vals, Stream: stream, Sig: sig},
			Msg: fmt.Sprintf("%s | order: %s | values %v | %s: %s", p, declString(p, decl), vals, modeName(stream), msg)}
	}
	if ex.bug != "" {
		return []finding{mk("harness-model-inconsistency", ex.bug)}
	}
	mode := modeName(stream)
	var out []finding
	seen := map[string]bool{}
	add := func(f finding) {
		if !seen[f.Sig] {
			seen[f.Sig] = true
			out = append(out, f)
		}
	}
	var first string
	var firstIn reflect.Value
	varies := false
	for i := 0; i < n; i++ {
		o := c.run(stream, gens, p.Src)
		st.runs++
		good := true
		desc := ""
		switch {
		case ex.causes >= 2 && (o.Panic != "" || o.Err != nil):
			// several mappings cannot be moved: whether the run panics or fails, and with which message, depends
			// on which one it meets first (map iteration); every single cause is judged by the simpler programs
			desc = "fails"
			st.outcomes["run:"+mode+":fails-with-several-causes"]++
			if o.Panic != "" {
				st.counters["several_causes_run_panicked:"+mode]++
			}
		case o.Panic != "":
			desc = "panic"
			good = false
			cls := "every source path holds a value of a fitting type"
			if ex.mustErr {
				cls = "a run-time checked mapping meets a value it cannot move"
			} else if ex.mayErr {
				cls = "the statement is silent about this input"
			}
			sfx := ""
			if ex.mayErr && !ex.mustErr {
				sfx = "/statement-silent-input" // absent key / nil pointer on a statically typed source path, nil interface as input
			} else if !ex.mustErr {
				depth := 0
				for _, it := range p.Items {
					if len(it.To) > depth {
						depth = len(it.To)
					}
				}
				sfx = fmt.Sprintf("/on-valid-input/target-depth-%d", depth)
			}
			sig := runSig("panic-out-of-run", p, stream, errClass(o.Panic))
			if strings.HasPrefix(sig, "panic-out-of-run") {
				sig += sfx
				if !ex.mustErr && !ex.mayErr && entryFailSig(p, &ex, -1) != "" {
					if es := entryFailSig(p, &ex, culpritItem(p, decl, vals, stream, st)); es != "" {
						sig = es // panic (Invoke) and recovered panic (streaming) are one class
					}
				}
			}
			add(mk(sig,
				fmt.Sprintf("the run PANICKED out of the public API: %s (input class: %s; %s)", normMsg(o.Panic), cls, ex.why)))
		case ex.mustErr:
			if o.Err == nil {
				desc = "ok"
				good = false
				add(mk("runtime-type-error-not-reported/"+mode, fmt.Sprintf("the run succeeded with successor input %s although %s", render(o.Input), ex.why)))
			} else {
				desc = "error"
				st.outcomes["run:"+mode+":runtime-check-error"]++
				if strings.Contains(o.Err.Error(), "panic") {
					st.counters["runtime_check_error_is_recovered_panic:"+mode]++
				}
			}
		case o.Err != nil:
			desc = "error"
			if ex.mayErr {
				st.outcomes["run:"+mode+":error-on-absent-or-nil-source"]++
			} else {
				good = false
				sig := runSig("unexpected-run-error", p, stream, errClass(o.Err.Error()))
				if strings.HasPrefix(sig, "unexpected-run-error") && entryFailSig(p, &ex, -1) != "" {
					if es := entryFailSig(p, &ex, culpritItem(p, decl, vals, stream, st)); es != "" {
						sig = es
					}
				}
				add(mk(sig,
					fmt.Sprintf("the run failed: %s; the model expects successor input %s", normMsg(o.Err.Error()), render(ex.model))))
			}
		default:
			desc = "ok"
			switch {
			case o.Called != 1:
				good = false
				add(mk("successor-not-run-once/"+mode, fmt.Sprintf("the successor ran %d times without an error", o.Called)))
			case !o.MergeOK:
				good = false
				add(mk("stream-chunks-disagree/"+mode, fmt.Sprintf("the chunks handed to the successor deliver different values for one place; merged: %s", render(o.Input))))
			case !rootEqual(o.Input, ex.model):
				good = false
				sig, what := blame(p, o.Input, ex.model)
				sig = fmt.Sprintf("value-mismatch/%s/%s", mode, sig)
				if i := strings.Index(sig, "-valued-map-entry/"); i >= 0 {
					sig = sig[strings.LastIndex(sig[:i], "/")+1:] // one class for both paradigms
				}
				add(mk(sig,
					fmt.Sprintf("successor input is %s, the model says %s (%s)", render(o.Input), render(ex.model), what)))
			default:
				if ex.mayErr {
					st.outcomes["run:"+mode+":skipped-absent-source"]++
				} else {
					st.outcomes["run:"+mode+":ok"]++
				}
			}
		}
		if o.PredMod != "" {
			good = false
			add(mk("predecessor-output-modified/"+mode, o.PredMod))
		}
		if i == 0 {
			first, firstIn = desc, o.Input
		} else if desc != first || (desc == "ok" && !equalMod(firstIn, o.Input)) {
			varies = true
		}
		if varies && i >= 4 {
			break // n > 5 only serves to see a variation again in -replay
		}
		if good {
			st.validated++
		}
	}
	if varies {
		add(mk("nondeterministic-runs/"+mode, "the same compiled workflow gives different results for the same input when run repeatedly"))
	}
	return out
}

// streamRetyped: the three faces of one behaviour - in streaming execution the handler that performs the
// run-time type check turns the stream of map[string]any chunks into a stream of interface chunks, which the
// next consumer rejects: the input converter (panic out of Transform), the merge with a static value, the
// merge with a second predecessor.
var streamRetyped = map[string]bool{
	"interface-conversion-interface-is-nil-not-compose-streamReader": true,
	"mergeValues-stream-type-unsupported-chunk-type":                 true,
	"mergeStream-chunk-type-mismatch":                                true,
}

func runSig(kind string, p *Program, stream bool, cls string) string {
	if stream && streamRetyped[cls] {
		for i := range p.Items {
			if p.info(i).RtChecked {
				return "runtime-checked-mapping-breaks-streaming"
			}
		}
	}
	return kind + "/" + modeName(stream) + "/" + cls
}

// blame names the first mapping whose target does not hold the model's value.
func blame(p *Program, obs, model reflect.Value) (sig, what string) {
	sig, what, _ = blameItem(p, obs, model)
	return
}

// entryFailSig classifies a run that fails although every mapped value fits, by what the set does below
// map entries whose values are structs / struct pointers ("" if it does nothing there).
func entryFailSig(p *Program, ex *expectation, culprit int) string {
	groups := map[string]int{}
	first := ""
	for i, it := range p.Items {
		if culprit >= 0 && i != culprit {
			continue
		}
		kind, entry, below := mapEntryClass(rootTypes[p.Dst], it.To)
		if kind != "" && below == 0 && ex.nilItem[i] {
			return kind + "-valued-map-entry/nil-value-fails"
		}
		if kind == "" || below < 1 {
			continue
		}
		if first == "" {
			first = kind
		}
		groups[kind+"|"+pathStr(entry)]++
	}
	for _, k := range harness.SortedKeys(groups) {
		if groups[k] >= 2 {
			return k[:strings.Index(k, "|")] + "-valued-map-entry/second-field-fails"
		}
	}
	if first != "" {
		// what lies between the entry and the leaf, e.g. ptr-struct for MM.k.PM.Q.S
		for i, it := range p.Items {
			if culprit >= 0 && i != culprit {
				continue
			}
			if kind, entry, below := mapEntryClass(rootTypes[p.Dst], it.To); kind == first && below >= 1 {
				ks := strings.Split(p.info(i).ToChain, ">")
				mid := ks[len(entry)+1 : len(ks)-1]
				if len(mid) == 0 {
					return first + "-valued-map-entry/run-fails/field-of-entry"
				}
				return first + "-valued-map-entry/run-fails/via-" + strings.Join(mid, "-")
			}
		}
	}
	return ""
}

// entryMismatchSig classifies a wrong / missing value by the place of the blamed mapping.
func entryMismatchSig(p *Program, item int, lost bool) string {
	it := p.Items[item]
	if kind, _, below := mapEntryClass(rootTypes[p.Dst], it.To); kind != "" && below >= 1 {
		switch {
		case lost && below >= 2:
			return kind + "-valued-map-entry/nested-struct-value-lost"
		case lost:
			return kind + "-valued-map-entry/field-value-lost"
		}
		return kind + "-valued-map-entry/value-wrong"
	}
	if it.Src != slotStatic {
		if kind, _, below := mapEntryClass(rootTypes[p.Src[it.Src]], it.From); kind != "" && below >= 1 {
			if lost {
				return "from-" + kind + "-valued-map-entry/value-lost"
			}
			return "from-" + kind + "-valued-map-entry/value-wrong"
		}
	}
	return ""
}

func blameItem(p *Program, obs, model reflect.Value) (sig, what string, item int) {
	var o, m any
	if u := unwrap(obs); u.IsValid() {
		o = u.Interface()
	}
	if u := unwrap(model); u.IsValid() {
		m = u.Interface()
	}
	for i, it := range p.Items {
		ov, ook := peek(o, it.To)
		mv, mok := peek(m, it.To)
		if ook != mok || (ook && !equalMod(ov, mv)) {
			inf := p.info(i)
			last := func(c string) string { return c[strings.LastIndex(c, ">")+1:] }
			what = "mapping " + it.String() + ": target holds " + render(ov) + ", expected " + render(mv)
			lost := !ook || !unwrap(ov).IsValid() || unwrap(ov).IsZero()
			if s := entryMismatchSig(p, i, lost); s != "" {
				return s, what, i
			}
			return last(inf.FromChain) + "-to-" + last(inf.ToChain), what, i
		}
	}
	return "unmapped-part-not-zero/" + p.Dst, "all mapped targets hold the right values, something else is not zero", -1
}

// ---------------------------------------------------------------------------------------------------
// oracle (1): overlapping sets must be rejected in every order

func flatPos(decl []Call, item int) int {
	pos := 0
	for _, c := range decl {
		for _, i := range c.Items {
			if i == item {
				return pos
			}
			pos++
		}
	}
	return -1
}

func sameCall(decl []Call, a, b int) bool {
	for _, c := range decl {
		ha, hb := false, false
		for _, i := range c.Items {
			ha = ha || i == a
			hb = hb || i == b
		}
		if ha && hb {
			return true
		}
	}
	return false
}

// pairSignature classifies an accepted overlapping pair. everyOrder: the pair on its own is accepted in
// every declaration order; otherwise decl is an accepted order.
func pairSignature(p *Program, decl []Call, a, b int, everyOrder bool) string {
	ia, ib := p.Items[a], p.Items[b]
	plain := func(it Item) bool { return it.Src != slotStatic && it.From == nil && it.To == nil }
	if plain(ib) && !plain(ia) || (len(ia.To) > len(ib.To) && !plain(ia)) {
		a, b = b, a
		ia, ib = ib, ia
	}
	// ia is the shorter (or equal) path, or the AddInput without mappings
	sa, sb := ia.Src == slotStatic, ib.Src == slotStatic
	first := "shorter-first"
	if flatPos(decl, b) < flatPos(decl, a) {
		first = "longer-first"
	}
	if everyOrder {
		first = "every-order"
	}
	switch {
	case plain(ia):
		// AddInput(pred) without mappings = the whole output becomes the whole input
		switch first {
		case "shorter-first":
			first = "declared-first"
		case "longer-first":
			first = "declared-last"
		}
		other := "mapping"
		if sb {
			other = "static"
		}
		return "overlap-accepted/input-without-mappings+" + other + "/" + first
	case len(ia.To) == 0:
		if sb {
			return "overlap-accepted/whole-input-mapping+static"
		}
		return "overlap-accepted/whole-input-mapping+mapping/" + first
	case len(ia.To) == len(ib.To):
		rel := "same-path-len1"
		if len(ia.To) >= 2 {
			rel = "same-nested-path"
		}
		if sa || sb {
			return "overlap-accepted/" + rel + "/dynamic+static"
		}
		return "overlap-accepted/" + rel + "/dynamic+dynamic"
	}
	// strict non-empty prefix
	stem := "overlap-accepted/prefix"
	if len(ia.To) >= 2 {
		stem = "overlap-accepted/nested-prefix"
	}
	switch {
	case sa && sb:
		return "prefix-after-longer-path-accepted/static+static"
	case sa:
		return "prefix-after-longer-path-accepted/static-prefix"
	case sb:
		return stem + "/dynamic-prefix+static-longer"
	}
	if stem == "overlap-accepted/prefix" && first == "longer-first" {
		return "prefix-after-longer-path-accepted"
	}
	return stem + "/dynamic+dynamic/" + first
}

// subProgram restricts a program and a declaration order to two of its items.
func subProgram(p *Program, decl []Call, a, b int) (*Program, []Call) {
	q := &Program{Shape: p.Shape, Src: p.Src, Dst: p.Dst, Items: []Item{p.Items[a], p.Items[b]}}
	var d []Call
	for _, c := range decl {
		nc := Call{Static: c.Static, Slot: c.Slot}
		for _, i := range c.Items {
			if i == a {
				nc.Items = append(nc.Items, 0)
			} else if i == b {
				nc.Items = append(nc.Items, 1)
			}
		}
		if len(nc.Items) > 0 {
			d = append(d, nc)
		}
	}
	return q, d
}

// subProgramOf restricts a program and a declaration order to some of its items.
func subProgramOf(p *Program, decl []Call, keep []int) (*Program, []Call) {
	q := &Program{Shape: p.Shape, Src: p.Src, Dst: p.Dst}
	idx := map[int]int{}
	for n, i := range keep {
		idx[i] = n
		q.Items = append(q.Items, p.Items[i])
	}
	var d []Call
	for _, c := range decl {
		nc := Call{Static: c.Static, Slot: c.Slot}
		for _, i := range c.Items {
			if n, ok := idx[i]; ok {
				nc.Items = append(nc.Items, n)
			}
		}
		if len(nc.Items) > 0 {
			d = append(d, nc)
		}
	}
	return q, d
}

// culpritItem: when a set of several mappings fails on fitting values, which mapping fails on its own (a
// static value is tried together with the first dynamic mapping, which must pass alone)? -1: none does, the
// failure needs the combination.
func culpritItem(p *Program, decl []Call, vals []string, stream bool, st *stats) int {
	if len(p.Items) < 2 {
		return 0
	}
	fails := func(keep []int) bool {
		q, qd := subProgramOf(p, decl, keep)
		c, err, pv := compileDecl(q, qd, false, st)
		if err != nil || pv != "" {
			return false
		}
		o := c.run(stream, gensFor(q, vals), q.Src)
		st.runs++
		return o.Panic != "" || o.Err != nil
	}
	firstDyn := -1
	for i, it := range p.Items {
		if it.Src != slotStatic {
			firstDyn = i
			break
		}
	}
	for i, it := range p.Items {
		if it.Src != slotStatic {
			if fails([]int{i}) {
				return i
			}
			continue
		}
		if firstDyn >= 0 && !fails([]int{firstDyn}) {
			keep := []int{firstDyn, i}
			if i < firstDyn {
				keep = []int{i, firstDyn}
			}
			if fails(keep) {
				return i
			}
		}
	}
	return -1
}

// evalProgram is the whole judgement of one canonical program.
func evalProgram(p *Program, quick bool, st *stats) []finding {
	var out []finding
	pairs := p.overlapPairs()
	decls := allDecls(p)
	retry := len(pairs) > 0 && countStatics(p) >= 2
	type res struct {
		c   compiled
		err error
	}
	results := make([]res, len(decls))
	var accepted, rejected []int
	for di, d := range decls {
		c, err, pv := compileDecl(p, d, retry, st)
		if pv != "" {
			sig := "panic-in-declaration-or-compile/" + errClass(pv)
			out = append(out, finding{Sig: sig, Case: Case{Prog: p, Decl: d, Sig: sig},
				Msg: fmt.Sprintf("%s | order: %s | declaring or compiling PANICKED: %s", p, declString(p, d), normMsg(pv))})
			rejected = append(rejected, di)
			continue
		}
		results[di] = res{c, err}
		if err == nil {
			accepted = append(accepted, di)
		} else {
			rejected = append(rejected, di)
		}
	}
	orders := func(ix []int) string {
		var s []string
		for _, i := range ix {
			s = append(s, "["+declString(p, decls[i])+"]")
		}
		if len(s) == 0 {
			return "none"
		}
		return strings.Join(s, " ")
	}
	if len(pairs) > 0 {
		if len(accepted) == 0 {
			st.outcomes["overlap:rejected-in-every-order"]++
			return out
		}
		if len(rejected) == 0 {
			st.outcomes["overlap:ACCEPTED-in-every-order"]++
		} else {
			st.outcomes["overlap:ACCEPTED-in-some-orders"]++
		}
		d := decls[accepted[0]]
		// which pair is to blame: one that is accepted on its own in the induced order
		sig := ""
		var bp [2]int
		for _, pr := range pairs {
			q, qd := subProgram(p, d, pr[0], pr[1])
			twoStatics := q.Items[0].Src == slotStatic && q.Items[1].Src == slotStatic
			every := len(rejected) == 0
			ok := len(p.Items) == 2 || twoStatics // two static values cannot stand alone (no predecessor)
			if !ok {
				_, err, pv := compileDecl(q, qd, false, st)
				ok = err == nil && pv == ""
				if ok {
					every = true
					for _, od := range allDecls(q) {
						if _, err, pv := compileDecl(q, od, false, st); err != nil || pv != "" {
							every = false
						}
					}
				}
			}
			if ok {
				sig, bp = pairSignature(p, d, pr[0], pr[1], every), pr
				break
			}
		}
		if sig == "" {
			bp = pairs[0]
			sig = pairSignature(p, d, bp[0], bp[1], len(rejected) == 0) + "/only-with-a-third-mapping"
		}
		call := "separate calls"
		if sameCall(d, bp[0], bp[1]) {
			call = "one AddInput call"
		}
		msg := fmt.Sprintf("%s: targets %s and %s overlap (%s) but Compile ACCEPTED the set. accepted orders: %s; rejected orders: %s",
			p, p.Items[bp[0]], p.Items[bp[1]], call, orders(accepted), orders(rejected))
		if retry {
			msg += fmt.Sprintf(" (two static values: an order counts as accepted when one of at most %d compilations accepts it)", maxCompileTries)
		}
		out = append(out, finding{Sig: sig, Msg: msg, Case: Case{Prog: p, Decl: d, Sig: sig}})
		// run-time consequences, for the record only (they are attributed to the acceptance)
		consequences(p, results[accepted[0]].c, sig, st)
		return out
	}
	// no overlap: the statement does not say such a set must be accepted; whatever is accepted must run right
	if len(accepted) == 0 {
		st.outcomes["disjoint:rejected-in-every-order"]++
		return out
	}
	if len(rejected) > 0 {
		st.outcomes["disjoint:accepted-in-some-orders-only"]++
		st.counters["disjoint_set_acceptance_depends_on_order"]++
	} else {
		st.outcomes["disjoint:accepted"]++
	}
	combos := valCombos(p, quick)
	for k, di := range accepted {
		n := 5
		if k > 0 && len(p.Items) >= 3 {
			n = 2
		}
		for _, vals := range combos {
			for _, stream := range []bool{false, true} {
				out = append(out, checkRuns(p, decls[di], results[di].c, vals, stream, n, st)...)
			}
		}
	}
	return out
}

// consequences runs an accepted overlapping set and counts what happens (never reported as violations of
// their own: their deterministic cause is the acceptance).
func consequences(p *Program, c compiled, sig string, st *stats) {
	if c == nil {
		return
	}
	var vals []string
	for _, typ := range p.Src {
		vals = append(vals, valuesOf[typ][0].Name)
	}
	gens := gensFor(p, vals)
	for _, stream := range []bool{false, true} {
		seen := map[string]bool{}
		mod, pan, errs := false, false, false
		for i := 0; i < 5; i++ {
			o := c.run(stream, gens, p.Src)
			st.runs++
			switch {
			case o.Panic != "":
				pan = true
				seen["panic"] = true
			case o.Err != nil:
				errs = true
				seen["error"] = true
			default:
				seen[render(o.Input)] = true
			}
			if o.PredMod != "" {
				mod = true
			}
		}
		pre := "consequence[" + sig + "]:" + modeName(stream) + ":"
		if len(seen) > 1 {
			st.counters[pre+"results-vary-over-5-runs"]++
		}
		if mod {
			st.counters[pre+"predecessor-output-modified"]++
		}
		if pan {
			st.counters[pre+"panic-out-of-run"]++
		}
		if errs {
			st.counters[pre+"run-error"]++
		}
	}
}

// replayCase re-judges exactly the recorded case.
func replayCase(cs *Case, quick bool) error {
	st := newStats()
	p := cs.Prog
	var fs []finding
	switch {
	case cs.Decl == nil || strings.HasPrefix(cs.Sig, "overlap-accepted") || strings.HasPrefix(cs.Sig, "prefix-after-longer-path-accepted") || cs.Vals == nil:
		fs = evalProgram(p, quick, st)
	default:
		c, err, pv := compileDecl(p, cs.Decl, false, st)
		if pv != "" || err != nil {
			return nil // no longer accepted
		}
		n := 5
		if strings.HasPrefix(cs.Sig, "nondeterministic-runs") {
			n = 64
		}
		fs = checkRuns(p, cs.Decl, c, cs.Vals, cs.Stream, n, st)
	}
	for _, f := range fs {
		if cs.Sig == "" || f.Sig == cs.Sig {
			return fmt.Errorf("[%s] %s", f.Sig, f.Msg)
		}
	}
	return nil
}

func main() {
	debug.SetGCPercent(800) // many small short-lived graphs: collect less often
	runtime.GOMAXPROCS(1)   // runs are tiny and sequential; a second P only adds wake-ups (workers are processes)
	c := harness.Init("C15")
	c.Res.Rule = "a case is one canonical program = (shape, predecessor types, successor type, set of mappings {slot|static, from-path, to-path}); " +
		"all its declaration orders (every permutation of the AddInput/SetStaticValue calls and of the mappings inside each AddInput) are compiled, " +
		"every accepted order is run with every value combination 5x through Invoke and 5x through Transform (2x for the non-first orders of 3-mapping sets). " +
		"Non-trivial = at least 2 mappings or a path of length >= 2."
	c.Res.Assumptions = []string{
		"nil interface values are not passed between nodes (a separate, known behaviour); nil maps / nil pointers inside values are",
		"stream form of a map-typed predecessor output: one key per chunk (sorted); other types: one chunk; maps holding a nil value are not split (chunk concatenation of nil map values is property C14)",
		"the successor consumes its stream itself (collect) and merges the chunks structurally; no concat function is registered",
		"static values have the static type of their target leaf",
		"the model treats a struct value inside a map as a value: copy the entry (or zero), set below the copy, write it back; a pointer entry is allocated when absent or nil",
		"error texts, and whether a rejection happens in AddInput or in Compile, are not judged; rejected disjoint sets are not judged",
		"a source path that meets an absent map key or a nil statically-typed pointer, or a successor input that would be a nil interface: the statement is silent - an error, or a successor input without that mapping, are both accepted; a panic out of the API is reported under its own signature (.../statement-silent-input)",
		"when two or more mappings of one set cannot be moved (wrong dynamic values, absent keys), only 'the run does not succeed' is demanded: which of them the run meets first depends on map iteration; each cause is judged alone by the simpler programs",
		"a panic recovered by the framework inside a node and returned as an error counts as an error (counter runtime_check_error_is_recovered_panic); a panic that unwinds out of Invoke/Transform is the violation",
		"run-time consequences of an accepted overlapping set (results varying between runs, modified predecessor outputs, panics) are counted under consequence[<class>] and attributed to the acceptance, which is their deterministic cause",
	}
	c.Res.Explanation = "Universe: root types T{S string,N int,In Inner,P *Inner,M map[string]any,X any,PS *string}, *T, map[string]any, map[string]string, any for predecessors and successor; " +
		"paths by type walk (map keys k,j; below an interface: keys k,j on the target side, key k / field S on the source side) of length <=2 (quick) / <=3 (thorough), plus the whole value on either side; " +
		"size 1: every type-compatible (from,to) of every type pair, predecessor = START or a lambda, all values (quick additionally: every path of length 3 once as target with its first donor and once as source with its first sink); " +
		"size 2: every multiset of 2 targets x every assignment of the items to the predecessor slots (START | one lambda | START+lambda | two lambdas) or to a static value x <=2 donors per target (first statically typed, first run-time checked source path of a fitting type), predecessor types {T, map[string]any} (thorough: + *T, map[string]string); " +
		"size 3: the same with 1 donor, successor types {T, map[string]any}, predecessor configurations START(T) | START(T)+lambda(map[string]any) | lambda(T)+lambda(T) (thorough: + START(map[string]any)). Struct-valued-map family: root type SM{MI map[string]Inner, MP map[string]*Inner, MM map[string]Mid{In Inner, P *Inner}} with paths up to length 4 on both sides: every compatible single mapping between SM and every root type (predecessor START); every pair of SM targets (so two mappings below one map entry, and a field of a struct inside an entry) from START(T) | START(SM) | START(T)+lambda(map[string]any) | lambda(T)+lambda(T) or a static value; every triple of targets below one map entry from START(T); SM as predecessor of T and map[string]any successors; 4 SM values (absent keys, nil maps, nil pointer entries). Values: 7 T values, 8 *T, 8 map[string]any, 3 map[string]string, 6 any (absent keys, nil pointers/maps, wrong and typed-nil dynamic values behind any); sets use the first two per slot (quick) or vary one slot at a time (thorough). Oracle: (1) a set with two targets that are equal or prefix-related must be rejected by every declaration order; " +
		"(2) accepted disjoint sets: the successor input recorded inside the successor equals the reflect-based get/set model (mapped paths set, rest zero), over 5 runs, in both paradigms; " +
		"(3) predecessor outputs equal their deep copies after the run; (4) run-time checked mappings meeting a wrong dynamic value give an error, a panic out of Invoke/Transform is a violation."
	quick := c.Quick()
	if v := c.LoadReplay(); v != nil {
		b, _ := json.Marshal(v.Case)
		var cs Case
		if err := json.Unmarshal(b, &cs); err != nil || cs.Prog == nil {
			fmt.Println("bad case in replay file:", err)
			c.ReplayExit(v.Scenario, fmt.Errorf("unreadable case"))
		}
		var err error
		gerr := c.Guard(v.Scenario, cs, 120*time.Second, func() error { err = replayCase(&cs, quick); return err })
		if gerr != nil {
			err = gerr
		}
		c.ReplayExit(v.Scenario, err)
	}
	if pf := os.Getenv("C15_PROF"); pf != "" {
		f, _ := os.Create(pf)
		pprof.StartCPUProfile(f)
		defer pprof.StopCPUProfile()
		time.AfterFunc(40*time.Second, func() { pprof.StopCPUProfile(); f.Close(); os.Exit(0) })
	}
	st := newStats()
	perSig := map[string]int{}
	idx := 0
	if os.Getenv("C15_COUNT") != "" {
		n := map[string]int{}
		enumerate(quick, func(p *Program) bool {
			n[fmt.Sprintf("size%d %s ->%s", len(p.Items), p.Shape, p.Dst)]++
			n[fmt.Sprintf("size%d", len(p.Items))]++
			n["orders"] += len(allDecls(p))
			return true
		})
		for _, k := range harness.SortedKeys(n) {
			fmt.Println(k, n[k])
		}
		os.Exit(0)
	}
	enumerate(quick, func(p *Program) bool {
		idx++
		name := fmt.Sprintf("%07d %s", idx, p)
		if !c.Mine(name) {
			return true
		}
		if c.TimeUp() {
			return false
		}
		cs := Case{Prog: p}
		c.Journal(name, cs)
		var fs []finding
		before := st.validated
		runsBefore, compBefore := st.runs, st.compiles
		err := c.Guard(name, cs, 120*time.Second, func() error {
			defer func() {
				if r := recover(); r != nil {
					if os.Getenv("C15_DEBUG") != "" {
						fmt.Printf("HARNESS-LEVEL PANIC %v\n%s\n", r, debug.Stack())
					}
					panic(r)
				}
			}()
			fs = evalProgram(p, quick, st)
			return nil
		})
		if err != nil {
			fs = append(fs, finding{Sig: "panic-in-harness-or-unguarded-call", Msg: p.String() + ": " + normMsg(err.Error()), Case: cs})
		}
		fam := fmt.Sprintf("size%d", len(p.Items))
		if p.Dst == "SM" || p.Src[0] == "SM" || (len(p.Src) > 1 && p.Src[1] == "SM") {
			fam += "-struct-valued-map-family"
		}
		st.counters["programs:"+fam]++
		st.counters["runs:"+fam] += st.runs - runsBefore
		st.counters["compilations:"+fam] += st.compiles - compBefore
		c.StateStr(p.String())
		if p.nontrivial() {
			c.Res.Nontrivial++
		}
		if len(fs) == 0 {
			if st.validated > before {
				c.Sample(map[string]any{"program": p.String(), "orders": len(allDecls(p)), "runs_agreeing_with_model": st.validated - before})
			}
			return true
		}
		for _, f := range fs {
			perSig[f.Sig]++
			st.counters["violations["+f.Sig+"]"]++
			if perSig[f.Sig] > 1 {
				continue // keep the simplest case of every class per worker; the rest is counted
			}
			// not c.Violate: its cap of 20 would drop classes; one entry per class keeps this bounded
			c.Res.Violations = append(c.Res.Violations, harness.Violation{Property: "C15", Scenario: name, Signature: f.Sig, Case: f.Case, Msg: f.Msg})
		}
		return true
	})
	c.Res.Evaluations = st.compiles + st.runs
	c.Res.Transitions = st.apiCalls + st.runs
	c.Res.Validated = st.validated
	for k, v := range st.outcomes {
		c.Res.Outcomes[k] += v
	}
	for k, v := range st.counters {
		c.Count(k, v)
	}
	c.Count("compilations", st.compiles)
	c.Count("runs", st.runs)
	keys := make([]string, 0, len(perSig))
	for k := range perSig {
		keys = append(keys, k)
	}
	sort.Strings(keys)
	for _, k := range keys {
		c.Res.Notes = append(c.Res.Notes, fmt.Sprintf("class %s: %d cases in this worker", k, perSig[k]))
	}
	pprof.StopCPUProfile()
	c.Finish()
}
