package main

import (
	"fmt"
	"reflect"
	"sort"
	"strings"
)

// ---------------------------------------------------------------------------------------------------
// Programs: a successor node S of input type Dst fed by 1-2 predecessors through a set of mappings.

const slotStatic = 2

// Item is one mapping: from path From of predecessor slot Src to path To of the successor input.
// From == nil: the whole predecessor output; To == nil: the whole successor input; both nil: AddInput
// without mappings. Src == slotStatic: SetStaticValue(To, constant of the leaf type).
type Item struct {
	Src  int      `json:"src"`
	From []string `json:"from"`
	To   []string `json:"to"`
}

func (it Item) String() string {
	if it.Src == slotStatic {
		return "st>" + pathStr(it.To)
	}
	return fmt.Sprintf("p%d:%s>%s", it.Src, pathStr(it.From), pathStr(it.To))
}

// Program is a canonical (types, mapping set): the unit that is counted as a state.
// Shapes: S = START->S; L = START->L0->S; SL = START->S and START->L1->S; LL = START->L0->S, START->L1->S;
// SLi = SL with START's input declared as data only (AddInputWithOptions(START, mappings, WithNoDirectDependency()):
// the control path runs through L1), the same data flow declared through the other registration path.
type Program struct {
	Shape string   `json:"shape"`
	Src   []string `json:"src"` // root type of predecessor slot 0 (and 1)
	Dst   string   `json:"dst"`
	Items []Item   `json:"items"`

	infos []itemInfo // cache of info(i)
}

func (p *Program) String() string {
	var it []string
	for _, i := range p.Items {
		it = append(it, i.String())
	}
	return fmt.Sprintf("%s[%s->%s]{%s}", p.Shape, strings.Join(p.Src, ","), p.Dst, strings.Join(it, ";"))
}

// Call is one API call of a declaration order: AddInput(slot, items in this order) or SetStaticValue(item).
type Call struct {
	Static bool  `json:"static,omitempty"`
	Slot   int   `json:"slot"`
	Items  []int `json:"items"`
}

func declString(p *Program, d []Call) string {
	var s []string
	for _, c := range d {
		if c.Static {
			s = append(s, "Static("+pathStr(p.Items[c.Items[0]].To)+")")
			continue
		}
		var m []string
		for _, i := range c.Items {
			m = append(m, pathStr(p.Items[i].From)+">"+pathStr(p.Items[i].To))
		}
		s = append(s, fmt.Sprintf("AddInput(p%d: %s)", c.Slot, strings.Join(m, ", ")))
	}
	return strings.Join(s, " ; ")
}

func permutations(xs []int) [][]int {
	if len(xs) <= 1 {
		return [][]int{append([]int{}, xs...)}
	}
	var out [][]int
	for i := range xs {
		rest := append(append([]int{}, xs[:i]...), xs[i+1:]...)
		for _, p := range permutations(rest) {
			out = append(out, append([]int{xs[i]}, p...))
		}
	}
	return out
}

// allDecls enumerates every declaration order: every permutation of the call units (one AddInput per
// predecessor slot, one SetStaticValue per static item) times every order of the mappings inside each AddInput.
func allDecls(p *Program) [][]Call {
	bySlot := map[int][]int{}
	var units []Call
	for i, it := range p.Items {
		if it.Src == slotStatic {
			units = append(units, Call{Static: true, Slot: slotStatic, Items: []int{i}})
		} else {
			bySlot[it.Src] = append(bySlot[it.Src], i)
		}
	}
	var slots []int
	for s := range bySlot {
		slots = append(slots, s)
	}
	sort.Ints(slots)
	// inner orders per slot
	variants := [][]Call{nil}
	for _, s := range slots {
		var nv [][]Call
		for _, v := range variants {
			for _, perm := range permutations(bySlot[s]) {
				nv = append(nv, append(append([]Call{}, v...), Call{Slot: s, Items: perm}))
			}
		}
		variants = nv
	}
	var out [][]Call
	for _, v := range variants {
		all := append(append([]Call{}, v...), units...)
		idx := make([]int, len(all))
		for i := range idx {
			idx[i] = i
		}
		for _, perm := range permutations(idx) {
			d := make([]Call, len(perm))
			for i, j := range perm {
				d[i] = all[j]
			}
			out = append(out, d)
		}
	}
	return out
}

// ---------------------------------------------------------------------------------------------------
// static facts about items

type itemInfo struct {
	FromLeaf  reflect.Type
	FromVia   bool
	FromChain string
	ToLeaf    reflect.Type
	ToChain   string
	RtChecked bool // the source type is only known at run time (interface leaf or interface on the way)
}

func walkType(root reflect.Type, path []string, side int) (pathInfo, bool) {
	k := wtKey{root, pathStr(path), side}
	if pi, ok := wtCache[k]; ok {
		return pi, true
	}
	for _, pi := range enumPathsCached(root, len(path), side) {
		if len(pi.Path) == len(path) && pathStr(pi.Path) == k.p {
			wtCache[k] = pi
			return pi, true
		}
	}
	return pathInfo{}, false
}

type wtKey struct {
	t reflect.Type
	p string
	s int
}

var wtCache = map[wtKey]pathInfo{}

type epKey struct {
	t    reflect.Type
	l, s int
}

var epCache = map[epKey][]pathInfo{}

func enumPathsCached(root reflect.Type, maxLen, side int) []pathInfo {
	k := epKey{root, maxLen, side}
	if v, ok := epCache[k]; ok {
		return v
	}
	v := enumPaths(root, maxLen, side)
	epCache[k] = v
	return v
}

func (p *Program) info(i int) itemInfo {
	if p.infos == nil {
		p.infos = make([]itemInfo, len(p.Items))
		for j := range p.Items {
			p.infos[j] = p.computeInfo(j)
		}
	}
	return p.infos[i]
}

func (p *Program) computeInfo(i int) itemInfo {
	it := p.Items[i]
	var inf itemInfo
	tp, ok := walkType(rootTypes[p.Dst], it.To, sideTarget)
	if !ok {
		panic("bad target path in " + p.String())
	}
	inf.ToLeaf, inf.ToChain = tp.Leaf, tp.Chain
	if it.Src == slotStatic {
		inf.FromChain = "static"
		return inf
	}
	fp, ok := walkType(rootTypes[p.Src[it.Src]], it.From, sideSource)
	if !ok {
		panic("bad source path in " + p.String())
	}
	inf.FromLeaf, inf.FromVia, inf.FromChain = fp.Leaf, fp.ViaAny, fp.Chain
	inf.RtChecked = fp.ViaAny || fp.Leaf.Kind() == reflect.Interface
	return inf
}

func compat(from pathInfo, g reflect.Type) bool {
	if from.Leaf.Kind() == reflect.Interface {
		return true
	}
	return from.Leaf.AssignableTo(g)
}

// overlapping: two targets overlap iff equal or one a prefix of the other (the whole input is a prefix
// of every path).
func (p *Program) overlapPairs() [][2]int {
	var out [][2]int
	for i := range p.Items {
		for j := i + 1; j < len(p.Items); j++ {
			if pathsOverlap(p.Items[i].To, p.Items[j].To) {
				out = append(out, [2]int{i, j})
			}
		}
	}
	return out
}

// nontrivial: >= 2 mappings or a nested path
func (p *Program) nontrivial() bool {
	if len(p.Items) >= 2 {
		return true
	}
	return len(p.Items[0].From) >= 2 || len(p.Items[0].To) >= 2
}

// ---------------------------------------------------------------------------------------------------
// enumeration

type bounds struct {
	MaxLen      int
	ExtraLen    int      // single mappings additionally walk every path of this length (one donor / one sink each)
	SetSrc      []string // predecessor root types used for sets of size >= 2
	Set3Dst     []string // successor types for sets of size 3
	Set3Cfg     [][]string
	Donors2     int // donors per target in sets of size 2
	Donors3     int
	DonorsEntry int // donors per target in the struct-valued-map family
	SingleShape []string
}

func boundsFor(quick bool) bounds {
	if quick {
		return bounds{
			MaxLen:      2,
			ExtraLen:    3,
			SetSrc:      []string{"T", "MSA"},
			Set3Dst:     []string{"T", "MSA"},
			Set3Cfg:     [][]string{{"S", "T"}, {"SL", "T", "MSA"}, {"SLi", "T", "MSA"}, {"LL", "T", "T"}},
			Donors2:     2,
			Donors3:     1,
			DonorsEntry: 1,
			SingleShape: []string{"S", "L"},
		}
	}
	return bounds{
		MaxLen:      3,
		SetSrc:      []string{"T", "PT", "MSA", "MSS"},
		Set3Dst:     []string{"T", "MSA"},
		Set3Cfg:     [][]string{{"S", "T"}, {"S", "MSA"}, {"SL", "T", "MSA"}, {"SLi", "T", "MSA"}, {"LL", "T", "T"}},
		Donors2:     2,
		Donors3:     1,
		DonorsEntry: 2,
		SingleShape: []string{"S", "L"},
	}
}

// donors lists source paths of src whose values may be stored in a target leaf of type g: statically
// typed ones first, then the run-time checked ones; shortest first.
func donors(src string, g reflect.Type, maxLen int) []pathInfo {
	var typed, dyn []pathInfo
	for _, f := range enumPathsCached(rootTypes[src], maxLen, sideSource) {
		if !compat(f, g) {
			continue
		}
		if f.ViaAny || f.Leaf.Kind() == reflect.Interface {
			dyn = append(dyn, f)
		} else {
			typed = append(typed, f)
		}
	}
	return append(typed, dyn...)
}

func setConfigs(b bounds) [][]string {
	var out [][]string
	for _, a := range b.SetSrc {
		out = append(out, []string{"S", a})
	}
	for _, a := range b.SetSrc {
		out = append(out, []string{"L", a})
	}
	for _, a := range b.SetSrc {
		for _, c := range b.SetSrc {
			out = append(out, []string{"SL", a, c})
		}
	}
	for _, c := range b.SetSrc {
		out = append(out, []string{"SLi", b.SetSrc[0], c})
	}
	for i, a := range b.SetSrc {
		for _, c := range b.SetSrc[i:] {
			out = append(out, []string{"LL", a, c})
		}
	}
	return out
}

func enumerate(quick bool, yield func(p *Program) bool) {
	b := boundsFor(quick)
	// size 1: every compatible (from, to) pair of every type pair
	for _, shape := range b.SingleShape {
		for _, src := range allRoots {
			for _, dst := range allRoots {
				if (src == "SM" || dst == "SM") && shape != "S" {
					continue // the struct-valued-map family: predecessor START only
				}
				for _, to := range enumPathsCached(rootTypes[dst], lenFor(dst, b.MaxLen), sideTarget) {
					for _, from := range enumPathsCached(rootTypes[src], lenFor(src, b.MaxLen), sideSource) {
						if !compat(from, to.Leaf) {
							continue
						}
						p := &Program{Shape: shape, Src: []string{src}, Dst: dst, Items: []Item{{Src: 0, From: from.Path, To: to.Path}}}
						if !yield(p) {
							return
						}
					}
				}
			}
		}
	}
	// quick: additionally every path of length MaxLen+1, once as a target (first donor) and once as a source (first sink)
	if b.ExtraLen > b.MaxLen {
		for _, src := range allRoots {
			for _, dst := range allRoots {
				for _, to := range enumPathsCached(rootTypes[dst], b.ExtraLen, sideTarget) {
					if len(to.Path) <= lenFor(dst, b.MaxLen) {
						continue
					}
					if ds := donors(src, to.Leaf, lenFor(src, b.MaxLen)); len(ds) > 0 {
						p := &Program{Shape: "S", Src: []string{src}, Dst: dst, Items: []Item{{Src: 0, From: ds[0].Path, To: to.Path}}}
						if !yield(p) {
							return
						}
					}
				}
				for _, from := range enumPathsCached(rootTypes[src], b.ExtraLen, sideSource) {
					if len(from.Path) <= lenFor(src, b.MaxLen) {
						continue
					}
					for _, to := range enumPathsCached(rootTypes[dst], lenFor(dst, b.MaxLen), sideTarget) {
						if len(to.Path) > 0 && compat(from, to.Leaf) {
							p := &Program{Shape: "S", Src: []string{src}, Dst: dst, Items: []Item{{Src: 0, From: from.Path, To: to.Path}}}
							if !yield(p) {
								return
							}
							break
						}
					}
				}
			}
		}
	}
	for size := 2; size <= 3; size++ {
		cfgs := setConfigs(b)
		dsts := rootNames
		nd := b.Donors2
		if size == 3 {
			cfgs, dsts, nd = b.Set3Cfg, b.Set3Dst, b.Donors3
		}
		for _, dst := range dsts {
			targets := enumPathsCached(rootTypes[dst], b.MaxLen, sideTarget)
			for _, cfg := range cfgs {
				shape, srcs := cfg[0], cfg[1:]
				if !enumSets(shape, srcs, dst, targets, size, nd, b.MaxLen, nil, yield) {
					return
				}
			}
		}
		if !enumEntrySets(b, size, yield) {
			return
		}
	}
}

// enumEntrySets: the struct-valued-map family. Successor SM with every target path up to length 4 (so two
// mappings below one map entry, and a field of a struct inside an entry, are there), and SM as predecessor.
func enumEntrySets(b bounds, size int, yield func(p *Program) bool) bool {
	targets := enumPathsCached(rootTypes["SM"], smLen, sideTarget)
	if size == 2 {
		for _, cfg := range [][]string{{"S", "T"}, {"S", "SM"}, {"SL", "T", "MSA"}, {"LL", "T", "T"}} {
			if !enumSets(cfg[0], cfg[1:], "SM", targets, 2, b.DonorsEntry, b.MaxLen, nil, yield) {
				return false
			}
		}
		// reading from struct-valued map entries
		for _, dst := range []string{"T", "MSA"} {
			for _, cfg := range [][]string{{"S", "SM"}, {"SL", "SM", "T"}} {
				if !enumSets(cfg[0], cfg[1:], dst, enumPathsCached(rootTypes[dst], b.MaxLen, sideTarget), 2, b.Donors2, b.MaxLen, nil, yield) {
					return false
				}
			}
		}
		return true
	}
	// three mappings below one map entry
	sameEntry := func(ts []pathInfo) bool {
		for _, t := range ts {
			if len(t.Path) < 3 || t.Path[0] != ts[0].Path[0] || t.Path[1] != ts[0].Path[1] {
				return false
			}
		}
		return true
	}
	return enumSets("S", []string{"T"}, "SM", targets, 3, 1, b.MaxLen, sameEntry, yield)
}

// enumSets: every multiset of `size` targets, every assignment of the items to the predecessor slots or
// to a static value (at least one dynamic item), up to nd donors per dynamic item.
func enumSets(shape string, srcs []string, dst string, targets []pathInfo, size, nd, maxLen int, keep func([]pathInfo) bool, yield func(p *Program) bool) bool {
	nslots := len(srcs)
	symmetric := shape == "LL" && srcs[0] == srcs[1]
	idx := make([]int, size)
	var recT func(pos, start int) bool
	recT = func(pos, start int) bool {
		if pos < size {
			for t := start; t < len(targets); t++ {
				idx[pos] = t
				if !recT(pos+1, t) {
					return false
				}
			}
			return true
		}
		if keep != nil {
			ts := make([]pathInfo, size)
			for i, t := range idx {
				ts[i] = targets[t]
			}
			if !keep(ts) {
				return true
			}
		}
		// slot assignment
		slots := make([]int, size)
		var recS func(pos int) bool
		recS = func(pos int) bool {
			if pos < size {
				for s := 0; s <= nslots; s++ {
					sl := s
					if s == nslots {
						sl = slotStatic
					}
					// canonical order among equal targets; no two statics on one path
					if pos > 0 && idx[pos] == idx[pos-1] {
						if sl < slots[pos-1] || (sl == slotStatic && slots[pos-1] == slotStatic) {
							continue
						}
					}
					if sl == slotStatic && (len(targets[idx[pos]].Path) == 0 || staticValueFor(targets[idx[pos]].Leaf) == nil) {
						continue
					}
					slots[pos] = sl
					if !recS(pos + 1) {
						return false
					}
				}
				return true
			}
			dyn := 0
			first := -1
			for _, s := range slots {
				if s != slotStatic {
					dyn++
					if first < 0 {
						first = s
					}
				}
			}
			if dyn == 0 || (symmetric && first != 0) {
				return true
			}
			// a two-predecessor shape with an unused predecessor is the one-predecessor program again
			if nslots == 2 {
				u0, u1 := false, false
				for _, s := range slots {
					u0 = u0 || s == 0
					u1 = u1 || s == 1
				}
				if !u0 || !u1 {
					return true
				}
			}
			// donors
			items := make([]Item, size)
			var recD func(pos int) bool
			recD = func(pos int) bool {
				if pos == size {
					p := &Program{Shape: shape, Src: append([]string{}, srcs...), Dst: dst, Items: append([]Item{}, items...)}
					// a mapping with neither path is AddInput without mappings: only as the sole item of its slot
					for i, it := range p.Items {
						if it.Src != slotStatic && it.From == nil && it.To == nil {
							for j, o := range p.Items {
								if j != i && o.Src == it.Src {
									return true
								}
							}
						}
					}
					// identical items twice in one set are one mapping listed twice: keep (it is an overlap) but
					// only in canonical form
					return yield(p)
				}
				t := targets[idx[pos]]
				if slots[pos] == slotStatic {
					items[pos] = Item{Src: slotStatic, To: t.Path}
					return recD(pos + 1)
				}
				ds := donors(srcs[slots[pos]], t.Leaf, lenFor(srcs[slots[pos]], maxLen))
				n := 0
				for _, d := range ds {
					if n >= nd {
						break
					}
					// among equal (target, slot) pairs keep donors in canonical order
					items[pos] = Item{Src: slots[pos], From: d.Path, To: t.Path}
					if pos > 0 && idx[pos] == idx[pos-1] && slots[pos] == slots[pos-1] && pathStr(items[pos-1].From) > pathStr(d.Path) {
						continue
					}
					n++
					if !recD(pos + 1) {
						return false
					}
				}
				return true
			}
			return recD(0)
		}
		return recS(0)
	}
	return recT(0, 0)
}

// valCombos: which predecessor values a program is run with. Single mappings: every value of the
// predecessor type. Sets, quick: the first two values of every used slot (product). Sets, thorough: every
// value of one used slot at a time, the other slot at its first value.
func valCombos(p *Program, quick bool) [][]string {
	used := map[int]bool{}
	for _, it := range p.Items {
		if it.Src != slotStatic {
			used[it.Src] = true
		}
	}
	first := make([]string, len(p.Src))
	for s, typ := range p.Src {
		first[s] = valuesOf[typ][0].Name
	}
	if len(p.Items) > 1 && !quick {
		out := [][]string{append([]string{}, first...)}
		for s, typ := range p.Src {
			if !used[s] {
				continue
			}
			for _, v := range valuesOf[typ][1:] {
				c := append([]string{}, first...)
				c[s] = v.Name
				out = append(out, c)
			}
		}
		return out
	}
	per := make([][]string, len(p.Src))
	for s, typ := range p.Src {
		all := valuesOf[typ]
		switch {
		case !used[s]:
			per[s] = []string{all[0].Name}
		case len(p.Items) == 1:
			for _, v := range all {
				per[s] = append(per[s], v.Name)
			}
		default:
			per[s] = []string{all[0].Name, all[1].Name}
		}
	}
	out := [][]string{nil}
	for s := range per {
		var n [][]string
		for _, o := range out {
			for _, v := range per[s] {
				n = append(n, append(append([]string{}, o...), v))
			}
		}
		out = n
	}
	return out
}
