// C11 — graph state is per run and accessed under mutual exclusion (Engine S).
package main

import (
	"context"
	"fmt"
	"sort"
	"strings"

	"github.com/cloudwego/eino/compose"
	"github.com/cloudwego/eino/schema"
	"github.com/cloudwego/eino/vsched"

	"verif/lib/gprog"
	"verif/lib/harness"
)

// St is the graph state: a counter updated by read-yield-write sections and an ordered log.
type St struct {
	ID      int
	Counter int
	Log     []string
}

func init() { _ = compose.RegisterSerializableType[St]("verif_c11_state") }

type Val = map[string]any

type world struct {
	nextID   int
	states   []*St          // every state object generated, in generation order
	seenBy   map[string]int // unit (run/level/node) -> state id it observed
	idErr    string
	inCS     int // critical sections currently open (must never exceed 1 per state)
	csErr    string
	expected map[int]int // state id -> number of increments performed on it
	multiRun bool        // several runs share node names: the one-state-per-unit check does not apply
	live     []*St       // every state object a critical section was entered on (a restored state is not a generated one)
}

// The world's own bookkeeping is shared by harness code running on different goroutines: vsched.HLock is a
// no-op under the scheduler (a body is atomic between scheduling points) and a mutex in the race pass.
// The STATE object is different: eino hands it to handlers / ProcessState under its own lock, so the harness
// touches it WITHOUT any lock of its own, and only through the einoGuarded* methods below: the race pass
// attributes an unsynchronised access inside them to the eino function that called into the harness
// (lib/harness/race.go, guardedMarker).

func (w *world) gen(tag string) func(ctx context.Context) *St {
	return func(ctx context.Context) *St {
		vsched.HLock()
		w.nextID++
		s := &St{ID: w.nextID}
		w.states = append(w.states, s)
		vsched.HUnlock()
		return s
	}
}

//go:noinline
func (s *St) einoGuardedEnter(who string) int {
	s.Log = append(s.Log, "enter:"+who)
	return s.Counter
}

//go:noinline
func (s *St) einoGuardedWrite(c int) { s.Counter = c }

//go:noinline
func (s *St) einoGuardedAdd(n int) { s.Counter += n }

//go:noinline
func (s *St) einoGuardedExit(who string) { s.Log = append(s.Log, "exit:"+who) }

//go:noinline
func (s *St) einoGuardedSnapshot() (int, []string) { return s.Counter, append([]string{}, s.Log...) }

// section is a critical section body: enter marker, read, yield, write, exit marker.
func (w *world) section(who string, s *St, yield bool) {
	vsched.HLock()
	if prev, ok := w.seenBy[who]; ok && prev != s.ID && !w.multiRun {
		w.idErr = fmt.Sprintf("%s saw state #%d and later state #%d", who, prev, s.ID)
	}
	w.seenBy[who] = s.ID
	known := false
	for _, l := range w.live {
		if l == s {
			known = true
		}
	}
	if !known {
		w.live = append(w.live, s)
	}
	vsched.HUnlock()
	c := s.einoGuardedEnter(who)
	if yield {
		vsched.Yield()
	}
	s.einoGuardedWrite(c + 1)
	vsched.HLock()
	w.expected[s.ID]++
	vsched.HUnlock()
	s.einoGuardedExit(who)
}

type spec struct {
	name    string
	mode    string // pregel | dag | workflow
	shape   string // fan2 | fan3 | chainfan (a -> {b,c}) | nested | tworuns | resume
	pre     bool   // state pre-handlers on the parallel nodes
	post    bool   // state post-handlers on the parallel nodes
	process bool   // ProcessState inside node bodies
	yield   bool
	call    string
	// lazy: the handlers are STREAM state handlers that return a lazily converted stream whose convert function
	// calls ProcessState with the handler's context: that access happens after the handler returned, while the
	// stream is consumed, next to the other users of the state
	lazy bool
}

func withKey(v Val, k string) Val {
	n := Val{}
	for x, y := range v {
		n[x] = y
	}
	n[k] = "1"
	return n
}

func (sp *spec) lazyConv(w *world, ctx context.Context, who, mark string, in *schema.StreamReader[Val]) *schema.StreamReader[Val] {
	return schema.StreamReaderWithConvert(in, func(v Val) (Val, error) {
		err := compose.ProcessState(ctx, func(_ context.Context, s *St) error {
			w.section(who, s, sp.yield)
			return nil
		})
		return withKey(v, mark), err
	})
}

func (sp *spec) nodeOpts(w *world, scope, key string) []compose.GraphAddNodeOpt {
	var o []compose.GraphAddNodeOpt
	if sp.lazy {
		if sp.pre {
			o = append(o, compose.WithStreamStatePreHandler(func(ctx context.Context, in *schema.StreamReader[Val], s *St) (*schema.StreamReader[Val], error) {
				w.section(scope+"pre:"+key, s, sp.yield)
				return sp.lazyConv(w, ctx, scope+"conv-pre:"+key, "pre-"+key, in), nil
			}))
		}
		if sp.post {
			o = append(o, compose.WithStreamStatePostHandler(func(ctx context.Context, out *schema.StreamReader[Val], s *St) (*schema.StreamReader[Val], error) {
				w.section(scope+"post:"+key, s, sp.yield)
				return sp.lazyConv(w, ctx, scope+"conv-post:"+key, "post-"+key, out), nil
			}))
		}
		return o
	}
	if sp.pre {
		o = append(o, compose.WithStatePreHandler(func(ctx context.Context, in Val, s *St) (Val, error) {
			w.section(scope+"pre:"+key, s, sp.yield)
			out := Val{}
			for k, v := range in {
				out[k] = v
			}
			out["pre-"+key] = "1" // the value the handler returns is what the node receives
			return out, nil
		}))
	}
	if sp.post {
		o = append(o, compose.WithStatePostHandler(func(ctx context.Context, out Val, s *St) (Val, error) {
			w.section(scope+"post:"+key, s, sp.yield)
			n := Val{}
			for k, v := range out {
				n[k] = v
			}
			n["post-"+key] = "1" // ... and what its successors receive
			return n, nil
		}))
	}
	return o
}

func (sp *spec) lambda(w *world, scope, key string, seen map[string]string) *compose.Lambda {
	return compose.InvokableLambda(func(ctx context.Context, in Val) (Val, error) {
		vsched.HLock() // seen is shared by the node bodies
		seen[scope+key] = gprog.Canon(in)
		vsched.HUnlock()
		if sp.process {
			err := compose.ProcessState(ctx, func(ctx context.Context, s *St) error {
				if sp.shape == "fan2panic" && key == "a" {
					// the callback panics while it holds the state: the lock must be released all the same (the node
					// fails; its sibling must not be left waiting for the state forever)
					if sp.yield {
						vsched.Yield()
					}
					panic("process-state-callback-panics")
				}
				w.section(scope+"body:"+key, s, sp.yield)
				return nil
			})
			if err != nil {
				return nil, err
			}
		} else if sp.yield {
			vsched.Yield()
		}
		return Val{key: scope + key}, nil
	})
}

// buildFlat builds a fan graph with parallel nodes keys in the given mode.
func (sp *spec) buildFlat(w *world, scope string, keys []string, seen map[string]string, stateful bool, extra ...compose.GraphCompileOption) (compose.Runnable[Val, Val], compose.AnyGraph, error) {
	var gopts []compose.NewGraphOption
	if stateful {
		gopts = append(gopts, compose.WithGenLocalState(w.gen(scope)))
	}
	ctx := context.Background()
	if sp.mode == "workflow" {
		wf := compose.NewWorkflow[Val, Val](gopts...)
		for _, k := range keys {
			wf.AddLambdaNode(k, sp.lambda(w, scope, k, seen), sp.nodeOpts(w, scope, k)...).AddInput(compose.START)
			wf.End().AddInput(k, compose.ToField(k))
		}
		r, err := wf.Compile(ctx, extra...)
		return r, wf, err
	}
	g := compose.NewGraph[Val, Val](gopts...)
	for _, k := range keys {
		if err := g.AddLambdaNode(k, sp.lambda(w, scope, k, seen), sp.nodeOpts(w, scope, k)...); err != nil {
			return nil, nil, err
		}
		g.AddEdge(compose.START, k)
		g.AddEdge(k, compose.END)
	}
	opts := extra
	if sp.mode == "dag" {
		opts = append(opts, compose.WithNodeTriggerMode(compose.AllPredecessor))
	}
	r, err := g.Compile(ctx, opts...)
	return r, g, err
}

func run(r compose.Runnable[Val, Val], call string, in Val, opts ...compose.Option) (Val, error) {
	ctx := context.Background()
	if call == "stream" {
		sr, err := r.Stream(ctx, in, opts...)
		if err != nil {
			return nil, err
		}
		v, err, _ := gprog.Drain(sr)
		return v, err
	}
	return r.Invoke(ctx, in, opts...)
}

type memStore struct{ m map[string][]byte }

func (s *memStore) Get(ctx context.Context, id string) ([]byte, bool, error) {
	b, ok := s.m[id]
	return b, ok, nil
}
func (s *memStore) Set(ctx context.Context, id string, b []byte) error {
	s.m[id] = append([]byte{}, b...)
	return nil
}

func (sp *spec) build() (func(), func(x *vsched.Exec) (string, error)) {
	w := &world{seenBy: map[string]int{}, expected: map[int]int{}, multiRun: sp.shape == "tworuns"}
	seen := map[string]string{}
	var results []Val
	var errs []error
	var resumeNote string
	main := func() {
		switch sp.shape {
		case "fan2", "fan3", "fan2lazy", "fan2panic":
			keys := []string{"a", "b"}
			if sp.shape == "fan3" {
				keys = append(keys, "c")
			}
			r, _, err := sp.buildFlat(w, "", keys, seen, true)
			if err != nil {
				errs = append(errs, err)
				return
			}
			v, err := run(r, sp.call, Val{"in": "x"})
			results, errs = append(results, v), append(errs, err)
		case "nested":
			// a stateful sub-graph next to a node of the stateful parent: distinct state objects
			inner := *sp
			inner.mode = "pregel"
			_, sub, err := inner.buildFlat(w, "sub/", []string{"x", "y"}, seen, true)
			if err != nil {
				errs = append(errs, err)
				return
			}
			g := compose.NewGraph[Val, Val](compose.WithGenLocalState(w.gen("")))
			g.AddLambdaNode("a", sp.lambda(w, "", "a", seen), sp.nodeOpts(w, "", "a")...)
			g.AddGraphNode("s", sub)
			for _, k := range []string{"a", "s"} {
				g.AddEdge(compose.START, k)
				g.AddEdge(k, compose.END)
			}
			var opts []compose.GraphCompileOption
			if sp.mode == "dag" {
				opts = append(opts, compose.WithNodeTriggerMode(compose.AllPredecessor))
			}
			r, err := g.Compile(context.Background(), opts...)
			if err != nil {
				errs = append(errs, err)
				return
			}
			v, err := run(r, sp.call, Val{"in": "x"})
			results, errs = append(results, v), append(errs, err)
		case "tworuns":
			// two concurrent runs of one compiled graph: each gets its own state
			r, _, err := sp.buildFlat(w, "", []string{"a", "b"}, seen, true)
			if err != nil {
				errs = append(errs, err)
				return
			}
			results = make([]Val, 2)
			errs = make([]error, 2)
			done := 0
			for i := 0; i < 2; i++ {
				i := i
				vsched.GoNamed(fmt.Sprintf("caller%d", i), func() {
					results[i], errs[i] = run(r, sp.call, Val{"in": fmt.Sprint("x", i)})
					vsched.HLock()
					done++
					vsched.HUnlock()
				})
			}
		case "wfresume":
			// eager Workflow resumed from a checkpoint with TWO restored tasks (a, b: both interrupt-before); c follows b
			// while a may still be running: the restored tasks and everything scheduled later share one state AND one lock
			store := &memStore{m: map[string][]byte{}}
			wf := compose.NewWorkflow[Val, Val](compose.WithGenLocalState(w.gen("")))
			wf.AddLambdaNode("a", sp.lambda(w, "", "a", seen), sp.nodeOpts(w, "", "a")...).AddInput(compose.START)
			wf.AddLambdaNode("b", sp.lambda(w, "", "b", seen), sp.nodeOpts(w, "", "b")...).AddInput(compose.START)
			wf.AddLambdaNode("c", sp.lambda(w, "", "c", seen), sp.nodeOpts(w, "", "c")...).AddInput("b")
			wf.End().AddInput("a", compose.ToField("a")).AddInput("c", compose.ToField("c"))
			r, err := wf.Compile(context.Background(), compose.WithCheckPointStore(store), compose.WithInterruptBeforeNodes([]string{"a", "b"}))
			if err != nil {
				errs = append(errs, err)
				return
			}
			_, err = run(r, sp.call, Val{"in": "x"}, compose.WithCheckPointID("cp"))
			if _, isInt := compose.ExtractInterruptInfo(err); !isInt {
				errs = append(errs, fmt.Errorf("expected an interrupt before a and b, got %v", err))
				return
			}
			v, err := run(r, sp.call, Val{"in": "ignored"}, compose.WithCheckPointID("cp"))
			results, errs = append(results, v), append(errs, err)
		case "subresume-before", "subresume-rerun":
			// a stateful sub-graph node s WITH state handlers of the parent on it, interrupted INSIDE (before its inner node
			// y, or by y asking for its own re-run), then resumed: the parent's handlers on s belong to ONE execution of s;
			// the parent state at the end holds each of them once (node b reports the parent state)
			store := &memStore{m: map[string][]byte{}}
			sub := compose.NewGraph[Val, Val](compose.WithGenLocalState(w.gen("sub/")))
			sub.AddLambdaNode("x", sp.lambda(w, "sub/", "x", seen), sp.nodeOpts(w, "sub/", "x")...)
			attempts := 0
			sub.AddLambdaNode("y", compose.InvokableLambda(func(ctx context.Context, in Val) (Val, error) {
				attempts++
				if sp.shape == "subresume-rerun" && attempts == 1 {
					return nil, compose.InterruptAndRerun
				}
				// after the resume: the nested graph's OWN state (restored from its checkpoint), not the parent's
				if err := compose.ProcessState(ctx, func(ctx context.Context, s *St) error {
					w.section("sub/body:y", s, sp.yield)
					return nil
				}); err != nil {
					return nil, err
				}
				return Val{"y": "sub/y"}, nil
			}))
			sub.AddEdge(compose.START, "x")
			sub.AddEdge("x", "y")
			sub.AddEdge("y", compose.END)
			g := compose.NewGraph[Val, Val](compose.WithGenLocalState(w.gen("")))
			g.AddLambdaNode("a", sp.lambda(w, "", "a", seen), sp.nodeOpts(w, "", "a")...)
			var subOpts []compose.GraphCompileOption
			if sp.shape == "subresume-before" {
				subOpts = append(subOpts, compose.WithInterruptBeforeNodes([]string{"y"}))
			}
			g.AddGraphNode("s", sub, append(sp.nodeOpts(w, "", "s"), compose.WithGraphCompileOptions(subOpts...))...)
			g.AddLambdaNode("b", compose.InvokableLambda(func(ctx context.Context, in Val) (Val, error) {
				var c int
				var log []string
				err := compose.ProcessState(ctx, func(ctx context.Context, s *St) error {
					c, log = s.einoGuardedSnapshot()
					return nil
				})
				return Val{"b": fmt.Sprintf("counter=%d log=%v", c, log)}, err
			}))
			g.AddEdge(compose.START, "a")
			g.AddEdge("a", "s")
			g.AddEdge("s", "b")
			g.AddEdge("b", compose.END)
			opts := []compose.GraphCompileOption{compose.WithCheckPointStore(store)}
			if sp.mode == "dag" {
				opts = append(opts, compose.WithNodeTriggerMode(compose.AllPredecessor))
			}
			r, err := g.Compile(context.Background(), opts...)
			if err != nil {
				errs = append(errs, err)
				return
			}
			_, err = run(r, sp.call, Val{"in": "x"}, compose.WithCheckPointID("cp"))
			if _, isInt := compose.ExtractInterruptInfo(err); !isInt {
				errs = append(errs, fmt.Errorf("expected an interrupt inside the sub-graph node s, got %v", err))
				return
			}
			v, err := run(r, sp.call, Val{"in": "ignored"}, compose.WithCheckPointID("cp"))
			results, errs = append(results, v), append(errs, err)
		case "deepmodify0", "deepmodify1", "deepmodify2", "deepmodify3", "deepmodify4":
			// "every nesting of stateful graphs": two stateful sibling sub-graphs s1, s2 below k stateless wrapper graphs
			// (node path of length k+1), both interrupted inside, resumed with a caller-supplied modification that is
			// addressed BY PATH (the only handle a caller has): +100 for the state at .../s1, +200 for the state at .../s2.
			// Each state must come back unchanged apart from the modification addressed to it.
			k := int(sp.shape[len(sp.shape)-1] - '0')
			store := &memStore{m: map[string][]byte{}}
			modeOpts := func() []compose.GraphCompileOption {
				if sp.mode == "dag" {
					return []compose.GraphCompileOption{compose.WithNodeTriggerMode(compose.AllPredecessor)}
				}
				return nil
			}
			leaf := func(name string) *compose.Graph[Val, Val] {
				l := compose.NewGraph[Val, Val](compose.WithGenLocalState(func(ctx context.Context) *St { return &St{} }))
				l.AddLambdaNode("x", compose.InvokableLambda(func(ctx context.Context, in Val) (Val, error) {
					var c int
					err := compose.ProcessState(ctx, func(ctx context.Context, s *St) error {
						c, _ = s.einoGuardedSnapshot()
						return nil
					})
					return Val{name: fmt.Sprintf("counter=%d", c)}, err
				}))
				l.AddEdge(compose.START, "x")
				l.AddEdge("x", compose.END)
				return l
			}
			var cur compose.AnyGraph
			g3 := compose.NewGraph[Val, Val]()
			for _, n := range []string{"s1", "s2"} {
				g3.AddGraphNode(n, leaf(n), compose.WithGraphCompileOptions(append(modeOpts(), compose.WithInterruptBeforeNodes([]string{"x"}))...))
				g3.AddEdge(compose.START, n)
				g3.AddEdge(n, compose.END)
			}
			cur = g3
			top := g3
			var wantPrefix []string
			for i := k; i >= 1; i-- {
				key := fmt.Sprint("g", i)
				wg := compose.NewGraph[Val, Val]()
				wg.AddGraphNode(key, cur, compose.WithGraphCompileOptions(modeOpts()...))
				wg.AddEdge(compose.START, key)
				wg.AddEdge(key, compose.END)
				cur, top = wg, wg
				wantPrefix = append([]string{key}, wantPrefix...)
			}
			r, err := top.Compile(context.Background(), append(modeOpts(), compose.WithCheckPointStore(store))...)
			if err != nil {
				errs = append(errs, err)
				return
			}
			_, err = run(r, sp.call, Val{"in": "x"}, compose.WithCheckPointID("cp"))
			if _, isInt := compose.ExtractInterruptInfo(err); !isInt {
				errs = append(errs, fmt.Errorf("expected an interrupt inside s1 and s2, got %v", err))
				return
			}
			var paths []string
			v, err := run(r, sp.call, Val{"in": "ignored"}, compose.WithCheckPointID("cp"),
				compose.WithStateModifier(func(ctx context.Context, path compose.NodePath, state any) error {
					pp := path.GetPath()
					p := strings.Join(pp, "/")
					s, ok := state.(*St)
					if !ok || len(pp) == 0 {
						return nil
					}
					vsched.HLock()
					paths = append(paths, p)
					vsched.HUnlock()
					switch pp[len(pp)-1] {
					case "s1":
						s.einoGuardedAdd(100)
					case "s2":
						s.einoGuardedAdd(200)
					}
					return nil
				}))
			results, errs = append(results, v), append(errs, err)
			if err == nil {
				sort.Strings(paths)
				wantPaths := []string{strings.Join(append(append([]string{}, wantPrefix...), "s1"), "/"), strings.Join(append(append([]string{}, wantPrefix...), "s2"), "/")}
				if fmt.Sprint(paths) != fmt.Sprint(wantPaths) {
					errs = append(errs, fmt.Errorf("state modifier after resume: it was called for the states at paths %v, the stateful graphs of this run are at %v", paths, wantPaths))
				} else if got, want := gprog.Canon(v), gprog.Canon(Val{"s1": "counter=100", "s2": "counter=200"}); got != want {
					errs = append(errs, fmt.Errorf("state modifier after resume: each nested state must come back with the modification addressed to its path: got %s, expected %s", got, want))
				}
			}
		case "statelesssub":
			// a sub-graph WITHOUT a state of its own below a stateful parent: its nodes x, y work on the parent's state
			// (that is what an uninterrupted run does). Interrupted inside (before y) and resumed, their updates must
			// still reach the parent's state: node b of the parent reports it; differential oracle against the
			// uninterrupted run of the same graph.
			mk := func(interrupt bool) (compose.Runnable[Val, Val], error) {
				inc := func(name string) *compose.Lambda {
					return compose.InvokableLambda(func(ctx context.Context, in Val) (Val, error) {
						err := compose.ProcessState(ctx, func(ctx context.Context, s *St) error {
							s.einoGuardedAdd(1)
							s.einoGuardedExit(name)
							return nil
						})
						return Val{name: "done"}, err
					})
				}
				sub := compose.NewGraph[Val, Val]()
				sub.AddLambdaNode("x", inc("x"))
				sub.AddLambdaNode("y", inc("y"))
				sub.AddEdge(compose.START, "x")
				sub.AddEdge("x", "y")
				sub.AddEdge("y", compose.END)
				g := compose.NewGraph[Val, Val](compose.WithGenLocalState(func(ctx context.Context) *St { return &St{} }))
				g.AddLambdaNode("a", inc("a"))
				var subOpts []compose.GraphCompileOption
				if sp.mode == "dag" {
					subOpts = append(subOpts, compose.WithNodeTriggerMode(compose.AllPredecessor))
				}
				if interrupt {
					subOpts = append(subOpts, compose.WithInterruptBeforeNodes([]string{"y"}))
				}
				g.AddGraphNode("s", sub, compose.WithGraphCompileOptions(subOpts...))
				g.AddLambdaNode("b", compose.InvokableLambda(func(ctx context.Context, in Val) (Val, error) {
					var c int
					var log []string
					err := compose.ProcessState(ctx, func(ctx context.Context, s *St) error {
						c, log = s.einoGuardedSnapshot()
						return nil
					})
					return Val{"b": fmt.Sprintf("counter=%d log=%v", c, log)}, err
				}))
				g.AddEdge(compose.START, "a")
				g.AddEdge("a", "s")
				g.AddEdge("s", "b")
				g.AddEdge("b", compose.END)
				opts := []compose.GraphCompileOption{compose.WithCheckPointStore(&memStore{m: map[string][]byte{}})}
				if sp.mode == "dag" {
					opts = append(opts, compose.WithNodeTriggerMode(compose.AllPredecessor))
				}
				return g.Compile(context.Background(), opts...)
			}
			r0, err := mk(false)
			if err != nil {
				errs = append(errs, err)
				return
			}
			want, err := run(r0, sp.call, Val{"in": "x"})
			if err != nil {
				errs = append(errs, err)
				return
			}
			r, err := mk(true)
			if err != nil {
				errs = append(errs, err)
				return
			}
			_, err = run(r, sp.call, Val{"in": "x"}, compose.WithCheckPointID("cp"))
			if _, isInt := compose.ExtractInterruptInfo(err); !isInt {
				errs = append(errs, fmt.Errorf("expected an interrupt inside the sub-graph node s, got %v", err))
				return
			}
			v, err := run(r, sp.call, Val{"in": "ignored"}, compose.WithCheckPointID("cp"))
			results, errs = append(results, v), append(errs, err)
			if err == nil && gprog.Canon(v) != gprog.Canon(want) {
				errs = append(errs, fmt.Errorf("state of the parent after resume inside a sub-graph without a state of its own: the parent's node b saw %s, in the uninterrupted run of the same graph it saw %s (updates made below the resumed sub-graph did not reach the parent's state)", gprog.Canon(v), gprog.Canon(want)))
			}
		case "resume":
			// state is carried unchanged across interrupt/resume, apart from the caller's modification
			store := &memStore{m: map[string][]byte{}}
			g := compose.NewGraph[Val, Val](compose.WithGenLocalState(w.gen("")))
			g.AddLambdaNode("a", sp.lambda(w, "", "a", seen), sp.nodeOpts(w, "", "a")...)
			g.AddLambdaNode("b", compose.InvokableLambda(func(ctx context.Context, in Val) (Val, error) {
				var c int
				var log []string
				err := compose.ProcessState(ctx, func(ctx context.Context, s *St) error {
					c, log = s.einoGuardedSnapshot()
					return nil
				})
				return Val{"b": fmt.Sprintf("counter=%d log=%v", c, log)}, err
			}))
			g.AddEdge(compose.START, "a")
			g.AddEdge("a", "b")
			g.AddEdge("b", compose.END)
			opts := []compose.GraphCompileOption{compose.WithCheckPointStore(store), compose.WithInterruptAfterNodes([]string{"a"})}
			if sp.mode == "dag" {
				opts = append(opts, compose.WithNodeTriggerMode(compose.AllPredecessor))
			}
			r, err := g.Compile(context.Background(), opts...)
			if err != nil {
				errs = append(errs, err)
				return
			}
			_, err = run(r, sp.call, Val{"in": "x"}, compose.WithCheckPointID("cp"))
			info, isInt := compose.ExtractInterruptInfo(err)
			if !isInt {
				errs = append(errs, fmt.Errorf("expected an interrupt after a, got %v", err))
				return
			}
			before := "<no state in interrupt info>"
			if s, ok := info.State.(*St); ok {
				before = fmt.Sprintf("counter=%d log=%v", s.Counter, s.Log)
			}
			v, err := run(r, sp.call, Val{"in": "ignored"}, compose.WithCheckPointID("cp"),
				compose.WithStateModifier(func(ctx context.Context, path compose.NodePath, state any) error {
					if s, ok := state.(*St); ok {
						s.einoGuardedAdd(100)
					}
					return nil
				}))
			results, errs = append(results, v), append(errs, err)
			resumeNote = before
		}
	}
	check := func(x *vsched.Exec) (string, error) {
		if x.Deadlock {
			return "", fmt.Errorf("the run hangs: %v", x.Blocked)
		}
		if x.MainPanic != "" || x.ThreadPanic != "" {
			return "", fmt.Errorf("panic: %s%s", x.MainPanic, x.ThreadPanic)
		}
		if len(x.Blocked) > 0 {
			return "", fmt.Errorf("goroutines left blocked: %v", x.Blocked)
		}
		if sp.shape == "fan2panic" {
			// no hang and nothing left blocked (checked above); the panic is an error of the run
			if len(errs) == 0 || errs[0] == nil {
				return "", fmt.Errorf("a ProcessState callback panicked but the run reported success: %v", results)
			}
			if !strings.Contains(errs[0].Error(), "process-state-callback-panics") {
				return "", fmt.Errorf("run failed with an unrelated error: %v", errs[0])
			}
			return "failed-as-expected", nil
		}
		for _, e := range errs {
			if e != nil {
				return "", fmt.Errorf("run failed: %v", e)
			}
		}
		if strings.HasPrefix(sp.shape, "deepmodify") || sp.shape == "statelesssub" {
			return gprog.Canon(results[0]), nil
		}
		if w.idErr != "" {
			return "", fmt.Errorf("state object not stable: %s", w.idErr)
		}
		// (1) no lost update; (2) critical sections never overlap; per state object
		all := append([]*St{}, w.states...)
		for _, l := range w.live {
			dup := false
			for _, x := range all {
				if x == l {
					dup = true
				}
			}
			if !dup {
				all = append(all, l)
			}
		}
		if strings.HasPrefix(sp.shape, "subresume") {
			// the parent state as node b saw it at the end: every state user of a and s entered exactly once, the
			// counter is the number of those sections
			got := gprog.Canon(results[0])
			var wantLog []string
			for _, k := range []string{"a", "s"} {
				if sp.pre {
					wantLog = append(wantLog, "enter:pre:"+k, "exit:pre:"+k)
				}
				if sp.process && k == "a" {
					wantLog = append(wantLog, "enter:body:"+k, "exit:body:"+k)
				}
				if sp.post {
					wantLog = append(wantLog, "enter:post:"+k, "exit:post:"+k)
				}
			}
			want := fmt.Sprintf("counter=%d log=%v", len(wantLog)/2, wantLog)
			// the nested graph's units (x before the interrupt, y after the resume) work on ONE state object that is not
			// the parent's (state ids survive the checkpoint: they are part of the serialised state)
			top, inner := map[int]bool{}, map[int]bool{}
			for who, id := range w.seenBy {
				if strings.HasPrefix(who, "sub/") {
					inner[id] = true
				} else {
					top[id] = true
				}
			}
			for id := range inner {
				if top[id] {
					return "", fmt.Errorf("parent graph and nested stateful graph share state #%d after the resume (units and the state they saw: %v)", id, w.seenBy)
				}
			}
			if len(inner) > 1 {
				return "", fmt.Errorf("the nested graph's units saw several state objects across the resume: %v", w.seenBy)
			}
			if !strings.Contains(got, want) {
				return "", fmt.Errorf("state after resume: the parent state at the end is not the one execution of a and s (each state handler once): node b saw %s, expected %s", got, want)
			}
			return got, nil
		}
		for _, s := range all {
			if sp.shape == "wfresume" && len(s.Log) == 0 {
				continue // the generated state of the interrupted first call: nothing ran on it
			}
			if s.Counter%100 != w.expected[s.ID] && sp.shape != "resume" {
				return "", fmt.Errorf("lost update on state #%d: %d increments were performed, counter is %d (log %v)", s.ID, w.expected[s.ID], s.Counter, s.Log)
			}
			open := ""
			for _, l := range s.Log {
				if strings.HasPrefix(l, "enter:") {
					if open != "" {
						return "", fmt.Errorf("critical sections overlap on state #%d: %s entered while %s is open (log %v)", s.ID, l[6:], open, s.Log)
					}
					open = l[6:]
				} else {
					if open != l[5:] {
						return "", fmt.Errorf("critical sections overlap on state #%d: %s exits while %q is open (log %v)", s.ID, l[5:], open, s.Log)
					}
					open = ""
				}
			}
			// (3) pre < body < post per node
			pos := map[string]int{}
			for i, l := range s.Log {
				if strings.HasPrefix(l, "enter:") {
					pos[l[6:]] = i
				}
			}
			for who, p := range pos {
				parts := strings.SplitN(who, ":", 2)
				scopeKind, key := parts[0], parts[1]
				scope := ""
				kind := scopeKind
				if i := strings.LastIndex(scopeKind, "/"); i >= 0 {
					scope, kind = scopeKind[:i+1], scopeKind[i+1:]
				}
				if kind == "pre" {
					if b, ok := pos[scope+"body:"+key]; ok && b < p {
						return "", fmt.Errorf("node %s%s: body ran before its pre-handler (log %v)", scope, key, s.Log)
					}
				}
				if kind == "post" {
					if b, ok := pos[scope+"body:"+key]; ok && b > p {
						return "", fmt.Errorf("node %s%s: post-handler ran before its body (log %v)", scope, key, s.Log)
					}
				}
			}
		}
		// (4) distinct runs / nested graphs see distinct state objects, each unit exactly one
		switch sp.shape {
		case "nested":
			top, inner := map[int]bool{}, map[int]bool{}
			for who, id := range w.seenBy {
				if strings.HasPrefix(who, "sub/") {
					inner[id] = true
				} else {
					top[id] = true
				}
			}
			if len(w.states) != 2 {
				return "", fmt.Errorf("expected 2 state objects (parent and nested graph), %d were generated", len(w.states))
			}
			for id := range top {
				if inner[id] {
					return "", fmt.Errorf("parent graph and nested stateful graph share state #%d", id)
				}
			}
			if len(top) > 1 || len(inner) > 1 {
				return "", fmt.Errorf("handlers of one graph saw several state objects: parent %v nested %v", top, inner)
			}
		case "tworuns":
			if len(w.states) != 2 {
				return "", fmt.Errorf("two runs must generate two state objects, %d were generated", len(w.states))
			}
			for _, s := range w.states {
				want := 0
				for _, on := range []bool{sp.pre, sp.post, sp.process} {
					if on {
						want += 2
					}
				}
				if s.Counter != want {
					return "", fmt.Errorf("state #%d of one run has counter %d, a run alone performs %d increments (log %v)", s.ID, s.Counter, want, s.Log)
				}
			}
		default:
			if len(w.states) != 1 && sp.shape != "resume" {
				return "", fmt.Errorf("one run must generate exactly one state object, %d were generated", len(w.states))
			}
		}
		// (5) handler return values are what the node / its successors receive
		var out []string
		for i, r := range results {
			out = append(out, gprog.Canon(r))
			if sp.shape == "resume" {
				continue
			}
			for k := range r {
				_ = k
			}
			keys := []string{"a", "b"}
			switch sp.shape {
			case "fan3":
				keys = append(keys, "c")
			case "nested":
				keys = []string{"a"}
			case "wfresume":
				keys = []string{"a", "c"}
			}
			for _, k := range keys {
				if sp.post {
					found := false
					if sp.mode == "workflow" && sp.shape != "nested" {
						if m, ok := r[k].(map[string]any); ok && m["post-"+k] == "1" {
							found = true
						}
					} else if r["post-"+k] == "1" {
						found = true
					}
					if !found {
						return "", fmt.Errorf("run %d: the value returned by %s's post-handler did not reach END: %s", i, k, gprog.Canon(r))
					}
				}
				if sp.pre && !strings.Contains(seen[k], "pre-"+k+"=1") {
					return "", fmt.Errorf("the value returned by %s's pre-handler is not what the node received: %s", k, seen[k])
				}
			}
		}
		if sp.shape == "resume" {
			// state at the end = state at the interrupt + 100
			s := gprog.Canon(results[0])
			want := 0
			for _, on := range []bool{sp.pre, sp.post, sp.process} {
				if on {
					want++
				}
			}
			if !strings.Contains(s, fmt.Sprintf("counter=%d ", want+100)) {
				return "", fmt.Errorf("state after resume is not the state at the interrupt (%s) plus the modifier's change (+100): node b saw %s", resumeNote, s)
			}
			if !strings.Contains(resumeNote, fmt.Sprintf("counter=%d ", want)) {
				return "", fmt.Errorf("interrupt info carries state %s, expected counter=%d", resumeNote, want)
			}
		}
		sort.Strings(out)
		return strings.Join(out, "|"), nil
	}
	return main, check
}

func main() {
	c := harness.Init("C11")
	c.Res.Rule = "scenario = stateful graph (Pregel / all-predecessor / eager Workflow) with 2-3 parallel nodes x which state users are present (state pre-handlers, post-handlers, ProcessState in node bodies; each a read-yield-write increment with enter/exit markers in the state's log) x shape (fan-out of 2 or 3, fan-out of 2 in which one ProcessState callback panics while it holds the state (the sibling must not hang), fan-out of 2 with STREAM state handlers that return lazily converted streams whose convert function calls ProcessState, stateful nested graph next to a parent node, two concurrent runs of one compiled graph, interrupt-after + resume with a StateModifier, two stateful sibling sub-graphs below 0-4 stateless wrapper graphs (node paths of length 1-5) interrupted inside and resumed with a modification addressed by path, a sub-graph without a state of its own whose nodes use the stateful parent's state interrupted inside and resumed (judged against the uninterrupted run of the same graph), a stateful sub-graph node carrying the parent's state handlers that is interrupted inside (interrupt-before an inner node / an inner node asking for its re-run) and resumed, an eager Workflow resumed with two restored tasks and a successor that starts while one of them is still running) x Invoke/Stream; every interleaving of executor goroutines, run loop and callers within the preemption bound, both map orders; distinct/non-trivial = distinct scheduling signatures of scenarios with >= 2 of them"
	c.Res.Assumptions = []string{
		"sequential consistency at synchronisation granularity; critical-section bodies are atomic apart from their explicit yield",
		"no happens-before state caching: a missing lock makes the state plain shared memory",
		harness.RacePassAssumption + "; here the harness's own accesses to the state object inside handlers / ProcessState count as eino-owned (the state is what eino must serialise) and are attributed to the eino function that called the handler",
	}
	c.Res.Explanation = "stateless exhaustive exploration of real stateful graph runs; oracle per execution: counter equals the number of increments (no lost update), enter/exit markers never interleave (mutual exclusion), pre-handler before body before post-handler per node, handler return values are what the node and END receive, one state object per run and a distinct one per nested stateful graph and per concurrent run, after interrupt+resume the state equals the state at the interrupt plus the StateModifier's change, a modification addressed by node path reaches exactly the nested state at that path (at every nesting depth 1-5), updates made below a resumed sub-graph that has no state of its own reach the parent's state as in the uninterrupted run, and a sub-graph node interrupted inside and resumed leaves each of the parent's state handlers on it in the parent state exactly once. " + harness.RacePassExplanation
	quick := c.Quick()
	rp := c.StartRacePass("./checks/c11") // worker 0 only: native -race build of this package, free runs of the scenario bodies
	bounds := []int{0, 1, 2}
	if !quick {
		bounds = []int{0, 1, 2, 3}
	}
	type users struct{ pre, post, process bool }
	us := []users{{false, false, true}, {true, true, false}, {true, true, true}, {false, true, true}, {true, false, true}}
	for _, shape := range []string{"fan2", "fan2lazy", "fan2panic", "nested", "tworuns", "resume", "subresume-before", "subresume-rerun", "wfresume", "fan3", "deepmodify0", "deepmodify1", "deepmodify2", "deepmodify3", "deepmodify4", "statelesssub"} {
		for _, mode := range []string{"pregel", "dag", "workflow"} {
			if mode == "workflow" && (shape == "nested" || shape == "resume" || strings.HasPrefix(shape, "subresume") || strings.HasPrefix(shape, "deepmodify") || shape == "statelesssub") {
				continue
			}
			if shape == "wfresume" && mode != "workflow" {
				continue
			}
			for _, u := range us {
				for _, call := range []string{"invoke", "stream"} {
					if shape == "fan2panic" && !(u.process && !u.pre && !u.post) {
						continue // only the ProcessState users
					}
					if (strings.HasPrefix(shape, "deepmodify") || shape == "statelesssub") && !(u.process && !u.pre && !u.post) {
						continue // the shape has its own state users
					}
					if shape == "fan2lazy" && !(u.process && (u.pre || u.post)) {
						continue // needs a stream handler and a body that uses the state next to it
					}
					if quick && shape == "fan3" && !(u.pre && u.post && u.process) {
						continue
					}
					if quick && shape == "tworuns" && (call == "stream" || (u.pre && u.post && u.process)) {
						continue
					}
					if quick && call == "stream" && !(u.pre && u.post) && !strings.HasPrefix(shape, "deepmodify") && shape != "statelesssub" {
						continue
					}
					sp := &spec{mode: mode, shape: shape, pre: u.pre, post: u.post, process: u.process, yield: true, call: call, lazy: shape == "fan2lazy"}
					sp.name = fmt.Sprintf("%s/%s/pre%v-post%v-process%v/%s", shape, mode, u.pre, u.post, u.process, call)
					b := bounds
					if shape == "resume" || strings.HasPrefix(shape, "subresume") || strings.HasPrefix(shape, "deepmodify") || shape == "statelesssub" {
						b = []int{0}
					} else if mode == "workflow" && (shape == "tworuns" || shape == "fan3") {
						// eager mode starts every node in its own goroutine: 7 threads; one bound less
						b = bounds[:len(bounds)-1]
						if quick {
							b = []int{0}
						}
					}
					sc := harness.Scenario{Name: sp.name, Bounds: b, MaxExecs: 1_500_000, New: sp.build, Signature: func(err error) string {
						s := err.Error()
						switch {
						case strings.Contains(s, "sub-graph without a state of its own"):
							return "stateless-subgraph-resumed-on-copy-of-parent-state"
						case strings.Contains(s, "state modifier after resume"):
							return "state-modifier-wrong-path"
						case strings.Contains(s, "lost update"):
							return "lost-update"
						case strings.Contains(s, "overlap"):
							return "critical-sections-overlap"
						case strings.Contains(s, "before its"):
							return "handler-order"
						case strings.Contains(s, "share state"), strings.Contains(s, "state object"):
							return "state-object-sharing"
						case strings.Contains(s, "after resume"), strings.Contains(s, "interrupt info"):
							return "state-not-carried-across-resume"
						case strings.Contains(s, "handler"):
							return "handler-value-not-delivered"
						}
						return "other"
					}}
					if c.Replay != "" {
						c.ReplayScenario(sc)
						continue
					}
					if !c.Mine(sp.name) {
						continue
					}
					c.Sample(map[string]any{"scenario": sp.name, "bounds": b})
					c.Add(sc)
				}
			}
		}
	}
	c.ExploreAll()
	rp.Collect()
	c.Finish()
}
