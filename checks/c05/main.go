// C05 — see lib/intr (shared interrupt/resume history engine, Engine R).
package main

import "verif/lib/intr"

func main() { intr.Main("C05") }
