// C08 — streams deliver every item exactly once, in order, to every reader (Engine S on package schema).
package main

import (
	"errors"
	"fmt"
	"io"
	"strings"

	"github.com/cloudwego/eino/schema"
	"github.com/cloudwego/eino/vsched"

	"verif/lib/harness"
)

// Item is a stream element: a value or an error item.
type Item struct {
	V   int
	Err string
}

func (i Item) String() string {
	if i.Err != "" {
		return "E(" + i.Err + ")"
	}
	return fmt.Sprint(i.V)
}

type itemErr struct{ tag string }

func (e *itemErr) Error() string { return e.tag }

// Unwrap: every error item WRAPS io.EOF (like the "read chunk 2: unexpected EOF" errors of real sources). An
// error item is an item, whatever it wraps; only the bare io.EOF is the end of a stream.
func (e *itemErr) Unwrap() error { return io.EOF }

// Expr describes how a reader is derived.
type Expr struct {
	Kind  string // pipe | array | copy | merge | conv
	Pipe  int    // pipe index
	Items []Item // array
	Copy  int    // copy node index
	Out   int    // which output of the copy node
	Kids  []*Expr
	Mode  string // conv: id | filter | cverr
	Share int    // array: > 0 = every array expression with this number wraps the same caller-owned slice
	Skip  int    // array: this many items have already been received from the reader before it enters the tree
}

type CopyNode struct {
	In *Expr
	N  int
}

type PipeSpec struct {
	Cap     int
	Items   []Item
	Prefill bool // the producer runs inline before the tree is built (needs Cap >= len(Items)); no producer thread
	Wait    bool // the producer sends nothing (and does not close) before some consumer has received its first item
}

// Script of a consumer: N<0 drain to EOF then Close; otherwise receive N items (or until EOF) then Close.
type Consumer struct {
	R *Expr
	N int
}

type Spec struct {
	Name      string
	Pipes     []PipeSpec
	Copies    []CopyNode
	Consumers []Consumer
}

func P(i int) *Expr         { return &Expr{Kind: "pipe", Pipe: i} }
func A(items ...Item) *Expr { return &Expr{Kind: "array", Items: items} }
func AS(share int, items ...Item) *Expr {
	return &Expr{Kind: "array", Items: items, Share: share}
}

// AR is an array reader that has been partly read (k items) before it is merged / copied / converted.
func AR(k int, items ...Item) *Expr { return &Expr{Kind: "array", Items: items, Skip: k} }
func Cp(node, out int) *Expr        { return &Expr{Kind: "copy", Copy: node, Out: out} }
func M(kids ...*Expr) *Expr         { return &Expr{Kind: "merge", Kids: kids} }
func Cv(mode string, k *Expr) *Expr { return &Expr{Kind: "conv", Mode: mode, Kids: []*Expr{k}} }

func (e *Expr) String() string {
	switch e.Kind {
	case "pipe":
		return fmt.Sprintf("P%d", e.Pipe)
	case "array":
		return fmt.Sprintf("A%v", e.Items)
	case "copy":
		return fmt.Sprintf("C%d.%d", e.Copy, e.Out)
	case "merge":
		var p []string
		for _, k := range e.Kids {
			p = append(p, k.String())
		}
		return "M(" + strings.Join(p, ",") + ")"
	default:
		return "Cv" + e.Mode + "(" + e.Kids[0].String() + ")"
	}
}

func convItem(mode string, it Item) (Item, bool) {
	if it.Err != "" {
		return it, true // upstream error items pass through unchanged
	}
	switch mode {
	case "filter": // drop even values
		if it.V%2 == 0 {
			return Item{}, false
		}
		return Item{V: it.V + 100}, true
	case "cverr": // even values become error items
		if it.V%2 == 0 {
			return Item{Err: fmt.Sprintf("cv%d", it.V)}, true
		}
		return Item{V: it.V + 100}, true
	}
	return Item{V: it.V + 100}, true
}

// sources flattens an expression into the deterministic source sequences whose order-preserving
// interleaving the reader must deliver.
func (sp *Spec) sources(e *Expr) [][]Item {
	switch e.Kind {
	case "pipe":
		return [][]Item{sp.Pipes[e.Pipe].Items}
	case "array":
		return [][]Item{e.Items[e.Skip:]}
	case "copy":
		return sp.sources(sp.Copies[e.Copy].In)
	case "merge":
		var out [][]Item
		for _, k := range e.Kids {
			out = append(out, sp.sources(k)...)
		}
		return out
	case "conv":
		var out [][]Item
		for _, s := range sp.sources(e.Kids[0]) {
			var m []Item
			for _, it := range s {
				if c, ok := convItem(e.Mode, it); ok {
					m = append(m, c)
				}
			}
			out = append(out, m)
		}
		return out
	}
	panic("bad expr")
}

func (sp *Spec) pipesOf(e *Expr, acc map[int]bool) {
	switch e.Kind {
	case "pipe":
		acc[e.Pipe] = true
	case "copy":
		sp.pipesOf(sp.Copies[e.Copy].In, acc)
	case "merge", "conv":
		for _, k := range e.Kids {
			sp.pipesOf(k, acc)
		}
	}
}

// hasForwarder: a merge over a copy-child or a converted reader starts a buffered forwarding goroutine.
func (sp *Spec) hasForwarder(e *Expr) bool {
	switch e.Kind {
	case "copy":
		return sp.hasForwarder(sp.Copies[e.Copy].In)
	case "conv":
		return sp.hasForwarder(e.Kids[0])
	case "merge":
		for _, k := range e.Kids {
			if k.Kind == "copy" || k.Kind == "conv" || sp.hasForwarder(k) {
				return true
			}
		}
	}
	return false
}

// checkSeq: got must be an order-preserving interleaving of prefixes of the sources (complete: of the
// whole sources).
func checkSeq(srcs [][]Item, got []Item, complete bool) error {
	// items of different sources need not be distinct (an error item passes through a conversion
	// unchanged), so the assignment of observed items to sources is searched, not guessed
	pos := make([]int, len(srcs))
	best := 0
	var rec func(gi int) bool
	rec = func(gi int) bool {
		if gi > best {
			best = gi
		}
		if gi == len(got) {
			if complete {
				for si, s := range srcs {
					if pos[si] != len(s) {
						return false
					}
				}
			}
			return true
		}
		for si, s := range srcs {
			if pos[si] < len(s) && s[pos[si]] == got[gi] {
				pos[si]++
				if rec(gi + 1) {
					return true
				}
				pos[si]--
			}
		}
		return false
	}
	if rec(0) {
		return nil
	}
	if best < len(got) {
		return fmt.Errorf("item #%d %v is not the next item of any source (duplicate, reordered or foreign); got %v want an order-preserving interleaving of %v", best, got[best], got, srcs)
	}
	return fmt.Errorf("end-of-stream before every source was exhausted (items lost); got %v want a complete interleaving of %v", got, srcs)
}

type instance struct {
	sp        *Spec
	got       [][]Item
	eof       []bool
	closedN   []int // per pipe: number of consumers deriving from it that have finished Close
	leavesN   []int
	prodDone  []bool
	prodErr   string
	consDone  []bool
	recvAfter string
	progress  int // items received by all consumers so far (dependent producers wait for the first one)
}

func (sp *Spec) build() (func(), func(x *vsched.Exec) (string, error)) {
	in := &instance{sp: sp}
	in.got = make([][]Item, len(sp.Consumers))
	in.eof = make([]bool, len(sp.Consumers))
	in.consDone = make([]bool, len(sp.Consumers))
	in.closedN = make([]int, len(sp.Pipes))
	in.leavesN = make([]int, len(sp.Pipes))
	in.prodDone = make([]bool, len(sp.Pipes))
	consPipes := make([]map[int]bool, len(sp.Consumers))
	anyFwd := false
	for ci, c := range sp.Consumers {
		consPipes[ci] = map[int]bool{}
		sp.pipesOf(c.R, consPipes[ci])
		for p := range consPipes[ci] {
			in.leavesN[p]++
		}
		if sp.hasForwarder(c.R) {
			anyFwd = true
		}
	}
	main := func() {
		readers := make([]*schema.StreamReader[Item], len(sp.Pipes))
		writers := make([]*schema.StreamWriter[Item], len(sp.Pipes))
		for i, p := range sp.Pipes {
			readers[i], writers[i] = schema.Pipe[Item](p.Cap)
			if p.Prefill {
				for _, it := range p.Items {
					if it.Err != "" {
						writers[i].Send(Item{}, &itemErr{it.Err})
					} else {
						writers[i].Send(it, nil)
					}
				}
				writers[i].Close()
				in.prodDone[i] = true
			}
		}
		copies := make([][]*schema.StreamReader[Item], len(sp.Copies))
		shared := map[int][]Item{}
		var mk func(e *Expr) *schema.StreamReader[Item]
		mk = func(e *Expr) *schema.StreamReader[Item] {
			switch e.Kind {
			case "pipe":
				return readers[e.Pipe]
			case "array":
				// the caller's slice has spare capacity behind its length (a slice grown by append, a sub-slice of a
				// buffer): whatever the framework derives from it must not write there
				if e.Share > 0 {
					if shared[e.Share] == nil {
						shared[e.Share] = append(make([]Item, 0, len(e.Items)+4), e.Items...)
					}
					return schema.StreamReaderFromArray(shared[e.Share])
				}
				ar := schema.StreamReaderFromArray(append(make([]Item, 0, len(e.Items)+4), e.Items...))
				for k := 0; k < e.Skip; k++ {
					ar.Recv() // received by an earlier reader of the same value: these items are gone
				}
				return ar
			case "copy":
				if copies[e.Copy] == nil {
					copies[e.Copy] = mk(sp.Copies[e.Copy].In).Copy(sp.Copies[e.Copy].N)
				}
				return copies[e.Copy][e.Out]
			case "merge":
				var ks []*schema.StreamReader[Item]
				for _, k := range e.Kids {
					ks = append(ks, mk(k))
				}
				return schema.MergeStreamReaders(ks)
			case "conv":
				mode := e.Mode
				return schema.StreamReaderWithConvert(mk(e.Kids[0]), func(it Item) (Item, error) {
					c, ok := convItem(mode, it)
					if !ok {
						return Item{}, schema.ErrNoValue
					}
					if c.Err != "" {
						return Item{}, &itemErr{c.Err}
					}
					return c, nil
				})
			}
			panic("bad expr")
		}
		leaf := make([]*schema.StreamReader[Item], len(sp.Consumers))
		for ci, c := range sp.Consumers {
			leaf[ci] = mk(c.R)
		}
		for pi := range sp.Pipes {
			pi := pi
			if sp.Pipes[pi].Prefill {
				continue
			}
			vsched.GoNamed(fmt.Sprintf("prod%d", pi), func() {
				w := writers[pi]
				if sp.Pipes[pi].Wait {
					// a producer that answers the reader: nothing is sent, and the pipe stays open, until the reader has
					// made progress (under the scheduler: blocked until then; in a native free run: no wait)
					vsched.Block(vsched.OpGeneric, 900, func() bool { return in.progress > 0 })
					vsched.Note(900)
				}
				for _, it := range sp.Pipes[pi].Items {
					vsched.HLock() // closedN / prodErr are shared by producers and consumers (no-op under the scheduler, a mutex in the race pass)
					vsched.Note(pi)
					allClosed := in.closedN[pi] == in.leavesN[pi]
					vsched.HUnlock()
					var closed bool
					if it.Err != "" {
						closed = w.Send(Item{}, &itemErr{it.Err})
					} else {
						closed = w.Send(it, nil)
					}
					if allClosed && !closed && !anyFwd {
						vsched.HLock()
						in.prodErr = fmt.Sprintf("producer %d: every derived reader was closed before Send(%v) but Send did not report closed", pi, it)
						vsched.HUnlock()
					}
					if closed {
						break
					}
				}
				w.Close()
				in.prodDone[pi] = true
			})
		}
		for ci := range sp.Consumers {
			ci := ci
			vsched.GoNamed(fmt.Sprintf("cons%d", ci), func() {
				r := leaf[ci]
				n := sp.Consumers[ci].N
				limit := 4
				for _, s := range sp.sources(sp.Consumers[ci].R) {
					limit += len(s)
				}
				for n < 0 || len(in.got[ci]) < n {
					if len(in.got[ci]) > limit {
						break // more items than every source together holds: the oracle reports them
					}
					v, err := r.Recv()
					if err == io.EOF {
						in.eof[ci] = true
						break
					}
					if err != nil {
						var ie *itemErr
						if errors.As(err, &ie) {
							in.got[ci] = append(in.got[ci], Item{Err: ie.tag})
						} else {
							in.got[ci] = append(in.got[ci], Item{Err: "UNEXPECTED:" + err.Error()})
						}
						continue
					}
					in.got[ci] = append(in.got[ci], v)
					vsched.HLock()
					in.progress++
					vsched.Note(900)
					vsched.HUnlock()
				}
				r.Close()
				vsched.HLock()
				for p := 0; p < len(sp.Pipes); p++ { // ascending: the order of the notes is part of the state key
					if consPipes[ci][p] {
						in.closedN[p]++
						vsched.Note(p)
					}
				}
				vsched.HUnlock()
				in.consDone[ci] = true
			})
		}
	}
	check := func(x *vsched.Exec) (string, error) {
		if x.MainPanic != "" {
			return "", fmt.Errorf("panic while building the stream tree: %s", x.MainPanic)
		}
		if x.ThreadPanic != "" {
			return "", fmt.Errorf("panic in a goroutine: %s", x.ThreadPanic)
		}
		if len(x.Blocked) > 0 {
			return "", fmt.Errorf("blocked forever after all consumers closed: %v", x.Blocked)
		}
		for pi, d := range in.prodDone {
			if !d {
				return "", fmt.Errorf("producer %d did not finish", pi)
			}
		}
		if in.prodErr != "" {
			return "", errors.New(in.prodErr)
		}
		var out []string
		for ci, c := range sp.Consumers {
			if !in.consDone[ci] {
				return "", fmt.Errorf("consumer %d did not finish", ci)
			}
			complete := in.eof[ci]
			if c.N < 0 && !complete {
				return "", fmt.Errorf("consumer %d drained without reaching end-of-stream", ci)
			}
			if err := checkSeq(sp.sources(c.R), in.got[ci], complete); err != nil {
				return "", fmt.Errorf("consumer %d on %v: %v", ci, c.R, err)
			}
			if !complete && c.N >= 0 && len(in.got[ci]) != c.N {
				return "", fmt.Errorf("consumer %d: got %d items, wanted %d", ci, len(in.got[ci]), c.N)
			}
			out = append(out, fmt.Sprint(in.got[ci], complete))
		}
		// copies of one copy node must have seen the same sequence (prefix-consistent)
		for ci, c := range sp.Consumers {
			for cj := ci + 1; cj < len(sp.Consumers); cj++ {
				d := sp.Consumers[cj]
				if c.R.Kind == "copy" && d.R.Kind == "copy" && c.R.Copy == d.R.Copy {
					a, b := in.got[ci], in.got[cj]
					n := len(a)
					if len(b) < n {
						n = len(b)
					}
					for k := 0; k < n; k++ {
						if a[k] != b[k] {
							return "", fmt.Errorf("copies %d and %d of one stream disagree: %v vs %v", ci, cj, a, b)
						}
					}
				}
			}
		}
		return strings.Join(out, "|"), nil
	}
	return main, check
}

// ---------------------------------------------------------------------------------------------------
// enumeration

func items(tag int, shape string) []Item {
	switch shape {
	case "0":
		return nil
	case "1":
		return []Item{{V: tag + 1}}
	case "2":
		return []Item{{V: tag + 1}, {V: tag + 2}}
	case "1e2":
		return []Item{{V: tag + 1}, {Err: fmt.Sprintf("e%d", tag)}, {V: tag + 2}}
	case "3":
		return []Item{{V: tag + 1}, {V: tag + 2}, {V: tag + 3}}
	}
	panic(shape)
}

func scripts(n int, menu []int) [][]int {
	if n == 0 {
		return [][]int{nil}
	}
	var out [][]int
	for _, rest := range scripts(n-1, menu) {
		for _, m := range menu {
			out = append(out, append(append([]int{}, rest...), m))
		}
	}
	return out
}

type template struct {
	name   string
	pipes  int
	leaves int
	mk     func(ps []PipeSpec) ([]CopyNode, []*Expr)
	thor   bool // thorough tier only
}

func templates() []template {
	return []template{
		{"pipe", 1, 1, func(ps []PipeSpec) ([]CopyNode, []*Expr) { return nil, []*Expr{P(0)} }, false},
		{"copy2", 1, 2, func(ps []PipeSpec) ([]CopyNode, []*Expr) {
			return []CopyNode{{P(0), 2}}, []*Expr{Cp(0, 0), Cp(0, 1)}
		}, false},
		{"copy3", 1, 3, func(ps []PipeSpec) ([]CopyNode, []*Expr) {
			return []CopyNode{{P(0), 3}}, []*Expr{Cp(0, 0), Cp(0, 1), Cp(0, 2)}
		}, true},
		{"merge2", 2, 1, func(ps []PipeSpec) ([]CopyNode, []*Expr) { return nil, []*Expr{M(P(0), P(1))} }, false},
		{"merge3", 3, 1, func(ps []PipeSpec) ([]CopyNode, []*Expr) { return nil, []*Expr{M(P(0), P(1), P(2))} }, true},
		{"mergeArr", 1, 1, func(ps []PipeSpec) ([]CopyNode, []*Expr) {
			return nil, []*Expr{M(P(0), A(Item{V: 91}, Item{V: 92}))}
		}, false},
		{"convFilter", 1, 1, func(ps []PipeSpec) ([]CopyNode, []*Expr) { return nil, []*Expr{Cv("filter", P(0))} }, false},
		{"convErr", 1, 1, func(ps []PipeSpec) ([]CopyNode, []*Expr) { return nil, []*Expr{Cv("cverr", P(0))} }, false},
		{"copyMergeBack", 1, 1, func(ps []PipeSpec) ([]CopyNode, []*Expr) {
			return []CopyNode{{P(0), 2}}, []*Expr{M(Cv("id", Cp(0, 0)), Cp(0, 1))}
		}, false},
		{"copyConv", 1, 2, func(ps []PipeSpec) ([]CopyNode, []*Expr) {
			return []CopyNode{{P(0), 2}}, []*Expr{Cv("filter", Cp(0, 0)), Cp(0, 1)}
		}, false},
		{"convMerge", 2, 1, func(ps []PipeSpec) ([]CopyNode, []*Expr) { return nil, []*Expr{M(Cv("cverr", P(0)), P(1))} }, false},
		{"copyOfCopy", 1, 3, func(ps []PipeSpec) ([]CopyNode, []*Expr) {
			return []CopyNode{{P(0), 2}, {Cp(0, 0), 2}}, []*Expr{Cp(1, 0), Cp(1, 1), Cp(0, 1)}
		}, false},
		{"copyOfMerge", 2, 2, func(ps []PipeSpec) ([]CopyNode, []*Expr) {
			return []CopyNode{{M(P(0), P(1)), 2}}, []*Expr{Cp(0, 0), Cp(0, 1)}
		}, false},
		{"mergeOfMerge", 3, 1, func(ps []PipeSpec) ([]CopyNode, []*Expr) { return nil, []*Expr{M(M(P(0), P(1)), P(2))} }, true},
		{"arrayCopy", 0, 2, func(ps []PipeSpec) ([]CopyNode, []*Expr) {
			return []CopyNode{{A(Item{V: 91}, Item{V: 92}), 2}}, []*Expr{Cp(0, 0), Cp(0, 1)}
		}, false},
		// array-backed readers: copies (or two readers over one caller slice) merged with further arrays; an
		// all-array merge stays an array, a mixed one is sent into a channel when the merge is built
		{"arrayCopyMerged", 0, 2, func(ps []PipeSpec) ([]CopyNode, []*Expr) {
			return []CopyNode{{A(Item{V: 91}, Item{V: 92}), 2}}, []*Expr{M(Cp(0, 0), A(Item{V: 71})), M(Cp(0, 1), A(Item{V: 81}))}
		}, false},
		{"arraySharedMerged", 0, 2, func(ps []PipeSpec) ([]CopyNode, []*Expr) {
			return nil, []*Expr{M(AS(1, Item{V: 91}, Item{V: 92}), A(Item{V: 71})), M(AS(1, Item{V: 91}, Item{V: 92}), A(Item{V: 81}))}
		}, false},
		{"arrayCopyMergedPipe", 1, 2, func(ps []PipeSpec) ([]CopyNode, []*Expr) {
			return []CopyNode{{A(Item{V: 91}, Item{V: 92}), 2}}, []*Expr{M(Cp(0, 0), A(Item{V: 71})), M(Cp(0, 1), P(0))}
		}, false},
		// an array reader that was partly read before it is merged (with an array: stays an array; with a pipe: sent into a
		// channel), copied or converted: the items already received are not delivered again
		{"arrayReadThenMerged", 1, 2, func(ps []PipeSpec) ([]CopyNode, []*Expr) {
			return nil, []*Expr{M(AR(1, Item{V: 91}, Item{V: 92}, Item{V: 93}), A(Item{V: 71})), M(AR(2, Item{V: 61}, Item{V: 62}, Item{V: 63}), P(0))}
		}, false},
		{"arrayReadThenCopied", 0, 3, func(ps []PipeSpec) ([]CopyNode, []*Expr) {
			return []CopyNode{{AR(1, Item{V: 91}, Item{V: 92}, Item{V: 93}), 2}}, []*Expr{Cp(0, 0), M(Cp(0, 1), A(Item{V: 71})), Cv("id", AR(2, Item{V: 61}, Item{V: 62}, Item{V: 63}))}
		}, false},
		{"copyOneMerged", 2, 2, func(ps []PipeSpec) ([]CopyNode, []*Expr) {
			return []CopyNode{{P(0), 2}}, []*Expr{M(Cp(0, 0), P(1)), Cp(0, 1)}
		}, false},
		// n-way merges (the hand-unrolled select tables for 2..5 sources) with DEPENDENT producers: exactly one source
		// has an item ready, the others send (one item each) only after the reader has received something. Every arm of
		// every table must be polled, and the end of a source must remove that source and no other.
		{"merge3dep", 3, 1, func(ps []PipeSpec) ([]CopyNode, []*Expr) { return nil, []*Expr{M(P(0), P(1), P(2))} }, false},
		{"merge4dep", 4, 1, func(ps []PipeSpec) ([]CopyNode, []*Expr) { return nil, []*Expr{M(P(0), P(1), P(2), P(3))} }, false},
		{"merge5dep", 5, 1, func(ps []PipeSpec) ([]CopyNode, []*Expr) {
			return nil, []*Expr{M(P(0), P(1), P(2), P(3), P(4))}
		}, false},
		{"merge5table", 5, 1, func(ps []PipeSpec) ([]CopyNode, []*Expr) {
			return nil, []*Expr{M(P(0), P(1), P(2), P(3), P(4))}
		}, false},
		{"merge6reflect", 6, 1, func(ps []PipeSpec) ([]CopyNode, []*Expr) {
			return nil, []*Expr{M(P(0), P(1), P(2), P(3), P(4), P(5))}
		}, false},
	}
}

// templates with >= 5 threads: one preemption bound less than the light ones, lean pipe menu in quick
var heavy = map[string]bool{"copyMergeBack": true, "convMerge": true, "copyOfCopy": true, "copyOfMerge": true, "copyOneMerged": true, "mergeOfMerge": true, "merge3": true, "copy3": true}

func main() {
	c := harness.Init("C08")
	c.Res.Rule = "scenario = stream tree template x pipe capacities x item sequences (incl. an error item) x consumer scripts (drain / read k then close / close at once); every interleaving of producer, consumer and forwarder threads at Send/Recv/Close/select/Once/atomic points is executed up to the preemption bound, plus every ready-case choice of merged selects; an execution counts as non-trivial/distinct by its scheduling signature (hash of the (thread, operation, object) sequence), counted only for scenarios with >=2 distinct signatures"
	c.Res.Assumptions = []string{
		"sequential consistency at synchronisation granularity (unsynchronised accesses are the business of the separate -race pass, next but one)",
		"the source rewriter maps chan/select/go/sync/atomic/reflect.Select of package schema faithfully onto the vsched shim",
		"each StreamReader end is used by one goroutine at a time (documented contract)",
		harness.RacePassAssumption,
	}
	c.Res.Explanation = "stateless exhaustive exploration of the real schema package under a cooperative scheduler with iterative preemption bounding; oracle: per-consumer sequence equality against the order-preserving interleaving of the source sequences, prefix-consistency between copies, writer told 'closed' on the next send once every derived reader closed (trees without buffered forwarders), exact deadlock/leak detection from the scheduler's thread table, double close surfaces as a panic. " + harness.RacePassExplanation
	quick := c.Quick()
	rp := c.StartRacePass("./checks/c08") // worker 0 only: native -race build of this package, free runs of the scenario bodies
	caps := []int{0, 1, 2}
	shapes := []string{"0", "1", "2", "1e2"}
	menu := []int{-1, 1, 0}
	bounds := []int{0, 1, 2}
	if !quick {
		shapes = append(shapes, "3")
		menu = []int{-1, 2, 1, 0}
		bounds = []int{0, 1, 2, 3}
	}
	for _, t := range templates() {
		if t.thor && quick {
			continue
		}
		// pipe parameterisation: first pipe varies fully; the others take a reduced menu
		var pipeSets [][]PipeSpec
		if t.pipes == 0 {
			pipeSets = [][]PipeSpec{nil}
		} else if strings.HasSuffix(t.name, "dep") {
			for ready := 0; ready < t.pipes; ready++ {
				ps := make([]PipeSpec, t.pipes)
				for i := range ps {
					ps[i] = PipeSpec{Cap: 1, Wait: true, Items: items(10*(i+1), "1")}
				}
				ps[ready] = PipeSpec{Cap: 1, Prefill: true, Items: items(10*(ready+1), "1")}
				pipeSets = append(pipeSets, ps)
			}
		} else if t.name == "merge5table" {
			// exactly five sources: the hand-unrolled 5-way select. All are pre-filled and closed (one or two carry
			// an item), so the only nondeterminism is which ready arm the select takes: every order in which the
			// reader can see the five ends and the items is enumerated.
			for _, withItems := range [][]int{{3}, {4}, {0, 3}, {2, 4}} {
				ps := make([]PipeSpec, 5)
				for i := range ps {
					ps[i] = PipeSpec{Cap: 1, Prefill: true}
				}
				for _, k := range withItems {
					ps[k].Items = items(10*(k+1), "1")
				}
				pipeSets = append(pipeSets, ps)
			}
		} else if t.name == "merge6reflect" {
			// > 5 sources: the reflect.Select path. Five sources are pre-filled (one item or none) and
			// closed, one has a live producer: the explorer enumerates every ready-case choice.
			ps := make([]PipeSpec, 6)
			for i := range ps {
				ps[i] = PipeSpec{Cap: 1, Prefill: true}
			}
			ps[0] = PipeSpec{Cap: 1, Items: items(10, "2")}
			ps[1].Items = items(20, "1")
			pipeSets = [][]PipeSpec{ps}
		} else {
			caps, shapes := caps, shapes
			if heavy[t.name] && quick {
				caps, shapes = []int{0, 1}, []string{"2", "1e2"}
			}
			for _, cp := range caps {
				for _, sh := range shapes {
					first := PipeSpec{Cap: cp, Items: items(10, sh)}
					if t.pipes == 1 {
						pipeSets = append(pipeSets, []PipeSpec{first})
						continue
					}
					for _, sh2 := range []string{"1", "2"} {
						ps := []PipeSpec{first}
						for k := 1; k < t.pipes; k++ {
							ps = append(ps, PipeSpec{Cap: (cp + k) % 2, Items: items(10*(k+1), sh2)})
						}
						pipeSets = append(pipeSets, ps)
					}
				}
			}
		}
		for _, ps := range pipeSets {
			for _, scr := range scripts(t.leaves, menu) {
				copies, leaves := t.mk(ps)
				sp := &Spec{Pipes: ps, Copies: copies}
				for i, l := range leaves {
					sp.Consumers = append(sp.Consumers, Consumer{R: l, N: scr[i]})
				}
				var pd []string
				for _, p := range ps {
					tag := ""
					if p.Wait {
						tag = "wait"
					} else if p.Prefill && strings.HasSuffix(t.name, "dep") {
						tag = "ready"
					}
					pd = append(pd, fmt.Sprintf("cap%d%v%s", p.Cap, p.Items, tag))
				}
				sp.Name = fmt.Sprintf("%s/%s/scripts%v", t.name, strings.Join(pd, ","), scr)
				sc := harness.Scenario{Name: sp.Name, OneOrder: true, HBCache: true, Bounds: bounds, MaxExecs: 3_000_000}
				if strings.HasSuffix(t.name, "dep") {
					sc.Bounds = []int{0} // every ready-arm choice of the selects and every order of the released producers is a free choice
					if scr[0] != -1 {
						continue // the reader drains
					}
				} else if t.name == "merge5table" {
					sc.Bounds = []int{0}
				} else if t.name == "merge6reflect" {
					sc.Bounds = []int{0, 1}
				} else if heavy[t.name] {
					sc.Bounds = bounds[:len(bounds)-1]
				}
				sc.New = sp.build
				if c.Replay != "" {
					c.ReplayScenario(sc)
					continue
				}
				if !c.Mine(sp.Name) {
					continue
				}
				c.Sample(map[string]any{"scenario": sp.Name, "bounds": sc.Bounds})
				c.Add(sc)
			}
		}
	}
	c.ExploreAll()
	rp.Collect()
	c.Finish()
}
