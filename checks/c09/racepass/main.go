// Race pass of C09: NOT instrumented. Built natively with `go build -race` (see ../racepass.sh) against eino
// as it is; only the vsched package is overlaid (inactive: Yield = runtime.Gosched, GoNamed = go).
// It runs the object builders of the scheduler part with N=4 free goroutines sharing ONE compiled object,
// a few repetitions each with rotating paradigms. The Go race detector prints its reports on stderr; the
// C09 check binary parses them. As a side product every free run is compared with the caller's solo run
// (MISMATCH lines; informative only, a free run is not replayable).
package main

import (
	"fmt"
	"os"
	"strconv"
	"strings"
	"sync"

	"verif/checks/c09/objs"
)

const callers = 4

func same(a, b []string, par bool) bool {
	if par {
		a, b = objs.Sorted(a), objs.Sorted(b)
	}
	return strings.Join(a, "\x00") == strings.Join(b, "\x00")
}

func main() {
	reps := 6
	if len(os.Args) > 1 {
		if n, err := strconv.Atoi(os.Args[1]); err == nil && n > 0 {
			reps = n
		}
	}
	runs, mismatches, nobj := 0, 0, 0
	for _, kind := range objs.Kinds(true) {
		ps, par := objs.Describe(kind)
		shared, err := objs.Build(kind) // ONE object for all repetitions: also races a run against leftovers of earlier runs
		if err != nil {
			fmt.Printf("RACEPASS-ERROR compile %s: %v\n", kind, err)
			os.Exit(3)
		}
		nobj++
		for rep := 0; rep < reps; rep++ {
			// solo observations on fresh objects
			solos := make([]objs.Snapshot, callers)
			paradigm := make([]string, callers)
			for i := 0; i < callers; i++ {
				paradigm[i] = ps[(i+rep)%len(ps)]
				o, err := objs.Build(kind)
				if err != nil {
					fmt.Printf("RACEPASS-ERROR compile %s: %v\n", kind, err)
					os.Exit(3)
				}
				r := objs.NewRec(i)
				o.Call(r, paradigm[i])
				solos[i] = r.Snapshot()
			}
			recs := make([]*objs.Rec, callers)
			start := make(chan struct{})
			var wg sync.WaitGroup
			for i := 0; i < callers; i++ {
				recs[i] = objs.NewRec(i)
				wg.Add(1)
				go func(i int) {
					defer wg.Done()
					defer func() {
						if p := recover(); p != nil {
							fmt.Printf("MISMATCH %s rep %d %s (%s): panic escaped to the caller: %v\n", kind, rep, objs.Tag(i), paradigm[i], p)
						}
					}()
					<-start
					shared.Call(recs[i], paradigm[i])
				}(i)
			}
			close(start)
			wg.Wait()
			for i := 0; i < callers; i++ {
				runs++
				s, so := recs[i].Snapshot(), solos[i]
				if s.Result != so.Result || s.Err != so.Err || !same(s.Log, so.Log, par) || !same(s.Opts, so.Opts, par) || !same(s.Events, so.Events, par) {
					mismatches++
					fmt.Printf("MISMATCH %s rep %d %s (%s): result %q err %q, alone result %q err %q\n", kind, rep, s.Caller, paradigm[i], s.Result, s.Err, so.Result, so.Err)
				}
			}
		}
	}
	fmt.Printf("RACEPASS objects=%d callers=%d repetitions=%d runs=%d mismatches=%d\n", nobj, callers, reps, runs, mismatches)
}
