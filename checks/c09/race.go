package main

// The race pass: this binary is built instrumented and without -race, so worker 0 shells out to
// racepass.sh (native -race build of checks/c09/racepass over the same object builders) and turns the
// race detector's reports into violations.

import (
	"bytes"
	"context"
	"encoding/json"
	"fmt"
	"os"
	"os/exec"
	"regexp"
	"sort"
	"strings"
	"syscall"
	"time"

	"verif/lib/harness"
)

const raceScript = "/verif/checks/c09/racepass.sh"

type raceCase struct {
	RacePass bool   `json:"racepass"`
	Function string `json:"function"`
}

func isRaceCase(cs any) bool {
	m, ok := cs.(map[string]any)
	if !ok {
		return false
	}
	b, _ := m["racepass"].(bool)
	return b
}

type raceReport struct {
	function string   // canonical (smallest) top eino function of the two conflicting accesses
	sites    []string // "function (file:line)" of the top eino frame of each access stack, sorted
}

var (
	reAddr  = regexp.MustCompile(`0x[0-9a-f]+`)
	reFrame = regexp.MustCompile(`^\s{2}(\S.*)$`)
	reLoc   = regexp.MustCompile(`^\s{6}(\S+):(\d+)`)
)

func isEinoFrame(fn string) bool {
	return strings.HasPrefix(fn, "github.com/cloudwego/eino/") && !strings.HasPrefix(fn, "github.com/cloudwego/eino/vsched")
}

// parseRaceReports extracts the reports that have framework frames. Each report consists of stacks separated
// by blank lines; the first two are the conflicting accesses. For each of them the top-most eino frame is
// taken; the report is attributed to the smaller of the two names so that the attribution does not depend
// on which access the detector saw second.
func parseRaceReports(out string) (reports []raceReport, total int) {
	blocks := strings.Split(out, "WARNING: DATA RACE")
	for _, blk := range blocks[1:] {
		total++
		if i := strings.Index(blk, "=================="); i >= 0 {
			blk = blk[:i]
		}
		stacks := strings.Split(strings.TrimSpace(blk), "\n\n")
		var sites []string
		var funcs []string
		hasEino := false
		for si, st := range stacks {
			lines := strings.Split(st, "\n")
			found := false
			for li := 0; li < len(lines); li++ {
				m := reFrame.FindStringSubmatch(lines[li])
				if m == nil || strings.HasPrefix(lines[li], "      ") {
					continue
				}
				fn := strings.TrimSuffix(strings.TrimSpace(m[1]), "()")
				if !isEinoFrame(fn) {
					continue
				}
				hasEino = true
				if si < 2 && !found {
					found = true
					loc := ""
					if li+1 < len(lines) {
						if lm := reLoc.FindStringSubmatch(lines[li+1]); lm != nil {
							loc = lm[1] + ":" + lm[2]
						}
					}
					funcs = append(funcs, fn)
					sites = append(sites, fmt.Sprintf("%s (%s)", fn, loc))
				}
			}
		}
		if !hasEino {
			continue
		}
		if len(funcs) == 0 {
			funcs, sites = []string{"<no eino frame in the access stacks>"}, []string{"<eino frames only in the goroutine creation stacks>"}
		}
		sort.Strings(funcs)
		sort.Strings(sites)
		reports = append(reports, raceReport{function: funcs[0], sites: sites})
	}
	return reports, total
}

type raceOutcome struct {
	out      string
	err      error
	timedOut bool
	wall     time.Duration
}

func runRaceScript(timeout time.Duration, reps int) raceOutcome {
	start := time.Now()
	ctx, cancel := context.WithTimeout(context.Background(), timeout)
	defer cancel()
	cmd := exec.CommandContext(ctx, "/bin/bash", raceScript, fmt.Sprint(reps))
	cmd.SysProcAttr = &syscall.SysProcAttr{Setpgid: true}
	cmd.Cancel = func() error { return syscall.Kill(-cmd.Process.Pid, syscall.SIGKILL) }
	cmd.WaitDelay = 2 * time.Second
	var buf bytes.Buffer
	cmd.Stdout, cmd.Stderr = &buf, &buf
	err := cmd.Run()
	return raceOutcome{out: buf.String(), err: err, timedOut: ctx.Err() != nil, wall: time.Since(start)}
}

type raceRun struct{ done chan raceOutcome }

// startRacePass runs the script in the background of worker 0 (it only waits for a subprocess; the
// scheduler's executions do not depend on it).
func startRacePass(quick bool) *raceRun {
	r := &raceRun{done: make(chan raceOutcome, 1)}
	reps, limit := 6, 50*time.Second
	if !quick {
		reps, limit = 24, 120*time.Second
	}
	go func() { r.done <- runRaceScript(limit, reps) }()
	return r
}

func summaryLine(out string) string {
	for _, l := range strings.Split(out, "\n") {
		if strings.HasPrefix(l, "RACEPASS ") {
			return l
		}
	}
	return ""
}

func (r *raceRun) collect(c *harness.Ctx) {
	o := <-r.done
	c.Count("racepass_wall_ms", o.wall.Milliseconds())
	sum := summaryLine(o.out)
	reports, total := parseRaceReports(o.out)
	c.Count("racepass_reports_total", int64(total))
	c.Count("racepass_reports_with_eino_frames", int64(len(reports)))
	if o.timedOut || sum == "" {
		// not a verdict about the code: the race clause was not (fully) decided in this run; whatever the
		// detector reported before the pass stopped still counts
		tail := reAddr.ReplaceAllString(o.out, "0x?")
		if len(tail) > 600 {
			tail = tail[len(tail)-600:]
		}
		c.Res.Capped, c.Res.CapReason = true, "race pass did not complete (data-race clause undecided in this run)"
		c.Res.Notes = append(c.Res.Notes, fmt.Sprintf("race pass did not complete (timeout=%v, err=%v): %s", o.timedOut, o.err, tail))
	} else {
		c.Count("racepass_completed", 1)
		c.Res.Notes = append(c.Res.Notes, "race pass: "+sum)
	}
	for _, l := range strings.Split(o.out, "\n") {
		if strings.HasPrefix(l, "MISMATCH ") {
			c.Count("racepass_free_run_mismatches", 1)
			if len(c.Res.Notes) < 8 {
				c.Res.Notes = append(c.Res.Notes, "race pass (free run, not replayable): "+l)
			}
		}
	}
	seen := map[string]bool{}
	for _, rp := range reports {
		if seen[rp.function] {
			continue
		}
		seen[rp.function] = true
		c.Violate(harness.Violation{
			Scenario:  "racepass/" + rp.function,
			Signature: "data-race:" + rp.function,
			Case:      raceCase{RacePass: true, Function: rp.function},
			Msg:       fmt.Sprintf("the Go race detector reports a data race in framework code while 4 goroutines use one compiled object; conflicting accesses: %s", strings.Join(rp.sites, " and ")),
		})
	}
}

// replayRace re-runs the race pass up to 5 times; the violation stands iff the same function is reported again.
func replayRace(c *harness.Ctx, v *harness.Violation) {
	b, _ := json.Marshal(v.Case)
	var rc raceCase
	json.Unmarshal(b, &rc)
	for attempt := 1; attempt <= 5; attempt++ {
		o := runRaceScript(90*time.Second, 6)
		reports, _ := parseRaceReports(o.out)
		for _, rp := range reports {
			if rp.function == rc.Function {
				fmt.Printf("REPLAY-FAIL %s: data race reported again (attempt %d): %s\n", v.Scenario, attempt, strings.Join(rp.sites, " and "))
				os.Exit(1)
			}
		}
		if summaryLine(o.out) == "" {
			fmt.Printf("race pass did not complete on attempt %d: %v\n", attempt, o.err)
		}
	}
	fmt.Printf("REPLAY-PASS %s: no data race in %s reported in 5 race passes\n", v.Scenario, rc.Function)
	os.Exit(0)
}
