// C09 — a compiled runnable is safe for concurrent use; runs are isolated (Engine S + race pass).
//
// Scheduler part: ONE compiled object per execution, shared by 2 (thorough: 3) caller threads, each with its
// own input, per-call options, callback handler and paradigm; every interleaving of the callers (and of the
// goroutines their runs start) within the preemption bound is executed on the real, instrumented eino code.
// Oracle (differential): every caller observes exactly what it observes when it runs alone.
//
// Race part (the one clause a cooperative scheduler cannot see): racepass.sh builds the same objects
// natively with -race and runs them with 4 free goroutines; reports with eino frames become violations.
package main

import (
	"fmt"
	"strings"

	"github.com/cloudwego/eino/vsched"

	"verif/checks/c09/objs"
	"verif/lib/harness"
)

// verr is an oracle failure with its known-findings class.
type verr struct{ sig, msg string }

func (e *verr) Error() string { return e.msg }

func fail(sig, f string, a ...any) error { return &verr{sig: sig, msg: fmt.Sprintf(f, a...)} }

type spec struct {
	name      string
	kind      string
	paradigms []string // one per caller
	// warm: before the callers start, the main thread performs one complete run (as one more caller, Invoke)
	// on the shared object, so the concurrent runs meet an object that has already served a run. A lone
	// thread offers no scheduling alternatives, so this adds no interleavings.
	warm bool
}

// solo results, per (kind, caller, paradigm, map order): the caller alone on a freshly compiled object,
// default schedule.
var soloCache = map[string]*soloRes{}

type soloRes struct {
	snap objs.Snapshot
	err  error
}

func mapOrder() string {
	if vsched.MapOrderDesc {
		return "desc"
	}
	return "asc"
}

func solo(kind string, caller int, paradigm string) (objs.Snapshot, error) {
	key := fmt.Sprintf("%s/%d/%s/%s", kind, caller, paradigm, mapOrder())
	if s, ok := soloCache[key]; ok {
		return s.snap, s.err
	}
	s := &soloRes{}
	soloCache[key] = s
	obj, err := objs.Build(kind)
	if err != nil {
		s.err = fmt.Errorf("compile: %w", err)
		return s.snap, s.err
	}
	rec := objs.NewRec(caller)
	x := vsched.RunOnce(vsched.RunConfig{}, func() { obj.Call(rec, paradigm) })
	s.snap = rec.Snapshot()
	switch {
	case x.Deadlock || len(x.Blocked) > 0:
		s.err = fmt.Errorf("solo run of %s (%s) hangs or leaves goroutines blocked: %v", objs.Tag(caller), paradigm, x.Blocked)
	case x.MainPanic != "" || x.ThreadPanic != "":
		s.err = fmt.Errorf("solo run of %s (%s) panics: %s%s", objs.Tag(caller), paradigm, x.MainPanic, x.ThreadPanic)
	case !s.snap.Done:
		s.err = fmt.Errorf("solo run of %s (%s) did not return", objs.Tag(caller), paradigm)
	case s.snap.Err == "" && objs.Fails(kind):
		s.err = fmt.Errorf("solo run of %s (%s) succeeds although the object is built to fail", objs.Tag(caller), paradigm)
	case s.snap.Err != "" && !objs.Fails(kind):
		s.err = fmt.Errorf("solo run of %s (%s) fails: %s", objs.Tag(caller), paradigm, s.snap.Err)
	}
	if s.err == nil {
		// the solo observation itself must be clean: only the caller's own tag
		if w := foreign(s.snap, caller, 4); w != "" {
			s.err = fmt.Errorf("solo run of %s (%s) already contains a foreign tag: %s", objs.Tag(caller), paradigm, w)
		}
	}
	return s.snap, s.err
}

// foreign reports the first observation of caller i that carries another caller's tag.
func foreign(s objs.Snapshot, i int, n int) string {
	look := func(what string, items []string) string {
		for _, it := range items {
			for j := 0; j < n; j++ {
				if j != i && strings.Contains(it, objs.Tag(j)) {
					return fmt.Sprintf("%s of %s contains the payload of %s: %q", what, objs.Tag(i), objs.Tag(j), it)
				}
			}
		}
		return ""
	}
	for _, c := range []struct {
		what  string
		items []string
	}{{"the result", []string{s.Result}}, {"the error", []string{s.Err}}, {"the execution log", s.Log}, {"the received options", s.Opts}, {"the callback events", s.Events}} {
		if w := look(c.what, c.items); w != "" {
			return w
		}
	}
	return ""
}

func sameSeq(a, b []string, par bool) bool {
	if par {
		a, b = objs.Sorted(a), objs.Sorted(b)
	}
	if len(a) != len(b) {
		return false
	}
	for i := range a {
		if a[i] != b[i] {
			return false
		}
	}
	return true
}

func (sp *spec) build() (func(), func(x *vsched.Exec) (string, error)) {
	n := len(sp.paradigms)
	// everything here runs outside the scheduler: solo observations (cached) and a freshly compiled object
	// per execution, so that executions are independent of each other and replay is exact
	solos := make([]objs.Snapshot, n)
	var prepErr error
	for i := 0; i < n && prepErr == nil; i++ {
		solos[i], prepErr = solo(sp.kind, i, sp.paradigms[i])
	}
	var obj *objs.Object
	if prepErr == nil {
		var err error
		if obj, err = objs.Build(sp.kind); err != nil {
			prepErr = fmt.Errorf("compile: %w", err)
		}
	}
	total := n // callers whose tags may appear: the concurrent ones plus the warm-up caller
	var warmSolo objs.Snapshot
	if sp.warm {
		total = n + 1
		if prepErr == nil {
			warmSolo, prepErr = solo(sp.kind, n, "invoke")
		}
	}
	recs := make([]*objs.Rec, total)
	for i := range recs {
		recs[i] = objs.NewRec(i)
	}
	var order []byte // global order of body executions by caller: the shape of the interleaving (outcome statistic)
	objs.Trace = func(caller string) { order = append(order, caller[len(caller)-1]) }
	main := func() {
		if prepErr != nil {
			return
		}
		if sp.warm {
			obj.Call(recs[n], "invoke")
		}
		for i := 0; i < n; i++ {
			i := i
			vsched.GoNamed(objs.Tag(i), func() { obj.Call(recs[i], sp.paradigms[i]) })
		}
	}
	check := func(x *vsched.Exec) (string, error) {
		objs.Trace = nil
		if prepErr != nil {
			return "", fail("solo-run-broken", "%v", prepErr)
		}
		if x.MainPanic != "" || x.ThreadPanic != "" {
			return "", fail("panic", "panic while %d callers use one %s: %s%s", n, sp.kind, x.MainPanic, x.ThreadPanic)
		}
		if x.Deadlock {
			return "", fail("hang", "deadlock while %d callers use one %s: %v", n, sp.kind, x.Blocked)
		}
		var notDone []string
		snaps := make([]objs.Snapshot, total)
		par := append(append([]string{}, sp.paradigms...), "invoke")
		allSolos := append(append([]objs.Snapshot{}, solos...), warmSolo)
		for i, r := range recs {
			snaps[i] = r.Snapshot()
			if !snaps[i].Done {
				notDone = append(notDone, snaps[i].Caller)
			}
		}
		if len(notDone) > 0 {
			return "", fail("hang", "the run of %v never returns while %d callers use one %s; blocked: %v", notDone, n, sp.kind, x.Blocked)
		}
		if len(x.Blocked) > 0 {
			return "", fail("leak", "goroutines left blocked after all callers returned: %v", x.Blocked)
		}
		for i, s := range snaps {
			if w := foreign(s, i, total); w != "" {
				return "", fail("foreign-payload", "runs are not isolated: %s", w)
			}
		}
		for i, s := range snaps {
			so := allSolos[i]
			who := fmt.Sprintf("%s (%s)", s.Caller, par[i])
			switch {
			case s.Err != so.Err:
				return "", fail("result-differs", "%s fails with %q next to another caller, alone it fails with %q", who, s.Err, so.Err)
			case s.Result != so.Result:
				return "", fail("result-differs", "%s gets %q next to another caller, alone it gets %q", who, s.Result, so.Result)
			case !sameSeq(s.Log, so.Log, obj.Par):
				return "", fail("log-differs", "execution log of %s next to another caller is %q, alone it is %q", who, s.Log, so.Log)
			case !sameSeq(s.Opts, so.Opts, obj.Par):
				return "", fail("options-differ", "per-call options received in the run of %s next to another caller are %q, alone they are %q", who, s.Opts, so.Opts)
			case !sameSeq(s.Events, so.Events, obj.Par):
				return "", fail("events-differ", "callback events of %s's handler next to another caller are %q, alone they are %q", who, s.Events, so.Events)
			}
		}
		return string(order), nil
	}
	return main, check
}

func mixes(kindParadigms []string, callers int, quick bool) [][]string {
	has := func(p string) bool {
		for _, k := range kindParadigms {
			if k == p {
				return true
			}
		}
		return false
	}
	var all [][]string
	if callers == 2 {
		all = [][]string{{"invoke", "stream"}, {"stream", "invoke"}, {"invoke", "invoke"}, {"stream", "stream"}}
		if !quick {
			all = append(all, []string{"collect", "transform"}, []string{"transform", "invoke"}, []string{"stream", "collect"}, []string{"transform", "transform"})
		}
	} else {
		all = [][]string{{"invoke", "stream", "invoke"}, {"stream", "invoke", "stream"}, {"collect", "transform", "invoke"}, {"stream", "stream", "transform"}}
	}
	var out [][]string
	for _, m := range all {
		ok := true
		for _, p := range m {
			if !has(p) {
				ok = false
			}
		}
		if ok {
			out = append(out, m)
		}
	}
	return out
}

func main() {
	c := harness.Init("C09")
	c.Res.Rule = "scenario = compiled object (Pregel graph with per-run state, state pre/post handlers, ProcessState in bodies and a payload-driven branch; all-predecessor graph with fan-out; Workflow with field mappings (thorough: also with a data-only input from START, which adds stream copy / merge goroutines); nested graph with its own inner state; ReAct agent without and with a return-directly tool; host multi-agent with two specialists) x assignment of paradigms to the callers (Invoke/Stream, thorough also Collect/Transform) ; 2 callers in quick, 2 and 3 in thorough; one variant per object in which the shared object has already served a complete run (warm-up by the main thread) before the callers start; each caller has its own tagged input, its own undesignated and designated per-call options (lambda / chat-model / tool options), its own callback handler (and hand-off callback); node, model and tool bodies yield once; every interleaving of the caller threads and of the goroutines started by their runs at channel/lock/select/spawn/yield points within the preemption bound, both map iteration orders; non-trivial/distinct = distinct scheduling signatures of scenarios with >= 2 of them; distinct outcomes = distinct global orders in which the callers' bodies executed"
	c.Res.Assumptions = []string{
		"sequential consistency at synchronisation granularity; bodies are atomic between their explicit yields, framework code between two synchronisation operations is atomic",
		"no happens-before state caching: the property is the ABSENCE of shared mutable state, plain-memory sharing is exactly what must be caught",
		"map iteration order restricted to ascending and descending key order (both explored)",
		"the object is compiled freshly for every execution, outside the scheduler (compilation is not part of the property); the solo observations come from a separately compiled object run alone under the default schedule",
		"the clause 'no data race occurs in framework code' is decided by the Go race detector on free runs of the same objects (4 goroutines x repetitions, racepass.sh): happens-before based, scenario-enumerating, NOT an exhaustive interleaving search; such violations replay by re-running the race pass (up to 5 attempts)",
	}
	c.Res.Explanation = "stateless exhaustive exploration (iterative preemption bounding) of concurrent runs of ONE compiled object under the controlled scheduler; differential oracle per execution: each caller's result / error, execution log, received per-call options and the events delivered to its own callback handler equal those of its solo run, no observation of a caller contains another caller's tag, no deadlock, no escaped panic, nothing left blocked. The data-race clause is checked separately by a native -race pass over the same object builders."
	quick := c.Quick()
	bounds := []int{0, 1, 2}
	callerCounts := []int{2}
	if !quick {
		bounds = []int{0, 1, 2, 3}
		callerCounts = []int{2, 3}
	}

	if v := c.LoadReplay(); v != nil && isRaceCase(v.Case) {
		replayRace(c, v)
	}
	var race *raceRun
	if c.Worker == 0 && c.Replay == "" && (c.Only == "" || strings.Contains("racepass", c.Only)) {
		race = startRacePass(quick)
	}

	type item struct {
		kind    string
		mix     []string
		warm    bool
		callers int
	}
	var items []item
	for _, callers := range callerCounts {
		for _, kind := range objs.Kinds(!quick) {
			ps, _ := objs.Describe(kind)
			for mi, mix := range mixes(ps, callers, quick) {
				if kind == "workflow-fanin" {
					// every streaming caller of this object adds 3 forwarder goroutines (10 threads with two of
					// them: > 10^5 executions at bound 0 alone): at most one streaming caller, 2 callers
					streaming := 0
					for _, p := range mix {
						if p == "stream" || p == "transform" {
							streaming++
						}
					}
					if callers == 3 || streaming > 1 {
						continue
					}
				}
				items = append(items, item{kind, mix, false, callers})
				if mi == 0 && callers == 2 {
					items = append(items, item{kind, mix, true, callers})
				}
			}
		}
	}
	for _, it := range items {
		_, par := objs.Describe(it.kind)
		sp := &spec{kind: it.kind, paradigms: it.mix, warm: it.warm}
		sp.name = fmt.Sprintf("%s/%s", it.kind, strings.Join(it.mix, "+"))
		if it.warm {
			sp.name += "/after-a-warm-up-run"
		}
		b := bounds
		if !quick && (it.callers == 3 || par) {
			b = bounds[:len(bounds)-1] // 3 callers / intra-run parallelism: one level less than the sequential 2-caller scenarios
			if it.callers == 3 && par {
				b = bounds[:len(bounds)-2]
			}
		}
		sc := harness.Scenario{Name: sp.name, Bounds: b, MaxExecs: 3_000_000, New: sp.build,
			Signature: func(err error) string {
				if ve, ok := err.(*verr); ok {
					return sp.kind + "/" + ve.sig
				}
				return sp.kind + "/other"
			}}
		if c.Replay != "" {
			c.ReplayScenario(sc)
			continue
		}
		if !c.Mine(sp.name) {
			continue
		}
		c.Sample(map[string]any{"scenario": sp.name, "callers": it.callers, "paradigms": it.mix, "bounds": b, "warm_up_run": it.warm})
		c.Add(sc)
	}
	c.ExploreAll()
	if race != nil {
		race.collect(c)
	}
	c.Finish()
}
