#!/bin/bash
# Race pass of C09: builds checks/c09/racepass natively with -race (eino as it is, no rewriting; only the
# vsched package is overlaid because the shared object builders import it) and runs it.
# Output: the program's RACEPASS/MISMATCH lines and the race detector's reports (stderr), merged.
# Exit: the program's exit code (66 when the detector reported races), 3 when the build failed.
# VERIF_PATCH_DIR (development aid, like ./check): replacement files laid out like /repo are overlaid too.
set -u
export GOFLAGS=-mod=mod GOPROXY=off GOSUMDB=off GOTOOLCHAIN=local CGO_ENABLED=1
VERIF=/verif
REPO=/repo
work=$(mktemp -d /tmp/verif-c09-race-XXXXXX) || exit 3
trap 'rm -rf "$work"' EXIT

{
  echo '{"Replace":{'
  first=1
  for sub in "" vsync vatomic; do
    for f in "$VERIF/engine/vsched/$sub"/*.go; do
      case "$f" in *_test.go) continue;; esac
      [ -f "$f" ] || continue
      [ $first = 1 ] || echo ','
      first=0
      rel="vsched/${sub:+$sub/}$(basename "$f")"
      printf '"%s/%s": "%s"' "$REPO" "$rel" "$f"
    done
  done
  if [ -n "${VERIF_PATCH_DIR:-}" ] && [ -d "$VERIF_PATCH_DIR" ]; then
    while IFS= read -r f; do
      rel="${f#"$VERIF_PATCH_DIR"/}"
      echo ','
      printf '"%s/%s": "%s"' "$REPO" "$rel" "$f"
    done < <(find "$VERIF_PATCH_DIR" -name '*.go' -type f | sort)
  fi
  echo '}}'
} > "$work/overlay.json"

cd "$VERIF" || exit 3
cover=()
if [ -n "${RACEPASS_COVER:-}" ]; then
  e=github.com/cloudwego/eino
  cover=(-cover "-coverpkg=$e/compose,$e/schema,$e/callbacks,$e/internal/...,$e/flow/...,$e/utils/...,$e/components/...,verif/checks/c09/racepass")
  mkdir -p "$RACEPASS_COVER"
  export GOCOVERDIR="$RACEPASS_COVER"
fi
if ! go build -race "${cover[@]}" -overlay "$work/overlay.json" -o "$work/racepass" ./checks/c09/racepass 2>&1; then
  echo "racepass.sh: build failed"
  exit 3
fi
GOMAXPROCS=4 GORACE="halt_on_error=0" timeout 30 "$work/racepass" "$@" 2>&1
