package objs

import (
	"context"
	"fmt"
	"strings"
	"sync"

	"github.com/cloudwego/eino/compose"
	"github.com/cloudwego/eino/schema"
	"github.com/cloudwego/eino/vsched"

	"verif/lib/gprog"
)

// TagOpt is the per-call lambda option: it carries the tag of the caller that passed it.
type TagOpt struct{ Tag string }

// St is the per-run graph state of the state-carrying objects.
type St struct{ Log []string }

func sv(in Val, k string) string {
	s, _ := in[k].(string)
	return s
}

// lam is an instrumented lambda: it logs its execution and the options it received into the run's record
// (found in the context), takes time (one yield) and computes f.
func lam(path string, f func(ctx context.Context, in Val) (Val, error)) *compose.Lambda {
	return compose.InvokableLambdaWithOption(func(ctx context.Context, in Val, opts ...TagOpt) (Val, error) {
		r := recOf(ctx)
		r.addLog(path + "(" + gprog.Canon(in) + ")")
		for _, o := range opts {
			r.addOpt(path + "<-" + o.Tag)
		}
		vsched.Yield()
		return f(ctx, in)
	})
}

func chain(path string) func(ctx context.Context, in Val) (Val, error) {
	return func(ctx context.Context, in Val) (Val, error) { return Val{"v": sv(in, "v") + ">" + path}, nil }
}

func drainVal(sr *schema.StreamReader[Val]) (string, error) {
	v, err, dup := gprog.Drain(sr)
	if err != nil {
		return "", err
	}
	if dup {
		return "", fmt.Errorf("a key arrived twice in the output stream: %s", gprog.Canon(v))
	}
	return gprog.Canon(v), nil
}

// callVal runs a Val->Val runnable in one of the four paradigms.
func callVal(ctx context.Context, run compose.Runnable[Val, Val], paradigm string, in Val, opts []compose.Option) (string, error) {
	switch paradigm {
	case "invoke":
		v, err := run.Invoke(ctx, in, opts...)
		if err != nil {
			return "", err
		}
		return gprog.Canon(v), nil
	case "stream":
		sr, err := run.Stream(ctx, in, opts...)
		if err != nil {
			return "", err
		}
		return drainVal(sr)
	case "collect":
		v, err := run.Collect(ctx, schema.StreamReaderFromArray([]Val{in}), opts...)
		if err != nil {
			return "", err
		}
		return gprog.Canon(v), nil
	case "transform":
		sr, err := run.Transform(ctx, schema.StreamReaderFromArray([]Val{in}), opts...)
		if err != nil {
			return "", err
		}
		return drainVal(sr)
	}
	return "", fmt.Errorf("unknown paradigm %q", paradigm)
}

var valParadigms = []string{"invoke", "stream", "collect", "transform"}

func valInput(r *Rec) Val { return Val{"v": "in-" + r.Caller} }

// commonOpts: an undesignated lambda option carrying the caller's tag + the caller's own callback handler.
func commonOpts(r *Rec) []compose.Option {
	return []compose.Option{
		compose.WithLambdaOption(TagOpt{Tag: r.Caller}),
		compose.WithCallbacks(Handler(r)),
	}
}

// ---------------------------------------------------------------------------------------------------
// Pregel graph with state + branch: n1 -> (left | right, chosen from the run's payload) -> fin.
// n1 has state pre/post handlers that append to the state's log, its body appends through ProcessState;
// fin publishes the state's log in the result.

func buildPregelState() (*Object, error) {
	g := compose.NewGraph[Val, Val](compose.WithGenLocalState(func(ctx context.Context) *St { return &St{} }))
	pre := func(path string) compose.GraphAddNodeOpt {
		return compose.WithStatePreHandler(func(ctx context.Context, in Val, st *St) (Val, error) {
			st.Log = append(st.Log, "pre:"+path+":"+sv(in, "v"))
			return in, nil
		})
	}
	post := func(path string) compose.GraphAddNodeOpt {
		return compose.WithStatePostHandler(func(ctx context.Context, out Val, st *St) (Val, error) {
			st.Log = append(st.Log, "post:"+path+":"+sv(out, "v"))
			return out, nil
		})
	}
	body := func(path string) func(ctx context.Context, in Val) (Val, error) {
		return func(ctx context.Context, in Val) (Val, error) {
			err := compose.ProcessState(ctx, func(_ context.Context, st *St) error {
				st.Log = append(st.Log, "body:"+path+":"+sv(in, "v"))
				return nil
			})
			if err != nil {
				return nil, err
			}
			return Val{"v": sv(in, "v") + ">" + path}, nil
		}
	}
	fin := func(ctx context.Context, in Val) (Val, error) {
		var log string
		err := compose.ProcessState(ctx, func(_ context.Context, st *St) error {
			log = strings.Join(st.Log, "|")
			return nil
		})
		if err != nil {
			return nil, err
		}
		return Val{"v": sv(in, "v") + ">fin", "state": log}, nil
	}
	errs := []error{
		g.AddLambdaNode("n1", lam("n1", body("n1")), compose.WithNodeName("n1"), pre("n1"), post("n1")),
		g.AddLambdaNode("left", lam("left", body("left")), compose.WithNodeName("left"), post("left")),
		g.AddLambdaNode("right", lam("right", body("right")), compose.WithNodeName("right"), pre("right")),
		g.AddLambdaNode("fin", lam("fin", fin), compose.WithNodeName("fin")),
		g.AddEdge(compose.START, "n1"),
		g.AddBranch("n1", compose.NewGraphBranch(func(ctx context.Context, in Val) (string, error) {
			// the route is a function of the run's own payload: callers A, C go left, B, D go right
			v := sv(in, "v")
			if strings.Contains(v, "callerA") || strings.Contains(v, "callerC") {
				return "left", nil
			}
			return "right", nil
		}, map[string]bool{"left": true, "right": true})),
		g.AddEdge("left", "fin"),
		g.AddEdge("right", "fin"),
		g.AddEdge("fin", compose.END),
	}
	for _, e := range errs {
		if e != nil {
			return nil, e
		}
	}
	run, err := g.Compile(context.Background(), compose.WithGraphName("PS"))
	if err != nil {
		return nil, err
	}
	return &Object{Kind: "pregel-state-branch", Paradigms: valParadigms,
		call: func(ctx context.Context, r *Rec, paradigm string) (string, error) {
			opts := append(commonOpts(r), compose.WithLambdaOption(TagOpt{Tag: r.Caller + "@n1"}).DesignateNode("n1"))
			return callVal(ctx, run, paradigm, valInput(r), opts)
		}}, nil
}

// ---------------------------------------------------------------------------------------------------
// all-predecessor graph with fan-out: START -> a, b (parallel) -> j -> END

func buildDag() (*Object, error) {
	g := compose.NewGraph[Val, Val]()
	errs := []error{
		g.AddLambdaNode("a", lam("a", func(ctx context.Context, in Val) (Val, error) { return Val{"a": sv(in, "v") + ">a"}, nil }), compose.WithNodeName("a")),
		g.AddLambdaNode("b", lam("b", func(ctx context.Context, in Val) (Val, error) { return Val{"b": sv(in, "v") + ">b"}, nil }), compose.WithNodeName("b")),
		g.AddLambdaNode("j", lam("j", func(ctx context.Context, in Val) (Val, error) {
			return Val{"v": sv(in, "a") + "&" + sv(in, "b") + ">j"}, nil
		}), compose.WithNodeName("j")),
		g.AddEdge(compose.START, "a"), g.AddEdge(compose.START, "b"),
		g.AddEdge("a", "j"), g.AddEdge("b", "j"), g.AddEdge("j", compose.END),
	}
	for _, e := range errs {
		if e != nil {
			return nil, e
		}
	}
	run, err := g.Compile(context.Background(), compose.WithGraphName("DAG"), compose.WithNodeTriggerMode(compose.AllPredecessor))
	if err != nil {
		return nil, err
	}
	return &Object{Kind: "dag-fanout", Par: true, Paradigms: valParadigms,
		call: func(ctx context.Context, r *Rec, paradigm string) (string, error) {
			opts := append(commonOpts(r), compose.WithLambdaOption(TagOpt{Tag: r.Caller + "@b"}).DesignateNode("b"))
			return callVal(ctx, run, paradigm, valInput(r), opts)
		}}, nil
}

// ---------------------------------------------------------------------------------------------------
// Interrupt + resume on a shared runnable: START -> a -> b -> END with state, interrupt after a, ONE checkpoint store
// for all callers (each caller uses its own checkpoint id). A call of this object is two runs: the first ends with
// the interrupt, the second resumes it in the same paradigm. The checkpoint written at the interrupt is converted
// according to the paradigm of the run that wrote it: the callers' paradigms differ.

func init() { _ = compose.RegisterSerializableType[St]("verif_c09_st") }

type cpStore struct {
	mu sync.Mutex // never held across a scheduling point
	m  map[string][]byte
}

func (s *cpStore) Get(ctx context.Context, id string) ([]byte, bool, error) {
	s.mu.Lock()
	defer s.mu.Unlock()
	b, ok := s.m[id]
	return append([]byte{}, b...), ok, nil
}

func (s *cpStore) Set(ctx context.Context, id string, b []byte) error {
	s.mu.Lock()
	defer s.mu.Unlock()
	s.m[id] = append([]byte{}, b...)
	return nil
}

func buildInterrupt() (*Object, error) {
	store := &cpStore{m: map[string][]byte{}}
	g := compose.NewGraph[Val, Val](compose.WithGenLocalState(func(ctx context.Context) *St { return &St{} }))
	errs := []error{
		g.AddLambdaNode("a", lam("a", chain("a")), compose.WithNodeName("a"),
			compose.WithStatePostHandler(func(ctx context.Context, out Val, st *St) (Val, error) {
				st.Log = append(st.Log, "post:a:"+sv(out, "v"))
				return out, nil
			})),
		g.AddLambdaNode("b", lam("b", func(ctx context.Context, in Val) (Val, error) {
			var log []string
			err := compose.ProcessState(ctx, func(_ context.Context, st *St) error {
				log = append([]string{}, st.Log...)
				return nil
			})
			return Val{"v": sv(in, "v") + ">b", "state": strings.Join(log, ",")}, err
		}), compose.WithNodeName("b")),
		g.AddEdge(compose.START, "a"), g.AddEdge("a", "b"), g.AddEdge("b", compose.END),
	}
	for _, e := range errs {
		if e != nil {
			return nil, e
		}
	}
	run, err := g.Compile(context.Background(), compose.WithGraphName("INT"), compose.WithCheckPointStore(store),
		compose.WithInterruptAfterNodes([]string{"a"}))
	if err != nil {
		return nil, err
	}
	return &Object{Kind: "interrupt-resume", Paradigms: valParadigms,
		call: func(ctx context.Context, r *Rec, paradigm string) (string, error) {
			opts := append(commonOpts(r), compose.WithCheckPointID("cp-"+r.Caller))
			res, err := callVal(ctx, run, paradigm, valInput(r), opts)
			info, ok := compose.ExtractInterruptInfo(err)
			if !ok {
				return "", fmt.Errorf("expected the interrupt after a, got result %q and error %v", res, err)
			}
			res, err = callVal(ctx, run, paradigm, valInput(r), opts)
			return fmt.Sprintf("interrupt{after=%v} then %s", info.AfterNodes, res), err
		}}, nil
}

// ---------------------------------------------------------------------------------------------------
// Workflow with field mappings.
//   workflow-map  : START.v -> a.x ; a.v -> b.p, a.w -> b.q ; b.v -> END.r
//   workflow-fanin: additionally START.v ~> b.s (data only, no direct dependency): in stream paradigms the
//                   input stream is copied and b's inputs are merged by forwarder goroutines (more threads).

func buildWorkflow(fanin bool) (*Object, error) {
	wf := compose.NewWorkflow[Val, Val]()
	wf.AddLambdaNode("a", lam("a", func(ctx context.Context, in Val) (Val, error) {
		return Val{"v": sv(in, "x") + ">a", "w": "w-of-" + sv(in, "x")}, nil
	}), compose.WithNodeName("a")).
		AddInput(compose.START, compose.MapFields("v", "x"))
	b := wf.AddLambdaNode("b", lam("b", func(ctx context.Context, in Val) (Val, error) {
		return Val{"v": sv(in, "p") + "+" + sv(in, "q") + "+" + sv(in, "s") + ">b"}, nil
	}), compose.WithNodeName("b")).
		AddInput("a", compose.MapFields("v", "p"), compose.MapFields("w", "q"))
	kind := "workflow-map"
	if fanin {
		kind = "workflow-fanin"
		b.AddInputWithOptions(compose.START, []*compose.FieldMapping{compose.MapFields("v", "s")}, compose.WithNoDirectDependency())
	}
	wf.End().AddInput("b", compose.MapFields("v", "r"))
	run, err := wf.Compile(context.Background(), compose.WithGraphName("WF"))
	if err != nil {
		return nil, err
	}
	return &Object{Kind: kind, Par: fanin, Paradigms: valParadigms,
		call: func(ctx context.Context, r *Rec, paradigm string) (string, error) {
			opts := append(commonOpts(r), compose.WithLambdaOption(TagOpt{Tag: r.Caller + "@a"}).DesignateNode("a"))
			return callVal(ctx, run, paradigm, valInput(r), opts)
		}}, nil
}

// ---------------------------------------------------------------------------------------------------
// nested graph: outer o1 -> sub -> END ; sub (own per-run state) = x -> y ; y publishes the inner state's log.

func buildNested() (*Object, error) {
	sub := compose.NewGraph[Val, Val](compose.WithGenLocalState(func(ctx context.Context) *St { return &St{} }))
	errs := []error{
		sub.AddLambdaNode("x", lam("sub/x", chain("x")), compose.WithNodeName("x"),
			compose.WithStatePreHandler(func(ctx context.Context, in Val, st *St) (Val, error) {
				st.Log = append(st.Log, "pre:x:"+sv(in, "v"))
				return in, nil
			})),
		sub.AddLambdaNode("y", lam("sub/y", func(ctx context.Context, in Val) (Val, error) {
			var log string
			err := compose.ProcessState(ctx, func(_ context.Context, st *St) error {
				st.Log = append(st.Log, "body:y:"+sv(in, "v"))
				log = strings.Join(st.Log, "|")
				return nil
			})
			if err != nil {
				return nil, err
			}
			return Val{"v": sv(in, "v") + ">y", "state": log}, nil
		}), compose.WithNodeName("y")),
		sub.AddEdge(compose.START, "x"), sub.AddEdge("x", "y"), sub.AddEdge("y", compose.END),
	}
	g := compose.NewGraph[Val, Val]()
	errs = append(errs,
		g.AddLambdaNode("o1", lam("o1", chain("o1")), compose.WithNodeName("o1")),
		g.AddGraphNode("sub", sub, compose.WithNodeName("sub")),
		g.AddEdge(compose.START, "o1"), g.AddEdge("o1", "sub"), g.AddEdge("sub", compose.END))
	for _, e := range errs {
		if e != nil {
			return nil, e
		}
	}
	run, err := g.Compile(context.Background(), compose.WithGraphName("NEST"))
	if err != nil {
		return nil, err
	}
	return &Object{Kind: "nested", Paradigms: valParadigms,
		call: func(ctx context.Context, r *Rec, paradigm string) (string, error) {
			opts := append(commonOpts(r),
				compose.WithLambdaOption(TagOpt{Tag: r.Caller + "@sub/x"}).DesignateNodeWithPath(compose.NewNodePath("sub", "x")))
			return callVal(ctx, run, paradigm, valInput(r), opts)
		}}, nil
}

// ---------------------------------------------------------------------------------------------------
// nested graph whose inner run exceeds its step limit: START -> o1 -> sub{x <-> y, never leaving} -> END.
// Every run of this object FAILS, with an error the framework makes itself (step limit, wrapped with the
// node path on its way out). The error a caller gets, and the error events of its handler, must be those of
// its solo run: a failing run is as isolated as a successful one.

func buildNestedStepLimit() (*Object, error) {
	sub := compose.NewGraph[Val, Val]()
	errs := []error{
		sub.AddLambdaNode("x", lam("sub/x", chain("x")), compose.WithNodeName("x")),
		sub.AddLambdaNode("y", lam("sub/y", chain("y")), compose.WithNodeName("y")),
		sub.AddEdge(compose.START, "x"), sub.AddEdge("x", "y"),
		sub.AddBranch("y", compose.NewGraphBranch(func(ctx context.Context, in Val) (string, error) { return "x", nil },
			map[string]bool{"x": true, compose.END: true})),
	}
	g := compose.NewGraph[Val, Val]()
	errs = append(errs,
		g.AddLambdaNode("o1", lam("o1", chain("o1")), compose.WithNodeName("o1")),
		g.AddGraphNode("sub", sub, compose.WithNodeName("sub"), compose.WithGraphCompileOptions(compose.WithMaxRunSteps(3))),
		g.AddEdge(compose.START, "o1"), g.AddEdge("o1", "sub"), g.AddEdge("sub", compose.END))
	for _, e := range errs {
		if e != nil {
			return nil, e
		}
	}
	run, err := g.Compile(context.Background(), compose.WithGraphName("NESTLIMIT"))
	if err != nil {
		return nil, err
	}
	return &Object{Kind: "nested-steplimit", Paradigms: valParadigms,
		call: func(ctx context.Context, r *Rec, paradigm string) (string, error) {
			return callVal(ctx, run, paradigm, valInput(r), commonOpts(r))
		}}, nil
}
