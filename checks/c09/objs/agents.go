package objs

import (
	"context"
	"fmt"
	"io"
	"strings"

	"github.com/cloudwego/eino/components/model"
	"github.com/cloudwego/eino/components/tool"
	"github.com/cloudwego/eino/compose"
	"github.com/cloudwego/eino/flow/agent"
	"github.com/cloudwego/eino/flow/agent/multiagent/host"
	"github.com/cloudwego/eino/flow/agent/react"
	"github.com/cloudwego/eino/schema"
	"github.com/cloudwego/eino/vsched"
)

// per-call component options carrying the caller's tag
type modelTag struct{ Tag string }
type toolTag struct{ Tag string }

func contents(ms []*schema.Message) string {
	p := make([]string, len(ms))
	for i, m := range ms {
		if m == nil {
			p[i] = "<nil>"
			continue
		}
		p[i] = string(m.Role) + ":" + m.Content
	}
	return strings.Join(p, ";")
}

// tagIn finds the caller tag inside a text (the components answer from what they are given).
func tagIn(s string) string {
	for _, t := range tags {
		if strings.Contains(s, t) {
			return t
		}
	}
	return "nobody"
}

func drainMsg(sr *schema.StreamReader[*schema.Message]) (string, error) {
	defer sr.Close()
	var ms []*schema.Message
	for {
		m, err := sr.Recv()
		if err == io.EOF {
			break
		}
		if err != nil {
			return "", err
		}
		ms = append(ms, m)
	}
	if len(ms) == 0 {
		return "", fmt.Errorf("empty output stream")
	}
	m, err := schema.ConcatMessages(ms)
	if err != nil {
		return "", err
	}
	return renderMsg(m), nil
}

// ---------------------------------------------------------------------------------------------------
// scripted chat model for the ReAct agent. It answers from its INPUT only:
//   last message is the user's question  -> one tool call; which tool is chosen from the question
//                                           (callers A, C ask for `final` when it exists, others for `echo`)
//   last message is a tool result        -> the final answer, quoting the WHOLE history it was given

type reactModel struct{ hasFinal bool }

func (m *reactModel) answer(ctx context.Context, in []*schema.Message, opts []model.Option) *schema.Message {
	r := recOf(ctx)
	r.addLog("model(" + contents(in) + ")")
	if t := model.GetImplSpecificOptions(&modelTag{}, opts...).Tag; t != "" {
		r.addOpt("model<-" + t)
	}
	vsched.Yield()
	last := in[len(in)-1]
	if last.Role == schema.Tool {
		return &schema.Message{Role: schema.Assistant, Content: "answer(" + contents(in) + ")"}
	}
	who := tagIn(last.Content)
	if who == "" {
		// callers that share one input: the caller is known from the per-call model option only
		who = model.GetImplSpecificOptions(&modelTag{}, opts...).Tag
	}
	name := "echo"
	if m.hasFinal && (who == "callerA" || who == "callerC") {
		name = "final"
	}
	return &schema.Message{Role: schema.Assistant, ToolCalls: []schema.ToolCall{{ID: "call-" + who, Function: schema.FunctionCall{Name: name, Arguments: "arg-" + who}}}}
}

func (m *reactModel) Generate(ctx context.Context, in []*schema.Message, opts ...model.Option) (*schema.Message, error) {
	return m.answer(ctx, in, opts), nil
}

func (m *reactModel) Stream(ctx context.Context, in []*schema.Message, opts ...model.Option) (*schema.StreamReader[*schema.Message], error) {
	msg := m.answer(ctx, in, opts)
	if len(msg.ToolCalls) > 0 || len(msg.Content) < 2 {
		return schema.StreamReaderFromArray([]*schema.Message{msg}), nil
	}
	h := len(msg.Content) / 2
	return schema.StreamReaderFromArray([]*schema.Message{
		{Role: schema.Assistant, Content: msg.Content[:h]},
		{Role: schema.Assistant, Content: msg.Content[h:]},
	}), nil
}

func (m *reactModel) WithTools(tools []*schema.ToolInfo) (model.ToolCallingChatModel, error) {
	return m, nil
}

type recTool struct{ name string }

func (t *recTool) Info(ctx context.Context) (*schema.ToolInfo, error) {
	return &schema.ToolInfo{Name: t.name, Desc: t.name}, nil
}

func (t *recTool) InvokableRun(ctx context.Context, args string, opts ...tool.Option) (string, error) {
	r := recOf(ctx)
	r.addLog(t.name + "(" + args + ")@" + compose.GetToolCallID(ctx))
	if tg := tool.GetImplSpecificOptions(&toolTag{}, opts...).Tag; tg != "" {
		r.addOpt(t.name + "<-" + tg)
	}
	vsched.Yield()
	return t.name + "(" + args + ")", nil
}

func buildReact(returnDirectly bool) (*Object, error) {
	cfg := &react.AgentConfig{
		ToolCallingModel: &reactModel{hasFinal: returnDirectly},
		ToolsConfig:      compose.ToolsNodeConfig{Tools: []tool.BaseTool{&recTool{"echo"}}},
		MaxStep:          12,
	}
	kind := "react"
	if returnDirectly {
		kind = "react-rd"
		cfg.ToolsConfig.Tools = append(cfg.ToolsConfig.Tools, &recTool{"final"})
		cfg.ToolReturnDirectly = map[string]struct{}{"final": {}}
	}
	ag, err := react.NewAgent(context.Background(), cfg)
	if err != nil {
		return nil, err
	}
	return &Object{Kind: kind, Paradigms: []string{"invoke", "stream"},
		call: func(ctx context.Context, r *Rec, paradigm string) (string, error) {
			in := []*schema.Message{schema.UserMessage("question of " + r.Caller)}
			tg := r.Caller
			opt := agent.WithComposeOptions(
				compose.WithCallbacks(Handler(r)),
				compose.WithChatModelOption(model.WrapImplSpecificOptFn(func(o *modelTag) { o.Tag = tg })),
				compose.WithToolsNodeOption(compose.WithToolOption(tool.WrapImplSpecificOptFn(func(o *toolTag) { o.Tag = tg }))),
			)
			if paradigm == "stream" {
				sr, err := ag.Stream(ctx, in, opt)
				if err != nil {
					return "", err
				}
				return drainMsg(sr)
			}
			m, err := ag.Generate(ctx, in, opt)
			if err != nil {
				return "", err
			}
			return renderMsg(m), nil
		}}, nil
}

// buildReactShared: like react, but every caller passes the SAME input slice (one common question, spare
// capacity behind it). The input belongs to the callers; a run must not keep its history in it.
func buildReactShared() (*Object, error) {
	cfg := &react.AgentConfig{
		ToolCallingModel: &reactModel{},
		ToolsConfig:      compose.ToolsNodeConfig{Tools: []tool.BaseTool{&recTool{"echo"}}},
		MaxStep:          12,
	}
	ag, err := react.NewAgent(context.Background(), cfg)
	if err != nil {
		return nil, err
	}
	shared := make([]*schema.Message, 1, 8)
	shared[0] = schema.UserMessage("common question")
	return &Object{Kind: "react-shared-input", Paradigms: []string{"invoke", "stream"},
		call: func(ctx context.Context, r *Rec, paradigm string) (string, error) {
			tg := r.Caller
			opt := agent.WithComposeOptions(
				compose.WithCallbacks(Handler(r)),
				compose.WithChatModelOption(model.WrapImplSpecificOptFn(func(o *modelTag) { o.Tag = tg })),
				compose.WithToolsNodeOption(compose.WithToolOption(tool.WrapImplSpecificOptFn(func(o *toolTag) { o.Tag = tg }))),
			)
			if paradigm == "stream" {
				sr, err := ag.Stream(ctx, shared, opt)
				if err != nil {
					return "", err
				}
				return drainMsg(sr)
			}
			m, err := ag.Generate(ctx, shared, opt)
			if err != nil {
				return "", err
			}
			return renderMsg(m), nil
		}}, nil
}

// ---------------------------------------------------------------------------------------------------
// host multi-agent: the host model hands off to a specialist chosen from the question (callers A, C ->
// sp1, others -> sp2); the specialists answer from the messages the flow keeps in its per-run state.

type hostModel struct{}

func (m *hostModel) answer(ctx context.Context, in []*schema.Message, opts []model.Option) *schema.Message {
	r := recOf(ctx)
	r.addLog("host(" + contents(in) + ")")
	if t := model.GetImplSpecificOptions(&modelTag{}, opts...).Tag; t != "" {
		r.addOpt("host<-" + t)
	}
	vsched.Yield()
	who := tagIn(in[len(in)-1].Content)
	sp := "sp2"
	if who == "callerA" || who == "callerC" {
		sp = "sp1"
	}
	return &schema.Message{Role: schema.Assistant, ToolCalls: []schema.ToolCall{{ID: "handoff-" + who, Function: schema.FunctionCall{Name: sp, Arguments: "reason-" + who}}}}
}

func (m *hostModel) Generate(ctx context.Context, in []*schema.Message, opts ...model.Option) (*schema.Message, error) {
	return m.answer(ctx, in, opts), nil
}

func (m *hostModel) Stream(ctx context.Context, in []*schema.Message, opts ...model.Option) (*schema.StreamReader[*schema.Message], error) {
	return schema.StreamReaderFromArray([]*schema.Message{m.answer(ctx, in, opts)}), nil
}

func (m *hostModel) WithTools(tools []*schema.ToolInfo) (model.ToolCallingChatModel, error) {
	return m, nil
}

// handOff is the caller's host.MultiAgentCallback; like Handler it records into its owner's record.
type handOff struct{ owner *Rec }

func (h *handOff) OnHandOff(ctx context.Context, info *host.HandOffInfo) context.Context {
	h.owner.addEvent("handoff:" + info.ToAgentName + ":" + info.Argument)
	return ctx
}

func specialist(name string) *host.Specialist {
	return &host.Specialist{
		AgentMeta: host.AgentMeta{Name: name, IntendedUse: "use " + name},
		Invokable: func(ctx context.Context, in []*schema.Message, opts ...agent.AgentOption) (*schema.Message, error) {
			r := recOf(ctx)
			r.addLog(name + "(" + contents(in) + ")")
			vsched.Yield()
			return &schema.Message{Role: schema.Assistant, Content: name + " answers(" + contents(in) + ")"}, nil
		},
	}
}

func buildHost() (*Object, error) {
	ma, err := host.NewMultiAgent(context.Background(), &host.MultiAgentConfig{
		Name:        "HOST",
		Host:        host.Host{ToolCallingModel: &hostModel{}, SystemPrompt: "route"},
		Specialists: []*host.Specialist{specialist("sp1"), specialist("sp2")},
	})
	if err != nil {
		return nil, err
	}
	return &Object{Kind: "host", Paradigms: []string{"invoke", "stream"},
		call: func(ctx context.Context, r *Rec, paradigm string) (string, error) {
			in := []*schema.Message{schema.UserMessage("question of " + r.Caller)}
			tg := r.Caller
			opts := []agent.AgentOption{
				agent.WithComposeOptions(
					compose.WithCallbacks(Handler(r)),
					compose.WithChatModelOption(model.WrapImplSpecificOptFn(func(o *modelTag) { o.Tag = tg })),
				),
				host.WithAgentCallbacks(&handOff{owner: r}),
			}
			if paradigm == "stream" {
				sr, err := ma.Stream(ctx, in, opts...)
				if err != nil {
					return "", err
				}
				return drainMsg(sr)
			}
			m, err := ma.Generate(ctx, in, opts...)
			if err != nil {
				return "", err
			}
			return renderMsg(m), nil
		}}, nil
}

// buildHostSharedOpts: like host, but the callers share ONE agent option that carries the compose options they
// have in common, built from a slice with spare capacity (a slice grown by append). Option values belong to
// the callers; a run must not store its own per-call additions in them.
func buildHostSharedOpts() (*Object, error) {
	ma, err := host.NewMultiAgent(context.Background(), &host.MultiAgentConfig{
		Name:        "HOST",
		Host:        host.Host{ToolCallingModel: &hostModel{}, SystemPrompt: "route"},
		Specialists: []*host.Specialist{specialist("sp1"), specialist("sp2")},
	})
	if err != nil {
		return nil, err
	}
	base := make([]compose.Option, 0, 4)
	base = append(base, compose.WithChatModelOption(model.WrapImplSpecificOptFn(func(o *modelTag) { o.Tag = "everybody" })))
	common := agent.WithComposeOptions(base...)
	return &Object{Kind: "host-shared-opts", Paradigms: []string{"invoke", "stream"},
		call: func(ctx context.Context, r *Rec, paradigm string) (string, error) {
			in := []*schema.Message{schema.UserMessage("question of " + r.Caller)}
			opts := []agent.AgentOption{
				common,
				host.WithAgentCallbacks(&handOff{owner: r}),
				agent.WithComposeOptions(compose.WithCallbacks(Handler(r))),
			}
			if paradigm == "stream" {
				sr, err := ma.Stream(ctx, in, opts...)
				if err != nil {
					return "", err
				}
				return drainMsg(sr)
			}
			m, err := ma.Generate(ctx, in, opts...)
			if err != nil {
				return "", err
			}
			return renderMsg(m), nil
		}}, nil
}
