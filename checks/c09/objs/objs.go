// Package objs builds the compiled objects that C09 shares between concurrent callers, and the per-caller
// recording kit (input, per-call options, callback handler, record). It is plain Go on eino's public API:
// the C09 check binary runs it under the controlled scheduler (instrumented build), the race pass
// (checks/c09/racepass) runs the very same code natively under the Go race detector.
//
// Every value a caller puts into a run carries the caller's tag ("callerA", "callerB", ...), and every
// component answers from the INPUT it receives, so whatever leaks from one run into another is visible as a
// foreign tag in a result, a log line, an option or a callback event.
package objs

import (
	"context"
	"fmt"
	"io"
	"regexp"
	"sort"
	"strings"
	"sync"

	"github.com/cloudwego/eino/callbacks"
	"github.com/cloudwego/eino/components/model"
	"github.com/cloudwego/eino/schema"

	"verif/lib/gprog"
)

type Val = gprog.Val

// Rec is everything one caller observes about its own run. The mutex is never held across a scheduling
// point (needed only by the free-running race pass; under the cooperative scheduler it is uncontended).
type Rec struct {
	mu     sync.Mutex
	Idx    int
	Caller string   // the caller's tag
	Log    []string // executions of node / model / tool bodies with the input they received (recorded through the run's context)
	Opts   []string // per-call options as received by the bodies (recorded through the run's context)
	Events []string // callback events delivered to THIS caller's handler (recorded by the handler itself)
	Result string
	Err    string
	Done   bool
}

var tags = []string{"callerA", "callerB", "callerC", "callerD"}

// Tag is the payload tag of caller i.
func Tag(i int) string { return tags[i%len(tags)] }

func NewRec(i int) *Rec { return &Rec{Idx: i, Caller: Tag(i)} }

// Trace, when set (scheduler runs only), is told which caller executed a body: the shape of the interleaving.
var Trace func(caller string)

func (r *Rec) addLog(s string) {
	r.mu.Lock()
	r.Log = append(r.Log, s)
	r.mu.Unlock()
	if Trace != nil {
		Trace(r.Caller)
	}
}
func (r *Rec) addOpt(s string)   { r.mu.Lock(); r.Opts = append(r.Opts, s); r.mu.Unlock() }
func (r *Rec) addEvent(s string) { r.mu.Lock(); r.Events = append(r.Events, s); r.mu.Unlock() }

// Snapshot is an immutable copy of a record for comparison.
type Snapshot struct {
	Caller string   `json:"caller"`
	Result string   `json:"result"`
	Err    string   `json:"err,omitempty"`
	Log    []string `json:"log"`
	Opts   []string `json:"opts"`
	Events []string `json:"events"`
	Done   bool     `json:"done"`
}

func (r *Rec) Snapshot() Snapshot {
	r.mu.Lock()
	defer r.mu.Unlock()
	return Snapshot{Caller: r.Caller, Result: r.Result, Err: r.Err, Done: r.Done,
		Log: append([]string{}, r.Log...), Opts: append([]string{}, r.Opts...), Events: append([]string{}, r.Events...)}
}

type recKey struct{}

func withRec(ctx context.Context, r *Rec) context.Context { return context.WithValue(ctx, recKey{}, r) }

func recOf(ctx context.Context) *Rec {
	r, _ := ctx.Value(recKey{}).(*Rec)
	if r == nil {
		panic("c09 harness: the run's record is missing from the context handed to a component")
	}
	return r
}

// Object is one compiled object shared by the callers of an execution.
type Object struct {
	Kind string
	// Par: runs of this object execute nodes in parallel, so the order of log lines / events inside ONE run
	// is schedule dependent; such sequences are compared as multisets.
	Par       bool
	Paradigms []string // paradigms the object offers
	call      func(ctx context.Context, r *Rec, paradigm string) (string, error)
}

// Call performs the caller's run with its own input, options and handler, and stores the outcome in r.
func (o *Object) Call(r *Rec, paradigm string) {
	ctx := withRec(context.Background(), r)
	res, err := o.call(ctx, r, paradigm)
	r.mu.Lock()
	r.Result = res
	if err != nil {
		r.Err = err.Error()
	}
	r.Done = true
	r.mu.Unlock()
}

// Kinds lists the object kinds, simplest first. all adds the kinds that are too expensive for the quick tier.
func Kinds(all bool) []string {
	k := []string{"pregel-state-branch", "workflow-map", "nested", "nested-steplimit", "react", "react-rd", "react-shared-input", "host", "host-shared-opts", "dag-fanout", "interrupt-resume"}
	if all {
		k = append(k, "workflow-fanin")
	}
	return k
}

// Describe tells which paradigms a kind offers and whether its runs have intra-run parallelism.
func Describe(kind string) (paradigms []string, par bool) {
	switch kind {
	case "react", "react-rd", "react-shared-input", "host", "host-shared-opts":
		return []string{"invoke", "stream"}, false
	case "dag-fanout", "workflow-fanin":
		return valParadigms, true
	}
	return valParadigms, false
}

// Fails tells whether every run of the kind is expected to fail (the solo run included).
func Fails(kind string) bool { return kind == "nested-steplimit" }

// Build constructs and compiles a fresh object of the given kind.
func Build(kind string) (*Object, error) {
	switch kind {
	case "pregel-state-branch":
		return buildPregelState()
	case "dag-fanout":
		return buildDag()
	case "workflow-map":
		return buildWorkflow(false)
	case "workflow-fanin":
		return buildWorkflow(true)
	case "nested":
		return buildNested()
	case "nested-steplimit":
		return buildNestedStepLimit()
	case "react":
		return buildReact(false)
	case "react-rd":
		return buildReact(true)
	case "react-shared-input":
		return buildReactShared()
	case "host":
		return buildHost()
	case "host-shared-opts":
		return buildHostSharedOpts()
	case "interrupt-resume":
		return buildInterrupt()
	}
	return nil, fmt.Errorf("unknown object kind %q", kind)
}

// ---------------------------------------------------------------------------------------------------
// rendering (deterministic: never prints addresses)

var addrRe = regexp.MustCompile(`0x[0-9a-f]+`)

// noAddr blanks pointer values in a framework error text (the interrupt error prints its state pointer).
func noAddr(s string) string { return addrRe.ReplaceAllString(s, "0xPTR") }

func renderMsg(m *schema.Message) string {
	if m == nil {
		return "<nil message>"
	}
	var sb strings.Builder
	sb.WriteString(string(m.Role))
	sb.WriteString("{" + m.Content + "}")
	if m.ToolCallID != "" {
		sb.WriteString("@" + m.ToolCallID)
	}
	for _, tc := range m.ToolCalls {
		fmt.Fprintf(&sb, "[%s %s %s]", tc.ID, tc.Function.Name, tc.Function.Arguments)
	}
	return sb.String()
}

func renderMsgs(ms []*schema.Message) string {
	p := make([]string, len(ms))
	for i, m := range ms {
		p[i] = renderMsg(m)
	}
	return "[" + strings.Join(p, ",") + "]"
}

func render(v any) string {
	switch x := v.(type) {
	case nil:
		return "nil"
	case string:
		return x
	case map[string]any:
		return gprog.Canon(x)
	case *schema.Message:
		return renderMsg(x)
	case []*schema.Message:
		return renderMsgs(x)
	case *model.CallbackInput:
		if x == nil {
			return "model-in<nil>"
		}
		return "model-in" + renderMsgs(x.Messages)
	case *model.CallbackOutput:
		if x == nil {
			return "model-out<nil>"
		}
		return "model-out(" + renderMsg(x.Message) + ")"
	}
	return fmt.Sprintf("<%T>", v)
}

// ---------------------------------------------------------------------------------------------------
// the caller's callback handler: records into the OWNER's record whatever it is given, so an event of
// another caller's run that reaches this handler shows up as a foreign payload in the owner's events.

func unitName(info *callbacks.RunInfo) string {
	if info == nil {
		return "<no run info>"
	}
	if info.Name != "" {
		return info.Name
	}
	return string(info.Component) + "/" + info.Type
}

func drainAny[T any](sr *schema.StreamReader[T]) string {
	defer sr.Close()
	var parts []string
	for {
		v, err := sr.Recv()
		if err == io.EOF {
			break
		}
		if err != nil {
			parts = append(parts, "<err:"+err.Error()+">")
			break
		}
		parts = append(parts, render(any(v)))
	}
	return "stream(" + strings.Join(parts, "+") + ")"
}

func Handler(owner *Rec) callbacks.Handler {
	return callbacks.NewHandlerBuilder().
		OnStartFn(func(ctx context.Context, info *callbacks.RunInfo, in callbacks.CallbackInput) context.Context {
			owner.addEvent("start:" + unitName(info) + ":" + render(in))
			return ctx
		}).
		OnEndFn(func(ctx context.Context, info *callbacks.RunInfo, out callbacks.CallbackOutput) context.Context {
			owner.addEvent("end:" + unitName(info) + ":" + render(out))
			return ctx
		}).
		OnErrorFn(func(ctx context.Context, info *callbacks.RunInfo, err error) context.Context {
			owner.addEvent("error:" + unitName(info) + ":" + noAddr(err.Error()))
			return ctx
		}).
		OnStartWithStreamInputFn(func(ctx context.Context, info *callbacks.RunInfo, in *schema.StreamReader[callbacks.CallbackInput]) context.Context {
			owner.addEvent("start:" + unitName(info) + ":" + drainAny(in))
			return ctx
		}).
		OnEndWithStreamOutputFn(func(ctx context.Context, info *callbacks.RunInfo, out *schema.StreamReader[callbacks.CallbackOutput]) context.Context {
			owner.addEvent("end:" + unitName(info) + ":" + drainAny(out))
			return ctx
		}).Build()
}

// Sorted returns a sorted copy.
func Sorted(s []string) []string {
	c := append([]string{}, s...)
	sort.Strings(c)
	return c
}
