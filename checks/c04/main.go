// Check C04: Invoke, Stream, Collect and Transform of a compiled graph agree.
//
// Engine R: every program of a bounded alphabet (shape x native paradigm set of every node x output
// chunking of every streaming producer) is built through eino's public API, compiled once, and the same
// runnable is called in all four paradigms with every chunking of the input. The reference model is the
// composition of the one pure function every node computes; the oracle is the statement of the property.
package main

import (
	"encoding/json"
	"errors"
	"fmt"
	"os"
	"strings"
	"time"

	"verif/lib/harness"
)

// Case is one program: a shape, the native paradigm set and output chunking of every lambda position,
// and optionally one failing position.
type Case struct {
	Shape  string   `json:"shape"`
	Kinds  []string `json:"kinds"`
	OCs    []string `json:"ocs"`
	Fail   *Fail    `json:"fail,omitempty"`
	Clause string   `json:"clause,omitempty"` // replay: the oracle clause that broke
}

type Fail struct {
	Pos  int    `json:"pos"`
	Mode string `json:"mode"` // call | item
}

func (c *Case) Name() string {
	var sb strings.Builder
	sb.WriteString(c.Shape)
	sb.WriteByte('[')
	for i, k := range c.Kinds {
		if i > 0 {
			sb.WriteByte(' ')
		}
		sb.WriteString(posKey(i) + "=" + k)
		if c.OCs[i] != "-" {
			sb.WriteString("/" + c.OCs[i])
		}
	}
	sb.WriteByte(']')
	if c.Fail != nil {
		sb.WriteString(" fail=" + posKey(c.Fail.Pos) + "/" + c.Fail.Mode)
	}
	return sb.String()
}

func outputChunkings(quick bool) []string {
	if quick {
		return []string{"1", "2", "3e"}
	}
	return []string{"1", "2", "3e", "3z", "4"}
}

// enumerate yields every case, simplest first: per shape the programs without a failing node (all kind
// assignments x all output chunkings), then the programs with one failing node (all kind assignments, every
// stream producer split in two, every position, both failure modes).
func enumerate(quick bool, yield func(cs *Case) bool) {
	ocs := outputChunkings(quick)
	for _, sh := range allShapes() {
		if sh.thorough && quick {
			continue
		}
		sh := sh
		isStr := stringPositions(&sh)
		// all assignments of (kind, output chunking) to positions
		var rec func(pos int, ks, os []string) bool
		rec = func(pos int, ks, os []string) bool {
			if pos == sh.npos {
				return yield(&Case{Shape: sh.name, Kinds: append([]string{}, ks...), OCs: append([]string{}, os...)})
			}
			for _, k := range kinds {
				if !hasStreamOut(k) {
					if !rec(pos+1, append(ks, k), append(os, "-")) {
						return false
					}
					continue
				}
				for _, oc := range ocs {
					if oc == "3z" && isStr[pos] {
						continue // maps only: for a string it is the same as 3e
					}
					if !rec(pos+1, append(ks, k), append(os, oc)) {
						return false
					}
				}
			}
			return true
		}
		if !rec(0, nil, nil) {
			return
		}
		if sh.nofail {
			continue
		}
		var recF func(pos int, ks, os []string) bool
		recF = func(pos int, ks, os []string) bool {
			if pos == sh.npos {
				for fp := 0; fp < sh.npos; fp++ {
					modes := []string{"call"}
					if hasStreamOut(ks[fp]) {
						modes = append(modes, "item")
					}
					for _, m := range modes {
						if !yield(&Case{Shape: sh.name, Kinds: append([]string{}, ks...), OCs: append([]string{}, os...), Fail: &Fail{Pos: fp, Mode: m}}) {
							return false
						}
					}
				}
				return true
			}
			for _, k := range kinds {
				oc := "-"
				if hasStreamOut(k) {
					oc = "2"
				}
				if !recF(pos+1, append(ks, k), append(os, oc)) {
					return false
				}
			}
			return true
		}
		if !recF(0, nil, nil) {
			return
		}
	}
}

// stringPositions finds out, by a dry build, which lambda positions of a shape work on strings (their chunks
// have no keys).
func stringPositions(sh *shape) []bool {
	ks, os := make([]string, sh.npos), make([]string, sh.npos)
	for i := range ks {
		ks[i], os[i] = "I", "-"
	}
	f := &factory{w: &world{}, cs: &Case{Shape: sh.name, Kinds: ks, OCs: os}, isStr: make([]bool, sh.npos)}
	if _, err := sh.build(f); err != nil {
		panic("c04 harness: shape " + sh.name + " does not build: " + err.Error())
	}
	return f.isStr
}

func decodeCase(raw any) (*Case, error) {
	b, err := json.Marshal(raw)
	if err != nil {
		return nil, err
	}
	cs := &Case{}
	if err := json.Unmarshal(b, cs); err != nil {
		return nil, err
	}
	sh := shapeByName(cs.Shape)
	if sh == nil {
		return nil, fmt.Errorf("unknown shape %q", cs.Shape)
	}
	if len(cs.Kinds) != sh.npos || len(cs.OCs) != sh.npos {
		return nil, fmt.Errorf("shape %s has %d positions", cs.Shape, sh.npos)
	}
	return cs, nil
}

func main() {
	c := harness.Init("C04")
	c.Res.Rule = "a program = (shape, native paradigm set of every lambda position, output chunking of every position that has a native stream producer, optional failing position + failure mode); a state = a distinct canonical (program, graph input, input chunking); transitions = node bodies executed; evaluations = calls of Invoke/Stream/Collect/Transform on the compiled runnable; validated = calls that satisfied the oracle; non-trivial = states with at least one node that is not invoke-only, or a producer emitting >= 2 chunks, or an input of >= 2 chunks"
	c.Res.Assumptions = []string{
		"every node computes the same pure function in whichever paradigm it is written (strings: in+'.'+key; maps: {key: render(whole input)+'.'+key}; structs in the struct-mapping Workflow shapes: field-wise); node bodies ignore their context",
		"collect / transform bodies read their whole input before they compute; the transform of kind S+T is lazy (own goroutine feeding a pipe), every other body is finished when it returns; state handlers in stream form read the stream they get and return its chunks plus one",
		"values are strings, maps with string leaves (nested through field mappings / output keys) or a two-field struct with a registered field-wise concat function; strings concatenate by ++, maps per key",
		"every streaming producer emits at least one chunk and its first chunk is never empty (zero-chunk producers are excluded: Invoke legitimately fails 'stream is empty')",
		"all nodes that meet at a fan-in write distinct keys (duplicate-key fan-in is excluded: not defined by the statement)",
		"a returned stream is read until EOF or the first error item and then closed",
		"a failing node fails by returning the error from its body, or (native stream producers) by sending one good chunk and then an error item; any error counts as 'a failure is reported' (identity of the error is C13's business)",
		"hangs are detected by a 120 s guard per program, panics by recover around each call and by the worker journal",
	}
	c.Res.Explanation = "Alphabet: shape menu {string lines of 2-3 nodes, map line; pass-through alone / first / twice in the middle / at a fan-in / at a fan-out; fan-out to END, fan-in (any-predecessor and all-predecessor; END merging 5 and 6 streams), diamond (4 nodes); value branch, stream branch reading only the first chunk (after a node and directly on START), a node with a plain edge plus a (value / stream) branch, value / stream multi-branch selecting one or both targets; WithInputKey+WithOutputKey on a line / both into END / into a fan-in; state pre+post handlers in value and stream form (4 mixes on a line; value and stream on a fan-in node), pass-through with a state handler; graph input typed any (line, value branch, stream branch on START) and a sub-graph with output typed any feeding a fan-out (run-time type checks in value and stream form); Workflow with MapFields/ToField/FromField (two mapped inputs, fan with nested ToField, whole-input FromField into a string node), static values, control-only dependency, struct fields mapped in both directions; nested graph, nested string graph behind input+output key; chain with a parallel stage (first / last), chain branch, chain multi-branch (value / stream form) selecting a key that is no branch of it} x every assignment of {I, S, C, T, I+S, S+T, I+S+C+T} to the lambda positions (7^n, n<=4, complete) x output chunking of every native stream producer in {1, 2, 3 with a chunk that is empty (string '' / map {} lacking the key)} (thorough: + map chunk with a zero-length value, 4 chunks) x graph input chunking {1, 2, 3 with an empty chunk, map chunk with zero-length values, per key for two-key inputs} (thorough: + 4) x {Invoke, Stream, Collect, Transform} on the same compiled runnable; branch shapes with both inputs (each target taken). Plus, per shape, every kind assignment x every position failing x {error at call time, error item after the first chunk}. Model: composition of the pure node function along the shape. Oracle = the statement: Invoke(x) = model; concat(Stream(x)) = Invoke(x); Collect(chunks) = Invoke(concat chunks); concat(Transform(chunks)) likewise; with a failing node on the executed path every paradigm reports a failure (call error or error item); never a panic out of a call, never a hang. Thorough adds the 4-node string line and the all-predecessor diamond."

	quick := c.Quick()
	if v := c.LoadReplay(); v != nil {
		cs, err := decodeCase(v.Case)
		if err != nil {
			fmt.Println("bad replay case:", err)
			os.Exit(2)
		}
		rerr := c.Guard(v.Scenario, cs, 120*time.Second, func() error {
			fs, stt := runCase(cs, quick)
			if stt.harnessEr != "" {
				fmt.Println("harness error:", stt.harnessEr)
				return nil
			}
			for _, f := range fs {
				fmt.Printf("  finding %s: %s\n", f.Sig, f.Msg)
			}
			for _, f := range fs {
				if cs.Clause == "" || f.Sig == cs.Clause {
					return errors.New(f.Sig + ": " + f.Msg)
				}
			}
			return nil
		})
		c.ReplayExit(v.Scenario, rerr)
	}

	seen := map[string]int{}
	jr := newJournal(c)
	enumerate(quick, func(cs *Case) bool {
		name := cs.Name()
		if !c.Mine(name) {
			return true
		}
		if c.TimeUp() {
			return false
		}
		jr.write(name, cs)
		var fs []finding
		var stt caseStats
		gerr := c.Guard(name, cs, 120*time.Second, func() error {
			fs, stt = runCase(cs, quick)
			return nil
		})
		if gerr != nil {
			// a panic outside the guarded calls: harness code (model / builder) or Compile
			fs = append(fs, finding{"panic-outside-the-calls", "building or compiling the program panicked: " + firstLine(gerr.Error())})
		}
		if stt.harnessEr != "" {
			c.Infra(name + ": " + stt.harnessEr)
			return true
		}
		c.Res.Evaluations += stt.calls
		c.Res.Validated += stt.agreed
		c.Res.Transitions += stt.execs
		c.Res.Nontrivial += stt.nontriv
		for _, u := range stt.units {
			c.StateStr(u)
		}
		for o, n := range stt.outcomes {
			c.Res.Outcomes[o] += n
		}
		c.Count("programs", 1)
		if cs.Fail != nil {
			c.Count("programs_with_failing_node", 1)
		}
		c.Count("programs_"+cs.Shape, 1)
		for i, p := range []string{"I", "S", "C", "T"} {
			c.Count("native_body_calls_"+p, stt.native[i])
		}
		if len(fs) == 0 {
			if c.Res.Scenarios%997 == 1 {
				c.Sample(name) // the harness keeps the first few
			}
			return true
		}
		for _, f := range fs {
			c.Count("violations_"+f.Sig, 1)
			seen[f.Sig]++
			if seen[f.Sig] > 1 {
				continue // enumeration is simplest-first: the first case of a class is its minimal one for this worker
			}
			v := *cs
			v.Clause = f.Sig
			c.Violate(harness.Violation{Scenario: name + " #" + f.Sig, Signature: f.Sig, Case: v, Msg: f.Msg})
		}
		return !c.TooManyViolations()
	})
	c.Finish()
}

// journal does what harness.Ctx.Journal does (same file, same record: the driver attributes a dead worker
// to the case named there) but keeps the file open and overwrites it in place (one pwrite per case).
type journal struct {
	c   *harness.Ctx
	f   *os.File
	max int
}

func newJournal(c *harness.Ctx) *journal {
	j := &journal{c: c}
	if c.Out == "" || c.Replay != "" {
		return j
	}
	f, err := os.OpenFile(c.Out+".journal", os.O_CREATE|os.O_WRONLY|os.O_TRUNC, 0o644)
	if err == nil {
		j.f = f
	}
	return j
}

func (j *journal) write(name string, cs *Case) {
	if j.f == nil {
		j.c.Journal(name, cs)
		return
	}
	b, _ := json.Marshal(harness.Violation{Property: j.c.Property, Scenario: name, Signature: "process-crash", Case: cs,
		Msg: "the process died while running this case (a panic escaped into a goroutine)"})
	for len(b) < j.max {
		b = append(b, ' ')
	}
	j.max = len(b)
	j.f.WriteAt(b, 0)
}
