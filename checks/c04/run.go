package main

import (
	"context"
	"fmt"
	"io"
	"strings"

	"github.com/cloudwego/eino/compose"
	"github.com/cloudwego/eino/schema"
)

var paradigms = []string{"invoke", "stream", "collect", "transform"}

// obs is what a caller holding only the public API sees from one call.
type obs struct {
	val      any    // returned value, or the concatenation of the returned chunks
	chunks   int    // chunks received before EOF / the first error item
	callErr  error  // error returned by the call
	itemErr  error  // first error item on the returned stream
	catErr   error  // the returned chunks could not be concatenated by the harness
	panicked string // a panic unwound out of the call (or out of Recv on the returned stream)
}

func (o obs) failed() bool { return o.callErr != nil || o.itemErr != nil }

func (o obs) class() string {
	switch {
	case o.panicked != "":
		return "panic"
	case o.callErr != nil:
		return "call-error"
	case o.itemErr != nil:
		return "item-error"
	}
	return "value"
}

// errText is the deterministic head of an error text (recovered panics carry a stack trace).
func errText(err error) string {
	s := err.Error()
	if i := strings.Index(s, "stack:"); i >= 0 {
		s = s[:i]
	}
	s = strings.Join(strings.Fields(strings.ReplaceAll(s, "------------------------", "")), " ")
	if len(s) > 400 {
		s = s[:400] + "..."
	}
	return s
}

type runner interface {
	// call runs one paradigm: x for invoke/stream, chunks for collect/transform.
	call(paradigm string, x any, chunks []any) obs
}

type runnerT[I, O any] struct {
	r compose.Runnable[I, O]
}

func (rt runnerT[I, O]) call(paradigm string, x any, chunks []any) (o obs) {
	defer func() {
		if r := recover(); r != nil {
			o = obs{panicked: firstLine(fmt.Sprint(r))}
		}
	}()
	ctx := context.Background()
	drain := func(sr *schema.StreamReader[O]) {
		defer sr.Close()
		var cs []any
		for {
			c, err := sr.Recv()
			if err == io.EOF {
				break
			}
			if err != nil {
				o.itemErr = err
				return
			}
			o.chunks++
			cs = append(cs, c)
		}
		if len(cs) > 0 {
			o.val, o.catErr = catAny(cs)
		}
	}
	input := func() *schema.StreamReader[I] {
		ts := make([]I, len(chunks))
		for i, c := range chunks {
			ts[i] = c.(I)
		}
		return schema.StreamReaderFromArray(ts)
	}
	switch paradigm {
	case "invoke":
		v, err := rt.r.Invoke(ctx, x.(I))
		o.callErr = err
		if err == nil {
			o.val = v
		}
	case "stream":
		sr, err := rt.r.Stream(ctx, x.(I))
		o.callErr = err
		if err == nil {
			drain(sr)
		}
	case "collect":
		v, err := rt.r.Collect(ctx, input())
		o.callErr = err
		if err == nil {
			o.val = v
		}
	case "transform":
		sr, err := rt.r.Transform(ctx, input())
		o.callErr = err
		if err == nil {
			drain(sr)
		}
	default:
		panic("c04 harness: unknown paradigm " + paradigm)
	}
	return o
}

func firstLine(s string) string {
	if i := strings.Index(s, "\n"); i >= 0 {
		s = s[:i]
	}
	if len(s) > 300 {
		s = s[:300] + "..."
	}
	return s
}

// ---------------------------------------------------------------------------------------------------

type finding struct {
	Sig string
	Msg string
}

// stats of one case
type caseStats struct {
	calls     int64 // calls made on the implementation
	agreed    int64 // calls that satisfied the oracle
	execs     int64 // node bodies executed
	native    [4]int64
	units     []string // canonical (program, input, input chunking) units
	nontriv   int64    // units with a non-invoke native node or >= 2 chunks somewhere
	outcomes  map[string]int64
	harnessEr string
}

// inputChunkings: the chunkings of the graph input for collect / transform.
func inputChunkings(x any, quick bool) []string {
	modes := []string{"1", "2", "3e"}
	if m, ok := x.(map[string]any); ok {
		modes = append(modes, "3z")
		if len(m) >= 2 {
			modes = append(modes, "2k")
		}
	}
	if !quick {
		modes = append(modes, "4")
	}
	return modes
}

// runCase builds the program once, compiles it once and calls the same runnable in every paradigm, for
// every input and every input chunking; it returns every oracle clause that broke.
func runCase(cs *Case, quick bool) (fs []finding, stt caseStats) {
	stt.outcomes = map[string]int64{}
	sh := shapeByName(cs.Shape)
	if sh == nil {
		stt.harnessEr = "unknown shape " + cs.Shape
		return
	}
	w := &world{}
	r, err := sh.build(&factory{w: w, cs: cs})
	if err != nil {
		stt.harnessEr = "build/compile failed: " + err.Error()
		return
	}
	add := func(sig, msg string) {
		for _, f := range fs {
			if f.Sig == sig {
				return // one finding per class and case: the first (simplest) call
			}
		}
		fs = append(fs, finding{sig, msg})
	}
	progNontrivial := false
	for i, k := range cs.Kinds {
		if k != "I" {
			progNontrivial = true
		}
		if cs.OCs[i] != "-" && cs.OCs[i] != "1" {
			progNontrivial = true
		}
	}
	failPos := -1
	if cs.Fail != nil {
		failPos = cs.Fail.Pos
	}
	for xi, x := range sh.inputs {
		ev := &eval{failPos: failPos}
		want := sh.model(ev, x)
		wantC := canon(want)
		judge := func(paradigm, ic string, o obs) {
			stt.calls++
			stt.outcomes[paradigm+":"+o.class()]++
			where := fmt.Sprintf("%s(input %s, input chunking %s)", paradigm, canon(x), ic)
			if o.panicked != "" {
				sig := sh.feat + "/" + paradigm + "/panic"
				if ev.failed {
					sig = sh.feat + "/failing-node/" + paradigm + "/panic"
				}
				if sh.name == "pass-state" {
					sig = "passthrough-state-handler-stream-panics"
				}
				add(sig, fmt.Sprintf("%s panicked out of the call: %s", where, o.panicked))
				return
			}
			if ev.failed {
				// a node on the executed path fails: every paradigm must report a failure
				if !o.failed() && ev.refused != "" {
					add(sh.feat+"/refused-run/"+paradigm+"/not-reported",
						fmt.Sprintf("%s: %s (Invoke refuses such a run) but no failure was reported: no call error, no error item, %d chunk(s), value %s",
							where, ev.refused, o.chunks, canon(o.val)))
					return
				}
				if !o.failed() {
					add(sh.feat+"/failing-node/"+paradigm+"/not-reported",
						fmt.Sprintf("%s: node %s fails (%s) but no failure was reported: no call error, no error item, %d chunk(s), value %s",
							where, posKey(failPos), cs.Fail.Mode, o.chunks, canon(o.val)))
					return
				}
				stt.agreed++
				return
			}
			if o.failed() {
				e := o.callErr
				sig := sh.feat + "/" + paradigm + "/unexpected-error"
				if sh.name == "pass-state" {
					sig = "passthrough-state-handler-stream-concat-fails"
				}
				kind := "returned the error"
				if e == nil {
					e = o.itemErr
					kind = fmt.Sprintf("delivered after %d chunk(s) the error item", o.chunks)
				}
				add(sig,
					fmt.Sprintf("%s %s %q; the reference model yields %s", where, kind, errText(e), wantC))
				return
			}
			if (paradigm == "stream" || paradigm == "transform") && o.chunks == 0 {
				add(sh.feat+"/"+paradigm+"/empty-stream",
					fmt.Sprintf("%s returned a stream without chunks; the reference model yields %s", where, wantC))
				return
			}
			if o.catErr != nil {
				add(sh.feat+"/"+paradigm+"/chunks-do-not-concatenate",
					fmt.Sprintf("%s: the %d returned chunks do not concatenate: %v", where, o.chunks, o.catErr))
				return
			}
			if got := canon(o.val); got != wantC {
				add(sh.feat+"/"+paradigm+"/value-differs",
					fmt.Sprintf("%s yields %s; Invoke on the concatenated input / the reference model yields %s", where, got, wantC))
				return
			}
			stt.agreed++
		}
		judge("invoke", "-", r.call("invoke", x, nil))
		judge("stream", "-", r.call("stream", x, nil))
		for _, ic := range inputChunkings(x, quick) {
			chunks := splitAny(x, ic)
			judge("collect", ic, r.call("collect", nil, chunks))
			judge("transform", ic, r.call("transform", nil, chunks))
			stt.units = append(stt.units, fmt.Sprintf("%s|in%d|%s", cs.Name(), xi, ic))
			if progNontrivial || len(chunks) >= 2 {
				stt.nontriv++
			}
		}
	}
	stt.execs = w.execs.Load()
	for i := range stt.native {
		stt.native[i] = w.native[i].Load()
	}
	return
}
