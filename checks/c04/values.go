package main

import (
	"fmt"
	"sort"
	"strings"
)

// M is the map domain: flat or nested maps whose leaves are strings.
type M = map[string]any

// ---------------------------------------------------------------------------------------------------
// the one pure node function, in both domains

// fS is the node function of the node named key on strings: the input is kept as a prefix, so the first
// character of the graph input stays the first character of every intermediate value (stream branches
// decide on it from the first chunk alone).
func fS(key string, in string) string { return in + "." + key }

// fM is the node function on maps: one output key (the node's name) whose value renders the whole input
// (every key and every value), so a lost, duplicated, re-keyed or re-ordered piece of input changes it.
func fM(key string, in M) M { return M{key: render(in) + "." + key} }

// render: sorted keys, value first ("v@k"), joined by "+"; nested maps in parentheses.
func render(m M) string {
	ks := make([]string, 0, len(m))
	for k := range m {
		ks = append(ks, k)
	}
	sort.Strings(ks)
	var sb strings.Builder
	for i, k := range ks {
		if i > 0 {
			sb.WriteByte('+')
		}
		sb.WriteString(renderV(m[k]))
		sb.WriteByte('@')
		sb.WriteString(k)
	}
	return sb.String()
}

func renderV(v any) string {
	switch x := v.(type) {
	case string:
		return x
	case map[string]any:
		return "(" + render(x) + ")"
	case nil:
		return "<nil>"
	}
	return fmt.Sprintf("<%T:%v>", v, v)
}

// canon renders any observed value for comparison and for messages.
func canon(v any) string {
	switch x := v.(type) {
	case string:
		return fmt.Sprintf("%q", x)
	case map[string]any:
		ks := make([]string, 0, len(x))
		for k := range x {
			ks = append(ks, k)
		}
		sort.Strings(ks)
		var sb strings.Builder
		sb.WriteByte('{')
		for i, k := range ks {
			if i > 0 {
				sb.WriteByte(',')
			}
			sb.WriteString(k)
			sb.WriteByte(':')
			sb.WriteString(canon(x[k]))
		}
		sb.WriteByte('}')
		return sb.String()
	case nil:
		return "nil"
	}
	return fmt.Sprintf("<%T:%v>", v, v)
}

func union(ms ...M) M {
	out := M{}
	for _, m := range ms {
		for k, v := range m {
			if _, dup := out[k]; dup {
				panic("c04 harness: duplicate key in a model union: " + k)
			}
			out[k] = v
		}
	}
	return out
}

// ---------------------------------------------------------------------------------------------------
// chunkings

// splitS splits a non-empty string. Modes: "1"; "2" two halves; "3e" halves with an empty chunk between;
// "4" four pieces. The first chunk is never empty. ("3z" exists for maps only.)
func splitS(s string, mode string) []string {
	h := (len(s) + 1) / 2
	switch mode {
	case "1", "-":
		return []string{s}
	case "2":
		return []string{s[:h], s[h:]}
	case "3e", "3z":
		return []string{s[:h], "", s[h:]}
	case "4":
		q := (h + 1) / 2
		q2 := h + (len(s)-h)/2
		return []string{s[:q], s[q:h], s[h:q2], s[q2:]}
	}
	panic("c04 harness: unknown chunking " + mode)
}

// splitM splits a flat map of strings. "1"; "2"/"4": every value split like a string, chunk i carries piece i
// of every key; "3e": the halves with a chunk between that is empty for every key (it lacks them: {});
// "3z": the halves with a chunk between that carries every key with a zero-length string; "2k": one chunk
// per key (sorted).
func splitM(m M, mode string) []M {
	ks := make([]string, 0, len(m))
	for k := range m {
		ks = append(ks, k)
	}
	sort.Strings(ks)
	switch mode {
	case "1", "-":
		return []M{m}
	case "2k":
		out := make([]M, 0, len(ks))
		for _, k := range ks {
			out = append(out, M{k: m[k]})
		}
		return out
	case "3e":
		hs := splitM(m, "2")
		return []M{hs[0], {}, hs[1]}
	}
	var out []M
	for _, k := range ks {
		parts := splitS(m[k].(string), mode)
		if out == nil {
			out = make([]M, len(parts))
			for i := range out {
				out[i] = M{}
			}
		}
		for i, p := range parts {
			out[i][k] = p
		}
	}
	return out
}

func splitAny(v any, mode string) []any {
	switch x := v.(type) {
	case string:
		ps := splitS(x, mode)
		out := make([]any, len(ps))
		for i, p := range ps {
			out[i] = p
		}
		return out
	case map[string]any:
		ps := splitM(x, mode)
		out := make([]any, len(ps))
		for i, p := range ps {
			out[i] = p
		}
		return out
	}
	panic("c04 harness: cannot split this value")
}

// ---------------------------------------------------------------------------------------------------
// concatenation (the harness's own: strings by ++, maps per key, recursively)

func catS(cs []string) string { return strings.Join(cs, "") }

func catM(cs []M) (M, error) {
	out := M{}
	order := []string{}
	parts := map[string][]any{}
	for _, c := range cs {
		for k, v := range c {
			if _, ok := parts[k]; !ok {
				order = append(order, k)
			}
			parts[k] = append(parts[k], v)
		}
	}
	sort.Strings(order)
	for _, k := range order {
		v, err := catAny(parts[k])
		if err != nil {
			return nil, fmt.Errorf("key %s: %w", k, err)
		}
		out[k] = v
	}
	return out, nil
}

// catAny concatenates >= 1 chunks of one domain.
func catAny(cs []any) (any, error) {
	if len(cs) == 0 {
		return nil, fmt.Errorf("no chunks")
	}
	switch cs[0].(type) {
	case string:
		ss := make([]string, len(cs))
		for i, c := range cs {
			s, ok := c.(string)
			if !ok {
				return nil, fmt.Errorf("chunk %d is %T, chunk 0 is string", i, c)
			}
			ss[i] = s
		}
		return catS(ss), nil
	case map[string]any:
		ms := make([]M, len(cs))
		for i, c := range cs {
			m, ok := c.(map[string]any)
			if !ok {
				return nil, fmt.Errorf("chunk %d is %T, chunk 0 is a map", i, c)
			}
			ms[i] = m
		}
		return catM(ms)
	}
	return nil, fmt.Errorf("chunk 0 has the unexpected type %T", cs[0])
}
