package main

import (
	"context"
	"fmt"

	"github.com/cloudwego/eino/compose"
	"github.com/cloudwego/eino/schema"
)

const S, E = compose.START, compose.END

func posKey(pos int) string { return string(rune('a' + pos)) }

// ---------------------------------------------------------------------------------------------------
// the reference model: pure function composition

// eval applies node functions for the model and notes which positions execute.
type eval struct {
	failPos int // -1: none
	failed  bool
	refused string // set by a model when the framework itself has to refuse the run (not a failing node)
	execs   int
}

func (e *eval) mark(pos int) {
	e.execs++
	if pos == e.failPos {
		e.failed = true
	}
}
func (e *eval) s(pos int, in string) string { e.mark(pos); return fS(posKey(pos), in) }
func (e *eval) m(pos int, in M) M           { e.mark(pos); return fM(posKey(pos), in) }
func (e *eval) mr(pos int, in M) rec        { e.mark(pos); return fMR(posKey(pos), in) }
func (e *eval) rm(pos int, in rec) M        { e.mark(pos); return fRM(posKey(pos), in) }

// ---------------------------------------------------------------------------------------------------
// shapes

type shape struct {
	name   string
	feat   string // feature class used in signatures
	npos   int    // lambda positions a, b, c, d
	inputs []any  // graph inputs (strings or flat maps)
	build  func(f *factory) (runner, error)
	model  func(e *eval, x any) any
	// thorough: only in the thorough tier
	thorough bool
	// nofail: no failing-node programs for this shape
	nofail bool
}

var (
	inS   = []any{"Lxy"}
	inM   = []any{M{"x": "Lxy"}}
	inMLR = []any{M{"x": "Lxy"}, M{"x": "Rxy"}}
	inM2  = []any{M{"x": "Lxy", "y": "Muv"}}
)

// factory hands out the lambdas of a case.
type factory struct {
	w     *world
	cs    *Case
	isStr []bool // when set: records which positions are string lambdas
}

func (f *factory) spec(pos int) nodeSpec {
	ns := nodeSpec{key: posKey(pos), kind: f.cs.Kinds[pos], oc: f.cs.OCs[pos]}
	if f.cs.Fail != nil && f.cs.Fail.Pos == pos {
		ns.fail = f.cs.Fail.Mode
	}
	return ns
}
func (f *factory) S(pos int) *compose.Lambda {
	if f.isStr != nil {
		f.isStr[pos] = true
	}
	return mkLambda(f.w, domS, f.spec(pos))
}
func (f *factory) M(pos int) *compose.Lambda { return mkLambda(f.w, domM, f.spec(pos)) }

// MR: map in, struct out (its chunks have no keys either); RM: struct in, map out.
func (f *factory) MR(pos int) *compose.Lambda {
	if f.isStr != nil {
		f.isStr[pos] = true
	}
	return mkLambda(f.w, domMR, f.spec(pos))
}
func (f *factory) RM(pos int) *compose.Lambda { return mkLambda(f.w, domRM, f.spec(pos)) }

// gb is a small error-collecting wrapper around compose.Graph.
type gb[I, O any] struct {
	g     *compose.Graph[I, O]
	err   error
	copts []compose.GraphCompileOption
}

func newGB[T any](opts ...compose.NewGraphOption) *gb[T, T] {
	return &gb[T, T]{g: compose.NewGraph[T, T](opts...)}
}
func newGB2[I, O any](opts ...compose.NewGraphOption) *gb[I, O] {
	return &gb[I, O]{g: compose.NewGraph[I, O](opts...)}
}
func (b *gb[I, O]) dag() *gb[I, O] {
	b.copts = append(b.copts, compose.WithNodeTriggerMode(compose.AllPredecessor))
	return b
}
func (b *gb[I, O]) node(key string, l *compose.Lambda, opts ...compose.GraphAddNodeOpt) {
	if b.err == nil {
		b.err = b.g.AddLambdaNode(key, l, opts...)
	}
}
func (b *gb[I, O]) pass(key string, opts ...compose.GraphAddNodeOpt) {
	if b.err == nil {
		b.err = b.g.AddPassthroughNode(key, opts...)
	}
}
func (b *gb[I, O]) sub(key string, g compose.AnyGraph, opts ...compose.GraphAddNodeOpt) {
	if b.err == nil {
		b.err = b.g.AddGraphNode(key, g, opts...)
	}
}
func (b *gb[I, O]) edges(es ...string) {
	for i := 0; i+1 < len(es); i += 2 {
		if b.err == nil {
			b.err = b.g.AddEdge(es[i], es[i+1])
		}
	}
}
func (b *gb[I, O]) branch(from string, br *compose.GraphBranch) {
	if b.err == nil {
		b.err = b.g.AddBranch(from, br)
	}
}
func (b *gb[I, O]) compile() (runner, error) {
	if b.err != nil {
		return nil, b.err
	}
	r, err := b.g.Compile(context.Background(), b.copts...)
	if err != nil {
		return nil, err
	}
	return runnerT[I, O]{r}, nil
}

// branch conditions: first character 'L' selects the first target, anything else the second.
func pick(v any, first, second string) (string, error) {
	s, ok := v.(string)
	if !ok || s == "" {
		return "", fmt.Errorf("c04 harness: the branch condition did not see a non-empty string (%T)", v)
	}
	if s[0] == 'L' {
		return first, nil
	}
	return second, nil
}

func valueCond(key, first, second string) func(ctx context.Context, in M) (string, error) {
	return func(ctx context.Context, in M) (string, error) { return pick(in[key], first, second) }
}

// streamCond reads only the first chunk, then closes the stream.
func streamCond(key, first, second string) func(ctx context.Context, in *schema.StreamReader[M]) (string, error) {
	return func(ctx context.Context, in *schema.StreamReader[M]) (string, error) {
		defer in.Close()
		c, err := in.Recv()
		if err != nil {
			return "", fmt.Errorf("c04 branch condition: first Recv: %w", err)
		}
		return pick(c[key], first, second)
	}
}

func targets(ks ...string) map[string]bool {
	m := map[string]bool{}
	for _, k := range ks {
		m[k] = true
	}
	return m
}

// graph state of the state-handler shapes
type st struct{ Note string }

func genState(ctx context.Context) *st { return &st{} }

// string handlers: pre appends "<k"+Note, post appends ">k" and extends Note. The stream forms keep the
// chunks they read and append one chunk.
func preV(k string) compose.GraphAddNodeOpt {
	return compose.WithStatePreHandler(func(ctx context.Context, in string, s *st) (string, error) {
		return in + "<" + k + s.Note, nil
	})
}
func postV(k string) compose.GraphAddNodeOpt {
	return compose.WithStatePostHandler(func(ctx context.Context, out string, s *st) (string, error) {
		s.Note += k
		return out + ">" + k, nil
	})
}
func preS(k string) compose.GraphAddNodeOpt {
	return compose.WithStreamStatePreHandler(func(ctx context.Context, in *schema.StreamReader[string], s *st) (*schema.StreamReader[string], error) {
		cs, err := readChunks(in)
		if err != nil {
			return nil, err
		}
		return schema.StreamReaderFromArray(append(cs, "<"+k+s.Note)), nil
	})
}
func postS(k string) compose.GraphAddNodeOpt {
	return compose.WithStreamStatePostHandler(func(ctx context.Context, out *schema.StreamReader[string], s *st) (*schema.StreamReader[string], error) {
		cs, err := readChunks(out)
		if err != nil {
			return nil, err
		}
		s.Note += k
		return schema.StreamReaderFromArray(append(cs, ">"+k)), nil
	})
}

// map handlers: pre adds the key "hpre", post the key "hpost".
func copyM(m M) M {
	o := M{}
	for k, v := range m {
		o[k] = v
	}
	return o
}
func preVM() compose.GraphAddNodeOpt {
	return compose.WithStatePreHandler(func(ctx context.Context, in M, s *st) (M, error) {
		o := copyM(in)
		o["hpre"] = "P" + s.Note
		return o, nil
	})
}
func postVM(k string) compose.GraphAddNodeOpt {
	return compose.WithStatePostHandler(func(ctx context.Context, out M, s *st) (M, error) {
		s.Note += k
		o := copyM(out)
		o["hpost"] = "Q" + s.Note
		return o, nil
	})
}
func preSM() compose.GraphAddNodeOpt {
	return compose.WithStreamStatePreHandler(func(ctx context.Context, in *schema.StreamReader[M], s *st) (*schema.StreamReader[M], error) {
		cs, err := readChunks(in)
		if err != nil {
			return nil, err
		}
		return schema.StreamReaderFromArray(append(cs, M{"hpre": "P" + s.Note})), nil
	})
}
func postSM(k string) compose.GraphAddNodeOpt {
	return compose.WithStreamStatePostHandler(func(ctx context.Context, out *schema.StreamReader[M], s *st) (*schema.StreamReader[M], error) {
		cs, err := readChunks(out)
		if err != nil {
			return nil, err
		}
		s.Note += k
		return schema.StreamReaderFromArray(append(cs, M{"hpost": "Q" + s.Note})), nil
	})
}

// stateLin is the string line a -> b with a pre and a post handler on both nodes; forms[i] selects the
// value ('v') or stream ('s') form of: a.pre, a.post, b.pre, b.post.
func stateLin(name string, forms string) shape {
	pre := func(i int, k string) compose.GraphAddNodeOpt {
		if forms[i] == 's' {
			return preS(k)
		}
		return preV(k)
	}
	post := func(i int, k string) compose.GraphAddNodeOpt {
		if forms[i] == 's' {
			return postS(k)
		}
		return postV(k)
	}
	return shape{name: name, feat: "state", npos: 2, inputs: inS,
		build: func(f *factory) (runner, error) {
			b := newGB[string](compose.WithGenLocalState(genState))
			b.node("a", f.S(0), pre(0, "a"), post(1, "a"))
			b.node("b", f.S(1), pre(2, "b"), post(3, "b"))
			b.edges(S, "a", "a", "b", "b", E)
			return b.compile()
		},
		model: func(e *eval, x any) any {
			ya := e.s(0, x.(string)+"<a") + ">a"
			return e.s(1, ya+"<ba") + ">b"
		}}
}

func stateFanin(name string, stream bool) shape {
	return shape{name: name, feat: "state-fanin", npos: 3, inputs: inM,
		build: func(f *factory) (runner, error) {
			b := newGB[M](compose.WithGenLocalState(genState))
			b.node("a", f.M(0))
			b.node("b", f.M(1))
			if stream {
				b.node("c", f.M(2), preSM(), postSM("c"))
			} else {
				b.node("c", f.M(2), preVM(), postVM("c"))
			}
			b.edges(S, "a", S, "b", "a", "c", "b", "c", "c", E)
			return b.compile()
		},
		model: func(e *eval, x any) any {
			in := union(e.m(0, x.(M)), e.m(1, x.(M)), M{"hpre": "P"})
			return union(e.m(2, in), M{"hpost": "Qc"})
		}}
}

func diamond(name string, dag, thorough bool) shape {
	return shape{name: name, feat: "fan", npos: 4, inputs: inM, thorough: thorough,
		build: func(f *factory) (runner, error) {
			b := newGB[M]()
			if dag {
				b.dag()
			}
			b.node("a", f.M(0))
			b.node("b", f.M(1))
			b.node("c", f.M(2))
			b.node("d", f.M(3))
			b.edges(S, "a", "a", "b", "a", "c", "b", "d", "c", "d", "d", E)
			return b.compile()
		},
		model: func(e *eval, x any) any {
			ya := e.m(0, x.(M))
			return e.m(3, union(e.m(1, ya), e.m(2, ya)))
		}}
}

func fanin(name string, dag bool) shape {
	return shape{name: name, feat: "fan", npos: 3, inputs: inM,
		build: func(f *factory) (runner, error) {
			b := newGB[M]()
			if dag {
				b.dag()
			}
			b.node("a", f.M(0))
			b.node("b", f.M(1))
			b.node("c", f.M(2))
			b.edges(S, "a", S, "b", "a", "c", "b", "c", "c", E)
			return b.compile()
		},
		model: func(e *eval, x any) any {
			return e.m(2, union(e.m(0, x.(M)), e.m(1, x.(M))))
		}}
}

// wideFanin: node a and n keyed pass-throughs (p1..pn, each wrapping the graph input under its own key) all feed END.
func wideFanin(name string, n int) shape {
	return shape{name: name, feat: "fan", npos: 1, inputs: inM,
		build: func(f *factory) (runner, error) {
			b := newGB[M]()
			b.node("a", f.M(0))
			b.edges(S, "a", "a", E)
			for i := 1; i <= n; i++ {
				k := fmt.Sprintf("p%d", i)
				b.pass(k, compose.WithOutputKey(k))
				b.edges(S, k, k, E)
			}
			return b.compile()
		},
		model: func(e *eval, x any) any {
			out := union(e.m(0, x.(M)))
			for i := 1; i <= n; i++ {
				out[fmt.Sprintf("p%d", i)] = map[string]any(x.(M))
			}
			return out
		}}
}

func branchShape(name string, stream bool) shape {
	return shape{name: name, feat: name, npos: 3, inputs: inMLR,
		build: func(f *factory) (runner, error) {
			b := newGB[M]()
			b.node("a", f.M(0))
			b.node("b", f.M(1))
			b.node("c", f.M(2))
			b.edges(S, "a", "b", E, "c", E)
			if stream {
				b.branch("a", compose.NewStreamGraphBranch(streamCond("a", "b", "c"), targets("b", "c")))
			} else {
				b.branch("a", compose.NewGraphBranch(valueCond("a", "b", "c"), targets("b", "c")))
			}
			return b.compile()
		},
		model: func(e *eval, x any) any {
			ya := e.m(0, x.(M))
			if ya["a"].(string)[0] == 'L' {
				return e.m(1, ya)
			}
			return e.m(2, ya)
		}}
}

// edgeAndBranch: a writes to b over a plain edge and to c or the pass-through p through a branch.
func edgeAndBranch(name string, stream bool) shape {
	return shape{name: name, feat: name, npos: 3, inputs: inMLR,
		build: func(f *factory) (runner, error) {
			b := newGB[M]()
			b.node("a", f.M(0))
			b.node("b", f.M(1))
			b.node("c", f.M(2))
			b.pass("p")
			b.edges(S, "a", "a", "b", "b", E, "c", E, "p", E)
			if stream {
				b.branch("a", compose.NewStreamGraphBranch(streamCond("a", "c", "p"), targets("c", "p")))
			} else {
				b.branch("a", compose.NewGraphBranch(valueCond("a", "c", "p"), targets("c", "p")))
			}
			return b.compile()
		},
		model: func(e *eval, x any) any {
			ya := e.m(0, x.(M))
			yb := e.m(1, ya)
			if ya["a"].(string)[0] == 'L' {
				return union(yb, e.m(2, ya))
			}
			return union(yb, ya)
		}}
}

// multiBranch: 'L' selects both b and c, anything else only c.
func multiBranch(name string, stream bool) shape {
	sel := func(v any) (map[string]bool, error) {
		t, err := pick(v, "both", "c")
		if err != nil {
			return nil, err
		}
		if t == "both" {
			return map[string]bool{"b": true, "c": true}, nil
		}
		return map[string]bool{"c": true}, nil
	}
	return shape{name: name, feat: name, npos: 3, inputs: inMLR,
		build: func(f *factory) (runner, error) {
			b := newGB[M]()
			b.node("a", f.M(0))
			b.node("b", f.M(1))
			b.node("c", f.M(2))
			b.edges(S, "a", "b", E, "c", E)
			if stream {
				b.branch("a", compose.NewStreamGraphMultiBranch(func(ctx context.Context, in *schema.StreamReader[M]) (map[string]bool, error) {
					defer in.Close()
					c, err := in.Recv()
					if err != nil {
						return nil, fmt.Errorf("c04 branch condition: first Recv: %w", err)
					}
					return sel(c["a"])
				}, targets("b", "c")))
			} else {
				b.branch("a", compose.NewGraphMultiBranch(func(ctx context.Context, in M) (map[string]bool, error) {
					return sel(in["a"])
				}, targets("b", "c")))
			}
			return b.compile()
		},
		model: func(e *eval, x any) any {
			ya := e.m(0, x.(M))
			if ya["a"].(string)[0] == 'L' {
				return union(e.m(1, ya), e.m(2, ya))
			}
			return e.m(2, ya)
		}}
}

// chainGhost: a chain multi-branch whose condition selects, for the L input, one of its branches AND a key that is
// no branch of it: the framework has to refuse that selection in every paradigm alike (Invoke evaluates the value
// form of the condition wrapper, Stream / Collect / Transform the stream form). The R input selects branch c only.
func chainGhost(name string, stream bool) shape {
	sel := func(v any) (map[string]bool, error) {
		if v.(string)[0] == 'L' {
			return map[string]bool{"b": true, "ghost": true}, nil
		}
		return map[string]bool{"c": true}, nil
	}
	return shape{name: name, feat: "chain-branch", npos: 3, inputs: inMLR,
		build: func(f *factory) (runner, error) {
			ch := compose.NewChain[M, M]()
			ch.AppendLambda(f.M(0))
			var br *compose.ChainBranch
			if stream {
				br = compose.NewStreamChainMultiBranch(func(ctx context.Context, in *schema.StreamReader[M]) (map[string]bool, error) {
					defer in.Close()
					c, err := in.Recv()
					if err != nil {
						return nil, fmt.Errorf("c04 branch condition: first Recv: %w", err)
					}
					return sel(c["a"])
				})
			} else {
				br = compose.NewChainMultiBranch(func(ctx context.Context, in M) (map[string]bool, error) { return sel(in["a"]) })
			}
			ch.AppendBranch(br.AddLambda("b", f.M(1)).AddLambda("c", f.M(2)))
			r, err := ch.Compile(context.Background())
			if err != nil {
				return nil, err
			}
			return runnerT[M, M]{r}, nil
		},
		model: func(e *eval, x any) any {
			ya := e.m(0, x.(M))
			if ya["a"].(string)[0] == 'L' {
				e.failed, e.refused = true, "the branch condition selects a key that is no branch of it"
				return nil
			}
			return e.m(2, ya)
		}}
}

// anyinBranch: the graph input is typed any, the branch on START reads maps: pre-branch type check.
func anyinBranch(name string, stream bool) shape {
	return shape{name: name, feat: "any-edge-branch", npos: 2, inputs: inMLR,
		build: func(f *factory) (runner, error) {
			b := newGB2[any, M]()
			b.node("a", f.M(0))
			b.node("b", f.M(1))
			b.edges("a", E, "b", E)
			if stream {
				b.branch(S, compose.NewStreamGraphBranch(streamCond("x", "a", "b"), targets("a", "b")))
			} else {
				b.branch(S, compose.NewGraphBranch(valueCond("x", "a", "b"), targets("a", "b")))
			}
			return b.compile()
		},
		model: func(e *eval, x any) any {
			if x.(M)["x"].(string)[0] == 'L' {
				return e.m(0, x.(M))
			}
			return e.m(1, x.(M))
		}}
}

func allShapes() []shape {
	lin := func(name string, n int, thorough bool) shape {
		return shape{name: name, feat: "linear", npos: n, inputs: inS, thorough: thorough,
			build: func(f *factory) (runner, error) {
				b := newGB[string]()
				prev := S
				for i := 0; i < n; i++ {
					b.node(posKey(i), f.S(i))
					b.edges(prev, posKey(i))
					prev = posKey(i)
				}
				b.edges(prev, E)
				return b.compile()
			},
			model: func(e *eval, x any) any {
				v := x.(string)
				for i := 0; i < n; i++ {
					v = e.s(i, v)
				}
				return v
			}}
	}
	return []shape{
		lin("lin2s", 2, false),
		lin("lin3s", 3, false),
		{name: "lin2m", feat: "linear", npos: 2, inputs: inM,
			build: func(f *factory) (runner, error) {
				b := newGB[M]()
				b.node("a", f.M(0))
				b.node("b", f.M(1))
				b.edges(S, "a", "a", "b", "b", E)
				return b.compile()
			},
			model: func(e *eval, x any) any { return e.m(1, e.m(0, x.(M))) }},

		// ---- pass-through chains
		{name: "pass0", feat: "pass", npos: 0, inputs: inS,
			build: func(f *factory) (runner, error) {
				b := newGB[string]()
				b.pass("p")
				b.edges(S, "p", "p", E)
				return b.compile()
			},
			model: func(e *eval, x any) any { return x }},
		{name: "pass-pre", feat: "pass", npos: 1, inputs: inM,
			build: func(f *factory) (runner, error) {
				b := newGB[M]()
				b.pass("p")
				b.node("a", f.M(0))
				b.edges(S, "p", "p", "a", "a", E)
				return b.compile()
			},
			model: func(e *eval, x any) any { return e.m(0, x.(M)) }},
		{name: "pass-mid", feat: "pass", npos: 2, inputs: inS,
			build: func(f *factory) (runner, error) {
				b := newGB[string]()
				b.node("a", f.S(0))
				b.pass("p")
				b.pass("q")
				b.node("b", f.S(1))
				b.edges(S, "a", "a", "p", "p", "q", "q", "b", "b", E)
				return b.compile()
			},
			model: func(e *eval, x any) any { return e.s(1, e.s(0, x.(string))) }},
		{name: "pass-merge", feat: "pass", npos: 2, inputs: inM,
			build: func(f *factory) (runner, error) {
				b := newGB[M]()
				b.node("a", f.M(0))
				b.node("b", f.M(1))
				b.pass("p")
				b.edges(S, "a", S, "b", "a", "p", "b", "p", "p", E)
				return b.compile()
			},
			model: func(e *eval, x any) any { return union(e.m(0, x.(M)), e.m(1, x.(M))) }},
		{name: "pass-fan", feat: "pass", npos: 3, inputs: inM,
			build: func(f *factory) (runner, error) {
				b := newGB[M]()
				b.node("a", f.M(0))
				b.pass("p")
				b.node("b", f.M(1))
				b.node("c", f.M(2))
				b.edges(S, "a", "a", "p", "p", "b", "p", "c", "b", E, "c", E)
				return b.compile()
			},
			model: func(e *eval, x any) any {
				ya := e.m(0, x.(M))
				return union(e.m(1, ya), e.m(2, ya))
			}},

		// ---- fan-out / fan-in
		{name: "fanout", feat: "fan", npos: 3, inputs: inM,
			build: func(f *factory) (runner, error) {
				b := newGB[M]()
				b.node("a", f.M(0))
				b.node("b", f.M(1))
				b.node("c", f.M(2))
				b.edges(S, "a", "a", "b", "a", "c", "b", E, "c", E)
				return b.compile()
			},
			model: func(e *eval, x any) any {
				ya := e.m(0, x.(M))
				return union(e.m(1, ya), e.m(2, ya))
			}},
		fanin("fanin", false),
		fanin("fanin-dag", true),
		wideFanin("fanin5", 4), // END merges 5 streams: the widest merge served by the hand-unrolled select
		wideFanin("fanin6", 5), // ... and 6: the first one served by reflect.Select

		// ---- branches
		branchShape("branch", false),
		branchShape("sbranch", true),
		{name: "sbranch-start", feat: "sbranch", npos: 2, inputs: inMLR,
			build: func(f *factory) (runner, error) {
				b := newGB[M]()
				b.node("a", f.M(0))
				b.node("b", f.M(1))
				b.edges("a", E, "b", E)
				b.branch(S, compose.NewStreamGraphBranch(streamCond("x", "a", "b"), targets("a", "b")))
				return b.compile()
			},
			model: func(e *eval, x any) any {
				if x.(M)["x"].(string)[0] == 'L' {
					return e.m(0, x.(M))
				}
				return e.m(1, x.(M))
			}},

		// ---- input / output keys
		{name: "keys-lin", feat: "keys", npos: 2, inputs: inM2,
			build: func(f *factory) (runner, error) {
				b := newGB[M]()
				b.node("a", f.S(0), compose.WithInputKey("x"), compose.WithOutputKey("u"))
				b.node("b", f.S(1), compose.WithInputKey("u"), compose.WithOutputKey("v"))
				b.edges(S, "a", "a", "b", "b", E)
				return b.compile()
			},
			model: func(e *eval, x any) any {
				return M{"v": e.s(1, e.s(0, x.(M)["x"].(string)))}
			}},
		{name: "keys-end", feat: "keys", npos: 2, inputs: inM2,
			build: func(f *factory) (runner, error) {
				b := newGB[M]()
				b.node("a", f.S(0), compose.WithInputKey("x"), compose.WithOutputKey("u"))
				b.node("b", f.S(1), compose.WithInputKey("y"), compose.WithOutputKey("v"))
				b.edges(S, "a", S, "b", "a", E, "b", E)
				return b.compile()
			},
			model: func(e *eval, x any) any {
				return M{"u": e.s(0, x.(M)["x"].(string)), "v": e.s(1, x.(M)["y"].(string))}
			}},
		{name: "keys-fan", feat: "keys", npos: 3, inputs: inM2,
			build: func(f *factory) (runner, error) {
				b := newGB[M]()
				b.node("a", f.S(0), compose.WithInputKey("x"), compose.WithOutputKey("u"))
				b.node("b", f.S(1), compose.WithInputKey("y"), compose.WithOutputKey("v"))
				b.node("c", f.M(2))
				b.edges(S, "a", S, "b", "a", "c", "b", "c", "c", E)
				return b.compile()
			},
			model: func(e *eval, x any) any {
				return e.m(2, M{"u": e.s(0, x.(M)["x"].(string)), "v": e.s(1, x.(M)["y"].(string))})
			}},

		// ---- state handlers
		stateLin("state-vvvv", "vvvv"),
		stateLin("state-ssss", "ssss"),
		stateLin("state-vssv", "vssv"),
		stateLin("state-svvs", "svvs"),
		stateFanin("state-fanin-v", false),
		stateFanin("state-fanin-s", true),
		{name: "pass-state", feat: "pass-state", npos: 0, inputs: inS, nofail: true,
			build: func(f *factory) (runner, error) {
				b := newGB[string](compose.WithGenLocalState(genState))
				b.pass("p", compose.WithStatePreHandler(func(ctx context.Context, in any, s *st) (any, error) { return in, nil }))
				b.edges(S, "p", "p", E)
				return b.compile()
			},
			model: func(e *eval, x any) any { return x }},

		// ---- Workflow with field mappings
		{name: "wf-lin", feat: "workflow", npos: 2, inputs: inM2,
			build: func(f *factory) (runner, error) {
				wf := compose.NewWorkflow[M, M]()
				wf.AddLambdaNode("a", f.M(0)).AddInput(S, compose.MapFields("x", "u"), compose.MapFields("y", "v"))
				wf.AddLambdaNode("b", f.M(1)).AddInput("a", compose.ToField("in"))
				wf.End().AddInput("b")
				r, err := wf.Compile(context.Background())
				if err != nil {
					return nil, err
				}
				return runnerT[M, M]{r}, nil
			},
			model: func(e *eval, x any) any {
				in := x.(M)
				ya := e.m(0, M{"u": in["x"], "v": in["y"]})
				return e.m(1, M{"in": ya})
			}},
		{name: "wf-fan", feat: "workflow", npos: 3, inputs: inM,
			build: func(f *factory) (runner, error) {
				wf := compose.NewWorkflow[M, M]()
				wf.AddLambdaNode("a", f.M(0)).AddInput(S)
				wf.AddLambdaNode("b", f.M(1)).AddInput("a", compose.ToField("p"))
				wf.AddLambdaNode("c", f.M(2)).AddInput("a", compose.MapFields("a", "q"))
				wf.End().AddInput("b", compose.ToField("rb")).AddInput("c", compose.MapFields("c", "rc"))
				r, err := wf.Compile(context.Background())
				if err != nil {
					return nil, err
				}
				return runnerT[M, M]{r}, nil
			},
			model: func(e *eval, x any) any {
				ya := e.m(0, x.(M))
				yb := e.m(1, M{"p": ya})
				yc := e.m(2, M{"q": ya["a"]})
				return M{"rb": yb, "rc": yc["c"]}
			}},
		{name: "wf-from", feat: "workflow", npos: 2, inputs: inM,
			build: func(f *factory) (runner, error) {
				wf := compose.NewWorkflow[M, M]()
				wf.AddLambdaNode("a", f.M(0)).AddInput(S)
				wf.AddLambdaNode("b", f.S(1)).AddInput("a", compose.FromField("a"))
				wf.End().AddInput("b", compose.ToField("out"))
				r, err := wf.Compile(context.Background())
				if err != nil {
					return nil, err
				}
				return runnerT[M, M]{r}, nil
			},
			model: func(e *eval, x any) any {
				ya := e.m(0, x.(M))
				return M{"out": e.s(1, ya["a"].(string))}
			}},

		// ---- nested graphs
		{name: "nested", feat: "nested", npos: 3, inputs: inM,
			build: func(f *factory) (runner, error) {
				in := newGB[M]()
				in.node("b", f.M(1))
				in.node("c", f.M(2))
				in.edges(S, "b", "b", "c", "c", E)
				if in.err != nil {
					return nil, in.err
				}
				b := newGB[M]()
				b.node("a", f.M(0))
				b.sub("g", in.g)
				b.edges(S, "a", "a", "g", "g", E)
				return b.compile()
			},
			model: func(e *eval, x any) any { return e.m(2, e.m(1, e.m(0, x.(M)))) }},
		{name: "nested-key", feat: "nested", npos: 3, inputs: inM2,
			build: func(f *factory) (runner, error) {
				in := newGB[string]()
				in.node("a", f.S(0))
				in.node("b", f.S(1))
				in.edges(S, "a", "a", "b", "b", E)
				if in.err != nil {
					return nil, in.err
				}
				b := newGB[M]()
				b.sub("g", in.g, compose.WithInputKey("x"), compose.WithOutputKey("s"))
				b.node("c", f.M(2))
				b.edges(S, "g", "g", "c", "c", E)
				return b.compile()
			},
			model: func(e *eval, x any) any {
				return e.m(2, M{"s": e.s(1, e.s(0, x.(M)["x"].(string)))})
			}},

		// ---- chains
		{name: "chain-par", feat: "chain", npos: 3, inputs: inM,
			build: func(f *factory) (runner, error) {
				ch := compose.NewChain[M, M]()
				ch.AppendParallel(compose.NewParallel().AddLambda("ka", f.M(0)).AddLambda("kb", f.M(1)))
				ch.AppendLambda(f.M(2))
				r, err := ch.Compile(context.Background())
				if err != nil {
					return nil, err
				}
				return runnerT[M, M]{r}, nil
			},
			model: func(e *eval, x any) any {
				return e.m(2, M{"ka": e.m(0, x.(M)), "kb": e.m(1, x.(M))})
			}},
		{name: "chain-par-end", feat: "chain", npos: 3, inputs: inM,
			build: func(f *factory) (runner, error) {
				ch := compose.NewChain[M, M]()
				ch.AppendLambda(f.M(0))
				ch.AppendParallel(compose.NewParallel().AddLambda("kb", f.M(1)).AddLambda("kc", f.M(2)))
				r, err := ch.Compile(context.Background())
				if err != nil {
					return nil, err
				}
				return runnerT[M, M]{r}, nil
			},
			model: func(e *eval, x any) any {
				ya := e.m(0, x.(M))
				return M{"kb": e.m(1, ya), "kc": e.m(2, ya)}
			}},
		{name: "chain-branch", feat: "chain-branch", npos: 3, inputs: inMLR,
			build: func(f *factory) (runner, error) {
				ch := compose.NewChain[M, M]()
				ch.AppendLambda(f.M(0))
				ch.AppendBranch(compose.NewChainBranch(valueCond("a", "b", "c")).AddLambda("b", f.M(1)).AddLambda("c", f.M(2)))
				r, err := ch.Compile(context.Background())
				if err != nil {
					return nil, err
				}
				return runnerT[M, M]{r}, nil
			},
			model: func(e *eval, x any) any {
				ya := e.m(0, x.(M))
				if ya["a"].(string)[0] == 'L' {
					return e.m(1, ya)
				}
				return e.m(2, ya)
			}},
		chainGhost("chain-mbranch-ghost", false),
		chainGhost("chain-smbranch-ghost", true),

		// ---- interface typed edges (type checks at run time, value and stream form)
		{name: "anyin-lin", feat: "any-edge", npos: 2, inputs: inM,
			build: func(f *factory) (runner, error) {
				b := newGB2[any, M]()
				b.node("a", f.M(0))
				b.node("b", f.M(1))
				b.edges(S, "a", "a", "b", "b", E)
				return b.compile()
			},
			model: func(e *eval, x any) any { return e.m(1, e.m(0, x.(M))) }},
		anyinBranch("anyin-branch", false),
		anyinBranch("anyin-sbranch", true),
		{name: "anyout-nested", feat: "any-edge", npos: 3, inputs: inM,
			build: func(f *factory) (runner, error) {
				in := newGB2[M, any]()
				in.node("a", f.M(0))
				in.edges(S, "a", "a", E)
				if in.err != nil {
					return nil, in.err
				}
				b := newGB[M]()
				b.sub("g", in.g)
				b.node("b", f.M(1))
				b.node("c", f.M(2))
				b.edges(S, "g", "g", "b", "g", "c", "b", E, "c", E)
				return b.compile()
			},
			model: func(e *eval, x any) any {
				ya := e.m(0, x.(M))
				return union(e.m(1, ya), e.m(2, ya))
			}},

		// ---- Workflow: static value, control-only dependency
		{name: "wf-static", feat: "workflow-static", npos: 3, inputs: inM,
			build: func(f *factory) (runner, error) {
				wf := compose.NewWorkflow[M, M]()
				wf.AddLambdaNode("a", f.M(0)).AddInput(S)
				wf.AddLambdaNode("b", f.M(1)).AddInput("a", compose.ToField("p")).SetStaticValue(compose.FieldPath{"k"}, "Kst")
				wf.AddLambdaNode("c", f.M(2)).AddDependency("a") // control only: c runs on the zero input
				wf.End().AddInput("b", compose.ToField("rb")).AddInput("c", compose.ToField("rc"))
				r, err := wf.Compile(context.Background())
				if err != nil {
					return nil, err
				}
				return runnerT[M, M]{r}, nil
			},
			model: func(e *eval, x any) any {
				ya := e.m(0, x.(M))
				yb := e.m(1, M{"p": ya, "k": "Kst"})
				yc := e.m(2, M{})
				return M{"rb": yb, "rc": yc}
			}},
		// a node that runs on NO data input (control-only dependency), whose output type differs from its input type
		// and which carries an output key / an input key: in the stream paradigms the framework hands it an empty
		// stream of its input type, in Invoke the zero value
		{name: "wf-dep-outkey", feat: "workflow-static", npos: 2, inputs: inM,
			build: func(f *factory) (runner, error) {
				wf := compose.NewWorkflow[M, M]()
				wf.AddLambdaNode("a", f.M(0)).AddInput(S)
				wf.AddLambdaNode("b", f.RM(1), compose.WithOutputKey("kb")).AddDependency("a")
				wf.End().AddInput("a", compose.ToField("ra")).AddInput("b", compose.MapFields("kb", "rb"))
				r, err := wf.Compile(context.Background())
				if err != nil {
					return nil, err
				}
				return runnerT[M, M]{r}, nil
			},
			model: func(e *eval, x any) any {
				ya := e.m(0, x.(M))
				yb := e.rm(1, rec{})
				return M{"ra": ya, "rb": yb}
			}},
		{name: "wf-dep-static", feat: "workflow-static", npos: 2, inputs: inM,
			build: func(f *factory) (runner, error) {
				wf := compose.NewWorkflow[M, M]()
				wf.AddLambdaNode("a", f.M(0)).AddInput(S)
				wf.AddLambdaNode("b", f.M(1)).AddDependency("a").SetStaticValue(compose.FieldPath{"k2"}, "Qst")
				wf.End().AddInput("a", compose.ToField("ra")).AddInput("b", compose.ToField("rb"))
				r, err := wf.Compile(context.Background())
				if err != nil {
					return nil, err
				}
				return runnerT[M, M]{r}, nil
			},
			model: func(e *eval, x any) any {
				ya := e.m(0, x.(M))
				yb := e.m(1, M{"k2": "Qst"})
				return M{"ra": ya, "rb": yb}
			}},

		// ---- Workflow: struct fields in both directions
		{name: "wf-struct", feat: "workflow-struct", npos: 3, inputs: inM,
			build: func(f *factory) (runner, error) {
				wf := compose.NewWorkflow[M, M]()
				wf.AddLambdaNode("a", f.MR(0)).AddInput(S)
				wf.AddLambdaNode("b", f.RM(1)).AddInput("a", compose.MapFields("P", "K"), compose.MapFields("K", "P"))
				wf.AddLambdaNode("c", f.M(2)).AddInput("a", compose.MapFields("P", "q")).SetStaticValue(compose.FieldPath{"k"}, "Kst")
				wf.End().AddInput("b", compose.ToField("rb")).AddInput("c", compose.MapFields("c", "rc"))
				r, err := wf.Compile(context.Background())
				if err != nil {
					return nil, err
				}
				return runnerT[M, M]{r}, nil
			},
			model: func(e *eval, x any) any {
				ya := e.mr(0, x.(M))
				yb := e.rm(1, rec{P: ya.K, K: ya.P})
				yc := e.m(2, M{"q": ya.P, "k": "Kst"})
				return M{"rb": yb, "rc": yc["c"]}
			}},
		{name: "wf-struct-static", feat: "workflow-struct", npos: 2, inputs: inM,
			build: func(f *factory) (runner, error) {
				wf := compose.NewWorkflow[M, M]()
				wf.AddLambdaNode("a", f.M(0)).AddInput(S)
				wf.AddLambdaNode("b", f.RM(1)).AddInput("a", compose.MapFields("a", "P")).SetStaticValue(compose.FieldPath{"K"}, "Kst")
				wf.End().AddInput("b")
				r, err := wf.Compile(context.Background())
				if err != nil {
					return nil, err
				}
				return runnerT[M, M]{r}, nil
			},
			model: func(e *eval, x any) any {
				ya := e.m(0, x.(M))
				return e.rm(1, rec{P: ya["a"].(string), K: "Kst"})
			}},

		// ---- a node with a plain edge and a branch; multi-branches
		edgeAndBranch("edge-and-branch", false),
		edgeAndBranch("edge-and-sbranch", true),
		multiBranch("multibranch", false),
		multiBranch("smultibranch", true),

		// ---- four positions
		diamond("diamond", false, false),
		diamond("diamond-dag", true, true),
		lin("lin4s", 4, true),
	}
}

func shapeByName(name string) *shape {
	for _, s := range allShapes() {
		if s.name == name {
			s := s
			return &s
		}
	}
	return nil
}
