package main

import (
	"context"
	"fmt"
	"io"
	"strings"
	"sync/atomic"

	"github.com/cloudwego/eino/compose"
	"github.com/cloudwego/eino/schema"
)

// The seven native paradigm sets a node can implement.
var kinds = []string{"I", "S", "C", "T", "IS", "ST", "ISCT"}

// hasStreamOut: the node has a native function that produces a stream (so it has an output chunking).
func hasStreamOut(kind string) bool { return strings.ContainsAny(kind, "ST") }

// the injected failure WRAPS io.EOF (as read errors of real sources do): an error is an error, whatever it wraps;
// only the bare io.EOF ends a stream
var errInjected = fmt.Errorf("c04-injected-failure (%w)", io.EOF)

// world is the per-case runtime state shared by node bodies.
type world struct {
	execs  atomic.Int64    // node bodies executed
	native [4]atomic.Int64 // which native function the framework called (I, S, C, T)
}

// nodeSpec describes one lambda position of a case.
type nodeSpec struct {
	key  string
	kind string // element of kinds
	oc   string // output chunking of the native stream producers ("-" if none)
	fail string // "", "call" (error returned by the body), "item" (first chunk, then an error item)
}

// dom bundles what is domain specific: the node function from I to O, how an output is split into chunks,
// how input chunks concatenate.
type dom[I, O any] struct {
	f     func(key string, in I) O
	split func(v O, mode string) []O
	cat   func(cs []I) (I, error)
}

var domS = dom[string, string]{
	f:     fS,
	split: splitS,
	cat:   func(cs []string) (string, error) { return catS(cs), nil },
}

var domM = dom[M, M]{
	f:     fM,
	split: splitM,
	cat:   catM,
}

// rec is the struct domain of the Workflow shapes that map struct fields.
type rec struct {
	P string
	K string
}

func fMR(key string, in M) rec { return rec{P: render(in) + "." + key, K: "k" + key} }
func fRM(key string, in rec) M { return M{key: in.P + "@P+" + in.K + "@K." + key} }

// splitRec splits P like a string; K travels in the last chunk.
func splitRec(r rec, mode string) []rec {
	ps := splitS(r.P, mode)
	out := make([]rec, len(ps))
	for i, p := range ps {
		out[i].P = p
	}
	out[len(out)-1].K = r.K
	return out
}

func catRec(cs []rec) (rec, error) {
	var r rec
	for _, c := range cs {
		r.P += c.P
		r.K += c.K
	}
	return r, nil
}

var domMR = dom[M, rec]{f: fMR, split: splitRec, cat: catM}
var domRM = dom[rec, M]{f: fRM, split: splitM, cat: catRec}

func init() {
	// what makes concatenation of rec chunks well defined for the framework: field-wise ++
	compose.RegisterStreamChunkConcatFunc(func(cs []rec) (rec, error) { return catRec(cs) })
}

// readChunks reads a stream to its end (or to its first error item) and closes it.
func readChunks[T any](sr *schema.StreamReader[T]) ([]T, error) {
	defer sr.Close()
	var out []T
	for {
		c, err := sr.Recv()
		if err == io.EOF {
			return out, nil
		}
		if err != nil {
			return out, err
		}
		out = append(out, c)
	}
}

// readAll concatenates the whole input stream of a node body.
func readAll[T, O any](d dom[T, O], key string, sr *schema.StreamReader[T]) (T, error) {
	var zero T
	cs, err := readChunks(sr)
	if err != nil {
		return zero, err
	}
	if len(cs) == 0 {
		return zero, fmt.Errorf("c04 harness: node %s received a stream without chunks", key)
	}
	return d.cat(cs)
}

func itemStream[T any](first T) *schema.StreamReader[T] {
	var zero T
	sr, sw := schema.Pipe[T](2)
	sw.Send(first, nil)
	sw.Send(zero, errInjected)
	sw.Close()
	return sr
}

// mkLambda builds the lambda of one position: the same pure function d.f(key, .) in each native paradigm of
// ns.kind. Stream producers split their output by ns.oc. Collect / Transform bodies read their whole input.
// The transform of kind "ST" is lazy (it returns at once and feeds a pipe from its own goroutine), all
// other bodies finish their work before they return.
func mkLambda[I, O any](w *world, d dom[I, O], ns nodeSpec) *compose.Lambda {
	var zero O
	inv := func(ctx context.Context, in I) (O, error) {
		w.execs.Add(1)
		w.native[0].Add(1)
		if ns.fail != "" {
			return zero, errInjected
		}
		return d.f(ns.key, in), nil
	}
	produce := func(in I) (*schema.StreamReader[O], error) {
		if ns.fail == "call" {
			return nil, errInjected
		}
		cs := d.split(d.f(ns.key, in), ns.oc)
		if ns.fail == "item" {
			return itemStream(cs[0]), nil
		}
		return schema.StreamReaderFromArray(cs), nil
	}
	str := func(ctx context.Context, in I) (*schema.StreamReader[O], error) {
		w.execs.Add(1)
		w.native[1].Add(1)
		return produce(in)
	}
	col := func(ctx context.Context, in *schema.StreamReader[I]) (O, error) {
		w.execs.Add(1)
		w.native[2].Add(1)
		x, err := readAll(d, ns.key, in)
		if err != nil {
			return zero, err
		}
		if ns.fail != "" {
			return zero, errInjected
		}
		return d.f(ns.key, x), nil
	}
	tra := func(ctx context.Context, in *schema.StreamReader[I]) (*schema.StreamReader[O], error) {
		w.execs.Add(1)
		w.native[3].Add(1)
		if ns.fail == "call" {
			in.Close()
			return nil, errInjected
		}
		x, err := readAll(d, ns.key, in)
		if err != nil {
			return nil, err
		}
		return produce(x)
	}
	lazyTra := func(ctx context.Context, in *schema.StreamReader[I]) (*schema.StreamReader[O], error) {
		w.execs.Add(1)
		w.native[3].Add(1)
		if ns.fail == "call" {
			in.Close()
			return nil, errInjected
		}
		sr, sw := schema.Pipe[O](8) // never blocks: at most 5 sends
		go func() {
			defer sw.Close()
			x, err := readAll(d, ns.key, in)
			if err != nil {
				sw.Send(zero, err)
				return
			}
			cs := d.split(d.f(ns.key, x), ns.oc)
			for i, c := range cs {
				if ns.fail == "item" && i == 1 {
					sw.Send(zero, errInjected)
					return
				}
				if sw.Send(c, nil) {
					return
				}
			}
			if ns.fail == "item" {
				sw.Send(zero, errInjected)
			}
		}()
		return sr, nil
	}
	// adapters for AnyLambda (which wants an option type)
	type opt = struct{}
	invO := func(ctx context.Context, in I, _ ...opt) (O, error) { return inv(ctx, in) }
	strO := func(ctx context.Context, in I, _ ...opt) (*schema.StreamReader[O], error) { return str(ctx, in) }
	colO := func(ctx context.Context, in *schema.StreamReader[I], _ ...opt) (O, error) { return col(ctx, in) }
	traO := func(ctx context.Context, in *schema.StreamReader[I], _ ...opt) (*schema.StreamReader[O], error) {
		return tra(ctx, in)
	}
	lazyO := func(ctx context.Context, in *schema.StreamReader[I], _ ...opt) (*schema.StreamReader[O], error) {
		return lazyTra(ctx, in)
	}
	var l *compose.Lambda
	var err error
	switch ns.kind {
	case "I":
		l = compose.InvokableLambda(inv)
	case "S":
		l = compose.StreamableLambda(str)
	case "C":
		l = compose.CollectableLambda(col)
	case "T":
		l = compose.TransformableLambda(tra)
	case "IS":
		l, err = compose.AnyLambda[I, O, opt](invO, strO, nil, nil)
	case "ST":
		l, err = compose.AnyLambda[I, O, opt](nil, strO, nil, lazyO)
	case "ISCT":
		l, err = compose.AnyLambda[I, O, opt](invO, strO, colO, traO)
	default:
		panic("c04 harness: unknown kind " + ns.kind)
	}
	if err != nil {
		panic("c04 harness: AnyLambda: " + err.Error())
	}
	return l
}
