package main

import (
	"fmt"
	"reflect"
	"sort"
	"strconv"
	"strings"
)

// render is the canonical rendering used to compare concatenation results. It is a pure function of the
// value: pointers are followed (never printed), map entries are sorted by rendered key, struct fields are
// printed by name and zero fields are omitted, nil and empty slices/maps render identically (the property
// speaks about "the same result"; the nil/empty distinction of a container is not judged).
func render(v any) string {
	var b strings.Builder
	renderValue(&b, reflect.ValueOf(v), 0)
	return b.String()
}

func isEmptyForRender(v reflect.Value) bool {
	switch v.Kind() {
	case reflect.Slice, reflect.Map:
		return v.Len() == 0
	case reflect.Interface, reflect.Ptr:
		return v.IsNil()
	}
	return v.IsZero()
}

func renderValue(b *strings.Builder, v reflect.Value, depth int) {
	if !v.IsValid() {
		b.WriteString("nil")
		return
	}
	if depth > 12 {
		b.WriteString("<deep>")
		return
	}
	switch v.Kind() {
	case reflect.Interface:
		if v.IsNil() {
			b.WriteString("nil")
			return
		}
		renderValue(b, v.Elem(), depth+1)
	case reflect.Ptr:
		if v.IsNil() {
			b.WriteString("nil:")
			b.WriteString(shortType(v.Type()))
			return
		}
		b.WriteByte('&')
		renderValue(b, v.Elem(), depth+1)
	case reflect.String:
		b.WriteString(strconv.Quote(v.String()))
	case reflect.Bool:
		b.WriteString(strconv.FormatBool(v.Bool()))
	case reflect.Int, reflect.Int8, reflect.Int16, reflect.Int32, reflect.Int64:
		b.WriteString(strconv.FormatInt(v.Int(), 10))
	case reflect.Uint, reflect.Uint8, reflect.Uint16, reflect.Uint32, reflect.Uint64, reflect.Uintptr:
		b.WriteString(strconv.FormatUint(v.Uint(), 10))
	case reflect.Float32, reflect.Float64:
		b.WriteString(strconv.FormatFloat(v.Float(), 'g', -1, 64))
		b.WriteByte('f')
	case reflect.Slice, reflect.Array:
		b.WriteByte('[')
		for i := 0; i < v.Len(); i++ {
			if i > 0 {
				b.WriteByte(' ')
			}
			renderValue(b, v.Index(i), depth+1)
		}
		b.WriteByte(']')
	case reflect.Map:
		type kv struct{ k, v string }
		var es []kv
		it := v.MapRange()
		for it.Next() {
			var kb, vb strings.Builder
			renderValue(&kb, it.Key(), depth+1)
			renderValue(&vb, it.Value(), depth+1)
			es = append(es, kv{kb.String(), vb.String()})
		}
		sort.Slice(es, func(i, j int) bool { return es[i].k < es[j].k })
		b.WriteString(shortType(v.Type()))
		b.WriteByte('{')
		for i, e := range es {
			if i > 0 {
				b.WriteByte(' ')
			}
			b.WriteString(e.k)
			b.WriteByte(':')
			b.WriteString(e.v)
		}
		b.WriteByte('}')
	case reflect.Struct:
		b.WriteString(shortType(v.Type()))
		b.WriteByte('{')
		first := true
		for i := 0; i < v.NumField(); i++ {
			f := v.Field(i)
			if isEmptyForRender(f) {
				continue
			}
			if !first {
				b.WriteByte(' ')
			}
			first = false
			b.WriteString(v.Type().Field(i).Name)
			b.WriteByte(':')
			renderValue(b, f, depth+1)
		}
		b.WriteByte('}')
	default:
		fmt.Fprintf(b, "<%s>", v.Kind())
	}
}

func shortType(t reflect.Type) string {
	s := t.String()
	s = strings.ReplaceAll(s, "interface {}", "any")
	s = strings.ReplaceAll(s, "schema.", "")
	s = strings.ReplaceAll(s, "main.", "")
	return s
}
