package main

import (
	"context"
	"errors"
	"fmt"
	"strings"

	"github.com/cloudwego/eino/compose"
	"github.com/cloudwego/eino/schema"
	"github.com/cloudwego/eino/verifx"
)

// ---------------------------------------------------------------------------------------------------
// chunk types that are not eino's own

// C14Reg is a custom chunk type registered through the public API (compose.RegisterStreamChunkConcatFunc).
// Its concat function is a monoid homomorphism (join S, add N) that fails iff any chunk is marked Bad, so the
// framework - not the function - is what clause (3) tests.
type C14Reg struct {
	S   string
	N   int
	Bad bool
}

// C14RegPtr is a registered pointer chunk type; nil chunks are skipped by its function.
type C14RegPtr struct{ S string }

// C14Unreg is a chunk type nobody registered ("at most one non-zero chunk" rule of internal/concat.go).
type C14Unreg struct{ A int }

func registerCustom() {
	compose.RegisterStreamChunkConcatFunc(func(items []C14Reg) (C14Reg, error) {
		var out C14Reg
		for _, it := range items {
			if it.Bad {
				return C14Reg{}, errors.New("bad chunk")
			}
			out.S += it.S
			out.N += it.N
		}
		return out, nil
	})
	compose.RegisterStreamChunkConcatFunc(func(items []*C14RegPtr) (*C14RegPtr, error) {
		out := &C14RegPtr{}
		for _, it := range items {
			if it != nil {
				out.S += it.S
			}
		}
		return out, nil
	})
}

// ---------------------------------------------------------------------------------------------------
// entry points

// itemsEntry is the generic entry point. internal.ConcatItems documents the precondition len(items) > 1;
// every caller in eino (compose.concatStreamReader) returns a single chunk as it is, and so does this wrapper.
func itemsEntry[T any]() entry[T] {
	return entry[T]{name: "internal.ConcatItems", f: func(in []T) (T, error) {
		if len(in) == 1 {
			return in[0], nil
		}
		return verifx.C14ConcatItems(in)
	}}
}

// graphEntry is a compiled compose graph START -> src (stream-only lambda) -> sink (invoke-only lambda) -> END:
// the framework has to turn src's output stream into the value sink wants, i.e. it concatenates the chunks.
func graphEntry[T any]() entry[T] {
	ctx := context.Background()
	g := compose.NewGraph[[]T, T]()
	must(g.AddLambdaNode("src", compose.StreamableLambda(func(ctx context.Context, in []T) (*schema.StreamReader[T], error) {
		sr, sw := schema.Pipe[T](len(in))
		for _, c := range in {
			sw.Send(c, nil)
		}
		sw.Close()
		return sr, nil
	})))
	must(g.AddLambdaNode("sink", compose.InvokableLambda(func(ctx context.Context, in T) (T, error) { return in, nil })))
	must(g.AddEdge(compose.START, "src"))
	must(g.AddEdge("src", "sink"))
	must(g.AddEdge("sink", compose.END))
	r, err := g.Compile(ctx)
	must(err)
	return entry[T]{name: "graph(stream->invoke)", sameAs: "internal.ConcatItems", f: func(in []T) (T, error) { return r.Invoke(ctx, in) }}
}

func must(err error) {
	if err != nil {
		fmt.Println("c14: harness construction failed:", err)
		panic(err)
	}
}

func msgEntries() []entry[*schema.Message] {
	return []entry[*schema.Message]{
		{name: "schema.ConcatMessages", f: schema.ConcatMessages},
		{name: "schema.ConcatMessageStream", f: func(in []*schema.Message) (*schema.Message, error) {
			sr, sw := schema.Pipe[*schema.Message](len(in))
			for _, m := range in {
				sw.Send(m, nil)
			}
			sw.Close()
			defer sr.Close()
			return schema.ConcatMessageStream(sr)
		}},
		itemsEntry[*schema.Message](),
		graphEntry[*schema.Message](),
	}
}

func genericEntries[T any]() []entry[T] {
	return []entry[T]{itemsEntry[T](), graphEntry[T]()}
}

// ---------------------------------------------------------------------------------------------------
// message aspects

type aspect struct {
	label string
	feats []string
	apply func(m *schema.Message) // nil: aspect absent
}

func ip(i int) *int { return &i }

// tc builds one tool-call fragment; idx < 0 means "no index".
func tc(idx int, id, typ, name, args string) schema.ToolCall {
	t := schema.ToolCall{ID: id, Type: typ, Function: schema.FunctionCall{Name: name, Arguments: args}}
	if idx >= 0 {
		t.Index = ip(idx)
	}
	return t
}

func tcLabel(t schema.ToolCall) string {
	var b strings.Builder
	if t.Index == nil {
		b.WriteString("#-")
	} else {
		fmt.Fprintf(&b, "#%d", *t.Index)
	}
	if t.ID != "" {
		b.WriteString(" id=" + t.ID)
	}
	if t.Type != "" {
		b.WriteString(" type=" + t.Type)
	}
	if t.Function.Name != "" {
		b.WriteString(" fn=" + t.Function.Name)
	}
	if t.Function.Arguments != "" {
		b.WriteString(" args=" + t.Function.Arguments)
	}
	return b.String()
}

func toolAspect(frags ...schema.ToolCall) aspect {
	ls := make([]string, len(frags))
	for i, f := range frags {
		ls[i] = tcLabel(f)
	}
	return aspect{label: "tools{" + strings.Join(ls, "; ") + "}", apply: func(m *schema.Message) {
		cp := make([]schema.ToolCall, len(frags))
		for i, f := range frags {
			cp[i] = f
			if f.Index != nil {
				cp[i].Index = ip(*f.Index)
			}
		}
		m.ToolCalls = cp
	}}
}

func baseAspects(full bool) []aspect {
	roles := []schema.RoleType{"", schema.Assistant, schema.User}
	contents := []string{"", "x", "y"}
	var out []aspect
	for _, r := range roles {
		for _, c := range contents {
			r, c := r, c
			if !full && !((r == "" && c == "") || (r == schema.Assistant && c == "x") || (r == "" && c == "y") || (r == schema.User && c == "")) {
				continue
			}
			out = append(out, aspect{label: fmt.Sprintf("role=%q content=%q", string(r), c), apply: func(m *schema.Message) { m.Role, m.Content = r, c }})
		}
	}
	return out
}

func idAspects(full bool) []aspect {
	var out []aspect
	names := []string{"", "n", "m"}
	ids := []string{"", "t", "u"}
	for _, n := range names {
		for _, t := range ids {
			n, t := n, t
			if !full && !((n == "" && t == "") || (n == "n" && t == "") || (n == "" && t == "t")) {
				continue
			}
			out = append(out, aspect{label: fmt.Sprintf("name=%q toolCallID=%q", n, t), apply: func(m *schema.Message) { m.Name, m.ToolCallID = n, t }})
		}
	}
	return out
}

func toolAspects(full bool) []aspect {
	if !full {
		return []aspect{
			{label: "tools{}"},
			toolAspect(tc(0, "", "", "", "a")),
			toolAspect(tc(0, "i", "", "", "b")),
			toolAspect(tc(1, "", "", "", "a")),
			toolAspect(tc(-1, "", "", "", "a")),
		}
	}
	out := []aspect{{label: "tools{}"}, {label: "tools{empty-slice}", apply: func(m *schema.Message) { m.ToolCalls = []schema.ToolCall{} }}}
	for _, idx := range []int{-1, 0, 1} {
		for _, ia := range [][2]string{{"", ""}, {"", "a"}, {"", "b"}, {"i", "a"}} {
			out = append(out, toolAspect(tc(idx, ia[0], "", "", ia[1])))
		}
	}
	out = append(out, toolAspect(tc(0, "i", "", "", "")))
	out = append(out,
		toolAspect(tc(0, "j", "", "", "")), // conflicting id
		toolAspect(tc(0, "", "", "f", "")),
		toolAspect(tc(0, "", "", "g", "")), // conflicting function name
		toolAspect(tc(0, "", "function", "", "")),
		toolAspect(tc(0, "", "other", "", "b")), // conflicting type
		toolAspect(tc(1, "", "", "f", "a")),
		toolAspect(tc(0, "", "", "", "a"), tc(1, "", "", "", "b")),
		toolAspect(tc(1, "", "", "", "a"), tc(0, "", "", "", "b")),
		toolAspect(tc(0, "", "", "", "a"), tc(0, "", "", "", "b")),
		toolAspect(tc(-1, "", "", "", "a"), tc(0, "", "", "", "b")),
		toolAspect(tc(0, "", "", "", "a"), tc(-1, "", "", "", "b")),
		toolAspect(tc(-1, "", "", "", "a"), tc(-1, "", "", "", "b")),
		toolAspect(tc(1, "", "", "", "a"), tc(-1, "", "", "", "b")),
		toolAspect(tc(0, "i", "", "", "a"), tc(0, "j", "", "", "b")), // conflict inside one chunk
		toolAspect(tc(2, "", "", "", "a"), tc(0, "", "", "", "b"), tc(1, "", "", "", "a")),
	)
	return out
}

// manyToolAspects: messages that carry many tool-call fragments at once (a model that plans a dozen calls in one
// turn). Sorting / grouping code has size thresholds (Go's sort switches algorithm above 12 elements): two of
// these symbols together put 14-21 fragments into one concatenation, with and without an index, arguments all
// distinct so that any permutation shows.
func manyToolAspects() []aspect {
	run := func(tag string, n int, idx func(k int) int) aspect {
		var fr []schema.ToolCall
		for k := 0; k < n; k++ {
			fr = append(fr, tc(idx(k), "", "", "", fmt.Sprintf("%s%d,", tag, k)))
		}
		a := toolAspect(fr...)
		a.label = fmt.Sprintf("tools{%d fragments %s: %s .. %s}", n, tag, tcLabel(fr[0]), tcLabel(fr[n-1]))
		return a
	}
	none := func(int) int { return -1 }
	return []aspect{
		{label: "tools{}"},
		run("n", 7, none),                              // seven fragments without an index
		run("m", 7, none),                              // seven more
		run("i", 7, func(k int) int { return k }),      // indexes 0..6 ascending
		run("j", 7, func(k int) int { return 12 - k }), // indexes 12..6 descending (6 is shared with the run above)
		run("x", 7, func(k int) int { // alternating: without an index / indexes 20, 19, 18
			if k%2 == 0 {
				return -1
			}
			return 20 - k/2
		}),
		toolAspect(tc(-1, "", "", "", "s,")),
	}
}

func usage(p, c, t int) *schema.TokenUsage {
	return &schema.TokenUsage{PromptTokens: p, CompletionTokens: c, TotalTokens: t}
}

func metaAspects(full bool) []aspect {
	meta := func(label string, mk func() *schema.ResponseMeta) aspect {
		return aspect{label: "meta{" + label + "}", apply: func(m *schema.Message) { m.ResponseMeta = mk() }}
	}
	if !full {
		return []aspect{
			{label: "meta=nil"},
			meta("finish=stop usage=1/2/3", func() *schema.ResponseMeta { return &schema.ResponseMeta{FinishReason: "stop", Usage: usage(1, 2, 3)} }),
			meta("usage=3/1/2", func() *schema.ResponseMeta { return &schema.ResponseMeta{Usage: usage(3, 1, 2)} }),
		}
	}
	lp := func(tok string) *schema.LogProbs {
		return &schema.LogProbs{Content: []schema.LogProb{{Token: tok, LogProb: -1}}}
	}
	return []aspect{
		{label: "meta=nil"},
		meta("", func() *schema.ResponseMeta { return &schema.ResponseMeta{} }),
		meta("finish=stop", func() *schema.ResponseMeta { return &schema.ResponseMeta{FinishReason: "stop"} }),
		meta("finish=length", func() *schema.ResponseMeta { return &schema.ResponseMeta{FinishReason: "length"} }),
		meta("usage=1/2/3", func() *schema.ResponseMeta { return &schema.ResponseMeta{Usage: usage(1, 2, 3)} }),
		meta("usage=3/1/2", func() *schema.ResponseMeta { return &schema.ResponseMeta{Usage: usage(3, 1, 2)} }),
		meta("usage=0/0/0", func() *schema.ResponseMeta { return &schema.ResponseMeta{Usage: usage(0, 0, 0)} }),
		meta("finish=stop usage=2/2/2", func() *schema.ResponseMeta { return &schema.ResponseMeta{FinishReason: "stop", Usage: usage(2, 2, 2)} }),
		meta("logprobs=p", func() *schema.ResponseMeta { return &schema.ResponseMeta{LogProbs: lp("p")} }),
		meta("logprobs=q", func() *schema.ResponseMeta { return &schema.ResponseMeta{LogProbs: lp("q")} }),
		meta("logprobs=empty", func() *schema.ResponseMeta { return &schema.ResponseMeta{LogProbs: &schema.LogProbs{}} }),
		{label: "multi=[p]", apply: func(m *schema.Message) {
			m.MultiContent = []schema.ChatMessagePart{{Type: schema.ChatMessagePartTypeText, Text: "p"}}
		}},
		{label: "multi=[q]", apply: func(m *schema.Message) {
			m.MultiContent = []schema.ChatMessagePart{{Type: schema.ChatMessagePartTypeText, Text: "q"}}
		}},
	}
}

const featNilInExtra = "nil-value-in-message-extra"
const featNilInMap = "nil-value-in-map-chunk"

// extraValues: label -> fresh map; shared by the Message.Extra aspect and by the map chunk family.
type extraVal struct {
	label  string
	hasNil bool
	mk     func() map[string]any
}

func extraValues(full bool) []extraVal {
	ev := func(label string, mk func() map[string]any) extraVal { return extraVal{label: label, mk: mk} }
	nilv := func(label string, mk func() map[string]any) extraVal {
		return extraVal{label: label, hasNil: true, mk: mk}
	}
	if !full {
		return []extraVal{
			ev(`{s:"a"}`, func() map[string]any { return map[string]any{"s": "a"} }),
			nilv(`{n:nil}`, func() map[string]any { return map[string]any{"n": nil} }),
			ev(`{m:map{a:"s"}}`, func() map[string]any { return map[string]any{"m": map[string]any{"a": "s"}} }),
		}
	}
	return []extraVal{
		ev(`{}`, func() map[string]any { return map[string]any{} }),
		// strings under s (and an int under s: type conflict)
		ev(`{s:"a"}`, func() map[string]any { return map[string]any{"s": "a"} }),
		ev(`{s:"b"}`, func() map[string]any { return map[string]any{"s": "b"} }),
		ev(`{s:1}`, func() map[string]any { return map[string]any{"s": 1} }),
		// scalars
		ev(`{i:1}`, func() map[string]any { return map[string]any{"i": 1} }),
		ev(`{i:2}`, func() map[string]any { return map[string]any{"i": 2} }),
		ev(`{f:1.5}`, func() map[string]any { return map[string]any{"f": 1.5} }),
		ev(`{i:1 s:"a"}`, func() map[string]any { return map[string]any{"s": "a", "i": 1} }),
		// untyped nil
		nilv(`{n:nil}`, func() map[string]any { return map[string]any{"n": nil} }),
		// nested maps under m
		ev(`{m:map{a:"s"}}`, func() map[string]any { return map[string]any{"m": map[string]any{"a": "s"}} }),
		ev(`{m:map{a:"t" b:1}}`, func() map[string]any { return map[string]any{"m": map[string]any{"a": "t", "b": 1}} }),
		ev(`{m:map{}}`, func() map[string]any { return map[string]any{"m": map[string]any{}} }),
		nilv(`{m:map{a:nil}}`, func() map[string]any { return map[string]any{"m": map[string]any{"a": nil}} }),
		ev(`{m:map[string]string{a:"s"}}`, func() map[string]any { return map[string]any{"m": map[string]string{"a": "s"}} }),
		// unregistered struct / pointer
		ev(`{u:Unreg{1}}`, func() map[string]any { return map[string]any{"u": C14Unreg{A: 1}} }),
		ev(`{u:Unreg{0}}`, func() map[string]any { return map[string]any{"u": C14Unreg{}} }),
		ev(`{u:Unreg{2}}`, func() map[string]any { return map[string]any{"u": C14Unreg{A: 2}} }),
		ev(`{p:(*Unreg)(nil)}`, func() map[string]any { return map[string]any{"p": (*C14Unreg)(nil)} }),
		ev(`{p:&Unreg{1}}`, func() map[string]any { return map[string]any{"p": &C14Unreg{A: 1}} }),
		// messages, message lists, registered type, slices
		ev(`{g:&Message{B}}`, func() map[string]any { return map[string]any{"g": listMsg("B")} }),
		ev(`{g:(*Message)(nil)}`, func() map[string]any { return map[string]any{"g": (*schema.Message)(nil)} }),
		ev(`{l:[]*Message{A}}`, func() map[string]any { return map[string]any{"l": []*schema.Message{listMsg("A")}} }),
		ev(`{l:[]*Message{A B}}`, func() map[string]any {
			return map[string]any{"l": []*schema.Message{listMsg("A"), listMsg("B")}}
		}),
		ev(`{r:Reg{p 1}}`, func() map[string]any { return map[string]any{"r": C14Reg{S: "p", N: 1}} }),
		ev(`{r:Reg{q 2}}`, func() map[string]any { return map[string]any{"r": C14Reg{S: "q", N: 2}} }),
		ev(`{t:[]string{a}}`, func() map[string]any { return map[string]any{"t": []string{"a"}} }),
	}
}

func extraAspects(full bool) []aspect {
	out := []aspect{{label: "extra=nil"}}
	for _, e := range extraValues(full) {
		e := e
		a := aspect{label: "extra" + e.label, apply: func(m *schema.Message) { m.Extra = e.mk() }}
		if e.hasNil {
			a.feats = []string{featNilInExtra}
		}
		out = append(out, a)
	}
	return out
}

// msgFamily builds the family whose alphabet is the product of the given aspect lists (+ the nil message).
func msgFamily(name string, withNil bool, maxQuick, maxThor int, aspects ...[]aspect) *fam[*schema.Message] {
	f := &fam[*schema.Message]{name: name, entries: sharedMsgEntries(), model: msgModel, maxQuick: maxQuick, maxThor: maxThor}
	var rec func(i int, chosen []aspect)
	rec = func(i int, chosen []aspect) {
		if i == len(aspects) {
			cs := append([]aspect(nil), chosen...)
			var ls, feats []string
			for _, a := range cs {
				ls = append(ls, a.label)
				feats = append(feats, a.feats...)
			}
			f.syms = append(f.syms, sym[*schema.Message]{label: "msg{" + strings.Join(ls, " ") + "}", feats: feats, mk: func() *schema.Message {
				m := &schema.Message{}
				for _, a := range cs {
					if a.apply != nil {
						a.apply(m)
					}
				}
				return m
			}})
			return
		}
		for _, a := range aspects[i] {
			rec(i+1, append(chosen, a))
		}
	}
	rec(0, nil)
	if withNil {
		f.syms = append(f.syms, sym[*schema.Message]{label: "nil-msg", absent: true, mk: func() *schema.Message { return nil }})
	}
	return f
}

var msgEntriesOnce []entry[*schema.Message]

func sharedMsgEntries() []entry[*schema.Message] {
	if msgEntriesOnce == nil {
		msgEntriesOnce = msgEntries()
	}
	return msgEntriesOnce
}

// listMsg: the three messages used inside message lists / maps.
func listMsg(which string) *schema.Message {
	switch which {
	case "A":
		return &schema.Message{Role: schema.Assistant, Content: "x", ToolCalls: []schema.ToolCall{tc(0, "i", "", "", "a")}}
	case "B":
		return &schema.Message{Content: "y", ToolCalls: []schema.ToolCall{tc(0, "", "", "", "b")}}
	case "U":
		return &schema.Message{Role: schema.User, Content: "z"}
	case "N":
		return &schema.Message{Content: "w", Extra: map[string]any{"n": nil}}
	}
	return nil
}

func listFamily() *fam[[]*schema.Message] {
	f := &fam[[]*schema.Message]{name: "msglist", entries: genericEntries[[]*schema.Message](), model: listModel, maxQuick: 3, maxThor: 4}
	add := func(label string, absent bool, feats []string, names ...string) {
		f.syms = append(f.syms, sym[[]*schema.Message]{label: label, absent: absent, feats: feats, mk: func() []*schema.Message {
			if absent {
				return nil
			}
			out := make([]*schema.Message, len(names))
			for i, n := range names {
				out[i] = listMsg(n)
			}
			return out
		}})
	}
	add("list(nil)", true, nil)
	add("list[]", false, nil)
	add("list[nil]", false, nil, "-")
	add("list[A]", false, nil, "A")
	add("list[B]", false, nil, "B")
	add("list[U]", false, nil, "U")
	add("list[N]", false, []string{featNilInExtra}, "N")
	add("list[nil nil]", false, nil, "-", "-")
	add("list[nil A]", false, nil, "-", "A")
	add("list[A nil]", false, nil, "A", "-")
	add("list[A B]", false, nil, "A", "B")
	add("list[B A]", false, nil, "B", "A")
	add("list[B B]", false, nil, "B", "B")
	add("list[U B]", false, nil, "U", "B")
	return f
}

func mapFamily() *fam[map[string]any] {
	f := &fam[map[string]any]{name: "map", entries: genericEntries[map[string]any](), model: mapModel, maxQuick: 3, maxThor: 4}
	f.syms = append(f.syms, sym[map[string]any]{label: "map(nil)", absent: true, mk: func() map[string]any { return nil }})
	for _, e := range extraValues(true) {
		e := e
		s := sym[map[string]any]{label: "map" + e.label, mk: e.mk}
		if e.hasNil {
			s.feats = []string{featNilInMap}
		}
		f.syms = append(f.syms, s)
	}
	f.syms = append(f.syms,
		sym[map[string]any]{label: "map{g:&Message{A}}", mk: func() map[string]any { return map[string]any{"g": listMsg("A")} }},
		sym[map[string]any]{label: "map{g:&Message{N}}", feats: []string{featNilInExtra}, mk: func() map[string]any { return map[string]any{"g": listMsg("N")} }},
	)
	return f
}

func simpleFamily[T any](name string, model func([]T, T) []failure, maxQuick, maxThor int, absent func(T) bool, vals ...func() T) *fam[T] {
	f := &fam[T]{name: name, entries: genericEntries[T](), model: model, maxQuick: maxQuick, maxThor: maxThor}
	for _, mk := range vals {
		v := mk()
		s := sym[T]{label: shortLabel(render(v)), mk: mk, absent: absent != nil && absent(v)}
		if s.absent && !strings.HasPrefix(s.label, "nil") {
			s.label = "nil(" + s.label + ")"
		}
		f.syms = append(f.syms, s)
	}
	return f
}

// shortLabel abbreviates the canonical rendering of a chunk for use in case names (the three list messages
// A, B, U are spelled out in listMsg).
func shortLabel(s string) string {
	for _, n := range []string{"A", "B", "U"} {
		s = strings.ReplaceAll(s, render(listMsg(n)), "&Message{"+n+"}")
	}
	s = strings.ReplaceAll(s, "map[string]*Message", "map")
	s = strings.ReplaceAll(s, "map[string]string", "map")
	return s
}

func val[T any](v T) func() T { return func() T { return v } }

// families lists every family in the order in which they are enumerated (simplest first inside a length).
func families() []family {
	nilPtr := func(p *C14Unreg) bool { return p == nil }
	nilReg := func(p *C14RegPtr) bool { return p == nil }
	fs := []family{
		simpleFamily[string]("string", strModel, 4, 5, nil, val(""), val("x"), val("y"), val("é")),
		msgFamily("msg-base", true, 4, 5, baseAspects(true)),
		msgFamily("msg-ids", false, 4, 5, idAspects(true)),
		msgFamily("msg-meta", false, 3, 4, metaAspects(true)),
		msgFamily("msg-extra", false, 3, 4, extraAspects(true)),
		msgFamily("msg-tools", false, 3, 4, toolAspects(true)),
		msgFamily("msg-manytools", false, 3, 4, manyToolAspects()),
		// LONG streams: one-symbol alphabets, so that "all sequences up to length n" is one sequence per length and n can
		// be large (a model streams hundreds of chunks; buffering / folding code has size thresholds): every length up
		// to 140 (thorough 300), every split point of each
		simpleFamily[string]("string-long", strModel, 140, 300, nil, val("ab")),
		msgFamily("msg-long", false, 140, 300, []aspect{func() aspect {
			a := toolAspect(tc(0, "", "", "", "a,"))
			a.label = `role="" content="x" tools{#0 args=a,}`
			inner := a.apply
			a.apply = func(m *schema.Message) { inner(m); m.Content = "x" }
			return a
		}()}),
	}
	// pairwise mixes of reduced aspects (+ the nil message)
	red := []struct {
		n string
		a []aspect
	}{{"base", baseAspects(false)}, {"ids", idAspects(false)}, {"tools", toolAspects(false)}, {"meta", metaAspects(false)}, {"extra", extraAspects(false)}}
	for i := 0; i < len(red); i++ {
		for j := i + 1; j < len(red); j++ {
			fs = append(fs, msgFamily("msg-mix-"+red[i].n+"+"+red[j].n, true, 3, 4, red[i].a, red[j].a))
		}
	}
	// all five reduced aspects at once: pairs of chunks only (thorough tier)
	fs = append(fs, msgFamily("msg-mix-all", false, 0, 2, red[0].a, red[1].a, red[2].a, red[3].a, red[4].a))
	strMap := func(kv ...string) func() map[string]string {
		return func() map[string]string {
			m := map[string]string{}
			for i := 0; i+1 < len(kv); i += 2 {
				m[kv[i]] = kv[i+1]
			}
			return m
		}
	}
	msgMap := func(kv ...string) func() map[string]*schema.Message {
		return func() map[string]*schema.Message {
			m := map[string]*schema.Message{}
			for i := 0; i+1 < len(kv); i += 2 {
				m[kv[i]] = listMsg(kv[i+1])
			}
			return m
		}
	}
	fs = append(fs,
		listFamily(),
		mapFamily(),
		simpleFamily[map[string]string]("map-of-string", mapStrModel, 3, 4, func(m map[string]string) bool { return m == nil },
			func() map[string]string { return nil }, strMap(), strMap("a", "x"), strMap("a", "y"), strMap("a", ""), strMap("b", "x"), strMap("a", "x", "b", "y")),
		simpleFamily[map[string]*schema.Message]("map-of-message", nil, 3, 4, func(m map[string]*schema.Message) bool { return m == nil },
			func() map[string]*schema.Message { return nil }, msgMap(), msgMap("a", "A"), msgMap("a", "B"), msgMap("a", "-"), msgMap("a", "U"), msgMap("b", "B"), msgMap("a", "A", "b", "B")),
		simpleFamily[C14Reg]("registered", nil, 4, 5, nil, val(C14Reg{}), val(C14Reg{S: "p"}), val(C14Reg{S: "q", N: 1}), val(C14Reg{N: 2}), val(C14Reg{Bad: true})),
		simpleFamily[*C14RegPtr]("registered-ptr", nil, 4, 5, nilReg, val[*C14RegPtr](nil), func() *C14RegPtr { return &C14RegPtr{S: "p"} }, func() *C14RegPtr { return &C14RegPtr{S: "q"} }),
		simpleFamily[C14Unreg]("unregistered", nil, 4, 5, nil, val(C14Unreg{}), val(C14Unreg{A: 1}), val(C14Unreg{A: 2})),
		simpleFamily[*C14Unreg]("unregistered-ptr", nil, 4, 5, nilPtr, val[*C14Unreg](nil), func() *C14Unreg { return &C14Unreg{} }, func() *C14Unreg { return &C14Unreg{A: 1} }),
	)
	return fs
}
